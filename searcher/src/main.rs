//! Replay searcher / bounded stand-in (DESIGN.md 2.3 step 6).
//!
//! Linked against the REAL crate (path dependency on /repo/scnr, rebuilt from the working tree).  It enumerates small
//! cases (fixed pools of patterns, lookaheads, token-type numberings, mode graphs, inputs over {a,b,c,é,\n,x},
//! operation histories) and compares the public API with an executable twin of the specification functions that
//! is written against the *pattern language* (the `regex` crate decides "pattern p matches text t in full").
//! It is NOT what decides a property on the unchanged tree; it produces a concrete failing input once the verifier
//! refutes an obligation, and stands in (labelled bounded) when the verifier cannot ingest a changed function.
//!
//! usage: searcher <family> <seed> <budget_ms>        -> prints one JSON line  {"found":..,"tried":..,"case":..}
//!        searcher replay '<case json>'               -> exit 1 if the case still fails
use regex::Regex;
use scnr::{Lookahead, MatchExtIterator, Pattern, PeekResult, PositionProvider, ScannerBuilder, ScannerMode, ScannerModeSwitcher};
use serde::{Deserialize, Serialize};
use std::panic::{catch_unwind, AssertUnwindSafe};
use std::time::{Duration, Instant};

// ------------------------------------------------------------------------------------------------ cases
#[derive(Clone, Debug, Serialize, Deserialize, PartialEq)]
struct PatSpec {
    p: String,
    tt: usize,
    la: Option<(bool, String)>,
}
#[derive(Clone, Debug, Serialize, Deserialize, PartialEq)]
struct ModeSpec {
    name: String,
    pats: Vec<PatSpec>,
    trans: Vec<(usize, usize)>,
}
#[derive(Clone, Debug, Serialize, Deserialize, PartialEq)]
enum Op {
    Next,
    Peek(usize),
    SetOffset(usize),
    AdvanceToPeekEnd(usize), // peek_n(k), then advance_to(end of the last peeked match)
    SetMode(usize),
    Position(usize),
    NewIterOther(String), // create, partially consume and drop another iterator of the same scanner on this input
    ScannerSetMode(usize), // (only before the iterator is created) set_mode on the Scanner
}
#[derive(Clone, Debug, Serialize, Deserialize, PartialEq)]
struct Case {
    family: String,
    modes: Vec<ModeSpec>,
    input: String,
    start_offset: usize,
    ops: Vec<Op>,
    with_positions: bool,
}

// ------------------------------------------------------------------------------------------------ reference model
struct RefPat {
    full: Regex,
    tt: usize,
    la: Option<(bool, Regex)>,
}
struct RefMode {
    pats: Vec<RefPat>,
    trans: Vec<(usize, usize)>,
}
struct RefScanner {
    modes: Vec<RefMode>,
}
fn full(p: &str) -> Regex {
    Regex::new(&format!("^(?:{})$", p)).unwrap()
}
impl RefScanner {
    fn new(modes: &[ModeSpec]) -> Self {
        RefScanner {
            modes: modes
                .iter()
                .map(|m| RefMode {
                    pats: m.pats.iter().map(|p| RefPat { full: full(&p.p), tt: p.tt, la: p.la.as_ref().map(|(b, l)| (*b, full(l))) }).collect(),
                    trans: m.trans.clone(),
                })
                .collect(),
        }
    }
    /// all best candidates at byte position `pos` (a char boundary): (token type, end)
    fn best_at(&self, mode: usize, input: &str, pos: usize) -> Vec<(usize, usize)> {
        let rest = &input[pos..];
        let bounds: Vec<usize> = rest.char_indices().map(|(i, c)| i + c.len_utf8()).collect();
        // (extent, prio, tt, end)
        let mut cands: Vec<(usize, usize, usize, usize)> = vec![];
        for (prio, p) in self.modes[mode].pats.iter().enumerate() {
            for &l in &bounds {
                if !p.full.is_match(&rest[..l]) {
                    continue;
                }
                let after = &rest[l..];
                let mut la_len = 0usize;
                if let Some((positive, la)) = &p.la {
                    let mut longest = None;
                    for (i, c) in after.char_indices() {
                        let e = i + c.len_utf8();
                        if la.is_match(&after[..e]) {
                            longest = Some(e);
                        }
                    }
                    if *positive != longest.is_some() {
                        continue;
                    }
                    if *positive {
                        la_len = longest.unwrap();
                    }
                }
                cands.push((l + la_len, prio, p.tt, pos + l));
            }
        }
        if cands.is_empty() {
            return vec![];
        }
        let max_ext = cands.iter().map(|c| c.0).max().unwrap();
        let best: Vec<_> = cands.into_iter().filter(|c| c.0 == max_ext).collect();
        let min_prio = best.iter().map(|c| c.1).min().unwrap();
        // known finding D10: the code resolves ties by the first position of the TOKEN TYPE in the mode, not of the pattern. Where the two rules differ (a pattern shares its
        // token type with an earlier, non-adjacent one) the outcome of either rule is accepted, so that D10 is not reported again; anything else still is
        let first_pos = |tt: usize| self.modes[mode].pats.iter().position(|p| p.tt == tt).unwrap();
        let min_prio_tt = best.iter().map(|c| first_pos(c.2)).min().unwrap();
        // several lengths of the SAME pattern with the same extent are all acceptable (C05 leaves it open)
        let mut out: Vec<(usize, usize)> = best.iter().filter(|c| c.1 == min_prio).map(|c| (c.2, c.3)).collect();
        for c in best.iter().filter(|c| first_pos(c.2) == min_prio_tt) { if !out.contains(&(c.2, c.3)) { out.push((c.2, c.3)); } }
        out
    }
    /// next token from byte position pos: (acceptable (tt, start, end) alternatives) or None
    fn next_from(&self, mode: usize, input: &str, pos: usize) -> Option<Vec<(usize, usize, usize)>> {
        let mut p = pos;
        while p < input.len() {
            let b = self.best_at(mode, input, p);
            if !b.is_empty() {
                return Some(b.into_iter().map(|(tt, e)| (tt, p, e)).collect());
            }
            p += input[p..].chars().next().unwrap().len_utf8();
        }
        None
    }
    fn transition(&self, mode: usize, tt: usize) -> Option<usize> {
        self.modes[mode].trans.iter().find(|(t, _)| *t == tt).map(|(_, m)| *m)
    }
}
fn line_col(input: &str, o: usize) -> (usize, usize) {
    let before = &input[..o];
    let line = 1 + before.matches('\n').count();
    let ls = before.rfind('\n').map(|i| i + 1).unwrap_or(0);
    (line, o - ls + 1)
}
/// acceptable positions of offset o: exact, and for an offset right after a line break also the same-line alternative
fn pos_ok(input: &str, o: usize, got: (usize, usize), allow_alt: bool) -> bool {
    if got == line_col(input, o) {
        return true;
    }
    if allow_alt && o > 0 && input.as_bytes()[o - 1] == b'\n' {
        let (l, c) = line_col(input, o - 1);
        return got == (l, c + 1);
    }
    false
}

// ------------------------------------------------------------------------------------------------ running a case against the real crate
fn build(modes: &[ModeSpec]) -> Result<scnr::Scanner, String> {
    let ms: Vec<ScannerMode> = modes
        .iter()
        .map(|m| {
            let pats: Vec<Pattern> = m
                .pats
                .iter()
                .map(|p| {
                    let mut x = Pattern::new(p.p.clone(), p.tt);
                    if let Some((b, l)) = &p.la {
                        x = x.with_lookahead(Lookahead::new(*b, l.clone()));
                    }
                    x
                })
                .collect();
            ScannerMode::new(&m.name, pats, m.trans.clone())
        })
        .collect();
    // both ways of handing the modes to the builder are used (chosen by the shape of the configuration, so that a replay takes the same one)
    let total: usize = modes.iter().map(|m| m.pats.len() + m.trans.len()).sum();
    if total % 2 == 0 {
        ScannerBuilder::new().add_scanner_modes(&ms).build_uncached().map_err(|e| format!("{e}"))
    } else {
        let mut b = ScannerBuilder::new();
        for m in ms { b = b.add_scanner_mode(m); }
        b.build_uncached().map_err(|e| format!("{e}"))
    }
}

/// returns Err(description) when the real crate disagrees with the reference
fn run_case(c: &Case) -> Result<(), String> {
    let r = catch_unwind(AssertUnwindSafe(|| run_case_inner(c)));
    match r {
        Ok(x) => x,
        Err(_) => Err("PANIC while building or scanning".to_string()),
    }
}

fn run_case_inner(c: &Case) -> Result<(), String> {
    let reference = RefScanner::new(&c.modes);
    // the simple builder (token type = pattern index) is used whenever the case has that shape
    let simple = c.family == "stream" && c.modes.len() == 1 && c.modes[0].trans.is_empty()
        && c.modes[0].pats.iter().enumerate().all(|(i, p)| p.tt == i && p.la.is_none());
    let mut scanner = if simple {
        ScannerBuilder::new().add_patterns(c.modes[0].pats.iter().map(|p| p.p.clone()).collect::<Vec<_>>()).build().map_err(|e| format!("build failed: {e}"))?
    } else {
        build(&c.modes).map_err(|e| format!("build failed: {e}"))?
    };
    // C02, "the empty string is never accepted": in the dump of the compiled automata (mode automata and lookahead automata alike) the
    // end-state entry of state 0 is never an accepting one
    let dump = format!("{:?}", scanner);
    let mut from = 0;
    while let Some(i) = dump[from..].find("end_states: [") {
        let at = from + i + "end_states: [".len();
        if dump[at..].starts_with("(true") {
            return Err("dump of the compiled automata: the start state of an automaton is marked accepting (the empty string would be accepted)".into());
        }
        from = at;
    }
    let input = c.input.as_str();
    // operations on the Scanner before the iterator exists must not matter
    for op in &c.ops {
        if let Op::ScannerSetMode(m) = op {
            scanner.set_mode(*m);
        }
    }
    let mut it = scanner.find_iter(input);
    if c.start_offset > 0 {
        it = it.with_offset(c.start_offset);
    }
    // reference state
    let mut pos = c.start_offset.min(input.len());
    let mut mode = 0usize;
    let mut scanned = if c.start_offset == 0 { 0 } else { usize::MAX }; // frontier of contiguously scanned text; MAX = unknown
    let mut steps = 0usize;
    if it.current_mode() != 0 {
        return Err(format!("new iterator starts in mode {}", it.current_mode()));
    }
    let mut last_end = 0usize;
    let mut first = true;
    for op in &c.ops {
        match op {
            Op::ScannerSetMode(_) => {}
            Op::NewIterOther(other) => {
                let mut o = scanner.find_iter(other.as_str());
                let _ = o.next();
                let _ = o.peek_n(2);
                drop(o);
            }
            Op::SetMode(m) => {
                it.set_mode(*m);
                mode = *m;
            }
            Op::SetOffset(o) => {
                it.set_offset(*o);
                pos = (*o).min(input.len());
                first = true;
            }
            Op::Position(o) => {
                if *o <= scanned.min(input.len()) && scanned != usize::MAX {
                    let p = it.position(*o);
                    if !pos_ok(input, *o, (p.line, p.column), *o == scanned) {
                        return Err(format!("position({}) = {:?}, expected {:?}", o, (p.line, p.column), line_col(input, *o)));
                    }
                }
            }
            Op::Peek(n) | Op::AdvanceToPeekEnd(n) => {
                let got = it.peek_n(*n);
                // expected
                let mut exp: Vec<Vec<(usize, usize, usize)>> = vec![];
                let mut p = pos;
                let mut switch = None;
                let mut ended = false;
                for _ in 0..*n {
                    match reference.next_from(mode, input, p) {
                        None => {
                            ended = true;
                            break;
                        }
                        Some(alts) => {
                            // follow the alternative the implementation chose, if it is acceptable
                            exp.push(alts.clone());
                            let chosen = match &got {
                                PeekResult::Matches(v) | PeekResult::MatchesReachedEnd(v) => v.get(exp.len() - 1).copied(),
                                PeekResult::MatchesReachedModeSwitch((v, _)) => v.get(exp.len() - 1).copied(),
                                PeekResult::NotFound => None,
                            };
                            let pick = chosen.map(|m| (m.token_type(), m.start(), m.end())).filter(|t| alts.contains(t)).unwrap_or(alts[0]);
                            p = pick.2;
                            if let Some(m2) = reference.transition(mode, pick.0) {
                                switch = Some(m2);
                                break;
                            }
                        }
                    }
                }
                let (gv, kind): (Vec<scnr::Match>, &str) = match &got {
                    PeekResult::Matches(v) => (v.clone(), "Matches"),
                    PeekResult::MatchesReachedEnd(v) => (v.clone(), "MatchesReachedEnd"),
                    PeekResult::MatchesReachedModeSwitch((v, _)) => (v.clone(), "MatchesReachedModeSwitch"),
                    PeekResult::NotFound => (vec![], "NotFound"),
                };
                let exp_kind = if switch.is_some() {
                    "MatchesReachedModeSwitch"
                } else if exp.len() == *n {
                    "Matches"
                } else if exp.is_empty() {
                    "NotFound"
                } else {
                    "MatchesReachedEnd"
                };
                let _ = ended;
                if kind != exp_kind || gv.len() != exp.len() {
                    return Err(format!("peek_n({}) = {:?}, expected {} with {} matches {:?}", n, got, exp_kind, exp.len(), exp));
                }
                for (g, alts) in gv.iter().zip(exp.iter()) {
                    if !alts.contains(&(g.token_type(), g.start(), g.end())) {
                        return Err(format!("peek_n({}) = {:?}, expected one of {:?}", n, got, alts));
                    }
                }
                if let (PeekResult::MatchesReachedModeSwitch((_, m)), Some(m2)) = (&got, switch) {
                    if *m != m2 {
                        return Err(format!("peek_n reports target mode {}, expected {}", m, m2));
                    }
                }
                if it.current_mode() != mode {
                    return Err(format!("peek_n changed the mode to {}", it.current_mode()));
                }
                if let Op::AdvanceToPeekEnd(_) = op {
                    if let Some(last) = gv.last() {
                        it.advance_to(last.end());
                        pos = last.end();
                        if scanned != usize::MAX { /* frontier unchanged semantics: advance_to records lines */ scanned = scanned.max(pos); }
                        first = true;
                    }
                }
            }
            Op::Next => {
                steps += 1;
                let exp = reference.next_from(mode, input, pos);
                let got = it.next();
                match (&got, &exp) {
                    (None, None) => {
                        pos = input.len();
                        if scanned != usize::MAX { scanned = input.len(); }
                    }
                    (Some(g), Some(alts)) => {
                        let t = (g.token_type(), g.start(), g.end());
                        if !alts.contains(&t) {
                            return Err(format!("next() = {:?}, expected one of {:?} (mode {}, pos {})", t, alts, mode, pos));
                        }
                        // well-formedness (C07)
                        if !(t.1 < t.2 && t.2 <= input.len() && input.is_char_boundary(t.1) && input.is_char_boundary(t.2)) {
                            return Err(format!("ill-formed span {:?}", t));
                        }
                        if !first && t.1 < last_end {
                            return Err(format!("span {:?} starts before the end {} of the previous one", t, last_end));
                        }
                        first = false;
                        last_end = t.2;
                        if scanned != usize::MAX && pos <= scanned { scanned = scanned.max(t.2); }
                        pos = t.2;
                        if let Some(m2) = reference.transition(mode, t.0) {
                            mode = m2;
                        }
                    }
                    _ => return Err(format!("next() = {:?}, expected {:?} (mode {}, pos {})", got.map(|g| (g.token_type(), g.start(), g.end())), exp, mode, pos)),
                }
                if it.current_mode() != mode {
                    return Err(format!("current_mode() = {} after next(), expected {}", it.current_mode(), mode));
                }
                if steps > input.chars().count() + 4 + c.ops.len() {
                    return Err("no progress".into());
                }
            }
        }
    }
    Ok(())
}

/// with_positions: scan everything (optionally with resets to earlier offsets) and check start/end positions
fn run_positions_case(c: &Case) -> Result<(), String> {
    let r = catch_unwind(AssertUnwindSafe(|| {
        let scanner = build(&c.modes).map_err(|e| format!("build failed: {e}"))?;
        let input = c.input.as_str();
        let mut it = scanner.find_iter(input).with_positions();
        let mut frontier = 0usize; // everything before it was scanned contiguously from 0
        let mut cur = 0usize;
        let mut guard = 0;
        let mut ops = c.ops.iter();
        loop {
            guard += 1;
            if guard > 200 {
                return Err("no progress".to_string());
            }
            match ops.next() {
                None => break,
                Some(Op::SetOffset(o)) => {
                    if *o <= frontier {
                        it.set_offset(*o);
                        cur = *o;
                    }
                }
                Some(Op::SetMode(m)) => {
                    if *m < c.modes.len() { it.set_mode(*m); }
                }
                Some(Op::Position(o)) => {
                    if *o <= frontier {
                        let p = it.position(*o);
                        if !pos_ok(input, *o, (p.line, p.column), *o == frontier) {
                            return Err(format!("position({}) = {:?}, expected {:?}", o, (p.line, p.column), line_col(input, *o)));
                        }
                    }
                }
                Some(_) => match it.next() {
                    None => {
                        if cur <= frontier {
                            frontier = input.len();
                        }
                        cur = input.len();
                    }
                    Some(m) => {
                        let sp = (m.start_position().line, m.start_position().column);
                        let ep = (m.end_position().line, m.end_position().column);
                        if cur <= frontier {
                            frontier = frontier.max(m.end());
                        }
                        cur = m.end();
                        if m.end() <= frontier {
                            if !pos_ok(input, m.start(), sp, false) {
                                return Err(format!("token {}..{}: start position {:?}, expected {:?}", m.start(), m.end(), sp, line_col(input, m.start())));
                            }
                            if !pos_ok(input, m.end(), ep, true) {
                                return Err(format!("token {}..{}: end position {:?}, expected {:?} (or same-line alternative)", m.start(), m.end(), ep, line_col(input, m.end())));
                            }
                        }
                    }
                },
            }
        }
        Ok(())
    }));
    match r {
        Ok(x) => x,
        Err(_) => Err("PANIC".into()),
    }
}

/// cache transparency (C13): `modes` is the base configuration; ops encode a sequence of builds through the global
/// cache of near-identical variants; every scanner obtained through build() must behave like build_uncached()
fn variant(base: &[ModeSpec], v: usize) -> Option<Vec<ModeSpec>> {
    let mut m = base.to_vec();
    match v {
        0 => {}
        1 => m[0].pats[0].tt += 7,
        2 => {
            if m[0].pats.len() < 2 { return None; }
            m[0].pats.swap(0, 1)
        }
        3 => m[0].pats[0].la = match &m[0].pats[0].la { None => Some((true, "b".into())), Some(_) => None },
        4 => m[0].pats[0].la = match &m[0].pats[0].la { None => Some((false, "b".into())), Some((p, l)) => Some((!*p, l.clone())) },
        5 => m[0].name.push('x'),
        6 => {
            let tt = m[0].pats[0].tt;
            if m[0].trans.iter().any(|t| t.0 == tt) { m[0].trans.retain(|t| t.0 != tt) } else { let last = m.len() - 1; m[0].trans.push((tt, last)); m[0].trans.sort(); }
        }
        7 => m[0].pats[0].p = "(".into(), // does not build
        8 => { m[0].pats.pop(); if m[0].pats.is_empty() { return None; } }
        9 => {
            // a configuration with the same 64-bit FxHash as variant 0 (rustc-hash 2.x: h = (h + word) * K per word; the token types of two consecutive
            // patterns are four words apart when the first has no lookahead: (a, b) and (a + 1, b - K^4) collide): a cache keyed by the hash alone confuses them
            const K4: usize = 0xf53a_8bbc_e8b6_ed71;
            if m[0].pats.len() < 2 || m[0].pats[0].la.is_some() || usize::BITS != 64 { return None; }
            let tt0 = m[0].pats[0].tt;
            if m[0].trans.iter().any(|t| t.0 == tt0 || t.0 == tt0 + 1) { return None; }
            m[0].pats[0].tt = tt0 + 1;
            m[0].pats[1].tt = m[0].pats[1].tt.wrapping_sub(K4);
        }
        10 => m[0].pats.push(PatSpec { p: ["a", "b", "c", "é"][base[0].pats.len() % 4].into(), tt: 95, la: None }), // the base list is a proper prefix of this one
        11 => { m.truncate(1); m[0].trans.clear(); } // a single mode without transitions
        12 => { m.truncate(1); m[0].trans.clear(); m[0].name = "INITIAL".into(); }
        13 => m[0].pats[0].p = "\\p{Greek}".into(), // registers a class and then fails to build (unknown Unicode class): must not affect later builds
        14 => { m[0].pats[0].p = "\\p{Greek}".into(); let l = m[0].pats.len() - 1; m[0].pats[l].p = "(".into(); }
        15 => {
            // the border between two adjacent texts of the key moved by one character (`ab`,`q1` -> `a`,`bq1`; `x(?=bc)`,`q1` -> `x(?=b)`,`cq1`): a key that
            // concatenates or streams the texts without separators / lengths confuses the two configurations
            let n = m[0].pats.len();
            if n < 2 { return None; }
            let plain = |t: &str| t.len() >= 2 && t.chars().all(|ch| ch.is_ascii_alphanumeric());
            let left = match &m[0].pats[n - 2].la { Some((_, l)) => l.clone(), None => m[0].pats[n - 2].p.clone() };
            if !plain(&left) || !m[0].pats[n - 1].p.chars().all(|ch| ch.is_ascii_alphanumeric()) { return None; }
            let (head, last) = left.split_at(left.len() - 1);
            match &mut m[0].pats[n - 2].la { Some((_, l)) => *l = head.to_string(), None => m[0].pats[n - 2].p = head.to_string() }
            m[0].pats[n - 1].p = format!("{}{}", last, m[0].pats[n - 1].p);
        }
        16 => {
            // flood: more distinct successful builds through the cache than any bounded cache would keep (1100), then the base configuration again
            for i in 0..1100 {
                let cfg = vec![ModeSpec { name: "F".into(), pats: vec![PatSpec { p: format!("f{}x{}", i, m[0].pats.last().map(|p| p.p.clone()).unwrap_or_default()), tt: i, la: None }], trans: vec![] }];
                let _ = ScannerBuilder::new().add_scanner_modes(&to_modes(&cfg)).build();
            }
        }
        _ => return None,
    }
    Some(m)
}
fn stream_of(sc: &scnr::Scanner, input: &str) -> Vec<(usize, usize, usize, usize)> {
    let mut it = sc.find_iter(input);
    let mut out = vec![];
    while let Some(m) = it.next() {
        out.push((m.token_type(), m.start(), m.end(), it.current_mode()));
        if out.len() > input.len() + 2 { break; }
    }
    out
}
fn to_modes(ms: &[ModeSpec]) -> Vec<ScannerMode> {
    ms.iter().map(|m| {
        let pats: Vec<Pattern> = m.pats.iter().map(|p| {
            let mut x = Pattern::new(p.p.clone(), p.tt);
            if let Some((b, l)) = &p.la { x = x.with_lookahead(Lookahead::new(*b, l.clone())); }
            x
        }).collect();
        ScannerMode::new(&m.name, pats, m.trans.clone())
    }).collect()
}
fn run_cache_case(c: &Case) -> Result<(), String> {
    let r = catch_unwind(AssertUnwindSafe(|| {
        // the input is followed by the plain texts of the base configuration, so that every literal pattern / lookahead is exercised
        let mut extra = String::new();
        for p in &c.modes[0].pats {
            if p.p.chars().all(|ch| ch.is_ascii_alphanumeric()) { extra.push_str(&p.p); }
            if let Some((_, l)) = &p.la { if l.chars().all(|ch| ch.is_ascii_alphanumeric()) { extra.push_str(l); } }
        }
        let c = &Case { input: format!("{}{}", c.input, extra), ..c.clone() };
        for op in &c.ops {
            let v = match op { Op::SetMode(v) => *v, _ => 0 };
            if v == 17 {
                // the two cached entry points against each other: a one-mode configuration named BODY with the patterns numbered 0..n through ScannerBuilder::build, then
                // the same pattern texts through add_patterns (SimpleScannerBuilder::build: one mode INITIAL, token type = index); each against its uncached twin
                let texts: Vec<String> = c.modes[0].pats.iter().map(|p| p.p.clone()).collect();
                let body = vec![ModeSpec { name: "BODY".into(), pats: texts.iter().enumerate().map(|(i, t)| PatSpec { p: t.clone(), tt: i, la: None }).collect(), trans: vec![] }];
                let mut initial = body.clone();
                initial[0].name = "INITIAL".into();
                let a = ScannerBuilder::new().add_scanner_modes(&to_modes(&body)).build();
                let b = ScannerBuilder::new().add_scanner_modes(&to_modes(&body)).build_uncached();
                let s1 = ScannerBuilder::new().add_patterns(texts.clone()).build();
                let s2 = ScannerBuilder::new().add_scanner_modes(&to_modes(&initial)).build_uncached();
                for (what, x, y) in [("ScannerBuilder::build of one mode BODY", a, b), ("add_patterns(..).build()", s1, s2)] {
                    match (x, y) {
                        (Err(_), Err(_)) => {}
                        (Ok(x), Ok(y)) => {
                            let (sx, sy) = (stream_of(&x, &c.input), stream_of(&y, &c.input));
                            if sx != sy { return Err(format!("variant 17, {}: cached scanner yields {:?}, the uncached one {:?}", what, sx, sy)); }
                            for i in 0..2 {
                                if x.mode_name(i) != y.mode_name(i) { return Err(format!("variant 17, {}: mode_name({}) = {:?} through the cache, {:?} without", what, i, x.mode_name(i), y.mode_name(i))); }
                            }
                        }
                        (x, y) => return Err(format!("variant 17, {}: cached is_ok={}, uncached is_ok={}", what, x.is_ok(), y.is_ok())),
                    }
                }
                continue;
            }
            let Some(cfg) = variant(&c.modes, v) else { continue };
            let ms = to_modes(&cfg);
            let cached = ScannerBuilder::new().add_scanner_modes(&ms).build();
            let plain = ScannerBuilder::new().add_scanner_modes(&ms).build_uncached();
            match (cached, plain) {
                (Err(_), Err(_)) => {}
                (Ok(a), Ok(b)) => {
                    let (sa, sb) = (stream_of(&a, &c.input), stream_of(&b, &c.input));
                    if sa != sb {
                        return Err(format!("variant {}: build() scanner yields {:?}, build_uncached() yields {:?}", v, sa, sb));
                    }
                    for i in 0..cfg.len() + 1 {
                        if a.mode_name(i) != b.mode_name(i) {
                            return Err(format!("variant {}: mode_name({}) = {:?} through the cache, {:?} without", v, i, a.mode_name(i), b.mode_name(i)));
                        }
                    }
                }
                (a, b) => return Err(format!("variant {}: build() is_ok={}, build_uncached() is_ok={}", v, a.is_ok(), b.is_ok())),
            }
        }
        Ok(())
    }));
    match r { Ok(x) => x, Err(_) => Err("PANIC".into()) }
}

/// character classes (C08): one bracketed class as the only pattern; membership of single chars vs the regex crate
fn run_class_case(c: &Case) -> Result<(), String> {
    let r = catch_unwind(AssertUnwindSafe(|| {
        let p = &c.modes[0].pats[0].p;
        // scnr documents the verbatim `.` inside a class as "neither \\n nor \\r"; the regex crate reads it as a literal dot
        let mut q = String::new();
        let mut esc = false;
        for ch in p.chars() {
            if !esc && ch == '.' { q.push_str("[^\\n\\r]"); } else { q.push(ch); }
            esc = !esc && ch == '\\';
        }
        let re = full(&q);
        let sc = build(&c.modes).map_err(|e| format!("build failed: {e}"))?;
        for ch in c.input.chars() {
            let s = ch.to_string();
            let got = sc.find_iter(&s).next().is_some();
            let exp = re.is_match(&s);
            if got != exp {
                return Err(format!("class {} on {:?}: scnr matches = {}, reference = {}", p, ch, got, exp));
            }
        }
        Ok(())
    }));
    match r { Ok(x) => x, Err(_) => Err("PANIC".into()) }
}

fn gen_class(r: &mut Rng, depth: usize) -> String {
    const ATOMS: &[&str] = &["a", "b", "c-e", "a-c", "x", "é", "0-9", "b-d", "\\n", "z", ".", "\\.", "a-z", "d", "3-5", "A-z", " -~"];
    let mut s = String::from("[");
    if r.below(3) == 0 { s.push('^'); }
    let n = 1 + r.below(3);
    for _ in 0..n {
        if depth > 0 && r.below(3) == 0 { s.push_str(&gen_class(r, depth - 1)); } else { s.push_str(*r.pick(ATOMS)); }
    }
    if depth > 0 && r.below(2) == 0 {
        s.push_str(*r.pick(&["&&", "--", "~~"]));
        if r.below(6) != 0 { s.push_str(&gen_class(r, depth - 1)); }
    }
    s.push(']');
    s
}

/// character classes with NAMED items (C08: "a named item contributes exactly the set it denotes when used alone"): the reference evaluates the
/// boolean combination itself and asks the crate only for the named item alone
#[derive(Debug, Clone)]
enum Cx { Lit(char), Range(char, char), Named(String), Br(bool, Vec<Cx>, Option<(String, Box<Cx>)>) }

fn parse_cx(cs: &[char], i: &mut usize) -> Cx {
    // cs[*i] == '['
    *i += 1;
    let neg = if cs[*i] == '^' { *i += 1; true } else { false };
    let mut items = vec![];
    let mut op = None;
    loop {
        let c = cs[*i];
        if c == ']' { *i += 1; break; }
        if c == '[' && cs[*i + 1] == ':' {
            let j = (*i..cs.len()).find(|k| cs[*k] == ']' ).unwrap();
            items.push(Cx::Named(cs[*i..=j].iter().collect()));
            *i = j + 1;
        } else if c == '[' {
            items.push(parse_cx(cs, i));
        } else if c == '\\' {
            let n = cs[*i + 1];
            if (n == 'p' || n == 'P') && cs[*i + 2] == '{' {
                let j = (*i..cs.len()).find(|k| cs[*k] == '}').unwrap();
                items.push(Cx::Named(cs[*i..=j].iter().collect()));
                *i = j + 1;
            } else if n == 'p' || n == 'P' {
                items.push(Cx::Named(cs[*i..*i + 3].iter().collect()));
                *i += 3;
            } else {
                items.push(Cx::Named(cs[*i..*i + 2].iter().collect()));
                *i += 2;
            }
        } else if (c == '&' || c == '-' || c == '~') && cs[*i + 1] == c {
            let o: String = cs[*i..*i + 2].iter().collect();
            *i += 2;
            let rhs = parse_cx(cs, i);
            op = Some((o, Box::new(rhs)));
        } else if cs[*i + 1] == '-' && cs[*i + 2] != ']' && cs[*i + 2] != '-' {
            items.push(Cx::Range(c, cs[*i + 2]));
            *i += 3;
        } else {
            items.push(Cx::Lit(c));
            *i += 1;
        }
    }
    Cx::Br(neg, items, op)
}

fn eval_cx(x: &Cx, ch: char, alone: &mut std::collections::HashMap<String, scnr::Scanner>) -> Result<bool, String> {
    Ok(match x {
        Cx::Lit(c) => *c == ch,
        Cx::Range(a, b) => *a <= ch && ch <= *b,
        Cx::Named(n) => {
            if !alone.contains_key(n) {
                let p = if n.starts_with('[') { format!("[{}]", n) } else { n.clone() };
                let sc = build(&[ModeSpec { name: "M0".into(), pats: vec![PatSpec { p, tt: 0, la: None }], trans: vec![] }]).map_err(|e| format!("build of {n} alone failed: {e}"))?;
                alone.insert(n.clone(), sc);
            }
            alone[n].find_iter(&ch.to_string()).next().is_some()
        }
        Cx::Br(neg, items, op) => {
            let mut v = false;
            for it in items { v = v || eval_cx(it, ch, alone)?; }
            if let Some((o, rhs)) = op {
                let w = eval_cx(rhs, ch, alone)?;
                v = match o.as_str() { "&&" => v && w, "--" => v && !w, _ => v != w };
            }
            v != *neg
        }
    })
}

fn run_named_class_case(c: &Case) -> Result<(), String> {
    let r = catch_unwind(AssertUnwindSafe(|| {
        let p = &c.modes[0].pats[0].p;
        let cs: Vec<char> = p.chars().collect();
        let mut i = 0;
        let x = parse_cx(&cs, &mut i);
        let sc = build(&c.modes).map_err(|e| format!("build failed: {e}"))?;
        let mut alone = std::collections::HashMap::new();
        for ch in c.input.chars() {
            let s = ch.to_string();
            let got = sc.find_iter(&s).next().is_some();
            let exp = eval_cx(&x, ch, &mut alone)?;
            if got != exp {
                return Err(format!("class {} on {:?}: scnr matches = {}, boolean combination of its items (named items evaluated alone) = {}", p, ch, got, exp));
            }
        }
        Ok(())
    }));
    match r { Ok(x) => x, Err(_) => Err("PANIC".into()) }
}

fn gen_named_class(r: &mut Rng, depth: usize) -> String {
    const ATOMS: &[&str] = &["a", "c-e", "0-4", "_", "é", "\\d", "\\D", "\\s", "\\S", "\\w", "\\W", "[:alpha:]", "[:^alpha:]", "[:digit:]", "[:space:]", "[:upper:]", "[:^lower:]",
        "\\pL", "\\PL", "\\pN", "\\p{Lowercase}", "\\P{Uppercase}", "\\p{White_Space}"];
    let mut s = String::from("[");
    if r.below(2) == 0 { s.push('^'); }
    let n = 1 + r.below(3);
    for _ in 0..n {
        if depth > 0 && r.below(3) == 0 { s.push_str(&gen_named_class(r, depth - 1)); } else { s.push_str(*r.pick(ATOMS)); }
    }
    if depth > 0 && r.below(3) == 0 {
        s.push_str(*r.pick(&["&&", "--", "~~"]));
        s.push_str(&gen_named_class(r, depth - 1));
    }
    s.push(']');
    s
}


// ------------------------------------------------------------------------------------------------ named leaves (C08)
/// every Unicode scalar value, in ascending order
fn all_scalars() -> String {
    let mut s = String::with_capacity(4_500_000);
    for u in 0u32..=0x10FFFF { if let Some(c) = char::from_u32(u) { s.push(c); } }
    s
}
/// the set of chars the one-item pattern `p` matches, read off a scan of `input` (one token per matching char: the pattern matches single chars only)
fn members(p: &str, input: &str) -> Result<std::collections::HashSet<char>, String> {
    let modes = vec![ModeSpec { name: "M0".into(), pats: vec![PatSpec { p: p.into(), tt: 0, la: None }], trans: vec![] }];
    let sc = build(&modes).map_err(|e| format!("build of {p} failed: {e}"))?;
    let mut out = std::collections::HashSet::new();
    for m in sc.find_iter(input) {
        let t = &input[m.start()..m.end()];
        let mut it = t.chars();
        let c = it.next().unwrap();
        if it.next().is_some() { return Err(format!("{p}: token {:?} longer than one char", t)); }
        out.insert(c);
    }
    Ok(out)
}
/// ASCII sets the property statement spells out (C08: \d \s \w restricted to ASCII are [0-9], [\t\n\x0B\x0C\r ], [0-9A-Za-z_]; \D \S \W their complements),
/// and the POSIX spellings of the same three sets
const ASCII_LEAVES: &[(&str, &str, bool)] = &[
    ("\\d", "0123456789", false), ("\\D", "0123456789", true),
    ("\\s", "\t\n\u{b}\u{c}\r ", false), ("\\S", "\t\n\u{b}\u{c}\r ", true),
    ("\\w", "0123456789ABCDEFGHIJKLMNOPQRSTUVWXYZabcdefghijklmnopqrstuvwxyz_", false), ("\\W", "0123456789ABCDEFGHIJKLMNOPQRSTUVWXYZabcdefghijklmnopqrstuvwxyz_", true),
    ("[[:word:]]", "0123456789ABCDEFGHIJKLMNOPQRSTUVWXYZabcdefghijklmnopqrstuvwxyz_", false), ("[[:^word:]]", "0123456789ABCDEFGHIJKLMNOPQRSTUVWXYZabcdefghijklmnopqrstuvwxyz_", true),
    ("[^[:word:]]", "0123456789ABCDEFGHIJKLMNOPQRSTUVWXYZabcdefghijklmnopqrstuvwxyz_", true), ("[^[:^word:]]", "0123456789ABCDEFGHIJKLMNOPQRSTUVWXYZabcdefghijklmnopqrstuvwxyz_", false),
    ("[[:space:]]", "\t\n\u{b}\u{c}\r ", false), ("[[:^space:]]", "\t\n\u{b}\u{c}\r ", true), ("[^[:space:]]", "\t\n\u{b}\u{c}\r ", true),
    ("[[:digit:]]", "0123456789", false), ("[[:^digit:]]", "0123456789", true), ("[^[:digit:]]", "0123456789", true),
    ("[\\d]", "0123456789", false), ("[^\\d]", "0123456789", true), ("[\\s]", "\t\n\u{b}\u{c}\r ", false), ("[^\\s]", "\t\n\u{b}\u{c}\r ", true),
    ("[\\w]", "0123456789ABCDEFGHIJKLMNOPQRSTUVWXYZabcdefghijklmnopqrstuvwxyz_", false), ("[^\\w]", "0123456789ABCDEFGHIJKLMNOPQRSTUVWXYZabcdefghijklmnopqrstuvwxyz_", true),
];
/// named Unicode items for which the regex crate (its own Unicode tables) and the unchanged crate (seshat's tables) denote the SAME set over all 1 112 064 scalar values
/// (established by `leafsweep` on the unchanged tree; both table sets are pinned by Cargo.lock). (scnr spelling, regex-crate spelling)
const AGREEING_UNICODE: &[(&str, &str)] = &[
("\\p{Alphabetic}", "\\p{Alphabetic}"),
    ("\\P{Alphabetic}", "\\P{Alphabetic}"),
    ("\\p{ASCII_Hex_Digit}", "\\p{ASCII_Hex_Digit}"),
    ("\\P{ASCII_Hex_Digit}", "\\P{ASCII_Hex_Digit}"),
    ("\\p{Bidi_Control}", "\\p{Bidi_Control}"),
    ("\\P{Bidi_Control}", "\\P{Bidi_Control}"),
    ("\\p{Case_Ignorable}", "\\p{Case_Ignorable}"),
    ("\\P{Case_Ignorable}", "\\P{Case_Ignorable}"),
    ("\\p{Cased}", "\\p{Cased}"),
    ("\\P{Cased}", "\\P{Cased}"),
    ("\\p{Dash}", "\\p{Dash}"),
    ("\\P{Dash}", "\\P{Dash}"),
    ("\\p{Default_Ignorable_Code_Point}", "\\p{Default_Ignorable_Code_Point}"),
    ("\\P{Default_Ignorable_Code_Point}", "\\P{Default_Ignorable_Code_Point}"),
    ("\\p{Deprecated}", "\\p{Deprecated}"),
    ("\\P{Deprecated}", "\\P{Deprecated}"),
    ("\\p{Diacritic}", "\\p{Diacritic}"),
    ("\\P{Diacritic}", "\\P{Diacritic}"),
    ("\\p{Emoji_Component}", "\\p{Emoji_Component}"),
    ("\\P{Emoji_Component}", "\\P{Emoji_Component}"),
    ("\\p{Emoji_Modifier_Base}", "\\p{Emoji_Modifier_Base}"),
    ("\\P{Emoji_Modifier_Base}", "\\P{Emoji_Modifier_Base}"),
    ("\\p{Emoji_Modifier}", "\\p{Emoji_Modifier}"),
    ("\\P{Emoji_Modifier}", "\\P{Emoji_Modifier}"),
    ("\\p{Emoji_Presentation}", "\\p{Emoji_Presentation}"),
    ("\\P{Emoji_Presentation}", "\\P{Emoji_Presentation}"),
    ("\\p{Emoji}", "\\p{Emoji}"),
    ("\\P{Emoji}", "\\P{Emoji}"),
    ("\\p{Extended_Pictographic}", "\\p{Extended_Pictographic}"),
    ("\\P{Extended_Pictographic}", "\\P{Extended_Pictographic}"),
    ("\\p{Extender}", "\\p{Extender}"),
    ("\\P{Extender}", "\\P{Extender}"),
    ("\\p{Grapheme_Extend}", "\\p{Grapheme_Extend}"),
    ("\\P{Grapheme_Extend}", "\\P{Grapheme_Extend}"),
    ("\\p{Hex_Digit}", "\\p{Hex_Digit}"),
    ("\\P{Hex_Digit}", "\\P{Hex_Digit}"),
    ("\\p{Hyphen}", "\\p{Hyphen}"),
    ("\\P{Hyphen}", "\\P{Hyphen}"),
    ("\\p{ID_Continue}", "\\p{ID_Continue}"),
    ("\\P{ID_Continue}", "\\P{ID_Continue}"),
    ("\\p{ID_Start}", "\\p{ID_Start}"),
    ("\\P{ID_Start}", "\\P{ID_Start}"),
    ("\\p{Ideographic}", "\\p{Ideographic}"),
    ("\\P{Ideographic}", "\\P{Ideographic}"),
    ("\\p{IDS_Binary_Operator}", "\\p{IDS_Binary_Operator}"),
    ("\\P{IDS_Binary_Operator}", "\\P{IDS_Binary_Operator}"),
    ("\\p{IDS_Trinary_Operator}", "\\p{IDS_Trinary_Operator}"),
    ("\\P{IDS_Trinary_Operator}", "\\P{IDS_Trinary_Operator}"),
    ("\\p{Join_Control}", "\\p{Join_Control}"),
    ("\\P{Join_Control}", "\\P{Join_Control}"),
    ("\\p{Logical_Order_Exception}", "\\p{Logical_Order_Exception}"),
    ("\\P{Logical_Order_Exception}", "\\P{Logical_Order_Exception}"),
    ("\\p{Lowercase}", "\\p{Lowercase}"),
    ("\\P{Lowercase}", "\\P{Lowercase}"),
    ("\\p{Math}", "\\p{Math}"),
    ("\\P{Math}", "\\P{Math}"),
    ("\\p{Noncharacter_Code_Point}", "\\p{Noncharacter_Code_Point}"),
    ("\\P{Noncharacter_Code_Point}", "\\P{Noncharacter_Code_Point}"),
    ("\\p{Other_Alphabetic}", "\\p{Other_Alphabetic}"),
    ("\\P{Other_Alphabetic}", "\\P{Other_Alphabetic}"),
    ("\\p{Other_Default_Ignorable_Code_Point}", "\\p{Other_Default_Ignorable_Code_Point}"),
    ("\\P{Other_Default_Ignorable_Code_Point}", "\\P{Other_Default_Ignorable_Code_Point}"),
    ("\\p{Other_Grapheme_Extend}", "\\p{Other_Grapheme_Extend}"),
    ("\\P{Other_Grapheme_Extend}", "\\P{Other_Grapheme_Extend}"),
    ("\\p{Other_ID_Continue}", "\\p{Other_ID_Continue}"),
    ("\\P{Other_ID_Continue}", "\\P{Other_ID_Continue}"),
    ("\\p{Other_ID_Start}", "\\p{Other_ID_Start}"),
    ("\\P{Other_ID_Start}", "\\P{Other_ID_Start}"),
    ("\\p{Other_Lowercase}", "\\p{Other_Lowercase}"),
    ("\\P{Other_Lowercase}", "\\P{Other_Lowercase}"),
    ("\\p{Other_Math}", "\\p{Other_Math}"),
    ("\\P{Other_Math}", "\\P{Other_Math}"),
    ("\\p{Other_Uppercase}", "\\p{Other_Uppercase}"),
    ("\\P{Other_Uppercase}", "\\P{Other_Uppercase}"),
    ("\\p{Pattern_Syntax}", "\\p{Pattern_Syntax}"),
    ("\\P{Pattern_Syntax}", "\\P{Pattern_Syntax}"),
    ("\\p{Pattern_White_Space}", "\\p{Pattern_White_Space}"),
    ("\\P{Pattern_White_Space}", "\\P{Pattern_White_Space}"),
    ("\\p{Prepended_Concatenation_Mark}", "\\p{Prepended_Concatenation_Mark}"),
    ("\\P{Prepended_Concatenation_Mark}", "\\P{Prepended_Concatenation_Mark}"),
    ("\\p{Quotation_Mark}", "\\p{Quotation_Mark}"),
    ("\\P{Quotation_Mark}", "\\P{Quotation_Mark}"),
    ("\\p{Radical}", "\\p{Radical}"),
    ("\\P{Radical}", "\\P{Radical}"),
    ("\\p{Regional_Indicator}", "\\p{Regional_Indicator}"),
    ("\\P{Regional_Indicator}", "\\P{Regional_Indicator}"),
    ("\\p{Sentence_Terminal}", "\\p{Sentence_Terminal}"),
    ("\\P{Sentence_Terminal}", "\\P{Sentence_Terminal}"),
    ("\\p{Soft_Dotted}", "\\p{Soft_Dotted}"),
    ("\\P{Soft_Dotted}", "\\P{Soft_Dotted}"),
    ("\\p{Terminal_Punctuation}", "\\p{Terminal_Punctuation}"),
    ("\\P{Terminal_Punctuation}", "\\P{Terminal_Punctuation}"),
    ("\\p{Unified_Ideograph}", "\\p{Unified_Ideograph}"),
    ("\\P{Unified_Ideograph}", "\\P{Unified_Ideograph}"),
    ("\\p{Uppercase}", "\\p{Uppercase}"),
    ("\\P{Uppercase}", "\\P{Uppercase}"),
    ("\\p{Variation_Selector}", "\\p{Variation_Selector}"),
    ("\\P{Variation_Selector}", "\\P{Variation_Selector}"),
    ("\\p{White_Space}", "\\p{White_Space}"),
    ("\\P{White_Space}", "\\P{White_Space}"),
    ("\\p{XID_Continue}", "\\p{XID_Continue}"),
    ("\\P{XID_Continue}", "\\P{XID_Continue}"),
    ("\\p{XID_Start}", "\\p{XID_Start}"),
    ("\\P{XID_Start}", "\\P{XID_Start}"),
    ("\\s", "\\s"),
    ("\\S", "\\S"),
    ("\\pL", "\\p{Alphabetic}"),
    ("\\PL", "\\P{Alphabetic}"),
    ("\\pZ", "\\p{White_Space}"),
    ("\\pP", "\\p{Terminal_Punctuation}"),
    ("[[:xdigit:]]", "[0-9A-Fa-f]"),
    ("[[:punct:]]", "[!-/:-@\\[-`{-~]"),
    ("[[:cntrl:]]", "[\\x00-\\x1f\\x7f]"),
    ("[[:graph:]]", "[!-~]"),
    ("[[:ascii:]]", "[\\x00-\\x7f]"),
];
fn run_named_leaf_case(c: &Case) -> Result<(), String> {
    let r = catch_unwind(AssertUnwindSafe(|| {
        let p = &c.modes[0].pats[0].p;
        if let Some((_, set, neg)) = ASCII_LEAVES.iter().find(|(q, _, _)| q == p) {
            let ascii: String = (0u8..128).map(|b| b as char).collect();
            let got = members(p, &ascii)?;
            for ch in ascii.chars() {
                let exp = set.contains(ch) != *neg;
                if got.contains(&ch) != exp {
                    return Err(format!("named item {} on {:?} (ASCII, all 128 code points enumerated): scnr matches = {}, the set the property states = {}", p, ch, got.contains(&ch), exp));
                }
            }
            return Ok(());
        }
        let (_, q) = AGREEING_UNICODE.iter().find(|(s, _)| s == p).ok_or_else(|| format!("unknown named leaf {p}"))?;
        let all = all_scalars();
        let got = members(p, &all)?;
        let re = Regex::new(&format!("^(?:{})$", q)).unwrap();
        let mut buf = [0u8; 4];
        for ch in all.chars() {
            let exp = re.is_match(ch.encode_utf8(&mut buf));
            if got.contains(&ch) != exp {
                return Err(format!("named item {} on {:?} (U+{:04X}; all scalar values enumerated): scnr matches = {}, reference (regex crate, agreed with the unchanged tree on every scalar value) = {}", p, ch, ch as u32, got.contains(&ch), exp));
            }
        }
        Ok(())
    }));
    match r { Ok(x) => x, Err(_) => Err("PANIC".into()) }
}
/// development aid: which named items does the regex crate agree on with the crate under test, over all scalar values?
fn leafsweep() {
    const NAMES: &[&str] = &["Alphabetic", "ASCII_Hex_Digit", "Bidi_Control", "Case_Ignorable", "Cased", "Dash", "Default_Ignorable_Code_Point", "Deprecated", "Diacritic",
        "Emoji_Component", "Emoji_Modifier_Base", "Emoji_Modifier", "Emoji_Presentation", "Emoji", "Extended_Pictographic", "Extender", "Grapheme_Extend", "Hex_Digit", "Hyphen",
        "ID_Continue", "ID_Start", "Ideographic", "IDS_Binary_Operator", "IDS_Trinary_Operator", "Join_Control", "Logical_Order_Exception", "Lowercase", "Math",
        "Noncharacter_Code_Point", "Other_Alphabetic", "Other_Default_Ignorable_Code_Point", "Other_Grapheme_Extend", "Other_ID_Continue", "Other_ID_Start", "Other_Lowercase",
        "Other_Math", "Other_Uppercase", "Pattern_Syntax", "Pattern_White_Space", "Prepended_Concatenation_Mark", "Quotation_Mark", "Radical", "Regional_Indicator",
        "Sentence_Terminal", "Soft_Dotted", "Terminal_Punctuation", "Unified_Ideograph", "Uppercase", "Variation_Selector", "White_Space", "XID_Continue", "XID_Start"];
    let all = all_scalars();
    let mut cands: Vec<(String, String)> = vec![];
    for n in NAMES { cands.push((format!("\\p{{{n}}}"), format!("\\p{{{n}}}"))); cands.push((format!("\\P{{{n}}}"), format!("\\P{{{n}}}"))); }
    cands.push(("\\s".into(), "\\s".into()));
    cands.push(("\\S".into(), "\\S".into()));
    cands.push(("\\pL".into(), "\\p{Alphabetic}".into()));
    cands.push(("\\PL".into(), "\\P{Alphabetic}".into()));
    cands.push(("\\pZ".into(), "\\p{White_Space}".into()));
    cands.push(("\\pP".into(), "\\p{Terminal_Punctuation}".into()));
    cands.push(("\\pN".into(), "\\pN".into()));
    cands.push(("\\d".into(), "\\pN".into()));
    cands.push(("\\D".into(), "\\PN".into()));
    cands.push(("\\w".into(), "[\\p{Alphabetic}\\pN\\p{Join_Control}\\p{Pc}\\p{Mn}]".into()));
    cands.push(("\\W".into(), "[^\\p{Alphabetic}\\pN\\p{Join_Control}\\p{Pc}\\p{Mn}]".into()));
    cands.push(("[[:alpha:]]".into(), "\\p{Alphabetic}".into()));
    cands.push(("[[:lower:]]".into(), "\\p{Lowercase}".into()));
    cands.push(("[[:upper:]]".into(), "\\p{Uppercase}".into()));
    cands.push(("[[:alnum:]]".into(), "[\\p{Alphabetic}\\pN]".into()));
    cands.push(("[[:xdigit:]]".into(), "[0-9A-Fa-f]".into()));
    cands.push(("[[:punct:]]".into(), "[!-/:-@\\[-`{-~]".into()));
    cands.push(("[[:cntrl:]]".into(), "[\\x00-\\x1f\\x7f]".into()));
    cands.push(("[[:graph:]]".into(), "[!-~]".into()));
    cands.push(("[[:ascii:]]".into(), "[\\x00-\\x7f]".into()));
    let mut buf = [0u8; 4];
    for (p, q) in cands {
        let re = match Regex::new(&format!("^(?:{})$", q)) { Ok(r) => r, Err(_) => { eprintln!("-- {p}: regex crate rejects {q}"); continue; } };
        let got = match members(&p, &all) { Ok(g) => g, Err(e) => { eprintln!("-- {p}: {e}"); continue; } };
        let mut diff = 0usize; let mut first = None;
        for ch in all.chars() {
            if got.contains(&ch) != re.is_match(ch.encode_utf8(&mut buf)) { diff += 1; if first.is_none() { first = Some(ch as u32); } }
        }
        if diff == 0 { println!("    ({:?}, {:?}),", p, q); } else { eprintln!("-- {p} vs {q}: {diff} differences, first U+{:04X}", first.unwrap()); }
    }
}

/// unsupported features (C15): input holds "ok" or "err": whether the single pattern must build
fn run_unsupported_case(c: &Case) -> Result<(), String> {
    let r = catch_unwind(AssertUnwindSafe(|| {
        let built = build(&c.modes).is_ok();
        let want = c.input == "ok";
        if built != want {
            return Err(format!("patterns {:?}: build is_ok = {}, expected {}", c.modes[0].pats.iter().map(|p| (p.p.clone(), p.la.clone())).collect::<Vec<_>>(), built, want));
        }
        Ok(())
    }));
    match r { Ok(x) => x, Err(_) => Err(format!("PANIC while building {:?}", c.modes[0].pats[0].p)) }
}

fn gen_supported(r: &mut Rng, depth: usize) -> String {
    const LEAVES: &[&str] = &["a", "b", "[a-c]", ".", "\\d", "[^x]", "ab", "é", "[0-9a-é]", "[\\t -\\u{10FFFF}]", "[a-zé€]", "[a-cx-zb-y]", "\\.", "\\)"];
    if depth == 0 { return r.pick(LEAVES).to_string(); }
    match r.below(7) {
        0 => format!("({})", gen_supported(r, depth - 1)),
        1 => format!("(?:{})", gen_supported(r, depth - 1)),
        2 => format!("{}{}", gen_supported(r, depth - 1), gen_supported(r, depth - 1)),
        3 => format!("(?:{}|{})", gen_supported(r, depth - 1), gen_supported(r, depth - 1)),
        4 => format!("(?:{}){}", gen_supported(r, depth - 1), r.pick(&["*", "+", "?", "{2}", "{1,}", "{1,2}"])),
        _ => r.pick(LEAVES).to_string(),
    }
}
/// plants one unsupported construct somewhere
fn gen_unsupported(r: &mut Rng, depth: usize) -> String {
    const BAD: &[&str] = &["^", "$", "\\b", "\\B", "(?i)", "a*?", "a+?", "a??", "(?i:a)", "a{1,2}?", "\\A", "\\z", "(?s-i:b)", "(?-i:a)", "(?-ms:a.b)", "(?i-s:a)", "(?x)", "(?U:a)",
        "\\pl", "\\p{alphabetic}", "\\p{Foo}", "\\pX", "\\p{scx=Latin}", "\\p{sc=Greek}", "\\P{uppercase}",
        // unknown / valued classes as one of several items of a bracketed class, nested, under set operators
        "[a-z\\p{Foo}]", "[_\\p{sc=Greek}0-9]", "[^[ab\\pX]]", "[\\p{Foo}]", "[a&&\\p{Foo}]", "[a-c--\\pX]", "[\\d\\p{alphabetic}]", "[x[^\\p{Foo}]y]", "[\\pl\\pL]",
        // syntax errors
        "a)", "end)", "(a", "[a", "a{2,1}"];
    if depth == 0 { return r.pick(BAD).to_string(); }
    match r.below(6) {
        0 => format!("({})", gen_unsupported(r, depth - 1)),
        1 => format!("{}{}", gen_supported(r, depth - 1), gen_unsupported(r, depth - 1)),
        2 => format!("{}{}", gen_unsupported(r, depth - 1), gen_supported(r, depth - 1)),
        3 => format!("(?:{}|{})", gen_supported(r, depth - 1), gen_unsupported(r, depth - 1)),
        4 => format!("(?:{}){}", gen_unsupported(r, depth - 1), r.pick(&["*", "+", "?", "{2}", "{0}", "{0,0}", "{0,1}", "{0,}"])),
        _ => format!("(?:{}|{}|{})", gen_supported(r, 0), gen_supported(r, 0), gen_unsupported(r, depth - 1)),
    }
}

fn run_any(c: &Case) -> Result<(), String> {
    if c.family == "unsupported" {
        return run_unsupported_case(c);
    }
    if c.family == "classes" {
        return run_class_case(c);
    }
    if c.family == "named_classes" {
        return run_named_class_case(c);
    }
    if c.family == "named_leaves" {
        return run_named_leaf_case(c);
    }
    if c.family == "cache" {
        return run_cache_case(c);
    }
    if c.with_positions {
        run_positions_case(c)
    } else {
        run_case(c)
    }
}

// ------------------------------------------------------------------------------------------------ enumeration
struct Rng(u64);
impl Rng {
    fn next(&mut self) -> u64 {
        self.0 ^= self.0 << 13;
        self.0 ^= self.0 >> 7;
        self.0 ^= self.0 << 17;
        self.0
    }
    fn below(&mut self, n: usize) -> usize {
        (self.next() % n as u64) as usize
    }
    fn pick<'a, T>(&mut self, v: &'a [T]) -> &'a T {
        &v[self.below(v.len())]
    }
}

const PATS: &[&str] = &["a", "b", "c", "ab", "abc", "a+", "b+", "[ab]", "[ab]+", "[a-c]+", "é", "[aé]+", "a|ab", "(|a)b", "a*b", "\n", "[a-c\n]", "bc", "ca", "[^a]", "aé", "é+", "x", "[a-cé]+x?",
    ".", "[^\n]+", "a{2}", "a{1,2}b", "(ab)+", "(a|b)*c", "b?c?a", "€", "[€😀]+", "a{2,}", "(a|)c", "x|\n+",
    "a+b", "a{2,}b", "ca{0,}b", "ab?", "b{0,2}c", "(a|b?)*c", "(a*)+b", "a(|b|c)a", "[ab]{2}", "c(ab)?",
    // named classes in both polarities (they agree with the regex crate on the alphabet used here)
    "\\pL+", "\\PL", "\\w+", "\\W", "\\s", "\\S+", "[^\\W]+", "\\p{Lowercase}+", "\\P{Lowercase}",
    // tokens that run over several lines
    "[a-c\n]+", "a\nb", "\n(b\n)+", "[^x]+x", "(b|\n)+c",
    "\\.", "a\\.b?"];
const LAS: &[&str] = &["a", "b", "c", "bc", "b+", "é", "[ab]", "x", "c+", "\n", "bc?", "b{1,2}", "ab?", "b|bc", "b*c", "a?b", "(ab)+", "c{2}",
    "(a*)+b", "(b?)*c", "(a|b?)*c", "(b*c?)*x", "b*", "(b|)c"];
const ALPHA: &[char] = &['a', 'b', 'c', 'é', '\n', 'x', 'a', 'b', '€', '😀', 'c', '\n', '.'];

fn gen_input(r: &mut Rng, maxlen: usize) -> String {
    let n = r.below(maxlen + 1);
    let mut s: String = (0..n).map(|_| *r.pick(ALPHA)).collect();
    // now and then the text starts with a byte order mark (an ordinary character no pattern of the pools matches)
    if r.below(16) == 0 { s.insert(0, '\u{feff}'); }
    s
}
/// structured random regexes over {a, b, c}: concatenation, alternation (with empty branches), groups and every repetition operator, nested to `depth`
/// (nested repetitions with the SAME operator are forced now and then: `(x{2}){2}`, `(x+)+`)
fn gen_regex(r: &mut Rng, depth: usize) -> String {
    const LEAVES: &[&str] = &["a", "b", "c", "[ab]", "[^a]", "ab", "."];
    if depth == 0 { return r.pick(LEAVES).to_string(); }
    match r.below(6) {
        0 | 1 => { let n = 2 + r.below(2); (0..n).map(|_| gen_regex(r, depth - 1)).collect::<Vec<_>>().join("") }
        2 => {
            let n = 2 + r.below(2);
            let mut br: Vec<String> = (0..n).map(|_| gen_regex(r, depth - 1)).collect();
            if r.below(4) == 0 { let k = r.below(br.len() + 1); br.insert(k, String::new()); }
            format!("({})", br.join("|"))
        }
        _ => {
            const OPS: &[&str] = &["?", "*", "+", "{2}", "{1,2}", "{2,}", "{0,1}", "{3}", "{2,3}", "{0}", "{1,}"];
            let op = *r.pick(OPS);
            let inner = if r.below(4) == 0 { format!("({}){}", gen_regex(r, depth - 1), op) } else { gen_regex(r, depth - 1) };
            format!("({}){}", inner, op)
        }
    }
}

/// a finite language as a regex: words of length 1..3, grouped by first letter into `x(..|..)` with probability 1/2 (factored form), else flat
fn gen_finite(r: &mut Rng, alpha: &[char]) -> String {
    let nw = 1 + r.below(5);
    let mut words: Vec<String> = vec![];
    for _ in 0..nw {
        let l = 1 + r.below(3);
        let w: String = (0..l).map(|_| *r.pick(alpha)).collect();
        if !words.contains(&w) { words.push(w); }
    }
    words.sort();
    let body = if r.below(2) == 0 { words.join("|") } else {
        let mut parts: Vec<String> = vec![];
        let mut i = 0;
        while i < words.len() {
            let c = words[i].chars().next().unwrap();
            let mut j = i;
            let mut tails: Vec<String> = vec![];
            while j < words.len() && words[j].starts_with(c) { tails.push(words[j][c.len_utf8()..].to_string()); j += 1; }
            if tails.len() == 1 { parts.push(words[i].clone()); } else { parts.push(format!("{}({})", c, tails.join("|"))); }
            i = j;
        }
        parts.join("|")
    };
    match r.below(6) { 0 => format!("({})+", body), 1 => format!("({})*{}", body, r.pick(alpha)), _ => body }
}
fn gen_pats(r: &mut Rng, with_la: bool, n: usize, numbering: usize) -> Vec<PatSpec> {
    let mut tts: Vec<usize> = match numbering {
        0 => (0..n).collect(),
        1 => (0..n).rev().collect(),
        2 => (0..n).map(|i| 3 + 2 * i).collect(),
        // token types beyond 16 bits (they are usize in the API)
        4 => (0..n).map(|i| 65_536 * (1 + i) + i).collect(),
        _ => {
            let mut v: Vec<usize> = (0..n).map(|i| i * 3 + 1).collect();
            if !v.is_empty() { v.rotate_left(1); }
            v
        }
    };
    let mut out = vec![];
    for _ in 0..n {
        // three quarters from the pool, one quarter structured random regexes (every operator, nested)
        let p = if r.below(4) == 0 { let d = 1 + r.below(2); gen_regex(r, d) } else if r.below(24) == 0 { String::new() /* the empty pattern: valid, never yields a token, keeps its position */ } else { r.pick(PATS).to_string() };
        let la = if with_la && r.below(2) == 0 { Some((r.below(3) != 0, if r.below(4) == 0 { let d = 1 + r.below(2); gen_regex(r, d) } else { r.pick(LAS).to_string() })) } else { None };
        out.push(PatSpec { p, tt: tts.remove(0), la });
    }
    // the same pattern text listed twice (the later copy can never win a tie, but it keeps its own position / token type)
    if n >= 2 && r.below(6) == 0 {
        let j = 1 + r.below(n - 1);
        let i = r.below(j);
        out[j].p = out[i].p.clone();
    }
    // one token type on the first and the last of at least three patterns (not adjacent), both without lookahead (lookaheads are stored per token type: known finding D9);
    // decided from the generator state without drawing from it, so that the other cases of a seed stay what they were
    if n >= 3 && r.0 % 5 == 0 && out[0].la.is_none() && out[n - 1].la.is_none() {
        out[n - 1].tt = out[0].tt;
    }
    out
}
fn boundaries(s: &str) -> Vec<usize> {
    let mut v: Vec<usize> = s.char_indices().map(|(i, _)| i).collect();
    v.push(s.len());
    v
}

fn gen_case(family: &str, r: &mut Rng) -> Case {
    // a mode without patterns is a valid configuration (it yields no tokens)
    let npat = if r.below(16) == 0 { 0 } else { 1 + r.below(3) };
    let numbering = r.below(5);
    match family {
        "stream" | "lookahead" => {
            let with_la = family == "lookahead";
            let pats = gen_pats(r, with_la, npat, numbering);
            let input = gen_input(r, 9);
            let b = boundaries(&input);
            let start = if r.below(3) == 0 { *r.pick(&b) } else { 0 };
            let n = input.chars().count() + 2;
            Case { family: family.into(), modes: vec![ModeSpec { name: "M0".into(), pats, trans: vec![] }], input, start_offset: start, ops: vec![Op::Next; n], with_positions: false }
        }
        "finite" => {
            // random finite languages written as (partly factored) alternations of short words over a small alphabet, optionally starred / plussed as a whole:
            // many different automaton shapes (states with several classes into one group, several targets on one class, merged suffixes) for the
            // epsilon-elimination and the minimizer; token types may be shared between patterns of the mode (no lookaheads here)
            let alpha: Vec<char> = "abcdxy".chars().take(3 + r.below(4)).collect();
            let np = 1 + r.below(3);
            let mut pats: Vec<PatSpec> = vec![];
            for i in 0..np {
                let p = gen_finite(r, &alpha);
                // a token type may be shared with the pattern listed directly before (adjacent sharing keeps "first pattern with that token type" = "first such
                // pattern in the list" for every tie; non-adjacent sharing runs into known finding D10)
                let tt = if i > 0 && r.below(4) == 0 { pats[i - 1].tt } else { i };
                pats.push(PatSpec { p, tt, la: None });
            }
            if r.below(3) == 0 { pats.push(PatSpec { p: "[a-z]".into(), tt: np + 1, la: None }); }
            let n = r.below(8);
            let input: String = (0..n).map(|_| *r.pick(&alpha)).collect();
            let cnt = input.chars().count() + 2;
            Case { family: family.into(), modes: vec![ModeSpec { name: "M0".into(), pats, trans: vec![] }], input, start_offset: 0, ops: vec![Op::Next; cnt], with_positions: false }
        }
        "regex" => {
            // structured random regexes (all operators, nested) against the regex crate; now and then one long counted chain (more refinement rounds / states than
            // any fixture) with an input one repetition short of, or exactly at, the count
            if r.below(12) == 0 {
                let n = 60 + r.below(90);
                let p = format!("{}{{{}}}", *r.pick(&["a", "[ab]", "(ab|c)"]), n);
                let unit = if p.starts_with("(ab") { "c" } else { "a" };
                let reps = if r.below(2) == 0 { n } else { n - 1 };
                let input: String = unit.repeat(reps);
                let cnt = 3;
                return Case { family: family.into(), modes: vec![ModeSpec { name: "M0".into(), pats: vec![PatSpec { p, tt: 0, la: None }], trans: vec![] }], input, start_offset: 0, ops: vec![Op::Next; cnt], with_positions: false };
            }
            let np = 1 + r.below(3);
            let mut pats: Vec<PatSpec> = vec![];
            for i in 0..np {
                let d = 1 + r.below(3);
                pats.push(PatSpec { p: gen_regex(r, d), tt: i, la: None });
            }
            let n = r.below(9);
            let input: String = (0..n).map(|_| *r.pick(&['a', 'b', 'c', 'a', 'b'])).collect();
            let cnt = input.chars().count() + 2;
            Case { family: family.into(), modes: vec![ModeSpec { name: "M0".into(), pats, trans: vec![] }], input, start_offset: 0, ops: vec![Op::Next; cnt], with_positions: false }
        }
        "la_compete" => {
            // competing trailing contexts (C04 / C05): every pattern is a prefix of one word (its last character possibly generalised), its lookahead is built
            // from the characters that follow that prefix (literal, repeated, class, optional tail) - many candidates at one position whose extents
            // (own bytes + longest lookahead match) differ by little; token types are pairwise distinct
            let alpha: &[char] = if r.below(4) == 0 { &['a', 'b', 'é'] } else { &['a', 'b', 'c'] };
            let len = 2 + r.below(5);
            let w: Vec<char> = (0..len).map(|_| { let c = *r.pick(alpha); if r.below(3) == 0 { 'b' } else { c } }).collect();
            let np = 2 + r.below(3);
            let mut pats: Vec<PatSpec> = vec![];
            for i in 0..np {
                let k = 1 + r.below(len);
                let mut p: String = w[..k].iter().collect();
                match r.below(5) { 0 => p.push('+'), 1 => { p.pop(); p.push_str("[abcé]"); } 2 => { p.push_str("b?"); } _ => {} }
                let rest: Vec<char> = w[k..].to_vec();
                let la = if rest.is_empty() || r.below(3) == 0 { if r.below(4) == 0 { Some((false, r.pick(&["a", "b", "c", "b+"]).to_string())) } else { None } } else {
                    let m = 1 + r.below(rest.len().min(3));
                    let mut l: String = rest[..m].iter().collect();
                    match r.below(6) { 0 => l.push('+'), 1 => l.push('?'), 2 => { l = format!("{}+", rest[0]); } 3 => { l = "[abc]+".into(); } 4 => { l.push_str("c?"); } _ => {} }
                    Some((r.below(5) != 0, l))
                };
                pats.push(PatSpec { p, tt: i, la });
            }
            let mut input: String = w.iter().collect();
            for _ in 0..r.below(3) { input.push(*r.pick(alpha)); }
            let start = if r.below(6) == 0 { 1.min(input.len()) } else { 0 };
            let start = if input.is_char_boundary(start) { start } else { 0 };
            let n = input.chars().count() + 2;
            Case { family: family.into(), modes: vec![ModeSpec { name: "M0".into(), pats, trans: vec![] }], input, start_offset: start, ops: vec![Op::Next; n], with_positions: false }
        }
        "large" => {
            // C17: an automaton with more than 65 535 states (and as many minimizer groups): np patterns `<two letters> x{rep}` with distinct token types;
            // input: some keywords in full (one token each) and the same keywords one character short (no token)
            let np = 256 + r.below(6);
            let rep = 257 + r.below(4);
            let mut pats: Vec<PatSpec> = vec![];
            let key = |i: usize| format!("{}{}", (b'a' + (i / 26) as u8) as char, (b'a' + (i % 26) as u8) as char);
            for i in 0..np { pats.push(PatSpec { p: format!("{}x{{{}}}", key(i), rep), tt: i, la: None }); }
            let mut input = String::new();
            for _ in 0..3 {
                let i = r.below(np);
                input.push_str(&key(i)); input.push_str(&"x".repeat(rep));
                let j = r.below(np);
                input.push_str(&key(j)); input.push_str(&"x".repeat(rep - 1));
                input.push('\n');
            }
            input.push_str(&key(np - 1)); input.push_str(&"x".repeat(rep));
            Case { family: family.into(), modes: vec![ModeSpec { name: "M0".into(), pats, trans: vec![] }], input, start_offset: 0, ops: vec![Op::Next; 12], with_positions: false }
        }
        "modes" | "peek" | "offset" | "isolation" => {
            let nm = 1 + r.below(4);
            let mut modes = vec![];
            // shared pool of token types so that types are shared between modes
            for mi in 0..nm {
                let np = if r.below(8) == 0 { 0 } else { 1 + r.below(4) };
                let with_la = family != "modes" && r.below(4) == 0;
                let pats = gen_pats(r, with_la, np, if family == "modes" { 0 } else { numbering });
                let mut tts: Vec<usize> = pats.iter().map(|p| p.tt).collect();
                tts.sort();
                tts.dedup();
                let mut trans = vec![];
                for t in tts {
                    if r.below(2) == 0 {
                        trans.push((t, r.below(nm)));
                    }
                }
                // a valid configuration may name token types in a mode's transitions that none of its own patterns produce
                if r.below(6) == 0 {
                    let t = trans.last().map(|x: &(usize, usize)| x.0 + 1 + r.below(40)).unwrap_or(r.below(60));
                    if !trans.iter().any(|x| x.0 == t) { trans.push((t, r.below(nm))); trans.sort(); }
                }
                modes.push(ModeSpec { name: format!("M{mi}"), pats, trans });
            }
            let mut input = gen_input(r, 10);
            // border-shifted twins: two modes with the same token-type sequence whose pattern texts concatenate to the same string (`ab`,`c` / `a`,`bc`): anything that
            // identifies a mode's automaton by its joined pattern text or by its token types confuses them; the twin is entered by a transition and by set_mode
            if family == "modes" && nm >= 2 && r.below(5) == 0 {
                let (x, y, z) = (*r.pick(&['a', 'b', 'c']), *r.pick(&['a', 'b', 'c']), *r.pick(&['a', 'b', 'c']));
                modes[0].pats = vec![PatSpec { p: format!("{x}{y}"), tt: 0, la: None }, PatSpec { p: format!("{z}"), tt: 1, la: None }];
                modes[1].pats = vec![PatSpec { p: format!("{x}"), tt: 0, la: None }, PatSpec { p: format!("{y}{z}"), tt: 1, la: None }];
                modes[0].trans = if r.below(2) == 0 { vec![(1, 1)] } else { vec![] };
                modes[1].trans = if r.below(2) == 0 { vec![(1, 0)] } else { vec![] };
                input = format!("{x}{y}{z}{x}{y}{z}{}", input);
            }
            let b = boundaries(&input);
            let mut ops = vec![];
            if family == "modes" && nm >= 2 && r.below(3) == 0 { ops.push(Op::SetMode(1)); }
            if family == "isolation" {
                if r.below(2) == 0 {
                    ops.push(Op::ScannerSetMode(r.below(nm)));
                }
            }
            let nops = 3 + r.below(8);
            for _ in 0..nops {
                let k = r.below(10);
                ops.push(match (family, k) {
                    ("modes", 0) => Op::SetMode(r.below(nm)),
                    ("modes", 1) => Op::Peek(1 + r.below(2)),
                    ("peek", 0..=3) => Op::Peek(r.below(4)),
                    ("offset", 0..=1) => Op::SetOffset(*r.pick(&b)),
                    ("offset", 2) => Op::SetOffset(input.len() + r.below(3)),
                    ("offset", 3..=4) => Op::AdvanceToPeekEnd(1 + r.below(3)),
                    ("offset", 5) => Op::SetMode(r.below(nm)),
                    ("isolation", 0..=2) => Op::NewIterOther(gen_input(r, 4)),
                    ("isolation", 3) => Op::Peek(1 + r.below(2)),
                    _ => Op::Next,
                });
            }
            let start = if family == "offset" && r.below(2) == 0 { *r.pick(&b) } else { 0 };
            Case { family: family.into(), modes, input, start_offset: start, ops, with_positions: false }
        }
        "cache" => {
            // unique pattern text per case so that earlier cases do not pre-populate the global cache with this configuration
            let uniq = format!("q{}", r.next() % 1_000_000);
            let np = 1 + r.below(3);
            let mut pats = gen_pats(r, true, np, 0);
            pats.push(PatSpec { p: uniq.clone(), tt: 90, la: None });
            // a second mode with other token types, so that transitions change behaviour
            let np2 = 1 + r.below(2);
            let mut pats2 = gen_pats(r, false, np2, 2);
            for p in pats2.iter_mut() { p.tt += 40; }
            pats2.push(PatSpec { p: uniq, tt: 91, la: None });
            let input = gen_input(r, 7);
            let nops = 2 + r.below(5);
            let mut ops: Vec<Op> = (0..nops).map(|_| Op::SetMode(if r.below(8) == 0 { 17 } else { r.below(16) })).collect();
            if r.below(2) == 0 { ops.insert(0, Op::SetMode(0)); ops.insert(0, Op::SetMode(9)); }
            if r.below(3) == 0 { ops.insert(0, Op::SetMode(15)); ops.insert(0, Op::SetMode(0)); }
            if !CACHE_FLOODED.swap(true, std::sync::atomic::Ordering::SeqCst) {
                // once per run: base and a near twin, the flood, then both again
                ops = vec![Op::SetMode(0), Op::SetMode(1), Op::SetMode(16), Op::SetMode(0), Op::SetMode(1), Op::SetMode(5)];
            }
            let t0 = pats[0].tt;
            Case { family: family.into(), modes: vec![ModeSpec { name: "M0".into(), pats, trans: if r.below(2) == 0 { vec![(t0, 1)] } else { vec![] } },
                                                       ModeSpec { name: "M1".into(), pats: pats2, trans: vec![] }],
                   input, start_offset: 0, ops, with_positions: false }
        }
        "unsupported" => {
            if r.below(400) == 0 {
                // very deep nesting: regex-syntax answers with a nest-limit error; whatever the crate does, it must return (Ok or Err), not overflow the stack
                let d = 5_000 + r.below(20_000);
                let p = format!("{}a{}", "(".repeat(d), ")".repeat(d));
                return Case { family: family.into(), modes: vec![ModeSpec { name: "M0".into(), pats: vec![PatSpec { p, tt: 0, la: None }], trans: vec![] }],
                              input: "err".into(), start_offset: 0, ops: vec![], with_positions: false };
            }
            let bad = r.below(2) == 0;
            let d = r.below(4);
            let p = if bad { gen_unsupported(r, d) } else { gen_supported(r, d) };
            // error and success paths also with long patterns holding multi-byte characters at arbitrary byte offsets
            let p = if r.below(4) == 0 {
                let n = 30 + r.below(50);
                let pad: String = (0..n).map(|_| *r.pick(&['a', 'é', '€', 'b', '😀'])).collect();
                if r.below(2) == 0 { format!("{}{}", pad, p) } else { format!("{}{}", p, pad) }
            } else { p };
            let in_la = r.below(4) == 0;
            let mut pats = if in_la { vec![PatSpec { p: "a".into(), tt: 0, la: Some((r.below(2) == 0, p)) }] } else { vec![PatSpec { p, tt: 0, la: None }] };
            // two patterns sharing a token type, both with lookaheads: the second lookahead is the one under test
            if in_la && r.below(3) == 0 {
                pats.insert(0, PatSpec { p: "b".into(), tt: 0, la: Some((true, "c".into())) });
            }
            // a supported near twin of an unknown class listed first (same scanner, shared class registry)
            if r.below(3) == 0 {
                pats.insert(0, PatSpec { p: r.pick(&["\\pL", "\\p{Alphabetic}", "\\PL", "\\p{Uppercase}", "\\d", "[a-c]"]).to_string(), tt: 7, la: None });
            }
            Case { family: family.into(), modes: vec![ModeSpec { name: "M0".into(), pats, trans: vec![] }],
                   input: if bad { "err".into() } else { "ok".into() }, start_offset: 0, ops: vec![], with_positions: false }
        }
        "classes" => {
            let p = gen_class(r, 2);
            Case { family: family.into(), modes: vec![ModeSpec { name: "M0".into(), pats: vec![PatSpec { p, tt: 0, la: None }], trans: vec![] }],
                   input: "abcdexz0359é\n\r-^.A \t_\u{0}\u{1f}\u{7e}\u{7f}\u{80}\u{7ff}\u{800}\u{d7ff}\u{e000}\u{ffff}\u{10000}\u{10ffff}".into(), start_offset: 0, ops: vec![], with_positions: false }
        }
        "named_leaves" => {
            // deterministic enumeration: the ASCII leaves first (cheap, all 128 code points each), then the Unicode leaves (all scalar values each)
            let k = { NAMED_LEAF_NEXT.fetch_add(1, std::sync::atomic::Ordering::SeqCst) };
            let n_a = ASCII_LEAVES.len();
            let n_u = AGREEING_UNICODE.len();
            let k = k % (n_a + n_u);
            let p = if k < n_a { ASCII_LEAVES[k].0.to_string() } else { AGREEING_UNICODE[k - n_a].0.to_string() };
            Case { family: family.into(), modes: vec![ModeSpec { name: "M0".into(), pats: vec![PatSpec { p, tt: 0, la: None }], trans: vec![] }],
                   input: "*".into(), start_offset: 0, ops: vec![], with_positions: false }
        }
        "named_classes" => {
            let p = gen_named_class(r, 2);
            Case { family: family.into(), modes: vec![ModeSpec { name: "M0".into(), pats: vec![PatSpec { p, tt: 0, la: None }], trans: vec![] }],
                   input: "aZdm05_ \t\n\ré€-^.~\u{0}\u{7f}\u{a0}\u{b2}\u{2167}\u{3b1}\u{391}\u{10ffff}".into(), start_offset: 0, ops: vec![], with_positions: false }
        }
        "positions" => {
            // one or two modes (set_mode + set_offset back into scanned text re-tokenises it differently), inputs with many line breaks, tokens over several lines
            let nm = 1 + r.below(2);
            let mut modes = vec![];
            for mi in 0..nm {
                let np = if mi == 0 { npat.max(1) } else { 1 + r.below(2) };
                let mut pats = gen_pats(r, false, np, 0);
                // half of the time one pattern of the mode is a token that runs over several lines
                if r.below(2) == 0 && !pats.is_empty() {
                    let k = r.below(pats.len());
                    pats[k].p = r.pick(&["[a-c\n]+", "a\nb", "\n(b\n)+", "[^x]+x", "(b|\n)+c", "[^;]+;", "\n+", "[ab\n]{2,}"]).to_string();
                }
                modes.push(ModeSpec { name: format!("M{mi}"), pats, trans: vec![] });
            }
            let n = r.below(15);
            let input: String = (0..n).map(|_| *r.pick(&['a', 'b', 'c', '\n', '\n', 'x', 'é', 'b', '\n'])).collect();
            let b = boundaries(&input);
            let nops = 4 + r.below(16);
            let mut ops = vec![];
            for _ in 0..nops {
                ops.push(match r.below(9) {
                    0 | 3 => Op::SetOffset(*r.pick(&b)),
                    1 => Op::Position(*r.pick(&b)),
                    2 => Op::SetMode(r.below(nm)),
                    _ => Op::Next,
                });
            }
            Case { family: family.into(), modes, input, start_offset: 0, ops, with_positions: true }
        }
        _ => panic!("unknown family {family}"),
    }
}

/// the reference model itself must accept the case (regex crate compiles the patterns, scnr builds them)
fn usable(c: &Case) -> bool {
    if c.family == "unsupported" { return true; }
    for m in &c.modes {
        for p in &m.pats {
            if Regex::new(&p.p).is_err() {
                return false;
            }
        }
        // transitions must be sorted by token type (ScannerMode::new debug-asserts it) and unique
        let mut t = m.trans.clone();
        t.sort();
        t.dedup_by_key(|x| x.0);
        if t != m.trans {
            return false;
        }
    }
    true
}

static CACHE_FLOODED: std::sync::atomic::AtomicBool = std::sync::atomic::AtomicBool::new(false);
static NAMED_LEAF_NEXT: std::sync::atomic::AtomicUsize = std::sync::atomic::AtomicUsize::new(0);
fn main() {
    std::panic::set_hook(Box::new(|_| {}));
    let args: Vec<String> = std::env::args().collect();
    if args.len() >= 2 && args[1] == "leafsweep" { leafsweep(); return; }
    if args.len() >= 3 && args[1] == "replay" {
        let c: Case = serde_json::from_str(&args[2]).expect("case json");
        match run_any(&c) {
            Ok(()) => {
                println!("{{\"still_failing\":false}}");
            }
            Err(e) => {
                println!("{}", serde_json::json!({"still_failing": true, "disagreement": e}));
                std::process::exit(1);
            }
        }
        return;
    }
    let family = args.get(1).map(|s| s.as_str()).unwrap_or("stream");
    let seed: u64 = args.get(2).and_then(|s| s.parse().ok()).unwrap_or(1);
    let budget = Duration::from_millis(args.get(3).and_then(|s| s.parse().ok()).unwrap_or(5000));
    let mut r = Rng(seed.wrapping_mul(0x9E3779B97F4A7C15) | 1);
    if family == "named_leaves" {
        // not sampled: EVERY listed named item is checked on every run (ASCII leaves over all 128 code points, Unicode leaves over all scalar values), 8 threads
        let total = ASCII_LEAVES.len() + AGREEING_UNICODE.len();
        let cases: Vec<Case> = (0..total).map(|_| gen_case(family, &mut r)).collect();
        let found = std::sync::Mutex::new(None);
        std::thread::scope(|sc| {
            for t in 0..8 {
                let cases = &cases; let found = &found;
                sc.spawn(move || {
                    for (i, c) in cases.iter().enumerate() {
                        if i % 8 != t { continue; }
                        if found.lock().unwrap().is_some() { return; }
                        if let Err(e) = run_any(c) { let mut f = found.lock().unwrap(); if f.is_none() { *f = Some((c.clone(), e)); } return; }
                    }
                });
            }
        });
        match found.into_inner().unwrap() {
            Some((c, e)) => println!("{}", serde_json::json!({"found": true, "tried": total, "distinct": total, "case": c, "disagreement": e})),
            None => println!("{}", serde_json::json!({"found": false, "tried": total, "distinct": total, "sample": cases[0]})),
        }
        return;
    }
    let t0 = Instant::now();
    let mut tried = 0usize;
    let mut distinct = std::collections::HashSet::new();
    let mut sample = None;
    while t0.elapsed() < budget {
        let c = gen_case(family, &mut r);
        if !usable(&c) {
            continue;
        }
        tried += 1;
        distinct.insert(serde_json::to_string(&c).unwrap());
        if sample.is_none() && !c.input.is_empty() {
            sample = Some(c.clone());
        }
        if let Err(e) = run_any(&c) {
            // shrink a little: drop trailing ops / shorten input while it still fails
            let mut best = c.clone();
            let mut best_e = e;
            let shrink_until = Instant::now() + std::time::Duration::from_secs(10);
            loop {
                let mut improved = false;
                // (no shrinking of the expensive cases; never shrink for more than 10 s)
                if family == "large" || Instant::now() > shrink_until { break; }
                for i in (0..best.ops.len()).rev() {
                    let mut c2 = best.clone();
                    c2.ops.remove(i);
                    if let Err(e2) = run_any(&c2) {
                        best = c2;
                        best_e = e2;
                        improved = true;
                        break;
                    }
                }
                if !improved {
                    break;
                }
            }
            println!("{}", serde_json::json!({"found": true, "tried": tried, "distinct": distinct.len(), "case": best, "disagreement": best_e}));
            return;
        }
    }
    println!("{}", serde_json::json!({"found": false, "tried": tried, "distinct": distinct.len(), "sample": sample}));
}
