# U-reg: the class predicate a scanner evaluates (C02 hypothesis cls_ok, C07 unsafe get_unchecked, C08 top level):
# CharacterClassRegistry::create_match_char_class builds, from the registered leaf ASTs, a closure that (a) may be called with every registered
# class id - the bound its `unsafe { get_unchecked }` relies on is the closure's precondition - and (b) returns the meaning of that leaf (leaf_sem);
# `impl PartialEq for ComparableAst` computes same_class (the registry's notion of "same class"), and leaf_sem respects it.
import os, importlib.util
from extract import *

def _load(name):
    p = os.path.join(os.path.dirname(os.path.abspath(__file__)), '..', name, 'unit.py')
    spec = importlib.util.spec_from_file_location('unit_' + name + '_for_reg', p)
    m = importlib.util.module_from_spec(spec)
    spec.loader.exec_module(m)
    return m

cls = _load('u_class')
F_MF = cls.F_MF
F_IDS = 'scnr/src/internal/ids.rs'
F_CAST = 'scnr/src/internal/comparable_ast.rs'
F_CC = 'scnr/src/internal/character_class.rs'
F_REG = 'scnr/src/internal/character_class_registry.rs'
P = ['C02', 'C07', 'C08']
ID_SPECS = {'new': 'ensures r.0 == index', 'as_usize': 'ensures r == self.0', 'id': 'ensures r == self.0'}

cast_eq = Fn(F_CAST, 'PartialEq for ComparableAst', 'eq', ret='r', as_inherent=True, props=['C02'],
    spec='ensures r == same_class(self.0, other.0)',
    edits=[
        Replace('U7', 'self.0.to_string().escape_default().to_string() == other.0.to_string().escape_default().to_string()', 'verif_printed_eq(&self.0, &other.0)',
                why='TRUSTED: Display of the AST and char escaping are outside Verus; the comparison is of the printed texts'),
    ])

cc_ast = Fn(F_CC, 'CharacterClass', 'ast', ret='r', props=P, spec='ensures *r == self.ast.0')

CREATE_SPEC = '''
ensures
    // Ok: callable on every registered id (in particular: the index handed to get_unchecked is in bounds) and equal to the leaf meaning
    r matches Ok(f) ==> cls_built(&f, self.view()),
    // every registered AST is one the class layer accepts, else the build fails (no predicate for a prefix of the registry)
    r is Ok ==> forall|i: int| 0 <= i < self.view().len() ==> is_class_leaf(#[trigger] self.view()[i]),
'''
create = Fn(F_REG, 'CharacterClassRegistry', 'create_match_char_class', ret='r', props=P,
    sig_replace=[("Result<Box<dyn (Fn(CharClassID, char) -> bool) + 'static + Send + Sync>>", 'Result<impl Fn(CharClassID, char) -> bool>')],
    spec=CREATE_SPEC,
    edits=[
        Replace('E11', 'let match_functions = self.character_classes.iter().try_fold(Vec::new(), |mut acc, cc| { let match_function: MatchFunction = cc.ast().try_into()?; acc.push(match_function); Ok::<Vec<MatchFunction>, ScnrError>(acc) })?;', '''
let match_functions = {
    let mut acc: Vec<MatchFunction> = Vec::new();
    let ghost ccs = self.character_classes@;
    let ghost mut n: int = 0;
    let mut __it0 = self.character_classes.iter();
    loop
        invariant
            __it0.obeys_prophetic_iter_laws(), __it0.decrease() is Some,
            ccs == self.character_classes@, 0 <= n <= ccs.len(), acc@.len() == n,
            __it0.remaining().len() == ccs.len() - n,
            forall|q: int| 0 <= q < __it0.remaining().len() ==> *#[trigger] __it0.remaining()[q] == ccs[n + q],
            forall|i: int| 0 <= i < n ==> is_class_leaf(#[trigger] ccs[i].ast.0),
            forall|i: int, ch: char| 0 <= i < n ==> #[trigger] acc@[i].match_fn.sem()(ch) == leaf_sem(ccs[i].ast.0, ch),
        ensures n == ccs.len()
        decreases __it0.decrease()->0
    {
        let Some(cc) = __it0.next() else { break };
        proof { assert(*cc == ccs[n]); }
        let match_function: MatchFunction = MatchFunction::try_from__ast(cc.ast())?;
        acc.push(match_function);
        proof { n = n + 1; }
    }
    proof { assert(forall|i: int| 0 <= i < ccs.len() ==> is_class_leaf(#[trigger] self.character_classes@[i].ast.0)); }
    acc
};
proof {
    assert forall|i: int| 0 <= i < self.view().len() implies is_class_leaf(#[trigger] self.view()[i]) by { assert(is_class_leaf(self.character_classes@[i].ast.0)); }
}
''', why='iter().try_fold(init, |acc, x| f) on a slice is `for x in iter { acc = f(acc, x)? } Ok(acc)` (std definition), the outer `?` propagates the error; the closure body is kept (the accumulator type is the one its `Ok::<Vec<MatchFunction>, _>` names), '
         '`cc.ast().try_into()` resolved to the impl its argument type selects (E9)'),
        Replace('E2+E3', 'Ok(Box::new(move |char_class, c| { $body }))', '''
let ghost reg = self.view();
let __cl = move |char_class: CharClassID, c: char| -> (b: bool)
    requires char_class.0 < match_functions@.len()
    ensures b == match_functions@[char_class.0 as int].match_fn.sem()(c)
{ $body };
proof {
    assert forall|id: CharClassID, c: char, b: bool| id.0 < reg.len() && #[trigger] call_ensures(__cl, (id, c), b) implies b == leaf_sem(reg[id.0 as int], c) by {
        assert(match_functions@[id.0 as int].match_fn.sem()(c) == leaf_sem(self.character_classes@[id.0 as int].ast.0, c));
    }
}
Ok(__cl)
''', why='the boxed `dyn Fn` is returned as `impl Fn` (Verus has no dyn Fn; the Box is dropped), closure parameters typed, closure contract from the unit description; the closure BODY incl. its unsafe block is kept verbatim'),
    ])

items = []
for it in cls.UNIT['items']:
    if isinstance(it, Fn) and not it.external_body:
        items.append(as_contract(it, 'contract proved in unit U-class'))
    elif isinstance(it, RawFile) and not os.path.isabs(it.path):
        items.append(RawFile(os.path.join(os.path.dirname(os.path.abspath(__file__)), '..', 'u_class', it.path), it.label))
    else:
        items.append(it)

items += [
    IdMacro(F_IDS, 'CharClassID', members=('new', 'as_usize', 'id'), index_for=(), specs=ID_SPECS),
    RawFile('../common/same_class_def.rs'),
    Struct(F_CAST, 'ComparableAst', derive=[]),
    Struct(F_CC, 'CharacterClass', derive=[]),
    Struct(F_REG, 'CharacterClassRegistry', derive=[]),
    RawFile('../common/cls_built.rs'),
    RawFile('reg_spec.rs'),
    cast_eq, cc_ast, create,
]

UNIT = dict(
    name='u_reg',
    externs=['regex_syntax'],
    header=cls.UNIT['header'],
    items=items,
)
