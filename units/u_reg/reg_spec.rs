// ---------------------------------------------------------------- U-reg: what the class predicate built from the registry must be
impl CharacterClassRegistry {
    /// the registered leaf ASTs, id = index
    pub open spec fn view(&self) -> Seq<Ast> {
        Seq::new(self.character_classes@.len(), |i: int| self.character_classes@[i].ast.0)
    }
}

// TRUSTED (rule U7): the string comparison `a.to_string().escape_default().to_string() == b.to_string().escape_default().to_string()`
// (Display of regex-syntax's AST + char escaping; no string formatting in Verus) compares the printed texts
#[verifier::external_body]
pub fn verif_printed_eq(a: &Ast, b: &Ast) -> (r: bool)
    ensures r == (printed(*a) == printed(*b))
{ unimplemented!() }

// std contract (its documented safety condition): `<[T]>::get_unchecked(i)` requires the index to be in bounds and then returns that element
pub assume_specification<T, I: std::slice::SliceIndex<[T]>>[ <[T]>::get_unchecked::<I> ](s: &[T], i: I) -> (r: &<I as std::slice::SliceIndex<[T]>>::Output)
    requires vstd::slice::SliceIndexSpec::in_bounds(&i, s),
    ensures vstd::slice::SliceIndexSpec::index_postcondition(&i, s, r);
