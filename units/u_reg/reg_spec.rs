// ---------------------------------------------------------------- U-reg: what the class predicate built from the registry must be
/// the closure accepts every registered class id (the safety condition of its `unsafe get_unchecked`) and computes the meaning of
/// the registered leaf AST (this is `cls_ok(cls_of(f), leaf_sem, reg)` of the language theorems, stated on the closure itself)
pub open spec fn cls_built<F: Fn(CharClassID, char) -> bool>(f: &F, reg: Seq<Ast>) -> bool {
    &&& forall|id: CharClassID, c: char| id.0 < reg.len() ==> #[trigger] call_requires(*f, (id, c))
    &&& forall|id: CharClassID, c: char, b: bool| id.0 < reg.len() && #[trigger] call_ensures(*f, (id, c), b) ==> b == leaf_sem(reg[id.0 as int], c)
}

impl CharacterClassRegistry {
    /// the registered leaf ASTs, id = index
    pub open spec fn view(&self) -> Seq<Ast> {
        Seq::new(self.character_classes@.len(), |i: int| self.character_classes@[i].ast.0)
    }
}

// TRUSTED (rule U7): the string comparison `a.to_string().escape_default().to_string() == b.to_string().escape_default().to_string()`
// (Display of regex-syntax's AST + char escaping; no string formatting in Verus) compares the printed texts
#[verifier::external_body]
pub fn verif_printed_eq(a: &Ast, b: &Ast) -> (r: bool)
    ensures r == (printed(*a) == printed(*b))
{ unimplemented!() }

// std contract (its documented safety condition): `<[T]>::get_unchecked(i)` requires the index to be in bounds and then returns that element
pub assume_specification<T, I: std::slice::SliceIndex<[T]>>[ <[T]>::get_unchecked::<I> ](s: &[T], i: I) -> (r: &<I as std::slice::SliceIndex<[T]>>::Output)
    requires vstd::slice::SliceIndexSpec::in_bounds(&i, s),
    ensures vstd::slice::SliceIndexSpec::index_postcondition(&i, s, r);
