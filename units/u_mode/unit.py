# U-mode: CompiledScannerMode::has_transition and the run-time part of ScannerImpl (C06, C07, C01/C04 plumbing).
# CompiledDfa::find_from is used through its contract only (external_body; proved in U-dfa).
import os, sys, importlib.util
from extract import *

def _load(name):
    p = os.path.join(os.path.dirname(os.path.abspath(__file__)), '..', name, 'unit.py')
    spec = importlib.util.spec_from_file_location('unit_' + name + '_for_mode', p)
    m = importlib.util.module_from_spec(spec)
    spec.loader.exec_module(m)
    return m

dfa = _load('u_dfa')
F_DFA, F_LA, F_IDS, F_SPAN, F_MATCH, ID_SPECS = dfa.F_DFA, dfa.F_LA, dfa.F_IDS, dfa.F_SPAN, dfa.F_MATCH, dfa.ID_SPECS
F_MODE = 'scnr/src/internal/compiled_scanner_mode.rs'
F_SI = 'scnr/src/internal/scanner_impl.rs'

BOUND = 'Fn(CharClassID, char) -> bool'

has_transition = Fn(
    F_MODE, 'CompiledScannerMode', 'has_transition', ret='r',
    spec='''
requires sorted_tr(self.transitions@)
ensures transition_of(self.transitions@, token_type, r), r == tr_lookup(self.transitions@, token_type)
''',
    props=['C06'],
    edits=[
        Ins('body_start', None, 'let ghost ts = self.transitions@;'),
        ForLoop('for (tok_type, scanner) in &self.transitions {', it='__it0', label='has_transition.loop', spec='''
invariant
    __it0.obeys_prophetic_iter_laws(), __it0.decrease() is Some,
    ts == self.transitions@, sorted_tr(ts),
    0 <= ts.len() - __it0.remaining().len() <= ts.len(),
    forall|q: int| 0 <= q < __it0.remaining().len() ==> *#[trigger] __it0.remaining()[q] == ts[ts.len() - __it0.remaining().len() + q],
    forall|i: int| 0 <= i < ts.len() - __it0.remaining().len() ==> #[trigger] ts[i].0.0 as usize != token_type,
ensures
    __it0.remaining().len() == 0,
decreases __it0.decrease()->0
''', body_pre='let ghost n = ts.len() - __it0.remaining().len();'),
        Ins('after', 'for (tok_type, scanner) in &self.transitions {', '''
proof { assert((*tok_type, *scanner) == ts[n]); }
'''),
        Replace('E6', 'std::cmp::Ordering::Less => return $e ,', '''std::cmp::Ordering::Less => {
    proof {
        assert forall|i: int| 0 <= i < ts.len() implies #[trigger] ts[i].0.0 as usize != token_type by {
            if i > n { assert(ts[n].0.0 < ts[i].0.0); }
        }
        lemma_lookup_is(ts, token_type, None);
    }
    return $e
},''', why='match arm expression wrapped in a block to host a proof block'),
        Replace('E6', 'std::cmp::Ordering::Equal => return $e ,', '''std::cmp::Ordering::Equal => {
    proof { lemma_lookup_is(ts, token_type, Some(scanner.0)); }
    return $e
},''', why='match arm expression wrapped in a block to host a proof block'),
        Tail('''
proof { lemma_lookup_is(ts, token_type, None); }
''', label='has_transition.exhausted'),
    ])

execute_switch = Fn(
    F_SI, 'ScannerImpl', 'execute_possible_mode_switch',
    spec='''
requires scanner_wf(*old(self)), mode_ok(*old(self))
ensures
    final(self).scanner_modes == old(self).scanner_modes,
    final(self).match_char_class == old(self).match_char_class,
    final(self).character_classes == old(self).character_classes,
    final(self).current_mode == next_mode(*old(self), current_match.token_type),
    mode_ok(*final(self)),
''',
    props=['C06'],
    edits=[
        Ins('body_start', None, '''
proof { assert(mode_wf(self.scanner_modes@[self.current_mode as int], self.scanner_modes@.len() as int)); }
'''),
        Ins('after', 'if let Some(next_mode) = $_ {', '''
proof {
    let ts = self.scanner_modes@[self.current_mode as int].transitions@;
    let i = choose|i: int| 0 <= i < ts.len() && #[trigger] ts[i].0.0 as usize == current_match.token_type && ts[i].1.0 == next_mode;
    assert(ts[i].1.0 < self.scanner_modes@.len());
}
'''),
    ])

reset = Fn(F_SI, 'ScannerImpl', 'reset',
           spec='''
ensures
    final(self).current_mode == 0,
    final(self).scanner_modes == old(self).scanner_modes,
    final(self).match_char_class == old(self).match_char_class,
    final(self).character_classes == old(self).character_classes,
''', props=['C06', 'C12'])

si_find_from = Fn(
    F_SI, 'ScannerImpl', 'find_from', ret='res',
    spec='''
requires
    scanner_wf(*old(self)), mode_ok(*old(self)),
    char_indices.obeys_prophetic_iter_laws(), char_indices.decrease() is Some,
    exists|n: int| ci_at(char_indices.remaining(), input@, n),
ensures
    same_config(*old(self), *final(self)), scanner_wf(*final(self)), mode_ok(*final(self)),
    final(self).current_mode == (match res { Some(m) => next_mode(*old(self), m.token_type), None => old(self).current_mode }),
    forall|n: int| ci_at(char_indices.remaining(), input@, n) ==>
        find_post(cur_dfa(*old(self)), cur_cls(*old(self)), input@.skip(n), blen(input@.take(n)), res),
''',
    props=['C01', 'C04', 'C06', 'C07'],
    edits=[
        Ins('body_start', None, 'let ghost s0 = *self;'),
        Ins('after', 'if let Some(matched) = self.peek_from(input, char_indices) {', '''
let ghost s1 = *self;
proof {
    assert(mode_wf(s0.scanner_modes@[s0.current_mode as int], s0.scanner_modes@.len() as int));
    assert(next_mode(s1, matched.token_type) == next_mode(s0, matched.token_type));
}
'''),
        Ins('before', 'return Some(matched);', '''
proof {
    assert(same_config(s0, *self));
    lemma_same_config_wf(s0, *self);
}
'''),
    ])

si_peek_from = Fn(
    F_SI, 'ScannerImpl', 'peek_from', ret='res',
    spec='''
requires
    scanner_wf(*old(self)), mode_ok(*old(self)),
    char_indices.obeys_prophetic_iter_laws(), char_indices.decrease() is Some,
    exists|n: int| ci_at(char_indices.remaining(), input@, n),
ensures
    same_config(*old(self), *final(self)), scanner_wf(*final(self)), mode_ok(*final(self)),
    final(self).current_mode == old(self).current_mode,
    forall|n: int| ci_at(char_indices.remaining(), input@, n) ==>
        find_post(cur_dfa(*old(self)), cur_cls(*old(self)), input@.skip(n), blen(input@.take(n)), res),
''',
    props=['C01', 'C04', 'C06', 'C07', 'C11'],
    edits=[
        Ins('body_start', None, '''
let ghost s0 = *self;
proof { assert(mode_wf(s0.scanner_modes@[s0.current_mode as int], s0.scanner_modes@.len() as int)); }
'''),
        Ins('before', 'return Some(matched);', '''
proof {
    assert(same_config(s0, *self));
    lemma_same_config_wf(s0, *self);
}
'''),
        Tail('''
proof {
    assert(same_config(s0, *self));
    lemma_same_config_wf(s0, *self);
}
'''),
    ])

si_has_transition = Fn(
    F_SI, 'ScannerImpl', 'has_transition', ret='r',
    spec='''
requires scanner_wf(*self), mode_ok(*self)
ensures r == tr_lookup(self.scanner_modes@[self.current_mode as int].transitions@, token_type),
    r matches Some(m) ==> m < self.scanner_modes@.len(),
''',
    props=['C06', 'C11'],
    edits=[
        Ins('body_start', None, '''
proof { assert(mode_wf(self.scanner_modes@[self.current_mode as int], self.scanner_modes@.len() as int)); }
'''),
        Tail('''
proof {
    if let Some(m) = __res {
        let ts = self.scanner_modes@[self.current_mode as int].transitions@;
        let i = choose|i: int| 0 <= i < ts.len() && #[trigger] ts[i].0.0 as usize == token_type && ts[i].1.0 == m;
        assert(ts[i].1.0 < self.scanner_modes@.len());
    }
}
'''),
    ])

current_mode = Fn(F_SI, 'ScannerModeSwitcher for ScannerImpl', 'current_mode', ret='r', as_inherent=True,
                  spec='ensures r == self.current_mode', props=['C06'])
set_mode = Fn(F_SI, 'ScannerModeSwitcher for ScannerImpl', 'set_mode', as_inherent=True,
              spec='''
ensures
    final(self).current_mode == mode,
    final(self).scanner_modes == old(self).scanner_modes,
    final(self).match_char_class == old(self).match_char_class,
    final(self).character_classes == old(self).character_classes,
''', props=['C06'])
mode_name = Fn(F_SI, 'ScannerModeSwitcher for ScannerImpl', 'mode_name', ret='r', as_inherent=True,
               spec='''
ensures
    index < self.scanner_modes@.len() ==> r is Some && r->0@ == self.scanner_modes@[index as int].name@,
    index >= self.scanner_modes@.len() ==> r is None,
''', props=['C06'],
               edits=[Replace('E3', '.map(|mode| $body)', '.map(|mode: &CompiledScannerMode| -> (r: &str) ensures r@ == mode.name@ { $body })',
                              why='closure parameter typed, body braced, closure contract added')])

TYPES = [
    RawFile('../common/std_prelude.rs'),
    IdMacro(F_IDS, 'StateSetID', members=('new', 'as_usize'), specs=ID_SPECS),
    IdMacro(F_IDS, 'CharClassID', members=('as_usize',), index_for=(), specs=ID_SPECS),
    IdMacro(F_IDS, 'TerminalID', members=('as_usize',), index_for=(), specs=ID_SPECS),
    IdMacro(F_IDS, 'ScannerModeID', members=('as_usize',), index_for=(), specs=ID_SPECS),
    Struct(F_SPAN, 'Span', derive=['Clone', 'Copy']),
    Struct(F_MATCH, 'Match', derive=['Clone', 'Copy']),
    Struct(F_DFA, 'StateData', derive=[]),
    Struct(F_LA, 'CompiledLookahead', derive=[]),
    Struct(F_DFA, 'CompiledDfa', derive=[]),
    RawFile('../common/dfa_wf.rs'),
    RawFile('../common/dfa_match.rs'),
    RawFile('../u_dfa/spec.rs'),
]

dfa_find_from_contract = Fn(F_DFA, 'CompiledDfa', 'find_from', ret='res', spec=dfa.find_from.spec, external_body=True,
                            trusted_reason='contract proved in unit U-dfa')

MODE_ITEMS = [
    Struct(F_MODE, 'CompiledScannerMode', derive=[]),
    Raw('''
// opaque: the registry is only stored, never inspected, by the functions of this unit
#[verifier::external_body]
pub struct CharacterClassRegistry { _private: () }
''', label='opaque CharacterClassRegistry'),
    Struct(F_SI, 'ScannerImpl', derive=[], dyn_param='M'),
    RawFile('../common/scanner_wf.rs'),
    RawFile(os.path.join(os.path.dirname(os.path.abspath(__file__)), 'mode_spec.rs')),
    Fn(F_MATCH, 'Match', 'token_type', ret='r', spec='ensures r == self.token_type', props=['C06']),
    Fn(F_MATCH, 'Match', 'start', ret='r', spec='ensures r == self.span.start'),
    Fn(F_MATCH, 'Match', 'end', ret='r', spec='ensures r == self.span.end'),
    Fn(F_MATCH, 'Match', 'span', ret='r', spec='ensures r == self.span'),
    Fn(F_MATCH, 'Match', 'is_empty', ret='r', spec='ensures r == (self.span.start >= self.span.end)'),
    Fn(F_SPAN, 'Span', 'is_empty', ret='r', spec='ensures r == (self.start >= self.end)'),
    dfa_find_from_contract,
    has_transition,
    execute_switch,
    reset,
    si_find_from,
    si_peek_from,
    si_has_transition,
    current_mode,
    set_mode,
    mode_name,
]

GENERIC_TYPES = [('ScannerImpl', 'M', BOUND)]

UNIT = dict(
    name='u_mode',
    externs=['rustc_hash'],
    header=dfa.UNIT['header'] + 'use std::sync::Arc;\n',
    generic_types=GENERIC_TYPES,
    items=TYPES + MODE_ITEMS,
)
