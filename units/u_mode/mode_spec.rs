// ---------------------------------------------------------------- U-mode specification (written from property C06 / C07)

/// the property's statement: r is the target of the transition configured for token type tt, if any
pub open spec fn transition_of(ts: Seq<(TerminalID, ScannerModeID)>, tt: usize, r: Option<usize>) -> bool {
    match r {
        Some(m) => exists|i: int| 0 <= i < ts.len() && #[trigger] ts[i].0.0 as usize == tt && ts[i].1.0 == m,
        None => forall|i: int| 0 <= i < ts.len() ==> #[trigger] ts[i].0.0 as usize != tt,
    }
}

pub open spec fn tr_lookup(ts: Seq<(TerminalID, ScannerModeID)>, tt: usize) -> Option<usize> {
    choose|r: Option<usize>| transition_of(ts, tt, r)
}

pub proof fn lemma_transition_unique(ts: Seq<(TerminalID, ScannerModeID)>, tt: usize, r1: Option<usize>, r2: Option<usize>)
    requires sorted_tr(ts), transition_of(ts, tt, r1), transition_of(ts, tt, r2)
    ensures r1 == r2
{
    match (r1, r2) {
        (Some(a), Some(b)) => {
            let i = choose|i: int| 0 <= i < ts.len() && #[trigger] ts[i].0.0 as usize == tt && ts[i].1.0 == a;
            let j = choose|j: int| 0 <= j < ts.len() && #[trigger] ts[j].0.0 as usize == tt && ts[j].1.0 == b;
            if i < j { assert(ts[i].0.0 < ts[j].0.0); }
            if j < i { assert(ts[j].0.0 < ts[i].0.0); }
        }
        (Some(a), None) => {
            let i = choose|i: int| 0 <= i < ts.len() && #[trigger] ts[i].0.0 as usize == tt && ts[i].1.0 == a;
        }
        (None, Some(b)) => {
            let j = choose|j: int| 0 <= j < ts.len() && #[trigger] ts[j].0.0 as usize == tt && ts[j].1.0 == b;
        }
        (None, None) => {}
    }
}

pub proof fn lemma_lookup_is(ts: Seq<(TerminalID, ScannerModeID)>, tt: usize, r: Option<usize>)
    requires sorted_tr(ts), transition_of(ts, tt, r)
    ensures tr_lookup(ts, tt) == r
{
    lemma_transition_unique(ts, tt, r, tr_lookup(ts, tt));
}

pub open spec fn mode_ok<M: Fn(CharClassID, char) -> bool>(s: ScannerImpl<M>) -> bool {
    s.current_mode < s.scanner_modes@.len()
}

pub open spec fn dfa_core_eq(a: CompiledDfa, b: CompiledDfa) -> bool {
    core(a) == core(b)
}

/// nothing but the scratch buffers of the automata (and possibly the current mode) differs
pub open spec fn same_config<M: Fn(CharClassID, char) -> bool>(a: ScannerImpl<M>, b: ScannerImpl<M>) -> bool {
    &&& a.scanner_modes@.len() == b.scanner_modes@.len()
    &&& a.match_char_class == b.match_char_class
    &&& a.character_classes == b.character_classes
    &&& forall|i: int| 0 <= i < a.scanner_modes@.len() ==> {
            &&& (#[trigger] a.scanner_modes@[i]).name == b.scanner_modes@[i].name
            &&& a.scanner_modes@[i].transitions == b.scanner_modes@[i].transitions
            &&& dfa_core_eq(a.scanner_modes@[i].dfa, b.scanner_modes@[i].dfa)
        }
}

pub open spec fn cur_dfa<M: Fn(CharClassID, char) -> bool>(s: ScannerImpl<M>) -> DfaCore {
    core(s.scanner_modes@[s.current_mode as int].dfa)
}

pub open spec fn cur_cls<M: Fn(CharClassID, char) -> bool>(s: ScannerImpl<M>) -> Cls {
    cls_of(&*s.match_char_class)
}

/// mode after a token of type tt was consumed in the current mode
pub open spec fn next_mode<M: Fn(CharClassID, char) -> bool>(s: ScannerImpl<M>, tt: usize) -> usize {
    match tr_lookup(s.scanner_modes@[s.current_mode as int].transitions@, tt) {
        Some(m) => m,
        None => s.current_mode,
    }
}

pub proof fn lemma_same_config_wf<M: Fn(CharClassID, char) -> bool>(a: ScannerImpl<M>, b: ScannerImpl<M>)
    requires scanner_wf(a), same_config(a, b)
    ensures scanner_wf(b)
{
    assert forall|i: int| 0 <= i < b.scanner_modes@.len() implies mode_wf(#[trigger] b.scanner_modes@[i], b.scanner_modes@.len() as int) by {
        assert(mode_wf(a.scanner_modes@[i], a.scanner_modes@.len() as int));
    }
    assert forall|i: int| 0 <= i < b.scanner_modes@.len() implies cls_functional(&*b.match_char_class, core((#[trigger] b.scanner_modes@[i]).dfa)) by {
        assert(cls_functional(&*a.match_char_class, core(a.scanner_modes@[i].dfa)));
        assert(dfa_core_eq(a.scanner_modes@[i].dfa, b.scanner_modes@[i].dfa));
    }
}

pub proof fn lemma_same_config_trans<M: Fn(CharClassID, char) -> bool>(a: ScannerImpl<M>, b: ScannerImpl<M>, c: ScannerImpl<M>)
    requires same_config(a, b), same_config(b, c)
    ensures same_config(a, c)
{
    assert forall|i: int| 0 <= i < a.scanner_modes@.len() implies {
            &&& (#[trigger] a.scanner_modes@[i]).name == c.scanner_modes@[i].name
            &&& a.scanner_modes@[i].transitions == c.scanner_modes@[i].transitions
            &&& dfa_core_eq(a.scanner_modes@[i].dfa, c.scanner_modes@[i].dfa)
        } by {
        assert(a.scanner_modes@[i].name == b.scanner_modes@[i].name);
        assert(b.scanner_modes@[i].name == c.scanner_modes@[i].name);
    }
}
