# U-bld: the public construction path above ScannerImpl::try_from (C01 last clause, C02, C07 producer side of scanner_wf): ScannerBuilder::{new, add_scanner_mode,
# add_scanner_modes, build_uncached}, impl TryFrom<Vec<ScannerMode>> for Scanner, Pattern::{new, with_lookahead}, Lookahead::new and accessors.
# The two ScannerImpl::try_from are used through their contracts (proved in U-build).
import os, importlib.util
from extract import *

def _load(name):
    p = os.path.join(os.path.dirname(os.path.abspath(__file__)), '..', name, 'unit.py')
    spec = importlib.util.spec_from_file_location('unit_' + name + '_for_bld', p)
    m = importlib.util.module_from_spec(spec)
    spec.loader.exec_module(m)
    return m

bld = _load('u_build')
F_SB = 'scnr/src/scanner_builder.rs'
F_SC = 'scnr/src/scanner.rs'
F_PAT = 'scnr/src/pattern.rs'
F_SM = 'scnr/src/scanner_mode.rs'
P = ['C01', 'C02', 'C07']
BOUND = 'Fn(CharClassID, char) -> bool'

items = []
for it in bld.UNIT['items']:
    if isinstance(it, Fn) and not it.external_body and it.qual in ('ScannerImpl::try_from__vec', 'ScannerImpl::try_from__slice'):
        items.append(as_contract(it, 'contract proved in unit U-build'))
    elif isinstance(it, RawFile) and not os.path.isabs(it.path):
        items.append(RawFile(os.path.join(os.path.dirname(os.path.abspath(__file__)), '..', 'u_build', it.path), it.label))
    else:
        items.append(it)

BUILT = '''
ensures
    // the scanner handed to the user is exactly what ScannerImpl::try_from builds for the modes added so far: well formed (the assumption of every scan-side
    // contract), mode k compiled from mode k of the configuration, starting in mode 0, with the class predicate of its own registry
    r matches Ok(sc) ==> scanner_built(%s, sc.inner),
'''

items += [
    Struct(F_SC, 'Scanner', derive=[]),
    Struct(F_SB, 'ScannerBuilder', derive=[]),
    Fn(F_SB, 'ScannerBuilder', 'new', ret='r', props=P, spec='ensures r.scanner_modes@.len() == 0'),
    Fn(F_SB, 'ScannerBuilder', 'add_scanner_mode', ret='r', props=P, spec='ensures r.scanner_modes@ == self.scanner_modes@.push(scanner_mode)'),
    Fn(F_SB, 'ScannerBuilder', 'add_scanner_modes', ret='r', props=P, spec='ensures r.scanner_modes@ == self.scanner_modes@ + scanner_modes@',
       edits=[Ins('before', 'self', '''
proof {
    assert forall|j: int| 0 <= j < scanner_modes@.len() implies #[trigger] __self.scanner_modes@[self.scanner_modes@.len() + j] == scanner_modes@[j] by {
        assert(cloned::<ScannerMode>(scanner_modes@[j], __self.scanner_modes@[self.scanner_modes@.len() + j]));
    }
    assert(__self.scanner_modes@ =~= self.scanner_modes@ + scanner_modes@);
}
''', occ=2)]),
    Fn(F_SB, 'ScannerBuilder', 'build_uncached', ret='r', props=P,
       spec='requires valid_config(self.scanner_modes@), modes_fit(self.scanner_modes@)' + BUILT % 'self.scanner_modes@',
       edits=[Replace('E9', 'self.scanner_modes.try_into()?', 'ScannerImpl::try_from__vec(self.scanner_modes)?', why='trait dispatch resolved by argument and field type (TryFrom<Vec<ScannerMode>> for ScannerImpl)')]),
    Fn(F_SC, 'TryFrom<Vec<ScannerMode>> for Scanner', 'try_from', ret='r', rename='try_from__vec', impl_as='Scanner', qual_as='Scanner', props=P,
       spec='requires valid_config(scanner_modes@), modes_fit(scanner_modes@)' + BUILT % 'scanner_modes@',
       edits=[Replace('E9', 'scanner_modes.try_into()?', 'ScannerImpl::try_from__vec(scanner_modes)?', why='trait dispatch resolved by argument and field type')]),
    Fn(F_PAT, 'Pattern', 'new', ret='r', props=P, spec='ensures r.pattern == pattern, r.token_type == token_type, r.lookahead is None'),
    Fn(F_PAT, 'Pattern', 'with_lookahead', ret='r', props=P + ['C04'], spec='ensures r.pattern == self.pattern, r.token_type == self.token_type, r.lookahead == Some(lookahead)'),
    Fn(F_PAT, 'Lookahead', 'new', ret='r', props=P + ['C04'], spec='ensures r.is_positive == is_positive, r.pattern == pattern'),
    Fn(F_PAT, 'Lookahead', 'is_positive', ret='r', props=P + ['C04'], spec='ensures r == self.is_positive'),
]

for _f in items:
    if isinstance(_f, Fn) and _f.qual == 'ScannerBuilder::build_uncached':
        _f.extra_generics = ['M: ' + BOUND]  # the return type Scanner became Scanner<M> (rule E2)

UNIT = dict(
    name='u_bld',
    externs=bld.UNIT['externs'],
    header=bld.UNIT['header'],
    generic_types=[('ScannerImpl', 'M', BOUND), ('Scanner', 'M', BOUND)],
    items=items,
)
