# U-bld: the public construction path above ScannerImpl::try_from (C01 last clause, C02, C07 producer side of scanner_wf): ScannerBuilder::{new, add_scanner_mode,
# add_scanner_modes, build_uncached}, impl TryFrom<Vec<ScannerMode>> for Scanner, Pattern::{new, with_lookahead}, Lookahead::new and accessors.
# The two ScannerImpl::try_from are used through their contracts (proved in U-build).
import os, importlib.util
from extract import *

def _load(name):
    p = os.path.join(os.path.dirname(os.path.abspath(__file__)), '..', name, 'unit.py')
    spec = importlib.util.spec_from_file_location('unit_' + name + '_for_bld', p)
    m = importlib.util.module_from_spec(spec)
    spec.loader.exec_module(m)
    return m

bld = _load('u_build')
F_SB = 'scnr/src/scanner_builder.rs'
F_SC = 'scnr/src/scanner.rs'
F_PAT = 'scnr/src/pattern.rs'
F_SM = 'scnr/src/scanner_mode.rs'
P = ['C01', 'C02', 'C07']
BOUND = 'Fn(CharClassID, char) -> bool'

items = []
for it in bld.UNIT['items']:
    if isinstance(it, Fn) and not it.external_body and it.qual in ('ScannerImpl::try_from__vec', 'ScannerImpl::try_from__slice'):
        items.append(as_contract(it, 'contract proved in unit U-build'))
    elif isinstance(it, RawFile) and not os.path.isabs(it.path):
        items.append(RawFile(os.path.join(os.path.dirname(os.path.abspath(__file__)), '..', 'u_build', it.path), it.label))
    else:
        items.append(it)

BUILT = '''
ensures
    // the scanner handed to the user is exactly what ScannerImpl::try_from builds for the modes added so far: well formed (the assumption of every scan-side
    // contract), mode k compiled from mode k of the configuration, starting in mode 0, with the class predicate of its own registry
    r matches Ok(sc) ==> scanner_built(%s, sc.inner),
'''

items += [
    Struct(F_SC, 'Scanner', derive=[]),
    Struct(F_SB, 'ScannerBuilder', derive=[]),
    Fn(F_SB, 'ScannerBuilder', 'new', ret='r', props=P, spec='ensures r.scanner_modes@.len() == 0'),
    Fn(F_SB, 'ScannerBuilder', 'add_scanner_mode', ret='r', props=P, spec='ensures r.scanner_modes@ == self.scanner_modes@.push(scanner_mode)'),
    Fn(F_SB, 'ScannerBuilder', 'add_scanner_modes', ret='r', props=P, spec='ensures r.scanner_modes@ == self.scanner_modes@ + scanner_modes@',
       edits=[Ins('before', 'self', '''
proof {
    assert forall|j: int| 0 <= j < scanner_modes@.len() implies #[trigger] __self.scanner_modes@[self.scanner_modes@.len() + j] == scanner_modes@[j] by {
        assert(cloned::<ScannerMode>(scanner_modes@[j], __self.scanner_modes@[self.scanner_modes@.len() + j]));
    }
    assert(__self.scanner_modes@ =~= self.scanner_modes@ + scanner_modes@);
}
''', occ=2)]),
    Fn(F_SB, 'ScannerBuilder', 'build_uncached', ret='r', props=P,
       spec='requires valid_config(self.scanner_modes@), modes_fit(self.scanner_modes@)' + BUILT % 'self.scanner_modes@',
       edits=[Replace('E9', 'self.scanner_modes.try_into()?', 'ScannerImpl::try_from__vec(self.scanner_modes)?', why='trait dispatch resolved by argument and field type (TryFrom<Vec<ScannerMode>> for ScannerImpl)')]),
    Fn(F_SC, 'TryFrom<Vec<ScannerMode>> for Scanner', 'try_from', ret='r', rename='try_from__vec', impl_as='Scanner', qual_as='Scanner', props=P,
       spec='requires valid_config(scanner_modes@), modes_fit(scanner_modes@)' + BUILT % 'scanner_modes@',
       edits=[Replace('E9', 'scanner_modes.try_into()?', 'ScannerImpl::try_from__vec(scanner_modes)?', why='trait dispatch resolved by argument and field type')]),
    Fn(F_PAT, 'Pattern', 'new', ret='r', props=P, spec='ensures r.pattern == pattern, r.token_type == token_type, r.lookahead is None'),
    Fn(F_PAT, 'Pattern', 'with_lookahead', ret='r', props=P + ['C04'], spec='ensures r.pattern == self.pattern, r.token_type == self.token_type, r.lookahead == Some(lookahead)'),
    Fn(F_PAT, 'Lookahead', 'new', ret='r', props=P + ['C04'], spec='ensures r.is_positive == is_positive, r.pattern == pattern'),
    Fn(F_PAT, 'Lookahead', 'is_positive', ret='r', props=P + ['C04'], spec='ensures r == self.is_positive'),
]


# ---- the generic constructors, MONOMORPHISED (rule E9) at the collection type the crate itself and every example use: P := Vec<..>, T := Vec<(usize, usize)>.
# For an arbitrary IntoIterator nothing can be stated (its items are whatever the caller's iterator yields; it need not even terminate).
PUSH_LOOP = '''{
    let mut __v: Vec<%(ety)s> = Vec::new();
    let mut __it = %(src)s.into_iter();
    let ghost __all = __it.remaining();
    loop
        invariant
            __it.obeys_prophetic_iter_laws(), __it.decrease() is Some,
            __all.len() == __v@.len() + __it.remaining().len(),
            forall|q: int| 0 <= q < __it.remaining().len() ==> __it.remaining()[q] == __all[__v@.len() + q],
            forall|k: int| 0 <= k < __v@.len() ==> %(inv)s,
            %(xinv)s
        ensures __it.remaining().len() == 0
        decreases __it.decrease()->0
    {
        let Some(%(pat)s) = __it.next() else { break };
        %(pre)s
        __v.push(%(item)s);
        %(post)s
    }
    __v
}'''

sm_new = Fn(F_SM, 'ScannerMode', 'new', ret='r', props=P + ['C06'],
    sig_replace=[('< P , T >', ''), ('patterns : P', 'patterns: Vec<Pattern>'), ('mode_transitions : T', 'mode_transitions: Vec<(usize, usize)>'),
                 ('where P : IntoIterator < Item = Pattern > , T : IntoIterator < Item = ( usize , usize ) > ,', '')],
    spec='''
ensures
    r.name@ == name@, r.patterns@ == patterns@,
    r.transitions@.len() == mode_transitions@.len(),
    // token type numbers are stored modulo 2^32 (TerminalIDBase), target modes as given, order kept
    forall|k: int| 0 <= k < mode_transitions@.len() ==> #[trigger] r.transitions@[k] == (TerminalID(mode_transitions@[k].0 as u32), ScannerModeID(mode_transitions@[k].1)),
''',
    edits=[
        Ins('body_start', None, 'let ghost __pats0 = patterns@; let ghost __mt0 = mode_transitions@;'),
        Replace('E11', 'let patterns = patterns.into_iter().collect::<Vec<_>>();',
                'let patterns = ' + PUSH_LOOP % dict(ety='Pattern', src='patterns', inv='#[trigger] __v@[k] == __all[k]', xinv='', pat='__x', pre='', item='__x', post='') + ';\nproof { assert(patterns@ =~= __pats0); }',
                why='into_iter().collect::<Vec<_>>() is the push loop over the items in order (std definition of FromIterator for Vec)'),
        Replace('E11', 'let transitions = mode_transitions.into_iter().map(|(t, m)| $body).collect::<Vec<_>>();',
                'let transitions = ' + PUSH_LOOP % dict(ety='(TerminalID, ScannerModeID)', src='mode_transitions',
                    inv='#[trigger] __v@[k] == (TerminalID(__all[k].0 as u32), ScannerModeID(__all[k].1))', xinv='', pat='(t, m)', pre='', item='$body', post='') + ';',
                why='into_iter().map(f).collect::<Vec<_>>() is the push loop applying f to the items in order; closure body verbatim'),
    ])

ssb_new = Fn(F_SB, 'SimpleScannerBuilder', 'new', ret='r', props=P,
    sig_replace=[('< P >', ''), ('patterns : P', 'patterns: Vec<Pattern>'), ('where P : IntoIterator < Item = Pattern > ,', '')],
    spec='''
ensures r.scanner_mode.name@ == "INITIAL"@, r.scanner_mode.patterns@ == patterns@, r.scanner_mode.transitions@.len() == 0
''')

add_patterns = Fn(F_SB, 'ScannerBuilder', 'add_patterns', ret='r', props=P,
    sig_replace=[('< P , S >', '<S>'), ('patterns : P', 'patterns: Vec<S>'), ('where P : IntoIterator < Item = S > , S : AsRef < str > ,', 'where S: AsRef<str>,')],
    spec='''
ensures
    // C01: with add_patterns the token type is the pattern's index; one mode named INITIAL, no lookaheads, no transitions
    r.scanner_mode.name@ == "INITIAL"@, r.scanner_mode.transitions@.len() == 0,
    r.scanner_mode.patterns@.len() == patterns@.len(),
    forall|i: int| 0 <= i < patterns@.len() ==> (#[trigger] r.scanner_mode.patterns@[i]).token_type == i && r.scanner_mode.patterns@[i].lookahead is None,
''',
    edits=[
        Replace('E11', 'let patterns = patterns.into_iter().enumerate().map(|(i, pattern)| $body).collect::<Vec<_>>();',
                'let ghost __n0 = patterns@.len();\nlet mut __i: usize = 0;\nlet patterns = ' + PUSH_LOOP % dict(ety='Pattern', src='patterns',
                    inv='(#[trigger] __v@[k]).token_type == k && __v@[k].lookahead is None', xinv='__i == __v@.len(),', pat='pattern',
                    pre='let i = __i;', item='$body', post='proof { axiom_vec_len_bound(&__v); }\n        __i += 1;') + ';\nproof { assert(patterns@.len() == __n0); }',
                why='into_iter().enumerate().map(f).collect::<Vec<_>>() is the push loop with a counter started at 0 and incremented after every item (std definition of Enumerate); closure body verbatim'),
    ])

items += [
    Struct(F_SB, 'SimpleScannerBuilder', derive=[]),
    Raw('''
// TRUSTED: a Vec holds at most usize::MAX elements (Vec::len returns usize)
pub axiom fn axiom_vec_len_bound<T>(v: &Vec<T>)
    ensures v@.len() <= usize::MAX;
#[verifier::external_trait_specification]
pub trait ExAsRef<T: core::marker::PointeeSized>: core::marker::PointeeSized {
    type ExternalTraitSpecificationFor: core::convert::AsRef<T>;
    fn as_ref(&self) -> &T;
}
''', label='trusted: Vec length bound; AsRef declared (no contract)'),
    sm_new, ssb_new, add_patterns,
]

for _f in items:
    if isinstance(_f, Fn) and _f.qual == 'ScannerBuilder::build_uncached':
        _f.extra_generics = ['M: ' + BOUND]  # the return type Scanner became Scanner<M> (rule E2)

UNIT = dict(
    name='u_bld',
    externs=bld.UNIT['externs'],
    header=bld.UNIT['header'],
    generic_types=[('ScannerImpl', 'M', BOUND), ('Scanner', 'M', BOUND)],
    items=items,
)
