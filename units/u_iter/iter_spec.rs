// ---------------------------------------------------------------- U-iter specification (from properties C01 C04 C07 C09 C10 C11 C12)

/// char index k starts a line
pub open spec fn starts_line(input: Seq<char>, k: int) -> bool {
    0 <= k <= input.len() && (k == 0 || input[k - 1] == '\n')
}
/// byte offset b is a line start
pub open spec fn is_line_start(input: Seq<char>, b: nat) -> bool {
    exists|k: int| #[trigger] starts_line(input, k) && boff(input, k) == b
}
pub open spec fn sorted_strict(s: Seq<usize>) -> bool { forall|i: int, j: int| 0 <= i < j < s.len() ==> s[i] < s[j] }

/// all line starts at char indices strictly below k are recorded
pub open spec fn complete_upto(input: Seq<char>, lo: Seq<usize>, k: int) -> bool {
    forall|j: int| 0 <= j < k && #[trigger] starts_line(input, j) ==> lo.contains(boff(input, j) as usize)
}
pub open spec fn lo_wf(input: Seq<char>, lo: Seq<usize>) -> bool {
    &&& sorted_strict(lo)
    &&& lo.len() >= 1 && lo[0] == 0
    &&& forall|i: int| 0 <= i < lo.len() ==> is_line_start(input, #[trigger] lo[i] as nat)
}

/// number of '\n' among the first k chars
pub open spec fn nl_count(input: Seq<char>, k: int) -> nat
    decreases k
{
    if k <= 0 { 0 } else { nl_count(input, k - 1) + if input[k - 1] == '\n' { 1nat } else { 0nat } }
}
/// char index of the start of the line containing char index k
pub open spec fn line_start_of(input: Seq<char>, k: int) -> int
    decreases k
{
    if k <= 0 { 0 } else if input[k - 1] == '\n' { k } else { line_start_of(input, k - 1) }
}
/// the property's statement: 1-based line = 1 + number of '\n' before the offset, 1-based byte column within the line
pub open spec fn true_line(input: Seq<char>, k: int) -> nat { 1 + nl_count(input, k) }
pub open spec fn true_col(input: Seq<char>, k: int) -> int { boff(input, k) - boff(input, line_start_of(input, k)) + 1 }

// ---- cursor
/// the iterator was created over input[offset..] (offset = byte offset of char m) and stands before char n
#[verifier::prophetic]
pub open spec fn cursor<M: Fn(CharClassID, char) -> bool>(it: FindMatchesImpl<M>, m: int, n: int) -> bool {
    let inp = it.input@;
    &&& 0 <= m <= n <= inp.len()
    &&& it.offset == boff(inp, m)
    &&& it.char_indices.remaining() == ci_seq(inp.skip(n), (boff(inp, n) - boff(inp, m)) as nat)
}
#[verifier::prophetic]
pub open spec fn cur<M: Fn(CharClassID, char) -> bool>(it: FindMatchesImpl<M>) -> (int, int) {
    choose|p: (int, int)| cursor(it, p.0, p.1)
}
/// char index of the scan position
#[verifier::prophetic]
pub open spec fn cur_n<M: Fn(CharClassID, char) -> bool>(it: FindMatchesImpl<M>) -> int { cur(it).1 }
#[verifier::prophetic]
pub open spec fn cur_m<M: Fn(CharClassID, char) -> bool>(it: FindMatchesImpl<M>) -> int { cur(it).0 }

/// representation invariant of the iterator
#[verifier::prophetic]
pub open spec fn fm_inv<M: Fn(CharClassID, char) -> bool>(it: FindMatchesImpl<M>) -> bool {
    let inp = it.input@;
    let n = cur_n(it);
    &&& scanner_wf(it.scanner_impl)
    &&& mode_ok(it.scanner_impl)
    &&& it.char_indices.obeys_prophetic_iter_laws()
    &&& it.char_indices.decrease() is Some
    &&& exists|m: int, n: int| cursor(it, m, n)
    &&& lo_wf(inp, it.line_offsets@)
    &&& (it.last_char == '\n' ==> n > 0 && inp[n - 1] == '\n')
    &&& (n > 0 && inp[n - 1] == '\n' && it.last_char != '\n' ==> it.line_offsets@.contains(boff(inp, n) as usize))
    &&& it.last_position + it.offset <= boff(inp, n)
}

// ---- tokens
pub open spec fn no_cand_at<M: Fn(CharClassID, char) -> bool>(s: ScannerImpl<M>, inp: Seq<char>, q: int) -> bool {
    forall|l: int, tid: TerminalID| !#[trigger] cand(cur_dfa(s), cur_cls(s), inp.skip(q), l, tid)
}
/// m is a correct outcome of a match attempt at char index p, with absolute byte offsets
pub open spec fn tok_at<M: Fn(CharClassID, char) -> bool>(s: ScannerImpl<M>, inp: Seq<char>, p: int, m: Match) -> bool {
    find_post(cur_dfa(s), cur_cls(s), inp.skip(p), boff(inp, p), Some(m))
}
/// m is the next token from char index q in the current mode of s; q1 is the char index of its end
pub open spec fn is_next_tok<M: Fn(CharClassID, char) -> bool>(s: ScannerImpl<M>, inp: Seq<char>, q: int, m: Match, q1: int) -> bool {
    exists|p: int| q <= p < inp.len()
        && (forall|q2: int| q <= q2 < p ==> no_cand_at(s, inp, q2))
        && #[trigger] tok_at(s, inp, p, m)
        && p < q1 <= inp.len() && boff(inp, q1) == m.span.end
}
pub open spec fn no_more<M: Fn(CharClassID, char) -> bool>(s: ScannerImpl<M>, inp: Seq<char>, q: int) -> bool {
    forall|q2: int| q <= q2 <= inp.len() ==> no_cand_at(s, inp, q2)
}

/// where advance_to(position) moves a cursor standing at char n0: it consumes at least one char (if any is left)
/// and stops after the first char whose end is at or beyond `position`
pub open spec fn adv_target(inp: Seq<char>, n0: int, position: int, n1: int) -> bool {
    if n0 >= inp.len() { n1 == n0 } else {
        &&& n0 < n1 <= inp.len()
        &&& (n1 < inp.len() ==> boff(inp, n1) >= position)
        &&& forall|j: int| n0 < j < n1 ==> boff(inp, j) < position
    }
}

// ---------------------------------------------------------------- lemmas
pub proof fn lemma_boff_mono(inp: Seq<char>, i: int, j: int)
    requires 0 <= i <= j <= inp.len()
    ensures boff(inp, i) <= boff(inp, j), i < j ==> boff(inp, i) < boff(inp, j), boff(inp, j) <= blen(inp)
{
    reveal(boff);
    lemma_blen_take_mono(inp, i, j);
}

pub proof fn lemma_boff_inj(inp: Seq<char>, i: int, j: int)
    requires 0 <= i <= inp.len(), 0 <= j <= inp.len(), boff(inp, i) == boff(inp, j)
    ensures i == j
{
    reveal(boff);
    if i < j { lemma_boff_mono(inp, i, j); }
    if j < i { lemma_boff_mono(inp, j, i); }
}

pub proof fn lemma_boff_next(inp: Seq<char>, k: int)
    requires 0 <= k < inp.len()
    ensures boff(inp, k + 1) == boff(inp, k) + clen(inp[k])
{
    reveal(boff);
    lemma_blen_take_next(inp, k);
}

pub proof fn lemma_boff_ends(inp: Seq<char>)
    ensures boff(inp, 0) == 0, boff(inp, inp.len() as int) == blen(inp)
{
    reveal(boff);
    assert(inp.take(0) =~= Seq::<char>::empty());
    assert(inp.take(inp.len() as int) =~= inp);
}

pub proof fn lemma_cursor_unique<M: Fn(CharClassID, char) -> bool>(it: FindMatchesImpl<M>, m1: int, n1: int, m2: int, n2: int)
    requires cursor(it, m1, n1), cursor(it, m2, n2)
    ensures m1 == m2, n1 == n2
{
    let inp = it.input@;
    assert(it.char_indices.remaining().len() == inp.skip(n1).len());
    assert(it.char_indices.remaining().len() == inp.skip(n2).len());
    lemma_boff_inj(inp, m1, m2);
}

pub proof fn lemma_cur_is<M: Fn(CharClassID, char) -> bool>(it: FindMatchesImpl<M>, m: int, n: int)
    requires cursor(it, m, n)
    ensures cur(it) == (m, n), cur_m(it) == m, cur_n(it) == n
{
    let p = (m, n);
    assert(cursor(it, p.0, p.1));
    let q = cur(it);
    assert(cursor(it, q.0, q.1));
    lemma_cursor_unique(it, m, n, q.0, q.1);
}

pub proof fn lemma_cur_cursor<M: Fn(CharClassID, char) -> bool>(it: FindMatchesImpl<M>)
    requires exists|m: int, n: int| cursor(it, m, n)
    ensures cursor(it, cur_m(it), cur_n(it))
{
    let (m, n) = choose|m: int, n: int| cursor(it, m, n);
    lemma_cur_is(it, m, n);
}

/// the haystack slice input[offset..] and the iterator satisfy find_from's precondition
pub proof fn lemma_ci_at_slice(inp: Seq<char>, m: int, n: int, rem: Seq<(usize, char)>)
    requires 0 <= m <= n <= inp.len(), rem == ci_seq(inp.skip(n), (boff(inp, n) - boff(inp, m)) as nat)
    ensures ci_at(rem, inp.skip(m), n - m),
        inp.skip(m).skip(n - m) == inp.skip(n),
        blen(inp.skip(m).take(n - m)) == boff(inp, n) - boff(inp, m),
{
    reveal(boff);
    lemma_take_take_skip(inp, m, n - m);
    assert(inp.skip(m).skip(n - m) =~= inp.skip(n));
}

pub proof fn lemma_push_contains(s: Seq<usize>, a: usize, x: usize)
    ensures s.push(a).contains(x) <==> (s.contains(x) || x == a)
{
    reveal(boff);
    if s.push(a).contains(x) {
        let p = choose|p: int| 0 <= p < s.push(a).len() && s.push(a)[p] == x;
        if p < s.len() { assert(s[p] == x); }
    }
    if s.contains(x) {
        let p = choose|p: int| 0 <= p < s.len() && s[p] == x;
        assert(s.push(a)[p] == x);
    }
    if x == a { assert(s.push(a)[s.len() as int] == x); }
}

pub proof fn lemma_insert_sorted(before: Seq<usize>, after: Seq<usize>, x: usize)
    requires
        sorted_strict(before), before.len() >= 1, before[0] == 0,
        after == before || (exists|i: int| 0 <= i <= before.len() && after == before.insert(i, x)
            && (forall|j: int| 0 <= j < i ==> before[j] < x) && (forall|j: int| i <= j < before.len() ==> before[j] > x)),
        before.contains(x) ==> after == before,
        !before.contains(x) ==> after != before,
    ensures
        sorted_strict(after), after.len() >= 1, after[0] == 0,
        forall|y: usize| #![trigger after.contains(y)] #![trigger before.contains(y)] after.contains(y) <==> (before.contains(y) || y == x),
{
    reveal(boff);
    if after == before {
    } else {
        let i = choose|i: int| 0 <= i <= before.len() && after == before.insert(i, x)
            && (forall|j: int| 0 <= j < i ==> before[j] < x) && (forall|j: int| i <= j < before.len() ==> before[j] > x);
        assert(i > 0) by { if i == 0 { assert(before[0] > x); } }
        assert forall|y: usize| after.contains(y) <==> (before.contains(y) || y == x) by {
            if after.contains(y) {
                let p = choose|p: int| 0 <= p < after.len() && after[p] == y;
                if p < i { assert(before[p] == y); } else if p > i { assert(before[p - 1] == y); }
            }
            if before.contains(y) {
                let p = choose|p: int| 0 <= p < before.len() && before[p] == y;
                if p < i { assert(after[p] == y); } else { assert(after[p + 1] == y); }
            }
            if y == x { assert(after[i] == x); }
        }
    }
}

pub proof fn lemma_lo_bounded(input: Seq<char>, lo: Seq<usize>)
    requires lo_wf(input, lo)
    ensures forall|i: int| 0 <= i < lo.len() ==> #[trigger] lo[i] <= blen(input)
{
    reveal(boff);
    assert forall|i: int| 0 <= i < lo.len() implies #[trigger] lo[i] <= blen(input) by {
        let k = choose|k: int| #[trigger] starts_line(input, k) && boff(input, k) == lo[i] as nat;
        lemma_boff_mono(input, k, input.len() as int);
    }
}

/// one step of a CharIndices iterator that stands before char n (its indices being relative to byte `off`)
pub proof fn lemma_ci_seq_step(inp: Seq<char>, n: int, b: nat)
    requires 0 <= n < inp.len()
    ensures
        ci_seq(inp.skip(n), b).len() > 0,
        ci_seq(inp.skip(n), b)[0] == (b as usize, inp[n]),
        ci_seq(inp.skip(n), b).drop_first() == ci_seq(inp.skip(n + 1), b + clen(inp[n])),
{
    reveal(boff);
    let s = inp.skip(n);
    let s1 = inp.skip(n + 1);
    assert(s.take(0) =~= Seq::<char>::empty());
    assert(s[0] == inp[n]);
    assert forall|i: int| 0 <= i < s1.len() implies ci_seq(s, b).drop_first()[i] == ci_seq(s1, b + clen(inp[n]))[i] by {
        assert(s.take(i + 1) =~= seq![inp[n]] + s1.take(i));
        lemma_blen_add(seq![inp[n]], s1.take(i));
        lemma_blen_push(Seq::<char>::empty(), inp[n]);
        assert(seq![inp[n]] =~= Seq::<char>::empty().push(inp[n]));
        assert(blen(Seq::<char>::empty()) == 0);
        assert(blen(seq![inp[n]]) == clen(inp[n]));
        assert(s[i + 1] == s1[i]);
    }
    assert(ci_seq(s, b).drop_first() =~= ci_seq(s1, b + clen(inp[n])));
}

pub proof fn lemma_ci_seq_empty(inp: Seq<char>, n: int, b: nat)
    requires n == inp.len()
    ensures ci_seq(inp.skip(n), b).len() == 0
{
    reveal(boff);
}

/// a line start at char index j is a line start as a byte offset
pub proof fn lemma_line_start_byte(inp: Seq<char>, j: int)
    requires starts_line(inp, j)
    ensures is_line_start(inp, boff(inp, j))
{
    reveal(boff);
}

/// advance_to with a target that is the byte offset of a char boundary beyond the cursor lands exactly there
pub proof fn lemma_adv_target_boundary(inp: Seq<char>, n0: int, q: int, n1: int)
    requires 0 <= n0 < q <= inp.len(), adv_target(inp, n0, boff(inp, q) as int, n1)
    ensures n1 == q
{
    reveal(boff);
    if n1 < q { lemma_boff_mono(inp, n1, q); }
    if n1 > q { assert(boff(inp, q) < boff(inp, q)); }
}

/// spans reported by the automaton are relative to the haystack slice; adding the slice's offset makes them absolute
pub proof fn lemma_find_post_shift(d: DfaCore, cls: Cls, text: Seq<char>, base: nat, off: nat, m: Match, m2: Match)
    requires
        find_post(d, cls, text, base, Some(m)),
        m2.token_type == m.token_type, m2.span.start == m.span.start + off, m2.span.end == m.span.end + off,
    ensures find_post(d, cls, text, base + off, Some(m2))
{
    reveal(boff);
    let tid = TerminalID(m.token_type as u32);
    let l = choose|l: int| #[trigger] cand(d, cls, text, l, tid)
        && m.span.end == base + blen(text.take(l))
        && forall|l2: int, tid2: TerminalID| #[trigger] cand(d, cls, text, l2, tid2) ==> no_better(d, cls, text, l, tid, l2, tid2);
    assert(cand(d, cls, text, l, TerminalID(m2.token_type as u32)) && m2.span.end == base + off + blen(text.take(l)));
}

/// the length of the winning candidate, as a char count
pub proof fn lemma_find_post_len(d: DfaCore, cls: Cls, text: Seq<char>, base: nat, m: Match) -> (l: int)
    requires find_post(d, cls, text, base, Some(m))
    ensures 1 <= l <= text.len(), m.span.start == base, m.span.end == base + blen(text.take(l)), m.span.start < m.span.end
{
    reveal(boff);
    let tid = TerminalID(m.token_type as u32);
    let l = choose|l: int| #[trigger] cand(d, cls, text, l, tid)
        && m.span.end == base + blen(text.take(l))
        && forall|l2: int, tid2: TerminalID| #[trigger] cand(d, cls, text, l2, tid2) ==> no_better(d, cls, text, l, tid, l2, tid2);
    lemma_blen_take_mono(text, 0, l);
    assert(text.take(0) =~= Seq::<char>::empty());
    l
}

pub proof fn lemma_boff_split(inp: Seq<char>, n: int, l: int)
    requires 0 <= n, 0 <= l, n + l <= inp.len()
    ensures boff(inp, n + l) == boff(inp, n) + blen(inp.skip(n).take(l)), inp.skip(n + l) == inp.skip(n).skip(l)
{
    reveal(boff);
    lemma_take_take_skip(inp, n, l);
}

// ---------------------------------------------------------------- peeking
/// ms are the consecutive next tokens from char index q in the (fixed) current mode of s; qe is the char index after the last
pub open spec fn toks_from<M: Fn(CharClassID, char) -> bool>(s: ScannerImpl<M>, inp: Seq<char>, q: int, ms: Seq<Match>, qe: int) -> bool
    decreases ms.len()
{
    if ms.len() == 0 { qe == q } else {
        exists|qp: int| toks_from(s, inp, q, ms.drop_last(), qp) && #[trigger] is_next_tok(s, inp, qp, ms.last(), qe)
    }
}

pub open spec fn cur_trans<M: Fn(CharClassID, char) -> bool>(s: ScannerImpl<M>) -> Seq<(TerminalID, ScannerModeID)> {
    s.scanner_modes@[s.current_mode as int].transitions@
}

/// none of the first k tokens triggers a mode switch
pub open spec fn no_switch<M: Fn(CharClassID, char) -> bool>(s: ScannerImpl<M>, ms: Seq<Match>, k: int) -> bool {
    forall|i: int| 0 <= i < k ==> tr_lookup(cur_trans(s), (#[trigger] ms[i]).token_type) is None
}

/// effect of advance_char_indices_beyond_match on the sequence of (index, char) pairs still to come:
/// k items are consumed
pub open spec fn adv_k(rem: Seq<(usize, char)>, start: int, end: int, k: int) -> bool {
    if start >= end || rem.len() == 0 { k == 0 } else {
        &&& 1 <= k <= rem.len()
        &&& (k < rem.len() ==> rem[k - 1].0 + clen(rem[k - 1].1) >= end)
        &&& forall|j: int| 0 <= j < k - 1 ==> (#[trigger] rem[j]).0 + clen(rem[j].1) < end
    }
}

pub proof fn lemma_ci_seq_len(s: Seq<char>, b: nat)
    ensures ci_seq(s, b).len() == s.len()
{
}

pub proof fn lemma_ci_seq_at(inp: Seq<char>, m: int, n: int, j: int)
    requires 0 <= m <= n, 0 <= j, n + j < inp.len(), blen(inp) <= usize::MAX
    ensures
        ci_seq(inp.skip(n), (boff(inp, n) - boff(inp, m)) as nat)[j] == ((boff(inp, n + j) - boff(inp, m)) as usize, inp[n + j]),
        boff(inp, m) <= boff(inp, n + j), boff(inp, n + j) < blen(inp),
{
    reveal(boff);
    lemma_take_take_skip(inp, n, j);
    lemma_blen_take_mono(inp, m, n);
    lemma_blen_take_mono(inp, n, n + j);
    lemma_blen_take_mono(inp, n + j, n + j + 1);
}

pub proof fn lemma_ci_seq_skip(inp: Seq<char>, m: int, n: int, k: int)
    requires 0 <= m <= n, 0 <= k, n + k <= inp.len()
    ensures ci_seq(inp.skip(n), (boff(inp, n) - boff(inp, m)) as nat).skip(k) == ci_seq(inp.skip(n + k), (boff(inp, n + k) - boff(inp, m)) as nat)
    decreases k
{
    reveal(boff);
    let a = ci_seq(inp.skip(n), (boff(inp, n) - boff(inp, m)) as nat);
    if k == 0 {
        assert(a.skip(0) =~= a);
    } else {
        lemma_ci_seq_skip(inp, m, n, k - 1);
        lemma_blen_take_mono(inp, m, n);
        lemma_blen_take_mono(inp, n, n + k - 1);
        lemma_ci_seq_step(inp, n + k - 1, (boff(inp, n + k - 1) - boff(inp, m)) as nat);
        lemma_blen_take_next(inp, n + k - 1);
        assert(a.skip(k) =~= a.skip(k - 1).drop_first());
    }
}

/// adv_k on the items of a cursor standing at char n is adv_target on the input (positions relative to byte boff(m))
pub proof fn lemma_adv_k_target(inp: Seq<char>, m: int, n: int, start: int, end: int, k: int)
    requires
        0 <= m <= n <= inp.len(), blen(inp) <= usize::MAX, start < end,
        adv_k(ci_seq(inp.skip(n), (boff(inp, n) - boff(inp, m)) as nat), start, end, k),
    ensures adv_target(inp, n, end + boff(inp, m), n + k), 0 <= k, n + k <= inp.len()
{
    let rem = ci_seq(inp.skip(n), (boff(inp, n) - boff(inp, m)) as nat);
    lemma_ci_seq_len(inp.skip(n), (boff(inp, n) - boff(inp, m)) as nat);
    if n < inp.len() {
        assert forall|j: int| n < j < n + k implies boff(inp, j) < end + boff(inp, m) by {
            lemma_ci_seq_at(inp, m, n, j - 1 - n);
            lemma_boff_next(inp, j - 1);
            assert(rem[j - 1 - n].0 + clen(rem[j - 1 - n].1) < end);
        }
        if n + k < inp.len() {
            lemma_ci_seq_at(inp, m, n, k - 1);
            lemma_boff_next(inp, n + k - 1);
        }
    }
}

// ---------------------------------------------------------------- line / column (C09)
/// g is the index of the greatest recorded line start that is <= off
pub open spec fn is_greatest(lo: Seq<usize>, off: int, g: int) -> bool {
    0 <= g < lo.len() && lo[g] <= off && (g + 1 < lo.len() ==> off < lo[g + 1])
}

pub proof fn lemma_line_start_props(inp: Seq<char>, k: int)
    requires 0 <= k <= inp.len()
    ensures
        0 <= line_start_of(inp, k) <= k,
        starts_line(inp, line_start_of(inp, k)),
        forall|t: int| line_start_of(inp, k) <= t < k ==> inp[t] != '\n',
        nl_count(inp, k) == nl_count(inp, line_start_of(inp, k)),
    decreases k
{
    if k > 0 && inp[k - 1] != '\n' {
        lemma_line_start_props(inp, k - 1);
    }
}

/// a recorded line start at char index j sits at index nl_count(j) of the sorted list when all earlier line starts are recorded
pub proof fn lemma_lo_index_count(inp: Seq<char>, lo: Seq<usize>, p: int, j: int)
    requires
        lo_wf(inp, lo), 0 <= p < lo.len(), starts_line(inp, j), lo[p] == boff(inp, j),
        complete_upto(inp, lo, j),
    ensures p == nl_count(inp, j)
    decreases p
{
    if p == 0 {
        lemma_boff_ends(inp);
        lemma_boff_inj(inp, j, 0);
    } else {
        // the previous recorded line start
        let jp = choose|jp: int| #[trigger] starts_line(inp, jp) && boff(inp, jp) == lo[p - 1] as nat;
        assert(lo[p - 1] < lo[p]);
        if jp >= j { lemma_boff_mono(inp, j, jp); }
        assert(jp < j);
        assert(complete_upto(inp, lo, jp));
        lemma_lo_index_count(inp, lo, p - 1, jp);
        // no line start strictly between jp and j
        assert forall|t: int| jp <= t < j - 1 implies inp[t] != '\n' by {
            if inp[t] == '\n' {
                assert(starts_line(inp, t + 1));
                let x = boff(inp, t + 1) as usize;
                lemma_boff_mono(inp, jp, t + 1);
                lemma_boff_mono(inp, t + 1, j);
                lemma_boff_mono(inp, j, inp.len() as int);
                assert(lo.contains(x));
                let idx = choose|idx: int| 0 <= idx < lo.len() && lo[idx] == x;
                if idx <= p - 1 { if idx < p - 1 { assert(lo[idx] < lo[p - 1]); } }
                else if idx >= p { if idx > p { assert(lo[p] < lo[idx]); } }
            }
        }
        lemma_nl_count_flat(inp, jp, j - 1);
        assert(inp[j - 1] == '\n');
    }
}

pub proof fn lemma_nl_count_flat(inp: Seq<char>, a: int, b: int)
    requires 0 <= a <= b <= inp.len(), forall|t: int| a <= t < b ==> inp[t] != '\n'
    ensures nl_count(inp, b) == nl_count(inp, a)
    decreases b - a
{
    if a < b { lemma_nl_count_flat(inp, a, b - 1); }
}

/// with every line start up to and including char k recorded, the greatest recorded line start <= boff(k) is the start of
/// k's line and its index is the number of line breaks before k
pub proof fn lemma_position_exact(inp: Seq<char>, lo: Seq<usize>, k: int, g: int)
    requires lo_wf(inp, lo), 0 <= k <= inp.len(), complete_upto(inp, lo, k + 1), is_greatest(lo, boff(inp, k) as int, g), blen(inp) <= usize::MAX
    ensures lo[g] == boff(inp, line_start_of(inp, k)), g == nl_count(inp, k)
{
    lemma_line_start_props(inp, k);
    let js = line_start_of(inp, k);
    lemma_boff_mono(inp, js, k);
    lemma_boff_mono(inp, k, inp.len() as int);
    let x = boff(inp, js) as usize;
    assert(lo.contains(x));
    let p = choose|p: int| 0 <= p < lo.len() && lo[p] == x;
    // p is the greatest index with lo[p] <= boff(k)
    if p + 1 < lo.len() {
        let jn = choose|jn: int| #[trigger] starts_line(inp, jn) && boff(inp, jn) == lo[p + 1] as nat;
        assert(lo[p] < lo[p + 1]);
        if jn <= js { lemma_boff_mono(inp, jn, js); }
        if jn <= k { assert(inp[jn - 1] == '\n'); assert(false); }
        lemma_boff_mono(inp, k, jn);
    }
    if g < p { assert(lo[g + 1] <= lo[p]) by { if g + 1 < p { assert(lo[g + 1] < lo[p]); } } }
    if g > p { assert(lo[p + 1] <= lo[g]) by { if p + 1 < g { assert(lo[p + 1] < lo[g]); } } }
    assert(g == p);
    assert(complete_upto(inp, lo, js));
    lemma_lo_index_count(inp, lo, p, js);
}

/// the permitted alternative for an offset right after a line break whose line start is not recorded yet
pub proof fn lemma_position_alt(inp: Seq<char>, lo: Seq<usize>, k: int, g: int)
    requires
        lo_wf(inp, lo), 0 < k <= inp.len(), complete_upto(inp, lo, k), starts_line(inp, k), !lo.contains(boff(inp, k) as usize),
        is_greatest(lo, boff(inp, k) as int, g), blen(inp) <= usize::MAX
    ensures lo[g] == boff(inp, line_start_of(inp, k - 1)), g + 1 == nl_count(inp, k)
{
    lemma_boff_mono(inp, k - 1, k);
    lemma_boff_mono(inp, k, inp.len() as int);
    // g is also the greatest index for boff(k - 1): no recorded start lies in (boff(k-1), boff(k)]
    assert(lo.contains(lo[g]));
    assert(lo[g] != boff(inp, k));
    let jg = choose|jg: int| #[trigger] starts_line(inp, jg) && boff(inp, jg) == lo[g] as nat;
    if jg >= k { lemma_boff_mono(inp, k, jg); }
    lemma_boff_mono(inp, jg, k - 1);
    assert(is_greatest(lo, boff(inp, k - 1) as int, g)) by {
        if g + 1 < lo.len() { }
    }
    lemma_position_exact(inp, lo, k - 1, g);
}

// ---------------------------------------------------------------- C01: the whole token stream (statement-level corollary of the per-call contracts)
/// the scanner configuration with another current mode
pub open spec fn with_mode<M: Fn(CharClassID, char) -> bool>(s: ScannerImpl<M>, mode: usize) -> ScannerImpl<M> {
    ScannerImpl { current_mode: mode, ..s }
}

/// toks is the complete stream an iterator yields from char index q in mode `mode`: each token is the next one
/// (is_next_tok = what next_match ensures), the mode follows the transitions, and after the last token nothing matches
pub open spec fn stream_from<M: Fn(CharClassID, char) -> bool>(s: ScannerImpl<M>, inp: Seq<char>, q: int, mode: usize, toks: Seq<Match>) -> bool
    decreases toks.len()
{
    if toks.len() == 0 { no_more(with_mode(s, mode), inp, q) } else {
        exists|q1: int| #[trigger] is_next_tok(with_mode(s, mode), inp, q, toks[0], q1)
            && stream_from(s, inp, q1, next_mode(with_mode(s, mode), toks[0].token_type), toks.drop_first())
    }
}

pub open spec fn la_free<M: Fn(CharClassID, char) -> bool>(s: ScannerImpl<M>) -> bool {
    forall|i: int| 0 <= i < s.scanner_modes@.len() ==> (#[trigger] s.scanner_modes@[i]).dfa.lookaheads@.len() == 0
}

/// two outcomes of "the next token from q" coincide when the active mode has no lookaheads
pub proof fn lemma_next_tok_unique<M: Fn(CharClassID, char) -> bool>(s: ScannerImpl<M>, inp: Seq<char>, q: int, m1: Match, q1: int, m2: Match, q2: int)
    requires
        scanner_wf(s), mode_ok(s), s.scanner_modes@[s.current_mode as int].dfa.lookaheads@.len() == 0, 0 <= q,
        is_next_tok(s, inp, q, m1, q1), is_next_tok(s, inp, q, m2, q2),
    ensures m1.span.start == m2.span.start, m1.span.end == m2.span.end, m1.token_type == m2.token_type, q1 == q2
{
    let p1 = choose|p: int| q <= p < inp.len() && (forall|x: int| q <= x < p ==> no_cand_at(s, inp, x)) && #[trigger] tok_at(s, inp, p, m1)
        && p < q1 <= inp.len() && boff(inp, q1) == m1.span.end;
    let p2 = choose|p: int| q <= p < inp.len() && (forall|x: int| q <= x < p ==> no_cand_at(s, inp, x)) && #[trigger] tok_at(s, inp, p, m2)
        && p < q2 <= inp.len() && boff(inp, q2) == m2.span.end;
    let d = cur_dfa(s);
    let cls = cur_cls(s);
    assert(mode_wf(s.scanner_modes@[s.current_mode as int], s.scanner_modes@.len() as int));
    // a token at p is a candidate at p
    let l1 = lemma_find_post_len(d, cls, inp.skip(p1), boff(inp, p1), m1);
    let l2 = lemma_find_post_len(d, cls, inp.skip(p2), boff(inp, p2), m2);
    if p1 < p2 { lemma_tok_is_cand(d, cls, inp.skip(p1), boff(inp, p1), m1); assert(no_cand_at(s, inp, p1)); }
    if p2 < p1 { lemma_tok_is_cand(d, cls, inp.skip(p2), boff(inp, p2), m2); assert(no_cand_at(s, inp, p2)); }
    assert(p1 == p2);
    lemma_find_post_unique(d, cls, inp.skip(p1), boff(inp, p1), m1, m2);
    lemma_boff_inj(inp, q1, q2);
}

pub proof fn lemma_tok_is_cand(d: DfaCore, cls: Cls, text: Seq<char>, base: nat, m: Match)
    requires find_post(d, cls, text, base, Some(m))
    ensures exists|l: int, tid: TerminalID| #[trigger] cand(d, cls, text, l, tid)
{
    let tid = TerminalID(m.token_type as u32);
    let l = choose|l: int| #[trigger] cand(d, cls, text, l, tid)
        && m.span.end == base + blen(text.take(l))
        && forall|l2: int, tid2: TerminalID| #[trigger] cand(d, cls, text, l2, tid2) ==> no_better(d, cls, text, l, tid, l2, tid2);
    assert(cand(d, cls, text, l, tid));
}

/// C01 "exactly the tokens": for a configuration without lookaheads the stream from a position and mode is unique
pub proof fn lemma_stream_unique<M: Fn(CharClassID, char) -> bool>(s: ScannerImpl<M>, inp: Seq<char>, q: int, mode: usize, t1: Seq<Match>, t2: Seq<Match>)
    requires
        scanner_wf(s), la_free(s), mode < s.scanner_modes@.len(), 0 <= q,
        stream_from(s, inp, q, mode, t1), stream_from(s, inp, q, mode, t2),
    ensures
        t1.len() == t2.len(),
        forall|i: int| 0 <= i < t1.len() ==> (#[trigger] t1[i]).token_type == t2[i].token_type && t1[i].span.start == t2[i].span.start && t1[i].span.end == t2[i].span.end,
    decreases t1.len()
{
    let sm = with_mode(s, mode);
    assert(scanner_wf(sm)) by {
        assert forall|i: int| 0 <= i < sm.scanner_modes@.len() implies mode_wf(#[trigger] sm.scanner_modes@[i], sm.scanner_modes@.len() as int) by {
            assert(mode_wf(s.scanner_modes@[i], s.scanner_modes@.len() as int));
        }
    }
    assert(mode_wf(s.scanner_modes@[mode as int], s.scanner_modes@.len() as int));
    if t1.len() == 0 && t2.len() > 0 {
        let q1 = choose|q1: int| #[trigger] is_next_tok(sm, inp, q, t2[0], q1) && stream_from(s, inp, q1, next_mode(sm, t2[0].token_type), t2.drop_first());
        lemma_next_tok_contradicts_no_more(sm, inp, q, t2[0], q1);
    } else if t2.len() == 0 && t1.len() > 0 {
        let q1 = choose|q1: int| #[trigger] is_next_tok(sm, inp, q, t1[0], q1) && stream_from(s, inp, q1, next_mode(sm, t1[0].token_type), t1.drop_first());
        lemma_next_tok_contradicts_no_more(sm, inp, q, t1[0], q1);
    } else if t1.len() > 0 {
        let q1 = choose|q1: int| #[trigger] is_next_tok(sm, inp, q, t1[0], q1) && stream_from(s, inp, q1, next_mode(sm, t1[0].token_type), t1.drop_first());
        let q2 = choose|q2: int| #[trigger] is_next_tok(sm, inp, q, t2[0], q2) && stream_from(s, inp, q2, next_mode(sm, t2[0].token_type), t2.drop_first());
        lemma_next_tok_unique(sm, inp, q, t1[0], q1, t2[0], q2);
        let nm = next_mode(sm, t1[0].token_type);
        // the next mode is an existing mode
        let ts = sm.scanner_modes@[mode as int].transitions@;
        lemma_next_mode_ok(sm, t1[0].token_type);
        lemma_stream_unique(s, inp, q1, nm, t1.drop_first(), t2.drop_first());
        assert forall|i: int| 0 <= i < t1.len() implies (#[trigger] t1[i]).token_type == t2[i].token_type && t1[i].span.start == t2[i].span.start && t1[i].span.end == t2[i].span.end by {
            if i > 0 { assert(t1[i] == t1.drop_first()[i - 1]); assert(t2[i] == t2.drop_first()[i - 1]); }
        }
    }
}

pub proof fn lemma_next_tok_contradicts_no_more<M: Fn(CharClassID, char) -> bool>(s: ScannerImpl<M>, inp: Seq<char>, q: int, m: Match, q1: int)
    requires is_next_tok(s, inp, q, m, q1), no_more(s, inp, q)
    ensures false
{
    let p = choose|p: int| q <= p < inp.len() && (forall|x: int| q <= x < p ==> no_cand_at(s, inp, x)) && #[trigger] tok_at(s, inp, p, m)
        && p < q1 <= inp.len() && boff(inp, q1) == m.span.end;
    lemma_tok_is_cand(cur_dfa(s), cur_cls(s), inp.skip(p), boff(inp, p), m);
    assert(no_cand_at(s, inp, p));
}

pub proof fn lemma_next_mode_ok<M: Fn(CharClassID, char) -> bool>(s: ScannerImpl<M>, tt: usize)
    requires scanner_wf(s), mode_ok(s)
    ensures next_mode(s, tt) < s.scanner_modes@.len()
{
    let ts = s.scanner_modes@[s.current_mode as int].transitions@;
    assert(mode_wf(s.scanner_modes@[s.current_mode as int], s.scanner_modes@.len() as int));
    if tr_lookup(ts, tt) is Some {
        // the chosen witness satisfies transition_of if any does
        if exists|r: Option<usize>| transition_of(ts, tt, r) {
            let r = tr_lookup(ts, tt);
            assert(transition_of(ts, tt, r));
            let i = choose|i: int| 0 <= i < ts.len() && #[trigger] ts[i].0.0 as usize == tt && ts[i].1.0 == r->0;
            assert(ts[i].1.0 < s.scanner_modes@.len());
        } else {
            // no witness at all: transition_of(ts, tt, None) or Some(..) must hold for some r
            if forall|i: int| 0 <= i < ts.len() ==> #[trigger] ts[i].0.0 as usize != tt {
                assert(transition_of(ts, tt, None));
            } else {
                let i = choose|i: int| 0 <= i < ts.len() && #[trigger] ts[i].0.0 as usize == tt;
                assert(transition_of(ts, tt, Some(ts[i].1.0)));
            }
        }
    }
}
