# U-iter: FindMatchesImpl (the iterator behind Scanner::find_iter): cursor, offsets, line bookkeeping, peeking.
import os, importlib.util
from extract import *

def _load(name):
    p = os.path.join(os.path.dirname(os.path.abspath(__file__)), '..', name, 'unit.py')
    spec = importlib.util.spec_from_file_location('unit_' + name + '_for_iter', p)
    m = importlib.util.module_from_spec(spec)
    spec.loader.exec_module(m)
    return m

mode = _load('u_mode')
dfa = mode.dfa
F_FMI = 'scnr/src/internal/find_matches_impl.rs'
F_FM = 'scnr/src/find_matches.rs'
F_POS = 'scnr/src/position.rs'
F_MATCH, F_SPAN = dfa.F_MATCH, dfa.F_SPAN
HERE = os.path.dirname(os.path.abspath(__file__))

IMPL = 'FindMatchesImpl'

FRAME = '''
    final(self).input == old(self).input,
    final(self).offset == old(self).offset,
'''

merge_line_offsets = Fn(
    F_FMI, IMPL, 'merge_line_offsets',
    spec='''
requires
    lo_wf(old(self).input@, old(self).line_offsets@),
    forall|i: int| 0 <= i < line_start_offsets@.len() ==> is_line_start(old(self).input@, #[trigger] line_start_offsets@[i] as nat),
ensures
    final(self).input == old(self).input, final(self).offset == old(self).offset,
    final(self).last_char == old(self).last_char, final(self).last_position == old(self).last_position,
    final(self).char_indices == old(self).char_indices, final(self).scanner_impl == old(self).scanner_impl,
    lo_wf(final(self).input@, final(self).line_offsets@),
    forall|x: usize| #![trigger final(self).line_offsets@.contains(x)] #![trigger old(self).line_offsets@.contains(x)] #![trigger line_start_offsets@.contains(x)]
        final(self).line_offsets@.contains(x) <==> (old(self).line_offsets@.contains(x) || line_start_offsets@.contains(x)),
''',
    props=['C09'],
    edits=[
        Ins('body_start', None, '''
let ghost orig = self.line_offsets@;
let ghost input = self.input@;
let ghost mut n: int = 0;
'''),
        ForLoop('for offset in line_start_offsets {', it='__it0', label='merge_line_offsets.loop', spec='''
invariant
    __it0.obeys_prophetic_iter_laws(), __it0.decrease() is Some,
    self.input@ == input, self.input == old(self).input, self.offset == old(self).offset,
    self.last_char == old(self).last_char, self.last_position == old(self).last_position,
    self.char_indices == old(self).char_indices, self.scanner_impl == old(self).scanner_impl,
    lo_wf(input, self.line_offsets@),
    0 <= n <= line_start_offsets@.len(),
    __it0.remaining() == line_start_offsets@.skip(n),
    forall|i: int| 0 <= i < line_start_offsets@.len() ==> is_line_start(input, #[trigger] line_start_offsets@[i] as nat),
    forall|x: usize| #![trigger self.line_offsets@.contains(x)] #![trigger orig.contains(x)] #![trigger line_start_offsets@.take(n).contains(x)]
        self.line_offsets@.contains(x) <==> (orig.contains(x) || line_start_offsets@.take(n).contains(x)),
ensures n == line_start_offsets@.len()
decreases __it0.decrease()->0
'''),
        Ins('after', 'for offset in line_start_offsets {', '''
let ghost before = self.line_offsets@;
proof {
    assert(line_start_offsets@.skip(n)[0] == line_start_offsets@[n]);
    assert(offset == line_start_offsets@[n]);
}
'''),
        Ins('block_end', 'for offset in line_start_offsets {', '''
proof {
    lemma_insert_sorted(before, self.line_offsets@, offset);
    assert(line_start_offsets@.skip(n).drop_first() =~= line_start_offsets@.skip(n + 1));
    assert(line_start_offsets@.take(n + 1) =~= line_start_offsets@.take(n).push(offset));
    assert forall|x: usize| #![trigger self.line_offsets@.contains(x)] #![trigger orig.contains(x)] #![trigger line_start_offsets@.take(n + 1).contains(x)]
        self.line_offsets@.contains(x) <==> (orig.contains(x) || line_start_offsets@.take(n + 1).contains(x)) by {
        lemma_push_contains(line_start_offsets@.take(n), offset, x);
        assert(self.line_offsets@.contains(x) <==> (before.contains(x) || x == offset));
        assert(before.contains(x) <==> (orig.contains(x) || line_start_offsets@.take(n).contains(x)));
    }
    assert forall|i: int| 0 <= i < self.line_offsets@.len() implies is_line_start(input, #[trigger] self.line_offsets@[i] as nat) by {
        let x = self.line_offsets@[i];
        assert(self.line_offsets@.contains(x));
        if before.contains(x) {
            let p = choose|p: int| 0 <= p < before.len() && before[p] == x;
        }
    }
    n = n + 1;
}
''', label='merge_line_offsets.step'),
        Ins('body_end', None, '''
proof { assert(line_start_offsets@.take(n) =~= line_start_offsets@); }
'''),
    ])

record_line_offset = Fn(
    F_FMI, IMPL, 'record_line_offset',
    spec='''
requires
    lo_wf(old(self).input@, old(self).line_offsets@),
    old(self).last_char == '\\n' ==> is_line_start(old(self).input@, i as nat),
ensures
    final(self).input == old(self).input, final(self).offset == old(self).offset,
    final(self).last_char == c, final(self).last_position == old(self).last_position,
    final(self).char_indices == old(self).char_indices, final(self).scanner_impl == old(self).scanner_impl,
    lo_wf(final(self).input@, final(self).line_offsets@),
    forall|x: usize| #![trigger final(self).line_offsets@.contains(x)] #![trigger old(self).line_offsets@.contains(x)]
        final(self).line_offsets@.contains(x) <==> (old(self).line_offsets@.contains(x) || (old(self).last_char == '\\n' && x == i)),
''',
    props=['C09'],
    edits=[
        Replace('E6', 'self.merge_line_offsets(vec![$e]);', '''{
    let __v0 = vec![$e];
    let ghost vv = __v0@;
    proof {
        assert(vv[0] == i);
        assert forall|x: usize| vv.contains(x) <==> x == i by {
            if x == i { assert(vv[0] == x); }
        }
    }
    self.merge_line_offsets(__v0);
    proof { assert(vv.contains(i)); }
}''', why='argument let-bound so that ghost code can name it'),
    ])

new = Fn(
    F_FMI, IMPL, 'new', ret='r',
    spec='''
requires scanner_wf(scanner_impl)
ensures
    fm_inv(r), r.input == input, r.offset == 0, cur_n(r) == 0, cur_m(r) == 0,
    r.scanner_impl.current_mode == 0,
    r.scanner_impl.scanner_modes == scanner_impl.scanner_modes,
    r.scanner_impl.match_char_class == scanner_impl.match_char_class,
    r.scanner_impl.character_classes == scanner_impl.character_classes,
    r.line_offsets@ == seq![0usize], r.last_char == '\\0', r.last_position == 0,
''',
    props=['C06', 'C12', 'C09'],
    edits=[
        Ins('after_stmt', 'me.scanner_impl.reset();', '''
proof {
    let inp = input@;
    lemma_boff_ends(inp);
    assert(inp.skip(0) =~= inp);
    assert(cursor(me, 0, 0));
    lemma_cur_is(me, 0, 0);
    assert(starts_line(inp, 0));
    assert(is_line_start(inp, 0));
    assert(me.line_offsets@[0] == 0);
}
''', label='new.inv'),
    ])

SET_OFFSET_SPEC = '''
requires
    fm_inv(*old(self)),
    // the offset is on a character boundary or beyond the input
    exists|k: int| 0 <= k <= old(self).input@.len() && (offset == boff(old(self).input@, k) || (k == old(self).input@.len() && offset >= boff(old(self).input@, k))),
ensures
    fm_inv(*final(self)),
    final(self).input == old(self).input,
    final(self).scanner_impl == old(self).scanner_impl,
    final(self).line_offsets == old(self).line_offsets,
    // clamped to the input length
    final(self).offset == (if offset <= blen(old(self).input@) { offset } else { blen(old(self).input@) as usize }),
    boff(final(self).input@, cur_n(*final(self))) == final(self).offset,
    cur_m(*final(self)) == cur_n(*final(self)),
'''

set_offset = Fn(
    F_FMI, IMPL, 'set_offset', spec=SET_OFFSET_SPEC, props=['C10', 'C09', 'C04'],
    edits=[
        Ins('body_start', None, '''
let ghost inp = self.input@;
let ghost k0 = choose|k: int| 0 <= k <= inp.len() && (offset == boff(inp, k) || (k == inp.len() && offset >= boff(inp, k)));
proof {
    lemma_utf8_bytes_len(self.input);
    axiom_str_blen(self.input);
    lemma_boff_ends(inp);
    lemma_boff_mono(inp, k0, inp.len() as int);
}
'''),
        Ins('after_stmt', 'let offset = $_;', '''
proof {
    assert(offset == boff(inp, k0));
    lemma_utf8_boundary(self.input, k0);
    lemma_utf8_boundary(self.input, inp.len() as int);
    lemma_utf8_boundary(self.input, 0);
}
'''),
        Replace('E6', 'self.char_indices = self.input[$r].char_indices();', '''{
    let __t0 = &self.input[$r];
    proof { lemma_utf8_suffix_view(self.input, __t0, k0); }
    self.char_indices = __t0.char_indices();
}''', why='method chain split to name the slice'),
        Replace('E6', 'self.last_char = self.input[$r].chars().next_back().unwrap_or($d);', '''{
    let __t1 = &self.input[$r];
    proof { lemma_utf8_prefix_view(self.input, __t1, k0); }
    self.last_char = __t1.chars().next_back().unwrap_or($d);
}''', why='method chain split to name the slice'),
        Ins('body_end', None, '''
proof {
    assert(inp.skip(k0).skip(0) =~= inp.skip(k0));
    assert(inp.skip(k0).take(0) =~= Seq::<char>::empty());
    assert(cursor(*self, k0, k0));
    lemma_cur_is(*self, k0, k0);
    if k0 > 0 { assert(inp.take(k0).last() == inp[k0 - 1]); }
}
''', label='set_offset.inv'),
    ])

with_offset = Fn(
    F_FMI, IMPL, 'with_offset', ret='r',
    spec='''
requires
    fm_inv(self),
    exists|k: int| 0 <= k <= self.input@.len() && (offset == boff(self.input@, k) || (k == self.input@.len() && offset >= boff(self.input@, k))),
ensures
    fm_inv(r),
    r.input == self.input,
    r.scanner_impl == self.scanner_impl,
    r.line_offsets == self.line_offsets,
    r.offset == (if offset <= blen(self.input@) { offset } else { blen(self.input@) as usize }),
    boff(r.input@, cur_n(r)) == r.offset,
    cur_m(r) == cur_n(r),
''', props=['C10', 'C04'])


ADV_FRAME = '''
    self.input == old(self).input, self.offset == old(self).offset, self.scanner_impl == old(self).scanner_impl,
    self.last_char == old(self).last_char, self.last_position == old(self).last_position,
    self.line_offsets == old(self).line_offsets,
'''

advance_to = Fn(
    F_FMI, IMPL, 'advance_to', ret='r',
    spec='''
requires fm_inv(*old(self))
ensures
    fm_inv(*final(self)),
    final(self).input == old(self).input, final(self).offset == old(self).offset,
    final(self).scanner_impl == old(self).scanner_impl,
    forall|x: usize| #![trigger old(self).line_offsets@.contains(x)] #![trigger final(self).line_offsets@.contains(x)] old(self).line_offsets@.contains(x) ==> final(self).line_offsets@.contains(x),
    position < old(self).last_position + old(self).offset ==> cur_n(*final(self)) == cur_n(*old(self)),
    position >= old(self).last_position + old(self).offset ==> adv_target(old(self).input@, cur_n(*old(self)), position as int, cur_n(*final(self))),
    // every line start in the consumed region is recorded
    forall|j: int| cur_n(*old(self)) <= j < cur_n(*final(self)) && #[trigger] starts_line(old(self).input@, j) ==> final(self).line_offsets@.contains(boff(old(self).input@, j) as usize),
    cur_n(*old(self)) <= cur_n(*final(self)),
''',
    props=['C10', 'C09', 'C07', 'C01'],
    edits=[
        Ins('body_start', None, '''
let ghost inp = self.input@;
let ghost m0 = cur_m(*self);
let ghost n0 = cur_n(*self);
let ghost mut n: int = n0;
let ghost lc0 = self.last_char;
proof {
    lemma_cur_cursor(*self);
    axiom_str_blen(self.input);
    lemma_boff_mono(inp, n0, inp.len() as int);
    lemma_boff_mono(inp, m0, n0);
}
''', label='advance_to.entry'),
        ForLoop('for (i, c) in self.char_indices.by_ref() {', it=None, place='self.char_indices', label='advance_to.loop', spec='''
invariant_except_break
    forall|j: int| n0 < j <= n ==> boff(inp, j) < position,
invariant
    self.char_indices.obeys_prophetic_iter_laws(), self.char_indices.decrease() is Some,
    self.input == old(self).input, self.offset == old(self).offset, self.scanner_impl == old(self).scanner_impl,
    self.last_char == old(self).last_char, self.last_position == old(self).last_position,
    self.line_offsets == old(self).line_offsets,
    inp == self.input@, blen(inp) <= usize::MAX,
    0 <= m0 <= n0 <= n <= inp.len(), self.offset == boff(inp, m0),
    self.char_indices.remaining() == ci_seq(inp.skip(n), (boff(inp, n) - boff(inp, m0)) as nat),
    n == n0 ==> last_char == lc0 && new_position == self.last_position,
    n > n0 ==> last_char == inp[n - 1] && new_position + self.offset == boff(inp, n - 1),
    self.last_position + self.offset <= boff(inp, n0),
    lc0 == '\\n' ==> n0 > 0 && inp[n0 - 1] == '\\n',
    forall|q: int| 0 <= q < line_start_offsets@.len() ==> is_line_start(inp, #[trigger] line_start_offsets@[q] as nat),
    forall|j: int| n0 <= j < n && #[trigger] starts_line(inp, j) && (j > n0 || lc0 == '\\n') ==> line_start_offsets@.contains(boff(inp, j) as usize),
ensures
    adv_target(inp, n0, position as int, n),
decreases self.char_indices.decrease()->0
''', body_pre='''
proof {
    if n < inp.len() { lemma_ci_seq_step(inp, n, (boff(inp, n) - boff(inp, m0)) as nat); lemma_boff_next(inp, n); lemma_boff_mono(inp, n + 1, inp.len() as int); }
    lemma_boff_mono(inp, m0, n);
    lemma_boff_mono(inp, n, inp.len() as int);
}
let ghost lso0 = line_start_offsets@;
'''),
        Ins('after', 'for (i, c) in self.char_indices.by_ref() {', '''
proof {
    assert(n < inp.len());
    assert(c == inp[n] && i + self.offset == boff(inp, n));
}
''', label='advance_to.char_read'),
        Ins('after_stmt', 'new_position = $_;', '''
proof {
    // bookkeeping for the char just consumed
    if lso0 != line_start_offsets@ {
        lemma_push_contains(lso0, (i + self.offset) as usize, (i + self.offset) as usize);
        assert(starts_line(inp, n));
        lemma_line_start_byte(inp, n);
    }
    assert forall|j: int| n0 <= j < n + 1 && #[trigger] starts_line(inp, j) && (j > n0 || lc0 == '\\n') implies line_start_offsets@.contains(boff(inp, j) as usize) by {
        if lso0 != line_start_offsets@ { lemma_push_contains(lso0, (i + self.offset) as usize, boff(inp, j) as usize); }
    }
    assert forall|q: int| 0 <= q < line_start_offsets@.len() implies is_line_start(inp, #[trigger] line_start_offsets@[q] as nat) by {
        if q < lso0.len() { assert(line_start_offsets@[q] == lso0[q]); }
    }
    n = n + 1;
}
''', occ=2, label='advance_to.consume'),
        Ins('after_stmt', 'for (i, c) in self.char_indices.by_ref() {', '''
let ghost n1 = n;
let ghost lo_before = self.line_offsets@;
''', label='advance_to.after_loop'),
        Ins('body_end', None, '''
'''),
        Tail('''
proof {
    assert(cursor(*self, m0, n1));
    lemma_cur_is(*self, m0, n1);
    lemma_boff_mono(inp, n0, n1);
    if n1 > n0 { lemma_boff_mono(inp, n1 - 1, n1); }
    assert forall|j: int| n0 <= j < n1 && #[trigger] starts_line(inp, j) implies self.line_offsets@.contains(boff(inp, j) as usize) by {
        if j == n0 && lc0 != '\\n' {
            if n0 == 0 { lemma_boff_ends(inp); assert(lo_before[0] == 0); assert(lo_before.contains(0usize)); }
        }
    }
}
''', label='advance_to.exit'),
    ])

advance_beyond_match = Fn(
    F_FMI, IMPL, 'advance_beyond_match',
    spec='''
requires fm_inv(*old(self)), matched.span.end + old(self).offset <= usize::MAX
ensures
    fm_inv(*final(self)),
    final(self).input == old(self).input, final(self).offset == old(self).offset,
    final(self).scanner_impl == old(self).scanner_impl,
    forall|x: usize| #![trigger old(self).line_offsets@.contains(x)] #![trigger final(self).line_offsets@.contains(x)] old(self).line_offsets@.contains(x) ==> final(self).line_offsets@.contains(x),
    matched.span.start >= matched.span.end ==> cur_n(*final(self)) == cur_n(*old(self)),
    matched.span.start < matched.span.end && matched.span.end + old(self).offset >= old(self).last_position + old(self).offset
        ==> adv_target(old(self).input@, cur_n(*old(self)), matched.span.end + old(self).offset, cur_n(*final(self))),
    forall|j: int| cur_n(*old(self)) <= j < cur_n(*final(self)) && #[trigger] starts_line(old(self).input@, j) ==> final(self).line_offsets@.contains(boff(old(self).input@, j) as usize),
    cur_n(*old(self)) <= cur_n(*final(self)),
''', props=['C01', 'C07', 'C10'])


HAY_PROOF = '''
    proof {
        lemma_cur_cursor(*self);
        lemma_utf8_boundary(self.input, m0);
        lemma_utf8_boundary(self.input, inp.len() as int);
        lemma_utf8_bytes_len(self.input);
        axiom_str_blen(self.input);
        lemma_boff_ends(inp);
        lemma_boff_mono(inp, m0, inp.len() as int);
    }
    let __hay = &self.input[$r];
    proof {
        lemma_utf8_suffix_view(self.input, __hay, m0);
    }
'''

next_match = Fn(
    F_FMI, IMPL, 'next_match', ret='res',
    spec='''
requires fm_inv(*old(self))
ensures
    fm_inv(*final(self)),
    final(self).input == old(self).input, final(self).offset == old(self).offset,
    same_config(old(self).scanner_impl, final(self).scanner_impl),
    forall|x: usize| #![trigger old(self).line_offsets@.contains(x)] #![trigger final(self).line_offsets@.contains(x)] old(self).line_offsets@.contains(x) ==> final(self).line_offsets@.contains(x),
    match res {
        None => cur_n(*final(self)) == old(self).input@.len()
            && no_more(old(self).scanner_impl, old(self).input@, cur_n(*old(self)))
            && final(self).scanner_impl.current_mode == old(self).scanner_impl.current_mode,
        Some(m) => is_next_tok(old(self).scanner_impl, old(self).input@, cur_n(*old(self)), m, cur_n(*final(self)))
            && final(self).scanner_impl.current_mode == next_mode(old(self).scanner_impl, m.token_type),
    },
    forall|j: int| cur_n(*old(self)) <= j < cur_n(*final(self)) && #[trigger] starts_line(old(self).input@, j) ==> final(self).line_offsets@.contains(boff(old(self).input@, j) as usize),
    cur_n(*old(self)) <= cur_n(*final(self)),
''',
    props=['C01', 'C04', 'C06', 'C07', 'C09', 'C10', 'C12'],
    edits=[
        Ins('body_start', None, '''
let ghost inp = self.input@;
let ghost s0 = self.scanner_impl;
let ghost m0 = cur_m(*self);
let ghost n0 = cur_n(*self);
let ghost mut n: int = n0;
let ghost lo0 = self.line_offsets@;
proof {
    lemma_cur_cursor(*self);
    axiom_str_blen(self.input);
}
''', label='next_match.entry'),
        LoopSpec('loop {', label='next_match.loop', spec='''
invariant
    fm_inv(*self),
    self.input == old(self).input, self.offset == old(self).offset, inp == self.input@,
    blen(inp) <= usize::MAX,
    scanner_wf(s0), mode_ok(s0),
    s0 == old(self).scanner_impl, n0 == cur_n(*old(self)), lo0 == old(self).line_offsets@,
    same_config(s0, self.scanner_impl), self.scanner_impl.current_mode == s0.current_mode,
    cursor(*self, m0, n), n0 <= n <= inp.len(),
    forall|q2: int| n0 <= q2 < n ==> no_cand_at(s0, inp, q2),
    forall|x: usize| #![trigger lo0.contains(x)] #![trigger self.line_offsets@.contains(x)] lo0.contains(x) ==> self.line_offsets@.contains(x),
    forall|j: int| n0 <= j < n && #[trigger] starts_line(inp, j) ==> self.line_offsets@.contains(boff(inp, j) as usize),
ensures
    fm_inv(*self),
    self.input == old(self).input, self.offset == old(self).offset,
    same_config(s0, self.scanner_impl), self.scanner_impl.current_mode == s0.current_mode,
    cursor(*self, m0, n), n == inp.len(), result is None,
    no_more(s0, inp, n0),
    forall|x: usize| #![trigger lo0.contains(x)] #![trigger self.line_offsets@.contains(x)] lo0.contains(x) ==> self.line_offsets@.contains(x),
    forall|j: int| n0 <= j < n && #[trigger] starts_line(inp, j) ==> self.line_offsets@.contains(boff(inp, j) as usize),
decreases self.char_indices.decrease()->0
'''),
        Replace('E6', 'result = self.scanner_impl.find_from(&self.input[$r], self.char_indices.clone());', '''
{ ''' + HAY_PROOF + '''
    let __ci = self.char_indices.clone();
    let ghost sb = self.scanner_impl;
    let ghost rem = self.char_indices.remaining();
    proof {
        lemma_cur_is(*self, m0, n);
        lemma_ci_at_slice(inp, m0, n, rem);
        assert(mode_wf(s0.scanner_modes@[s0.current_mode as int], s0.scanner_modes@.len() as int));
        lemma_boff_mono(inp, m0, n);
        lemma_boff_mono(inp, n, inp.len() as int);
    }
    result = self.scanner_impl.find_from(__hay, __ci);
    proof {
        // the automaton and class predicate consulted are those of the mode the iterator was in on entry
        lemma_same_config_trans(s0, sb, self.scanner_impl);
        assert(cur_dfa(sb) == cur_dfa(s0));
        assert(cur_cls(sb) == cur_cls(s0));
        assert(ci_at(rem, __hay@, n - m0));
        assert(find_post(cur_dfa(s0), cur_cls(s0), inp.skip(n), (boff(inp, n) - boff(inp, m0)) as nat, result));
        assert(cursor(*self, m0, n));
        lemma_cur_is(*self, m0, n);
    }
}''', why='argument expressions let-bound in evaluation order so that ghost code can name the haystack slice'),
        Ins('after', 'if let Some(mut matched) = result {', '''
let ghost sc1 = self.scanner_impl;
let ghost l = lemma_find_post_len(cur_dfa(s0), cur_cls(s0), inp.skip(n), (boff(inp, n) - boff(inp, m0)) as nat, matched);
let ghost m_rel = matched;
proof {
    lemma_boff_split(inp, n, l);
    assert(matched.span.end + self.offset == boff(inp, n + l));
    lemma_boff_mono(inp, n + l, inp.len() as int);
    assert(fm_inv(*self));
}
''', label='next_match.matched'),
        Ins('before', 'return Some(matched);', '''
proof {
    lemma_adv_target_boundary(inp, n, n + l, cur_n(*self));
    lemma_find_post_shift(cur_dfa(s0), cur_cls(s0), inp.skip(n), (boff(inp, n) - boff(inp, m0)) as nat, boff(inp, m0), m_rel, matched);
    assert(tok_at(s0, inp, n, matched));
    assert(is_next_tok(s0, inp, n0, matched, n + l));
    assert(s0.scanner_modes@[s0.current_mode as int].transitions == self.scanner_impl.scanner_modes@[s0.current_mode as int].transitions);
}
''', label='next_match.return_token'),
        Ins('after', '} else if let Some((i, c)) = self.char_indices.next() {', '''
proof {
    lemma_ci_seq_step(inp, n, (boff(inp, n) - boff(inp, m0)) as nat);
    lemma_boff_next(inp, n);
    lemma_boff_mono(inp, n + 1, inp.len() as int);
    assert(c == inp[n] && i + self.offset == boff(inp, n));
    assert(no_cand_at(s0, inp, n));
    if self.last_char == '\\n' { assert(starts_line(inp, n)); lemma_line_start_byte(inp, n); }
}
let ghost lo_b = self.line_offsets@;
let ghost lc_b = self.last_char;
''', label='next_match.skip_char'),
        Ins('after_stmt', 'self.record_line_offset($_);', '''
proof {
    assert(cursor(*self, m0, n + 1));
    lemma_cur_is(*self, m0, n + 1);
    assert forall|j: int| n0 <= j < n + 1 && #[trigger] starts_line(inp, j) implies self.line_offsets@.contains(boff(inp, j) as usize) by {
        if j == n {
            if n == 0 { lemma_boff_ends(inp); assert(lo_b[0] == 0usize); assert(lo_b.contains(0usize)); }
        } else {
            assert(lo_b.contains(boff(inp, j) as usize));
        }
    }
    n = n + 1;
}
''', label='next_match.skipped'),
        Ins('after', '} else {', '''
proof {
    if n < inp.len() { lemma_ci_seq_step(inp, n, (boff(inp, n) - boff(inp, m0)) as nat); }
    assert(n == inp.len());
    lemma_boff_ends(inp);
    lemma_utf8_bytes_len(self.input);
    if self.last_char == '\\n' { assert(starts_line(inp, n)); lemma_line_start_byte(inp, n); }
}
let ghost lo_b = self.line_offsets@;
''', occ=1, label='next_match.exhausted'),
        Ins('before', 'break', '''
proof {
    assert(cursor(*self, m0, n));
    lemma_cur_is(*self, m0, n);
    assert(no_cand_at(s0, inp, n)) by {
        assert forall|l: int, tid: TerminalID| !#[trigger] cand(cur_dfa(s0), cur_cls(s0), inp.skip(n), l, tid) by { }
    }
}
''', label='next_match.end_of_input'),
        Tail('''
proof {
    lemma_cur_is(*self, m0, n);
}
''', label='next_match.exit'),
    ])


advance_ci = Fn(
    F_FMI, IMPL, 'advance_char_indices_beyond_match',
    spec='''
requires
    (*old(char_indices)).obeys_prophetic_iter_laws(), (*old(char_indices)).decrease() is Some,
    forall|j: int| 0 <= j < (*old(char_indices)).remaining().len() ==> (#[trigger] (*old(char_indices)).remaining()[j]).0 + clen((*old(char_indices)).remaining()[j].1) <= usize::MAX,
ensures
    (*final(char_indices)).obeys_prophetic_iter_laws(), (*final(char_indices)).decrease() is Some,
    exists|k: int| 0 <= k <= (*old(char_indices)).remaining().len()
        && (*final(char_indices)).remaining() == (*old(char_indices)).remaining().skip(k)
        && #[trigger] adv_k((*old(char_indices)).remaining(), matched.span.start as int, matched.span.end as int, k),
''',
    props=['C11'],
    edits=[
        Ins('body_start', None, '''
broadcast use lemma_clen_bounds;
let ghost rem0 = (*char_indices).remaining();
let ghost mut k: int = 0;
proof { assert(rem0.skip(0) =~= rem0); }
'''),
        Ins('before', 'return;', '''
proof { assert(adv_k(rem0, matched.span.start as int, matched.span.end as int, 0)); }
'''),
        ForLoop('for (i, c) in char_indices {', it=None, place='char_indices', by_ref=False, label='advance_ci.loop', spec='''
invariant_except_break
    forall|j: int| 0 <= j < k ==> (#[trigger] rem0[j]).0 + clen(rem0[j].1) < end,
invariant
    (*char_indices).obeys_prophetic_iter_laws(), (*char_indices).decrease() is Some,
    0 <= k <= rem0.len(),
    (*char_indices).remaining() == rem0.skip(k),
    forall|j: int| 0 <= j < rem0.len() ==> (#[trigger] rem0[j]).0 + clen(rem0[j].1) <= usize::MAX,
    end == matched.span.end, matched.span.start < matched.span.end,
ensures
    0 <= k <= rem0.len(),
    (*char_indices).remaining() == rem0.skip(k),
    adv_k(rem0, matched.span.start as int, end as int, k),
decreases (*char_indices).decrease()->0
''', body_pre='''
broadcast use lemma_clen_bounds;
'''),
        Ins('after', 'for (i, c) in char_indices {', '''
proof {
    assert(rem0.skip(k)[0] == rem0[k]);
    assert((i, c) == rem0[k]);
    assert(rem0.skip(k).drop_first() =~= rem0.skip(k + 1));
    k = k + 1;
}
'''),
    ])

PEEK_FRAME = '''
    self.input == old(self).input, self.offset == old(self).offset, self.char_indices == old(self).char_indices,
    self.line_offsets == old(self).line_offsets, self.last_char == old(self).last_char, self.last_position == old(self).last_position,
    inp == self.input@, blen(inp) <= usize::MAX, s0 == old(self).scanner_impl, n0 == cur_n(*old(self)), m0 == cur_m(*old(self)),
    fm_inv(*old(self)), scanner_wf(s0), mode_ok(s0),
    same_config(s0, self.scanner_impl), self.scanner_impl.current_mode == s0.current_mode,
    scanner_wf(self.scanner_impl), mode_ok(self.scanner_impl),
    char_indices.obeys_prophetic_iter_laws(), char_indices.decrease() is Some,
    0 <= m0 <= n0 <= q <= inp.len(), self.offset == boff(inp, m0),
    char_indices.remaining() == ci_seq(inp.skip(q), (boff(inp, q) - boff(inp, m0)) as nat),
'''

peek_n = Fn(
    F_FMI, IMPL, 'peek_n', ret='r',
    spec='''
requires fm_inv(*old(self))
ensures
    // no side effect on position, line bookkeeping or mode
    fm_inv(*final(self)),
    final(self).input == old(self).input, final(self).offset == old(self).offset, final(self).char_indices == old(self).char_indices,
    final(self).line_offsets == old(self).line_offsets, final(self).last_char == old(self).last_char, final(self).last_position == old(self).last_position,
    same_config(old(self).scanner_impl, final(self).scanner_impl),
    final(self).scanner_impl.current_mode == old(self).scanner_impl.current_mode,
    cur_n(*final(self)) == cur_n(*old(self)),
    // the outcome
    ({
        let s0 = old(self).scanner_impl; let inp = old(self).input@; let n0 = cur_n(*old(self));
        match r {
            PeekResult::Matches(v) => v@.len() == n && no_switch(s0, v@, v@.len() as int) && exists|qe: int| toks_from(s0, inp, n0, v@, qe),
            PeekResult::MatchesReachedEnd(v) => 0 < v@.len() < n && no_switch(s0, v@, v@.len() as int)
                && exists|qe: int| toks_from(s0, inp, n0, v@, qe) && no_more(s0, inp, qe),
            PeekResult::MatchesReachedModeSwitch((v, mode)) => 1 <= v@.len() <= n && no_switch(s0, v@, v@.len() - 1)
                && tr_lookup(cur_trans(s0), v@.last().token_type) == Some(mode)
                && exists|qe: int| toks_from(s0, inp, n0, v@, qe),
            PeekResult::NotFound => n > 0 && no_more(s0, inp, n0),
        }
    }),
''',
    props=['C11', 'C06', 'C12'],
    edits=[
        Ins('body_start', None, '''
let ghost inp = self.input@;
let ghost s0 = self.scanner_impl;
let ghost m0 = cur_m(*self);
let ghost n0 = cur_n(*self);
let ghost mut q: int = n0;
let ghost mut qe: int = n0;
let ghost mut cnt: int = 0;
let ghost mut ended: bool = false;
proof {
    lemma_cur_cursor(*self);
    axiom_str_blen(self.input);
}
''', label='peek_n.entry'),
        ForLoop('for _ in 0..n {', it='__rng', label='peek_n.loop', spec='''
invariant_except_break
    __rng.remaining().len() == n - cnt,
    no_switch(s0, matches@, cnt),
    !mode_switch, !ended, q == qe,
invariant
    __rng.obeys_prophetic_iter_laws(), __rng.decrease() is Some,
''' + PEEK_FRAME + '''
    0 <= cnt <= n, matches@.len() == cnt,
    toks_from(s0, inp, n0, matches@, qe),
ensures
''' + PEEK_FRAME + '''
    matches@.len() <= n,
    toks_from(s0, inp, n0, matches@, qe),
    mode_switch ==> matches@.len() >= 1 && no_switch(s0, matches@, matches@.len() - 1) && tr_lookup(cur_trans(s0), matches@.last().token_type) == Some(new_mode),
    !mode_switch ==> no_switch(s0, matches@, matches@.len() as int),
    !mode_switch && matches@.len() != n ==> no_more(s0, inp, qe),
decreases __rng.decrease()->0
'''),
        Ins('after', 'for _ in 0..n {', '''
let ghost qs = q;
''', label='peek_n.iteration'),
        LoopSpec('loop {', label='peek_n.skip_loop', spec='''
invariant
''' + PEEK_FRAME + '''
    qs <= q,
    forall|q2: int| qs <= q2 < q ==> no_cand_at(s0, inp, q2),
ensures
''' + PEEK_FRAME + '''
    qs <= q,
    forall|q2: int| qs <= q2 < q ==> no_cand_at(s0, inp, q2),
    find_post(cur_dfa(s0), cur_cls(s0), inp.skip(q), (boff(inp, q) - boff(inp, m0)) as nat, result),
    result is None ==> q == inp.len(),
decreases char_indices.decrease()->0
'''),
        Replace('E6', 'result = self.scanner_impl.peek_from(&self.input[$r], char_indices.clone());', '''
{
    proof {
        lemma_utf8_boundary(self.input, m0);
        lemma_utf8_boundary(self.input, inp.len() as int);
        lemma_utf8_bytes_len(self.input);
        lemma_boff_ends(inp);
        lemma_boff_mono(inp, m0, inp.len() as int);
    }
    let __hay = &self.input[$r];
    proof { lemma_utf8_suffix_view(self.input, __hay, m0); }
    let __ci = char_indices.clone();
    let ghost sb = self.scanner_impl;
    let ghost rem = char_indices.remaining();
    proof {
        lemma_ci_at_slice(inp, m0, q, rem);
        lemma_boff_mono(inp, m0, q);
        lemma_boff_mono(inp, q, inp.len() as int);
    }
    result = self.scanner_impl.peek_from(__hay, __ci);
    proof {
        lemma_same_config_trans(s0, sb, self.scanner_impl);
        assert(cur_dfa(sb) == cur_dfa(s0));
        assert(cur_cls(sb) == cur_cls(s0));
        assert(ci_at(rem, __hay@, q - m0));
        assert(find_post(cur_dfa(s0), cur_cls(s0), inp.skip(q), (boff(inp, q) - boff(inp, m0)) as nat, result));
    }
}''', why='argument expressions let-bound in evaluation order so that ghost code can name the haystack slice'),
        Replace('E6', 'if result.is_some() || char_indices.next().is_none() { break; }', '''
if result.is_some() { break; }
let ghost rem_b = char_indices.remaining();
let __nx = char_indices.next();
proof {
    if q < inp.len() {
        lemma_ci_seq_step(inp, q, (boff(inp, q) - boff(inp, m0)) as nat);
        lemma_boff_next(inp, q);
        lemma_boff_mono(inp, m0, q);
    }
    lemma_ci_seq_len(inp.skip(q), (boff(inp, q) - boff(inp, m0)) as nat);
}
if __nx.is_none() {
    proof { assert(q == inp.len()); }
    break;
}
proof {
    assert(no_cand_at(s0, inp, q));
    q = q + 1;
}
''', why='short-circuit `a || b` with a side effect in `b` written as two ifs (same evaluation order)'),
        Ins('after', 'if let Some(mut matched) = result {', '''
let ghost l = lemma_find_post_len(cur_dfa(s0), cur_cls(s0), inp.skip(q), (boff(inp, q) - boff(inp, m0)) as nat, matched);
let ghost m_rel = matched;
let ghost rem_b = char_indices.remaining();
let ghost old_matches = matches@;
proof {
    lemma_boff_split(inp, q, l);
    lemma_boff_mono(inp, q + l, inp.len() as int);
    lemma_boff_mono(inp, m0, q);
    assert(matched.span.end + self.offset == boff(inp, q + l));
    lemma_ci_seq_len(inp.skip(q), (boff(inp, q) - boff(inp, m0)) as nat);
    assert forall|j: int| 0 <= j < rem_b.len() implies (#[trigger] rem_b[j]).0 + clen(rem_b[j].1) <= usize::MAX by {
        lemma_ci_seq_at(inp, m0, q, j);
        lemma_boff_next(inp, q + j);
        lemma_boff_mono(inp, q + j + 1, inp.len() as int);
    }
}
''', label='peek_n.matched'),
        Ins('after_stmt', 'Self::advance_char_indices_beyond_match($_);', '''
let ghost k = choose|k: int| 0 <= k <= rem_b.len() && char_indices.remaining() == rem_b.skip(k)
    && #[trigger] adv_k(rem_b, m_rel.span.start as int, m_rel.span.end as int, k);
proof {
    lemma_adv_k_target(inp, m0, q, m_rel.span.start as int, m_rel.span.end as int, k);
    lemma_adv_target_boundary(inp, q, q + l, q + k);
    lemma_ci_seq_skip(inp, m0, q, k);
}
''', label='peek_n.advanced'),
        Ins('after_stmt', 'matches.push($_);', '''
proof {
    lemma_find_post_shift(cur_dfa(s0), cur_cls(s0), inp.skip(q), (boff(inp, q) - boff(inp, m0)) as nat, boff(inp, m0), m_rel, matched);
    assert(tok_at(s0, inp, q, matched));
    assert(is_next_tok(s0, inp, qs, matched, q + l));
    assert(matches@.drop_last() =~= old_matches);
    assert(matches@.last() == matched);
    assert(toks_from(s0, inp, n0, matches@, q + l));
    assert(cur_trans(s0) == self.scanner_impl.scanner_modes@[self.scanner_impl.current_mode as int].transitions@);
    assert forall|i: int| 0 <= i < cnt implies tr_lookup(cur_trans(s0), (#[trigger] matches@[i]).token_type) is None by {
        assert(matches@[i] == old_matches[i]);
    }
    q = q + l;
    qe = q;
    cnt = cnt + 1;
}
''', label='peek_n.pushed'),
        Ins('after', '} else {', '''
proof {
    ended = true;
    assert forall|q2: int| qs <= q2 <= inp.len() implies no_cand_at(s0, inp, q2) by {
        if q2 == inp.len() {
            assert forall|l: int, tid: TerminalID| !#[trigger] cand(cur_dfa(s0), cur_cls(s0), inp.skip(q2), l, tid) by { }
        }
    }
}
''', occ=1, label='peek_n.no_more'),
        Ins('before', 'if mode_switch {', '''
proof {
    assert(cursor(*self, m0, n0));
    lemma_cur_is(*self, m0, n0);
    lemma_same_config_wf(s0, self.scanner_impl);
}
''', occ=1, label='peek_n.classify'),
    ])


position = Fn(
    F_FMI, IMPL, 'position', ret='p',
    spec='''
requires lo_wf(self.input@, self.line_offsets@), offset < usize::MAX, blen(self.input@) <= usize::MAX
ensures
    exists|g: int| #[trigger] is_greatest(self.line_offsets@, offset as int, g) && p.line == g + 1 && p.column == offset - self.line_offsets@[g] + 1,
    // the property: line = 1 + number of line breaks before the offset, column = byte distance from the line start + 1
    forall|k: int| 0 <= k <= self.input@.len() && #[trigger] boff(self.input@, k) == offset && complete_upto(self.input@, self.line_offsets@, k + 1)
        ==> p.line == true_line(self.input@, k) && p.column == true_col(self.input@, k),
    // permitted alternative right after a line break (line start not recorded yet): same line, column after the line break
    forall|k: int| 0 < k <= self.input@.len() && #[trigger] boff(self.input@, k) == offset && complete_upto(self.input@, self.line_offsets@, k)
        && starts_line(self.input@, k) && !self.line_offsets@.contains(offset)
        ==> p.line == true_line(self.input@, k) - 1 && p.column == offset - boff(self.input@, line_start_of(self.input@, k - 1)) + 1,
''',
    props=['C09'],
    edits=[
        Replace('E3', 'match self.line_offsets.binary_search_by(|&x| $body) {', '''
let __cl0 = |x0: &usize| -> (o: core::cmp::Ordering) ensures o == (*x0).cmp_spec(&offset) { let x = *x0; $body };
let ghost g0 = |x: usize| x.cmp_spec(&offset);
let ghost lo = self.line_offsets@;
proof {
    assert(models_ord(__cl0, g0));
    assert(mono_ord(g0, lo)) by {
        assert forall|j: int, k: int| 0 <= j < k < lo.len() implies
            (g0(#[trigger] lo[k]) == core::cmp::Ordering::Less ==> g0(#[trigger] lo[j]) == core::cmp::Ordering::Less) && (g0(lo[j]) == core::cmp::Ordering::Greater ==> g0(lo[k]) == core::cmp::Ordering::Greater) by {
            assert(lo[j] < lo[k]);
        }
    }
    lemma_lo_bounded(self.input@, lo);
}
let __bs = self.line_offsets.binary_search_by(__cl0);
let ghost gidx: int = match __bs { Ok(i) => i as int, Err(i) => i - 1 };
proof {
    assert(models_ord(__cl0, g0) && mono_ord(g0, lo));
    match __bs {
        Ok(i) => { if i + 1 < lo.len() { assert(lo[i as int] < lo[i + 1]); } }
        Err(i) => { if i == 0 { assert(g0(lo[0]) == core::cmp::Ordering::Greater); } }
    }
    assert(is_greatest(lo, offset as int, gidx));
    assert(self.line_offsets.len() == lo.len());
    assert forall|k: int| 0 <= k <= self.input@.len() && #[trigger] boff(self.input@, k) == offset && complete_upto(self.input@, lo, k + 1)
        implies lo[gidx] == boff(self.input@, line_start_of(self.input@, k)) && gidx == nl_count(self.input@, k) by {
        lemma_position_exact(self.input@, lo, k, gidx);
    }
    assert forall|k: int| 0 < k <= self.input@.len() && #[trigger] boff(self.input@, k) == offset && complete_upto(self.input@, lo, k)
        && starts_line(self.input@, k) && !lo.contains(offset)
        implies lo[gidx] == boff(self.input@, line_start_of(self.input@, k - 1)) && gidx + 1 == nl_count(self.input@, k) by {
        lemma_position_alt(self.input@, lo, k, gidx);
    }
}
match __bs {''', why='closure pattern `|&x|` bound to a variable and hoisted (E3); scrutinee let-bound (E6)'),
    ])

position_new = Fn(F_POS, 'Position', 'new', ret='r', spec='ensures r.line == line, r.column == column', props=['C09'])

offset_fn = Fn(F_FMI, IMPL, 'offset', ret='r',
               spec='requires fm_inv(*self)\nensures r == self.last_position + self.offset',
               edits=[Ins('body_start', None, 'proof { axiom_str_blen(self.input); lemma_cur_cursor(*self); lemma_boff_mono(self.input@, cur_n(*self), self.input@.len() as int); }')], props=['C10'])

fmi_current_mode = Fn(F_FMI, IMPL, 'current_mode', ret='r', spec='ensures r == self.scanner_impl.current_mode', props=['C06'])
fmi_set_mode = Fn(F_FMI, IMPL, 'set_mode', spec='''
requires fm_inv(*old(self)), mode < old(self).scanner_impl.scanner_modes@.len()
ensures
    fm_inv(*final(self)),
    final(self).scanner_impl.current_mode == mode,
    final(self).scanner_impl.scanner_modes == old(self).scanner_impl.scanner_modes,
    final(self).scanner_impl.match_char_class == old(self).scanner_impl.match_char_class,
    final(self).scanner_impl.character_classes == old(self).scanner_impl.character_classes,
    final(self).input == old(self).input, final(self).offset == old(self).offset,
    final(self).char_indices == old(self).char_indices, final(self).line_offsets == old(self).line_offsets,
    final(self).last_char == old(self).last_char, final(self).last_position == old(self).last_position,
''', props=['C06'],
                   edits=[Ins('body_end', None, '''
proof {
    lemma_cur_cursor(*old(self));
    assert(cursor(*self, cur_m(*old(self)), cur_n(*old(self))));
    lemma_cur_is(*self, cur_m(*old(self)), cur_n(*old(self)));
}
''')])
fmi_mode_name = Fn(F_FMI, IMPL, 'mode_name', ret='r', spec='''
ensures
    index < self.scanner_impl.scanner_modes@.len() ==> r is Some && r->0@ == self.scanner_impl.scanner_modes@[index as int].name@,
    index >= self.scanner_impl.scanner_modes@.len() ==> r is None,
''', props=['C06'])

VALUE_FNS = [
    Fn(F_SPAN, 'Span', 'new', ret='r', spec='ensures r.start == start, r.end == end'),
    Fn(F_SPAN, 'Span', 'is_empty', ret='r', spec='ensures r == (self.start >= self.end)'),
    Fn(F_SPAN, 'Span', 'len', ret='r', spec='ensures r == if self.end >= self.start { self.end - self.start } else { 0 }'),
    Fn(F_MATCH, 'Match', 'new', ret='r', spec='ensures r.token_type == token_type, r.span == span'),
    Fn(F_MATCH, 'Match', 'start', ret='r', spec='ensures r == self.span.start'),
    Fn(F_MATCH, 'Match', 'end', ret='r', spec='ensures r == self.span.end'),
    Fn(F_MATCH, 'Match', 'span', ret='r', spec='ensures r == self.span'),
    Fn(F_MATCH, 'Match', 'len', ret='r', spec='ensures r == if self.span.end >= self.span.start { self.span.end - self.span.start } else { 0 }'),
    Fn(F_MATCH, 'Match', 'is_empty', ret='r', spec='ensures r == (self.span.start >= self.span.end)'),
    Fn(F_MATCH, 'Match', 'token_type', ret='r', spec='ensures r == self.token_type'),
    Fn(F_MATCH, 'Match', 'add_offset', spec='''
requires old(self).span.start + offset <= usize::MAX, old(self).span.end + offset <= usize::MAX
ensures final(self).token_type == old(self).token_type,
    final(self).span.start == old(self).span.start + offset, final(self).span.end == old(self).span.end + offset,
''', props=['C01', 'C10']),
]

CONTRACTS = [as_contract(f, 'contract proved in unit U-mode') for f in
             (mode.reset, mode.si_find_from, mode.si_peek_from, mode.si_has_transition, mode.current_mode, mode.set_mode, mode.mode_name)]

TYPES = [it for it in mode.TYPES if not (isinstance(it, Struct) and it.name in ('Span', 'Match'))]

UNIT = dict(
    name='u_iter',
    externs=['rustc_hash'],
    header=dfa.UNIT['header'] + 'use std::sync::Arc;\nuse vstd::std_specs::cmp::OrdSpec;\nuse vstd::string::StringSliceAdditionalSpecFns;\n',
    generic_types=[('ScannerImpl', 'M', mode.BOUND), ('FindMatchesImpl', 'M', mode.BOUND)],
    items=TYPES + [
        RawFile('../common/str_prelude.rs'),
        RawFile('../common/blen_lemmas.rs'),
        RawFile('../u_dfa/unique_lemmas.rs'),
        Struct(F_SPAN, 'Span', derive=['Clone', 'Copy']),
        Struct(F_MATCH, 'Match', derive=['Clone', 'Copy']),
        Struct(mode.F_MODE, 'CompiledScannerMode', derive=[]),
        Raw('''
#[verifier::external_body]
pub struct CharacterClassRegistry { _private: () }
''', label='opaque CharacterClassRegistry'),
        Struct(mode.F_SI, 'ScannerImpl', derive=[], dyn_param='M'),
        RawFile('../common/scanner_wf.rs'),
        RawFile('../u_mode/mode_spec.rs'),
        Struct(F_FMI, 'FindMatchesImpl', derive=[]),
        Enum(F_FM, 'PeekResult'),
        Struct(F_POS, 'Position', derive=['Clone', 'Copy']),
        RawFile('../u_iter/iter_spec.rs'),
    ] + VALUE_FNS + CONTRACTS + [
        merge_line_offsets,
        record_line_offset,
        new,
        set_offset,
        with_offset,
        advance_to,
        advance_beyond_match,
        next_match,
        advance_ci,
        peek_n,
        position_new,
        position,
        offset_fn,
        fmi_current_mode,
        fmi_set_mode,
        fmi_mode_name,
    ],
)
