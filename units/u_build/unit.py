# U-build: CompiledScannerMode::try_from_scanner_mode and the two `impl TryFrom<..> for ScannerImpl` (C01..C12 producer side of scanner_wf; C02):
# the scanner handed to the scanning layer is well formed (scanner_wf of units/common/scanner_wf.rs, the assumption of every scan-side
# contract) and each of its modes is what the build pipeline of U-glue produces for the mode's patterns on the shared registry.
import os, importlib.util
from extract import *

def _load(name):
    p = os.path.join(os.path.dirname(os.path.abspath(__file__)), '..', name, 'unit.py')
    spec = importlib.util.spec_from_file_location('unit_' + name + '_for_build', p)
    m = importlib.util.module_from_spec(spec)
    spec.loader.exec_module(m)
    return m

glue = _load('u_glue')
F_DFA, F_PAT, F_IDS = glue.F_DFA, glue.F_PAT, glue.F_IDS
F_MODE = 'scnr/src/internal/compiled_scanner_mode.rs'
F_SI = 'scnr/src/internal/scanner_impl.rs'
F_SM = 'scnr/src/scanner_mode.rs'
F_REG = 'scnr/src/internal/character_class_registry.rs'
P = ['C01', 'C02', 'C04', 'C05', 'C06', 'C07']
HERE = os.path.dirname(os.path.abspath(__file__))
ID_SPECS = {'new': 'ensures r.0 == index', 'as_usize': 'ensures r == self.0', 'id': 'ensures r == self.0'}

def absfile(it, base):
    if isinstance(it, RawFile) and not os.path.isabs(it.path):
        return RawFile(os.path.join(base, it.path), it.label)
    return it

items = []
for it in glue.UNIT['items']:
    if isinstance(it, Fn) and not it.external_body and it.qual in ('CompiledLookahead::try_from_lookahead', 'CompiledDfa::add_lookahead', 'CompiledDfa::try_from_patterns', 'Pattern::lookahead'):
        items.append(as_contract(it, 'contract proved in unit U-glue'))
    elif isinstance(it, RawFile) and it.label == 'ast_types.rs':
        # the AST with the class level transparent (leaf_sem is defined over it), instead of the opaque leaves the other build units use
        for f in ('class_types.rs', 'ast_upper_types.rs', 'class_sem.rs', 'leaf_sem.rs'):
            items.append(RawFile(os.path.join(HERE, '..', 'common', f), f))
    elif isinstance(it, Raw) and it.label == 'Box::as_ref spec':
        continue  # common/class_types.rs (included above) carries the same std contract
    elif isinstance(it, RawFile) and it.label == 'same_class_decl.rs':
        # registry equality DEFINED (as ComparableAst::eq is proved to compute it, unit U-reg), with the lemma that leaf_sem respects it
        items.append(RawFile(os.path.join(HERE, '..', 'common', 'same_class_def.rs'), 'same_class_def.rs'))
    else:
        items.append(absfile(it, os.path.join(HERE, '..', 'u_glue')))

try_from_scanner_mode = Fn(F_MODE, 'CompiledScannerMode', 'try_from_scanner_mode', ret='r', props=P,
    spec='''
requires mode_fits(scanner_mode.patterns@, old(character_class_registry).view())
ensures
    r matches Ok(cm) ==> cm.name == scanner_mode.name && cm.transitions == scanner_mode.transitions
        && dfa_built(scanner_mode.patterns@, old(character_class_registry).view(), cm.dfa, final(character_class_registry).view()),
''')

LOOP_INV = '''
invariant
    __it1.obeys_prophetic_iter_laws(), __it1.decrease() is Some, __it1.remaining().len() <= modes.len(),
    forall|q: int| 0 <= q < __it1.remaining().len() ==> %(elem)s__it1.remaining()[q] == modes[modes.len() - __it1.remaining().len() + q],
    modes_fit(modes), compiled_scanner_modes@.len() == modes.len() - __it1.remaining().len(),
    character_class_registry.view() == mode_reg(modes, compiled_scanner_modes@.len() as int),
    forall|k: int| 0 <= k < compiled_scanner_modes@.len() ==> mode_built(modes, k, #[trigger] compiled_scanner_modes@[k]),
ensures __it1.remaining().len() == 0,
decreases __it1.decrease()->0
'''
TRY_SPEC = '''
requires valid_config(%(modes)s), modes_fit(%(modes)s)
ensures
    // the scanner the scanning layer receives is well formed, starts in mode 0, and mode k is the compiled form of mode k of the configuration
    r matches Ok(s) ==> scanner_wf(s) && s.current_mode == 0 && s.scanner_modes@.len() == %(modes)s.len()
        && (forall|k: int| 0 <= k < %(modes)s.len() ==> mode_built(%(modes)s, k, #[trigger] s.scanner_modes@[k]))
        // the registry stored in the scanner (and handed to create_match_char_class) is the final one: every class id of every automaton indexes into it
        // (theorem_scanner_classes_registered)
        && s.character_classes.view() == final_reg(%(modes)s)
        // the class predicate stored in the scanner is the one built from that registry: callable on every registered id (the bound of its
        // unsafe get_unchecked) and equal to the class layer's meaning of the registered leaf (contract of create_match_char_class, unit U-reg)
        && cls_built(&*s.match_char_class, final_reg(%(modes)s)),
'''
FINAL = '''
proof {
    assert(character_class_registry.view() == final_reg(modes));
    lemma_scanner_final(modes, compiled_scanner_modes@, &*match_char_class);
}
'''

def try_from(impl, rename, modes_expr, elem, clone_edit):
    return Fn(F_SI, impl, 'try_from', ret='r', rename=rename, impl_as='ScannerImpl', qual_as='ScannerImpl', props=P,
        attrs='#[verifier::loop_isolation(false)] #[verifier::allow_complex_invariants]',
        spec=TRY_SPEC % dict(modes=modes_expr),
        edits=[
            Ins('body_start', None, 'let ghost modes = %s;' % modes_expr),
            Ins('after_stmt', 'let mut compiled_scanner_modes = $_;', 'proof { assert(compiled_scanner_modes@.len() == 0); }'),
            ForLoop('for scanner_mode in scanner_modes {', it='__it1', label=rename + '.modes', spec=LOOP_INV % dict(elem=elem)),
            Ins('after', 'for scanner_mode in scanner_modes {', '''
let ghost k = modes.len() - __it1.remaining().len() - 1;
proof { assert(%sscanner_mode == modes[k]); assert(mode_fits(modes[k].patterns@, mode_reg(modes, k))); }
''' % elem),
            Ins('before', 'Ok(Self {', FINAL),
        ] + clone_edit)

def _hidden(f):
    f.hide = ('mode_fits',)  # its quantifier over the patterns of a mode re-instantiates itself through mp_th (matching loop, measured: 80 s instead of 0.7 s)
    return f

try_from_vec = _hidden(try_from('TryFrom<Vec<ScannerMode>> for ScannerImpl', 'try_from__vec', 'scanner_modes@', '', []))
try_from_slice = _hidden(try_from('TryFrom<&[ScannerMode]> for ScannerImpl', 'try_from__slice', 'scanner_modes@', '*', []))

items += [
    IdMacro(F_IDS, 'ScannerModeID', members=('new', 'as_usize'), index_for=(), specs={'new': 'ensures r.0 == index', 'as_usize': 'ensures r == self.0'}),
    Struct(F_SM, 'ScannerMode', derive=[]),
    Struct(F_MODE, 'CompiledScannerMode', derive=[]),
    Struct(F_SI, 'ScannerImpl', derive=[], dyn_param='M'),
    RawFile(os.path.join(HERE, '..', 'common', 'dfa_wf.rs'), 'dfa_wf.rs'),
    RawFile(os.path.join(HERE, '..', 'common', 'dfa_match.rs'), 'dfa_match.rs'),
    RawFile('build_lang.rs'),
    RawFile('build_cls.rs'),
    RawFile('build_empty.rs'),
    RawFile(os.path.join(HERE, '..', 'common', 'scanner_wf.rs'), 'scanner_wf.rs'),
    RawFile('build_spec.rs'),
    RawFile(os.path.join(HERE, '..', 'common', 'cls_built.rs'), 'cls_built.rs'),
    RawFile('build_pred.rs'),
    Raw('''
impl Clone for ScannerMode {
    // TRUSTED: #[derive(Clone)] on ScannerMode copies every field
    #[verifier::external_body]
    fn clone(&self) -> (r: Self) ensures r == *self { unimplemented!() }
}
impl CharacterClassRegistry {
    // contract PROVED in unit U-reg for the closure the function returns (there: `-> Result<impl Fn(CharClassID, char) -> bool>`); here the
    // boxed `dyn Fn` is the scanner's type parameter M (rule E2), about which nothing else is known
    #[verifier::external_body]
    pub fn create_match_char_class<M: Fn(CharClassID, char) -> bool>(&self) -> (r: Result<M>)
        ensures r matches Ok(f) ==> cls_built(&f, self.view())
    { unimplemented!() }
}
''', label='trusted: derived Clone of ScannerMode; contract of create_match_char_class (proved in U-reg)'),
    Fn(F_REG, 'CharacterClassRegistry', 'new', ret='r', props=P, spec='ensures r.view() == Seq::<Ast>::empty()'),
    try_from_scanner_mode,
    try_from_vec,
    try_from_slice,
]

UNIT = dict(
    name='u_build',
    externs=glue.UNIT['externs'],
    header=glue.UNIT['header'] + 'use std::sync::Arc;\nuse regex_syntax::ast::{ClassSet, ClassSetBinaryOp, ClassSetBinaryOpKind, ClassSetItem, ClassSetRange, ClassSetUnion, LiteralKind, ClassAscii, ClassAsciiKind, ClassPerlKind, HexLiteralKind, SpecialLiteralKind};\n',
    generic_types=[('ScannerImpl', 'M', 'Fn(CharClassID, char) -> bool')],
    items=items,
)
