// ---------------------------------------------------------------- the class predicate of a built scanner (C02 / C08 / C07): the hypotheses `cls_ok` and `lf_respects`
// of the language theorems are discharged for the closure CharacterClassRegistry::create_match_char_class returns and for the class layer's meaning of leaves
/// the class layer's meaning of a registered leaf AST, as a function value
pub open spec fn leaf_fn() -> LeafF { |a: Ast, c: char| leaf_sem(a, c) }

/// ASSUMPTION kept explicit (Verus' closure logic gives `call_ensures(f, x, b) ==> post(b)` only; that a call within the precondition HAS an
/// outcome - i.e. the closure body, a table lookup plus a call of a boxed char predicate, returns - is not derivable): the predicate returns on
/// every registered class id
pub open spec fn has_outcome<F: Fn(CharClassID, char) -> bool>(f: &F, id: CharClassID, c: char) -> bool {
    exists|b: bool| #[trigger] call_ensures(*f, (id, c), b)
}
pub open spec fn cls_returns<F: Fn(CharClassID, char) -> bool>(f: &F, n: int) -> bool {
    forall|id: CharClassID, c: char| id.0 < n ==> #[trigger] has_outcome(f, id, c)
}

/// THEOREM: the registry's equality of leaf ASTs (as `ComparableAst::eq` is proved to compute it) preserves the meaning of leaves
pub proof fn theorem_leaf_sem_respects()
    ensures lf_respects(leaf_fn())
{
    assert forall|a: Ast, b: Ast, c: char| #![trigger same_class(a, b), leaf_fn()(b, c)] same_class(a, b) implies leaf_fn()(a, c) == leaf_fn()(b, c) by {
        lemma_leaf_sem_respects(a, b, c);
    }
}

/// THEOREM: the predicate a scanner is built with (postcondition cls_built of create_match_char_class) agrees with the meaning of every registered leaf
pub proof fn theorem_built_cls_ok<F: Fn(CharClassID, char) -> bool>(f: &F, reg: Seq<Ast>)
    requires cls_built(f, reg), cls_returns(f, reg.len() as int)
    ensures cls_ok(cls_of(f), leaf_fn(), reg)
{
    assert forall|id: int, c: char| 0 <= id < reg.len() && id <= u32::MAX implies cls_of(f)(CharClassID(id as u32), c) == #[trigger] leaf_fn()(reg[id], c) by {
        let cc = CharClassID(id as u32);
        assert(has_outcome(f, cc, c));
        let b = choose|b: bool| #[trigger] call_ensures(*f, (cc, c), b);
        assert(call_ensures(*f, (cc, c), b));
        assert(b == leaf_sem(reg[id], c));
        if call_ensures(*f, (cc, c), true) { assert(leaf_sem(reg[id], c)); }
    }
}

/// the predicate may be called with every class id of an automaton whose class ids are registered, and is deterministic there
/// (this is the bound the predicate's `unsafe get_unchecked` relies on, now a proved precondition of every call in CompiledDfa::find_from)
pub proof fn lemma_built_functional<F: Fn(CharClassID, char) -> bool>(f: &F, reg: Seq<Ast>, d: CompiledDfa)
    requires
        cls_built(f, reg), dfa_cls_below(d, reg.len() as int),
        forall|t: TerminalID| #[trigger] d.lookaheads@.contains_key(t) ==> dfa_cls_below(*d.lookaheads@[t].nfa, reg.len() as int),
    ensures cls_functional(f, core(d))
{
    assert forall|cc: CharClassID| cc.0 < reg.len() implies cls_functional_on(f, cc) by {
        assert forall|c: char| !(#[trigger] call_ensures(f, (cc, c), true) && call_ensures(f, (cc, c), false)) by {
            if call_ensures(*f, (cc, c), true) && call_ensures(*f, (cc, c), false) {
                assert(true == leaf_sem(reg[cc.0 as int], c));
                assert(false == leaf_sem(reg[cc.0 as int], c));
            }
        }
    }
    assert(cls_covers_flat(f, core(d))) by {
        assert forall|s: int, i: int| 0 <= s < d.states@.len() && 0 <= i < d.states@[s].transitions@.len()
            implies cls_functional_on(f, (#[trigger] d.states@[s].transitions@[i]).0) by { }
    }
    assert forall|t: TerminalID| #[trigger] core(d).lookaheads@.contains_key(t) implies cls_covers_flat(f, core(*core(d).lookaheads@[t].nfa)) by {
        let la = *d.lookaheads@[t].nfa;
        assert(dfa_cls_below(la, reg.len() as int));
        assert forall|s: int, i: int| 0 <= s < la.states@.len() && 0 <= i < la.states@[s].transitions@.len()
            implies cls_functional_on(f, (#[trigger] la.states@[s].transitions@[i]).0) by { }
    }
}

/// the last step of ScannerImpl::try_from: the compiled modes are well formed and the class predicate built from the final registry may be called
/// with every class id any of their automata refers to
pub proof fn lemma_scanner_final<M: Fn(CharClassID, char) -> bool>(modes: Seq<ScannerMode>, cms: Seq<CompiledScannerMode>, f: &M)
    requires
        valid_config(modes), modes_fit(modes), cms.len() == modes.len(),
        forall|k: int| 0 <= k < cms.len() ==> mode_built(modes, k, #[trigger] cms[k]),
        cls_built(f, final_reg(modes)),
    ensures
        forall|i: int| 0 <= i < cms.len() ==> mode_wf(#[trigger] cms[i], cms.len() as int),
        forall|i: int| 0 <= i < cms.len() ==> cls_functional(f, core((#[trigger] cms[i]).dfa)),
{
    assert forall|i: int| 0 <= i < cms.len() implies mode_wf(#[trigger] cms[i], cms.len() as int) by {
        assert(mode_built(modes, i, cms[i]));
        theorem_dfa_built_wf(modes[i].patterns@, mode_reg(modes, i), cms[i].dfa, mode_reg(modes, i + 1));
        assert(sorted_tr(modes[i].transitions@));
        assert forall|k: int| 0 <= k < modes[i].transitions@.len() implies (#[trigger] modes[i].transitions@[k]).1.0 < modes.len() by { }
    }
    assert forall|i: int| 0 <= i < cms.len() implies cls_functional(f, core((#[trigger] cms[i]).dfa)) by {
        assert(mode_built(modes, i, cms[i]));
        theorem_scanner_classes_registered(modes, i, cms[i]);
        lemma_built_functional(f, final_reg(modes), cms[i].dfa);
    }
}

/// what ScannerImpl::try_from returns for a configuration (its postcondition)
pub open spec fn scanner_built<M: Fn(CharClassID, char) -> bool>(modes: Seq<ScannerMode>, s: ScannerImpl<M>) -> bool {
    &&& scanner_wf(s) && s.current_mode == 0 && s.scanner_modes@.len() == modes.len()
    &&& forall|k: int| 0 <= k < modes.len() ==> mode_built(modes, k, #[trigger] s.scanner_modes@[k])
    &&& s.character_classes.view() == final_reg(modes)
    &&& cls_built(&*s.match_char_class, final_reg(modes))
}

/// THEOREM (C01 / C04 / C05 at pattern level, no hypothesis about the class predicate left but that it returns): for the scanner `s` that
/// ScannerImpl::try_from returns for `modes`, with ITS OWN class predicate, the candidates the scan-side contracts quantify over in mode k are
/// the pattern-level candidates of mode k under the class layer's meaning of leaves
pub proof fn theorem_built_scanner_cand<M: Fn(CharClassID, char) -> bool>(modes: Seq<ScannerMode>, s: ScannerImpl<M>, k: int, text: Seq<char>, l: int, tid: TerminalID)
    requires
        scanner_built(modes, s), modes_fit(modes), 0 <= k < modes.len(), la_consistent(modes[k].patterns@),
        cls_returns(&*s.match_char_class, final_reg(modes).len() as int),
    ensures
        cand(core(s.scanner_modes@[k].dfa), cls_of(&*s.match_char_class), text, l, tid) <==> p_cand(modes[k].patterns@, leaf_fn(), text, l, tid)
{
    theorem_leaf_sem_respects();
    theorem_built_cls_ok(&*s.match_char_class, final_reg(modes));
    theorem_scanner_cand(modes, k, s.scanner_modes@[k], cls_of(&*s.match_char_class), leaf_fn(), text, l, tid);
}

/// THEOREM (C02 for a built scanner, with its own class predicate): mode k's automaton accepts a non-empty word with token type tid iff some
/// pattern of mode k with that token type matches the whole word
pub proof fn theorem_built_scanner_acc<M: Fn(CharClassID, char) -> bool>(modes: Seq<ScannerMode>, s: ScannerImpl<M>, k: int, w: Seq<char>, tid: TerminalID)
    requires
        scanner_built(modes, s), modes_fit(modes), 0 <= k < modes.len(), w.len() > 0,
        cls_returns(&*s.match_char_class, final_reg(modes).len() as int),
    ensures
        acc(core(s.scanner_modes@[k].dfa), cls_of(&*s.match_char_class), w, tid) <==> p_acc(modes[k].patterns@, leaf_fn(), w, tid)
{
    theorem_leaf_sem_respects();
    theorem_built_cls_ok(&*s.match_char_class, final_reg(modes));
    theorem_scanner_mode_acc(modes, k, s.scanner_modes@[k], cls_of(&*s.match_char_class), leaf_fn(), w, tid);
}
