// ---------------------------------------------------------------- U-build: from the mode descriptions to a well-formed scanner
/// the configuration the properties quantify over: at least one mode, transitions sorted by token type and to existing modes
pub open spec fn valid_config(modes: Seq<ScannerMode>) -> bool {
    &&& modes.len() >= 1
    &&& forall|i: int| 0 <= i < modes.len() ==> sorted_tr((#[trigger] modes[i]).transitions@)
    &&& forall|i: int, k: int| 0 <= i < modes.len() && 0 <= k < modes[i].transitions@.len() ==> (#[trigger] modes[i].transitions@[k]).1.0 < modes.len()
}
/// registry after compiling one mode on registry reg: its patterns first, then their lookaheads
pub open spec fn reg_after(pats: Seq<Pattern>, reg: Seq<Ast>) -> Seq<Ast> {
    la_reg(pats, pats.len() as int, mp_th(pats, pats.len() as int, reg).1)
}
/// registry after the first i modes (all modes share one registry, filled in mode order)
pub open spec fn mode_reg(modes: Seq<ScannerMode>, i: int) -> Seq<Ast>
    decreases i
{
    if i <= 0 { Seq::empty() } else { reg_after(modes[i - 1].patterns@, mode_reg(modes, i - 1)) }
}
/// size assumptions of one mode on registry reg (every automaton stays below the 32-bit id width)
pub open spec fn mode_fits(pats: Seq<Pattern>, reg: Seq<Ast>) -> bool {
    mp_fits(pats, reg) && mp_off(pats, pats.len() as int, reg) < u32::MAX && la_fits(pats, mp_th(pats, pats.len() as int, reg).1)
}
pub open spec fn modes_fit(modes: Seq<ScannerMode>) -> bool {
    forall|i: int| 0 <= i < modes.len() ==> mode_fits((#[trigger] modes[i]).patterns@, mode_reg(modes, i))
}
/// compiled mode k of the scanner is what the build pipeline produces for mode k of the configuration
pub open spec fn mode_built(modes: Seq<ScannerMode>, k: int, cm: CompiledScannerMode) -> bool {
    &&& cm.name == modes[k].name && cm.transitions == modes[k].transitions
    &&& dfa_built(modes[k].patterns@, mode_reg(modes, k), cm.dfa, mode_reg(modes, k + 1))
}

/// token types an epsilon-elimination automaton accepts are token types its epsilon-NFA accepts
pub proof fn lemma_elim_accepts_listed(g: Gr, d0: CompiledDfa, reps: Seq<StateID>, i: int)
    requires elim_ok(g, d0, reps), 0 <= i < reps.len(), d0.end_states@[i].0
    ensures (g.acc)(reps[i].0 as int) is Some, d0.end_states@[i].1 == TerminalID((g.acc)(reps[i].0 as int)->0 as u32)
{
    assert(d0.end_states@[i] == elim_end(g, d0, reps, i));
}
/// the minimized epsilon-elimination automaton is well formed in the sense of the scanning side, if every accepted token type is listed
pub proof fn lemma_min_wf_flat(d0: CompiledDfa, dm: CompiledDfa, d: CompiledDfa)
    requires
        min_of(d0, dm), d.states == dm.states, d.end_states == dm.end_states, d.terminal_ids == dm.terminal_ids,
        forall|s: int| 0 <= s < d0.end_states@.len() && (#[trigger] d0.end_states@[s]).0 ==> d0.terminal_ids@.contains(d0.end_states@[s].1),
    ensures wf_flat(core(d))
{
    lemma_minimized_shape(d0, dm);
    assert forall|s: int| 0 <= s < d.end_states@.len() && (#[trigger] d.end_states@[s]).0 implies d.terminal_ids@.contains(d.end_states@[s].1) by {
        let s0 = choose|s0: int| 0 <= s0 < d0.states@.len() && #[trigger] d0.end_states@[s0] == dm.end_states@[s];
        assert(d0.end_states@[s0].0);
    }
}
/// a compiled lookahead automaton is well formed and has no lookaheads of its own
pub proof fn lemma_la_compiled_wf(ast: Ast, reg0: Seq<Ast>, d: CompiledDfa)
    requires la_compiled(ast, reg0, d)
    ensures wf_flat(core(d)), d.lookaheads@.len() == 0
{
    let (n, d0, reps) = choose|n: Nfa, d0: CompiledDfa, reps: Seq<StateID>| ids_ok(n) && n.states@.len() >= 1 && #[trigger] nfa_view(n) == thompson(ast, reg0).0
        && #[trigger] elim_ok(g_nfa(n), d0, reps) && d0.terminal_ids@ == seq![TerminalID(n.pattern.token_type as u32)] && min_of(d0, d);
    let g = g_nfa(n);
    assert forall|s: int| 0 <= s < d0.end_states@.len() && (#[trigger] d0.end_states@[s]).0 implies d0.terminal_ids@.contains(d0.end_states@[s].1) by {
        lemma_elim_accepts_listed(g, d0, reps, s);
        let a = reps[s].0 as int;
        assert((g.acc)(a) is Some);
        assert((g.acc)(a)->0 == n.pattern.token_type);
        assert(d0.terminal_ids@[0] == TerminalID(n.pattern.token_type as u32));
    }
    lemma_min_wf_flat(d0, d, d);
}
pub proof fn lemma_la_last_range(pats: Seq<Pattern>, k: int, tid: TerminalID)
    requires la_last(pats, k, tid) >= 0
    ensures 0 <= la_last(pats, k, tid) < k, la_last(pats, k, tid) < pats.len(), pats[la_last(pats, k, tid)].lookahead is Some
    decreases k
{
    if k > 0 && !(k <= pats.len() && pats[k - 1].lookahead is Some && tid_of(pats[k - 1]) == tid) { lemma_la_last_range(pats, k - 1, tid); }
}
/// THEOREM: what CompiledDfa::try_from_patterns returns is well formed in the sense the scanning side assumes (wf of U-dfa)
pub proof fn theorem_dfa_built_wf(pats: Seq<Pattern>, reg0: Seq<Ast>, d: CompiledDfa, regf: Seq<Ast>)
    requires dfa_built(pats, reg0, d, regf)
    ensures wf(core(d))
{
    let reg1 = mp_th(pats, pats.len() as int, reg0).1;
    let (m, d0, reps, dm) = choose|m: MultiPatternNfa, d0: CompiledDfa, reps: Seq<StateID>, dm: CompiledDfa| {
        &&& #[trigger] mp_built(pats, reg0, m) && #[trigger] elim_ok(g_mp(m), d0, reps) && #[trigger] min_of(d0, dm)
        &&& d0.terminal_ids@ == Seq::new(pats.len(), |i: int| tid_of(pats[i]))
        &&& d.states == dm.states && d.end_states == dm.end_states && d.terminal_ids == dm.terminal_ids
        &&& la_map_ok(pats, reg1, pats.len() as int, dm.lookaheads@, d.lookaheads@)
        &&& regf == la_reg(pats, pats.len() as int, reg1)
    };
    let g = g_mp(m);
    assert forall|s: int| 0 <= s < d0.end_states@.len() && (#[trigger] d0.end_states@[s]).0 implies d0.terminal_ids@.contains(d0.end_states@[s].1) by {
        lemma_elim_accepts_listed(g, d0, reps, s);
        let a = reps[s].0 as int;
        assert(mp_acc(m, a) is Some);
        let j = choose|j: int| #[trigger] mp_accepts(m, a, j);
        assert(owner(m, a, j));
        assert((g.acc)(a)->0 == m.nfas@[j].pattern.token_type);
        assert(m.nfas@[j].pattern.token_type == pats[j].token_type);
        assert(d0.terminal_ids@[j] == tid_of(pats[j]));
    }
    lemma_min_wf_flat(d0, dm, d);
    assert forall|t: TerminalID| #[trigger] d.lookaheads@.contains_key(t) implies wf_flat(core(*d.lookaheads@[t].nfa)) && d.lookaheads@[t].nfa.lookaheads@.len() == 0 by {
        let l = la_last(pats, pats.len() as int, t);
        if l >= 0 {
            lemma_la_last_range(pats, pats.len() as int, t);
            assert(la_entry_ok(pats, reg1, l, d.lookaheads@[t]));
            let la = pats[l].lookahead->0;
            lemma_la_compiled_wf(spec_parse(la.pattern@), la_reg(pats, l, reg1), *d.lookaheads@[t].nfa);
        } else {
            // the minimized union came without lookaheads
            assert(dm.lookaheads == d0.lookaheads);
            assert(d0.lookaheads@.len() == 0);
            assert(!dm.lookaheads@.contains_key(t)) by { if dm.lookaheads@.contains_key(t) { assert(dm.lookaheads@.dom().contains(t)); assert(dm.lookaheads@.dom().len() == 0); } }
        }
    }
}
/// THEOREM (C02 at the level of a built scanner): mode k of the scanner accepts a non-empty word with token type tid iff some pattern of mode k of the
/// configuration with that token type matches the word (reg2: any registry extending the one the mode's patterns were compiled on, e.g. the final one)
pub proof fn theorem_mode_language(modes: Seq<ScannerMode>, k: int, cm: CompiledScannerMode, reg2: Seq<Ast>, cls: ClsF, lf: LeafF, w: Seq<char>, tid: TerminalID)
    requires
        0 <= k < modes.len(), mode_built(modes, k, cm), mode_fits(modes[k].patterns@, mode_reg(modes, k)),
        lf_respects(lf), pre(mp_th(modes[k].patterns@, modes[k].patterns@.len() as int, mode_reg(modes, k)).1, reg2), cls_ok(cls, lf, reg2), w.len() > 0,
    ensures
        d_acc(cm.dfa, cls, w, tid) <==> exists|i: int| 0 <= i < modes[k].patterns@.len() && tid == tid_of(modes[k].patterns@[i]) && #[trigger] re_lang(spec_parse(modes[k].patterns@[i].pattern@), lf, w),
{
    let pats = modes[k].patterns@;
    let reg0 = mode_reg(modes, k);
    let reg1 = mp_th(pats, pats.len() as int, reg0).1;
    let d = cm.dfa;
    let (m, d0, reps, dm) = choose|m: MultiPatternNfa, d0: CompiledDfa, reps: Seq<StateID>, dm: CompiledDfa| {
        &&& #[trigger] mp_built(pats, reg0, m) && #[trigger] elim_ok(g_mp(m), d0, reps) && #[trigger] min_of(d0, dm)
        &&& d0.terminal_ids@ == Seq::new(pats.len(), |i: int| tid_of(pats[i]))
        &&& d.states == dm.states && d.end_states == dm.end_states && d.terminal_ids == dm.terminal_ids
        &&& la_map_ok(pats, reg1, pats.len() as int, dm.lookaheads@, d.lookaheads@)
        &&& mode_reg(modes, k + 1) == la_reg(pats, pats.len() as int, reg1)
    };
    theorem_union_minimized(pats, reg0, reg2, m, cls, lf, d0, reps, dm, d, w, tid);
}
