// ---------------------------------------------------------------- U-build: what the scan-side relations mean for a built scanner, in terms of its patterns
/// the two readings of a compiled automaton (scan side: acc over DfaCore; build side: d_acc) are the same relation
pub proof fn lemma_reach_bridge(d: CompiledDfa, cls: ClsF, w: Seq<char>, t: int)
    ensures reach(core(d), cls, w, t) <==> d_reach(d, cls, w, t)
    decreases w.len()
{
    let c = core(d);
    if w.len() > 0 {
        assert forall|s: int| (0 <= s < c.states@.len() && reach(c, cls, w.drop_last(), s) && #[trigger] step1(c, cls, s, w.last(), t))
            <==> (d_reach(d, cls, w.drop_last(), s) && d_step(d, cls, s, w.last(), t)) by {
            lemma_reach_bridge(d, cls, w.drop_last(), s);
            if 0 <= s < c.states@.len() {
                let tr = d.states@[s].transitions@;
                if step1(c, cls, s, w.last(), t) {
                    let i = choose|i: int| #[trigger] fires(c, cls, s, i, w.last()) && trans(c, s)[i].1.0 == t;
                    assert(tr[i] == (tr[i].0, StateSetID(t as u32)));
                    assert(tr.contains((tr[i].0, StateSetID(t as u32))));
                }
                if d_step(d, cls, s, w.last(), t) {
                    let cc = choose|cc: CharClassID| #[trigger] tr.contains((cc, StateSetID(t as u32))) && cls(cc, w.last());
                    let i = choose|i: int| 0 <= i < tr.len() && tr[i] == (cc, StateSetID(t as u32));
                    assert(fires(c, cls, s, i, w.last()));
                }
            }
        }
        if reach(c, cls, w, t) { let s = choose|s: int| 0 <= s < c.states@.len() && reach(c, cls, w.drop_last(), s) && #[trigger] step1(c, cls, s, w.last(), t); assert(d_step(d, cls, s, w.last(), t)); }
        if d_reach(d, cls, w, t) { let s = choose|s: int| d_reach(d, cls, w.drop_last(), s) && #[trigger] d_step(d, cls, s, w.last(), t); assert(step1(c, cls, s, w.last(), t)); }
    }
}
pub proof fn lemma_acc_bridge(d: CompiledDfa, cls: ClsF, w: Seq<char>, tid: TerminalID)
    ensures acc(core(d), cls, w, tid) <==> d_acc(d, cls, w, tid)
{
    let c = core(d);
    if acc(c, cls, w, tid) { let t = choose|t: int| 0 <= t < c.states@.len() && #[trigger] reach(c, cls, w, t) && c.end_states@[t] == (true, tid); lemma_reach_bridge(d, cls, w, t); }
    if d_acc(d, cls, w, tid) { let t = choose|t: int| 0 <= t < d.states@.len() && #[trigger] d_reach(d, cls, w, t) && d.end_states@[t] == (true, tid); lemma_reach_bridge(d, cls, w, t); }
}

// ---- the registry only grows: what was compiled on an earlier registry keeps its meaning on the final one
pub proof fn lemma_la_reg_pre(pats: Seq<Pattern>, i: int, k: int, reg: Seq<Ast>)
    requires 0 <= i <= k <= pats.len(), la_fits(pats, reg)
    ensures pre(la_reg(pats, i, reg), la_reg(pats, k, reg))
    decreases k - i
{
    if i < k {
        lemma_la_reg_pre(pats, i, k - 1, reg);
        let r = la_reg(pats, k - 1, reg);
        match pats[k - 1].lookahead {
            Some(la) => { assert(la_fit1(spec_parse(la.pattern@), r)); lemma_th_pre(spec_parse(la.pattern@), r); lemma_pre_trans(la_reg(pats, i, reg), r, la_reg(pats, k, reg)); }
            None => { }
        }
    }
}
pub proof fn lemma_reg_after_pre(pats: Seq<Pattern>, reg: Seq<Ast>)
    requires mode_fits(pats, reg)
    ensures pre(reg, mp_th(pats, pats.len() as int, reg).1), pre(mp_th(pats, pats.len() as int, reg).1, reg_after(pats, reg))
{
    lemma_mp_reg_pre(pats, 0, pats.len() as int, reg);
    lemma_la_reg_pre(pats, 0, pats.len() as int, mp_th(pats, pats.len() as int, reg).1);
}
pub proof fn lemma_mode_reg_pre(modes: Seq<ScannerMode>, i: int, k: int)
    requires 0 <= i <= k <= modes.len(), modes_fit(modes)
    ensures pre(mode_reg(modes, i), mode_reg(modes, k))
    decreases k - i
{
    if i < k {
        lemma_mode_reg_pre(modes, i, k - 1);
        let pats = modes[k - 1].patterns@;
        let r = mode_reg(modes, k - 1);
        assert(mode_fits(pats, r));
        lemma_reg_after_pre(pats, r);
        lemma_pre_trans(r, mp_th(pats, pats.len() as int, r).1, reg_after(pats, r));
        lemma_pre_trans(mode_reg(modes, i), r, mode_reg(modes, k));
    }
}
pub open spec fn final_reg(modes: Seq<ScannerMode>) -> Seq<Ast> { mode_reg(modes, modes.len() as int) }

// ---- pattern-level reading of the scan-side relations
/// the text of the lookahead that guards token type tid in a mode: that of the LAST pattern with this token type that carries one
pub open spec fn p_la_matches(la: Lookahead, lf: LeafF, rest: Seq<char>) -> bool {
    exists|p: int| 1 <= p <= rest.len() && #[trigger] re_lang(spec_parse(la.pattern@), lf, rest.take(p))
}
/// what the compiled scanner does: ONE lookahead per token type, that of the last pattern with this token type that carries one
pub open spec fn p_la_ok_last(pats: Seq<Pattern>, lf: LeafF, tid: TerminalID, rest: Seq<char>) -> bool {
    let l = la_last(pats, pats.len() as int, tid);
    l >= 0 ==> (pats[l].lookahead->0.is_positive == p_la_matches(pats[l].lookahead->0, lf, rest))
}
/// what property C04 states: a pattern is gated by ITS OWN lookahead (none: no condition)
pub open spec fn p_la_ok_own(p: Pattern, lf: LeafF, rest: Seq<char>) -> bool {
    p.lookahead matches Some(la) ==> (la.is_positive == p_la_matches(la, lf, rest))
}
/// configurations on which the two coincide: patterns of a mode that share a token type carry the same lookahead (or none of them carries one)
pub open spec fn la_consistent(pats: Seq<Pattern>) -> bool {
    forall|i: int, j: int| 0 <= i < pats.len() && 0 <= j < pats.len() && tid_of(#[trigger] pats[i]) == tid_of(#[trigger] pats[j]) ==> pats[i].lookahead == pats[j].lookahead
}
pub open spec fn p_acc(pats: Seq<Pattern>, lf: LeafF, w: Seq<char>, tid: TerminalID) -> bool {
    exists|i: int| 0 <= i < pats.len() && tid == tid_of(pats[i]) && #[trigger] re_lang(spec_parse(pats[i].pattern@), lf, w)
}
/// (l, tid) is a candidate token at the start of text: some pattern with token type tid matches the first l characters and the lookahead guarding tid agrees with what follows
pub open spec fn p_cand_last(pats: Seq<Pattern>, lf: LeafF, text: Seq<char>, l: int, tid: TerminalID) -> bool {
    1 <= l <= text.len() && p_acc(pats, lf, text.take(l), tid) && p_la_ok_last(pats, lf, tid, text.skip(l))
}
/// THE PROPERTY'S candidate (C04): some pattern with token type tid matches the first l characters and its own lookahead condition holds on the rest
pub open spec fn p_cand(pats: Seq<Pattern>, lf: LeafF, text: Seq<char>, l: int, tid: TerminalID) -> bool {
    1 <= l <= text.len() && exists|i: int| 0 <= i < pats.len() && tid == tid_of(pats[i]) && #[trigger] re_lang(spec_parse(pats[i].pattern@), lf, text.take(l))
        && p_la_ok_own(pats[i], lf, text.skip(l))
}

/// THEOREM: in mode k of a built scanner, the scan side's `acc` is "some pattern of the mode with that token type matches"
pub proof fn theorem_scanner_mode_acc(modes: Seq<ScannerMode>, k: int, cm: CompiledScannerMode, cls: ClsF, lf: LeafF, w: Seq<char>, tid: TerminalID)
    requires
        0 <= k < modes.len(), mode_built(modes, k, cm), modes_fit(modes), lf_respects(lf), cls_ok(cls, lf, final_reg(modes)), w.len() > 0,
    ensures acc(core(cm.dfa), cls, w, tid) <==> p_acc(modes[k].patterns@, lf, w, tid)
{
    let pats = modes[k].patterns@;
    let r = mode_reg(modes, k);
    assert(mode_fits(pats, r));
    lemma_reg_after_pre(pats, r);
    lemma_mode_reg_pre(modes, k + 1, modes.len() as int);
    lemma_pre_trans(mp_th(pats, pats.len() as int, r).1, mode_reg(modes, k + 1), final_reg(modes));
    theorem_mode_language(modes, k, cm, final_reg(modes), cls, lf, w, tid);
    lemma_acc_bridge(cm.dfa, cls, w, tid);
}
/// THEOREM: the lookahead stored for token type tid in mode k of a built scanner is the compiled lookahead of the last pattern with that token type carrying
/// one, with its polarity, and the scan side's `has_match` on it is "the lookahead text matches a non-empty prefix"; no entry if there is no such pattern
pub proof fn theorem_scanner_mode_lookahead(modes: Seq<ScannerMode>, k: int, cm: CompiledScannerMode, cls: ClsF, lf: LeafF, tid: TerminalID, rest: Seq<char>)
    requires
        0 <= k < modes.len(), mode_built(modes, k, cm), modes_fit(modes), lf_respects(lf), cls_ok(cls, lf, final_reg(modes)),
    ensures
        ({
            let pats = modes[k].patterns@;
            let l = la_last(pats, pats.len() as int, tid);
            let lm = core(cm.dfa).lookaheads@;
            &&& l < 0 ==> !lm.contains_key(tid)
            &&& l >= 0 ==> lm.contains_key(tid) && lm[tid].is_positive == pats[l].lookahead->0.is_positive
                    && (has_match(core(*lm[tid].nfa), cls, rest) <==> p_la_matches(pats[l].lookahead->0, lf, rest))
        }),
{
    let pats = modes[k].patterns@;
    let n = pats.len() as int;
    let reg0 = mode_reg(modes, k);
    let reg1 = mp_th(pats, n, reg0).1;
    let d = cm.dfa;
    assert(mode_fits(pats, reg0));
    let (m, d0, reps, dm) = choose|m: MultiPatternNfa, d0: CompiledDfa, reps: Seq<StateID>, dm: CompiledDfa| {
        &&& #[trigger] mp_built(pats, reg0, m) && #[trigger] elim_ok(g_mp(m), d0, reps) && #[trigger] min_of(d0, dm)
        &&& d0.terminal_ids@ == Seq::new(pats.len(), |i: int| tid_of(pats[i]))
        &&& d.states == dm.states && d.end_states == dm.end_states && d.terminal_ids == dm.terminal_ids
        &&& la_map_ok(pats, reg1, n, dm.lookaheads@, d.lookaheads@)
        &&& mode_reg(modes, k + 1) == la_reg(pats, n, reg1)
    };
    let l = la_last(pats, n, tid);
    let lm = d.lookaheads@;
    if l < 0 {
        assert(dm.lookaheads == d0.lookaheads);
        assert(d0.lookaheads@.len() == 0);
        assert(!dm.lookaheads@.contains_key(tid)) by { if dm.lookaheads@.contains_key(tid) { assert(dm.lookaheads@.dom().contains(tid)); assert(dm.lookaheads@.dom().len() == 0); } }
    } else {
        lemma_la_last_range(pats, n, tid);
        assert(la_entry_ok(pats, reg1, l, lm[tid]));
        let la = pats[l].lookahead->0;
        let ast = spec_parse(la.pattern@);
        let rl = la_reg(pats, l, reg1);
        let e = *lm[tid].nfa;
        let (nn, e0, ereps) = choose|nn: Nfa, e0: CompiledDfa, ereps: Seq<StateID>| ids_ok(nn) && nn.states@.len() >= 1 && #[trigger] nfa_view(nn) == thompson(ast, rl).0
            && #[trigger] elim_ok(g_nfa(nn), e0, ereps) && e0.terminal_ids@ == seq![TerminalID(nn.pattern.token_type as u32)] && min_of(e0, e);
        // the registry the lookahead was compiled on is a prefix of the final one
        assert(la_fit1(ast, rl));
        lemma_th_pre(ast, rl);
        lemma_la_reg_pre(pats, l + 1, n, reg1);
        assert(la_reg(pats, l + 1, reg1) == thompson(ast, rl).1);
        lemma_mode_reg_pre(modes, k + 1, modes.len() as int);
        lemma_pre_trans(thompson(ast, rl).1, mode_reg(modes, k + 1), final_reg(modes));
        let tt = TerminalID(nn.pattern.token_type as u32);
        assert forall|p: int, t2: TerminalID| 1 <= p <= rest.len() implies (#[trigger] acc(core(e), cls, rest.take(p), t2) <==> (re_lang(ast, lf, rest.take(p)) && t2 == tt)) by {
            theorem_single_pattern_minimized(nn, ast, rl, final_reg(modes), cls, lf, e0, ereps, e, rest.take(p), t2);
            lemma_acc_bridge(e, cls, rest.take(p), t2);
        }
        if has_match(core(e), cls, rest) {
            let (p, t2) = choose|p: int, t2: TerminalID| 1 <= p <= rest.len() && #[trigger] acc(core(e), cls, rest.take(p), t2);
            assert(re_lang(ast, lf, rest.take(p)));
        }
        if p_la_matches(la, lf, rest) {
            let p = choose|p: int| 1 <= p <= rest.len() && #[trigger] re_lang(ast, lf, rest.take(p));
            assert(acc(core(e), cls, rest.take(p), tt));
        }
    }
}
/// what the compiled scanner's candidates are, in terms of the patterns (one lookahead per token type: that of the last pattern carrying one)
pub proof fn lemma_scanner_cand_last(modes: Seq<ScannerMode>, k: int, cm: CompiledScannerMode, cls: ClsF, lf: LeafF, text: Seq<char>, l: int, tid: TerminalID)
    requires
        0 <= k < modes.len(), mode_built(modes, k, cm), modes_fit(modes), lf_respects(lf), cls_ok(cls, lf, final_reg(modes)),
    ensures cand(core(cm.dfa), cls, text, l, tid) <==> p_cand_last(modes[k].patterns@, lf, text, l, tid)
{
    if 1 <= l <= text.len() {
        theorem_scanner_mode_acc(modes, k, cm, cls, lf, text.take(l), tid);
        theorem_scanner_mode_lookahead(modes, k, cm, cls, lf, tid, text.skip(l));
    }
}
/// when patterns sharing a token type carry the same lookahead, "the last one's lookahead" is every such pattern's own lookahead
pub proof fn lemma_last_is_own(pats: Seq<Pattern>, lf: LeafF, text: Seq<char>, l: int, tid: TerminalID)
    requires la_consistent(pats)
    ensures p_cand_last(pats, lf, text, l, tid) <==> p_cand(pats, lf, text, l, tid)
{
    let n = pats.len() as int;
    let rest = text.skip(l);
    let ll = la_last(pats, n, tid);
    assert forall|i: int| 0 <= i < n && tid == tid_of(pats[i]) implies (p_la_ok_own(#[trigger] pats[i], lf, rest) <==> p_la_ok_last(pats, lf, tid, rest)) by {
        if ll >= 0 {
            lemma_la_last_is(pats, n, tid);
            assert(pats[i].lookahead == pats[ll].lookahead);
        } else {
            lemma_la_last_none(pats, n, tid, i);
        }
    }
    if p_cand_last(pats, lf, text, l, tid) {
        let i = choose|i: int| 0 <= i < pats.len() && tid == tid_of(pats[i]) && #[trigger] re_lang(spec_parse(pats[i].pattern@), lf, text.take(l));
        assert(p_la_ok_own(pats[i], lf, rest));
    }
    if p_cand(pats, lf, text, l, tid) {
        let i = choose|i: int| 0 <= i < pats.len() && tid == tid_of(pats[i]) && #[trigger] re_lang(spec_parse(pats[i].pattern@), lf, text.take(l)) && p_la_ok_own(pats[i], lf, rest);
        assert(p_la_ok_last(pats, lf, tid, rest));
    }
}
pub proof fn lemma_la_last_is(pats: Seq<Pattern>, k: int, tid: TerminalID)
    requires la_last(pats, k, tid) >= 0
    ensures 0 <= la_last(pats, k, tid) < k, la_last(pats, k, tid) < pats.len(), pats[la_last(pats, k, tid)].lookahead is Some, tid_of(pats[la_last(pats, k, tid)]) == tid
    decreases k
{
    if k > 0 && !(k <= pats.len() && pats[k - 1].lookahead is Some && tid_of(pats[k - 1]) == tid) { lemma_la_last_is(pats, k - 1, tid); }
}
pub proof fn lemma_la_last_none(pats: Seq<Pattern>, k: int, tid: TerminalID, i: int)
    requires la_last(pats, k, tid) < 0, 0 <= i < k, i < pats.len(), tid_of(pats[i]) == tid
    ensures pats[i].lookahead is None
    decreases k
{
    if k > 0 && i < k - 1 { lemma_la_last_none(pats, k - 1, tid, i); }
}
/// THEOREM (the link between the two halves): for a scanner built by ScannerImpl::try_from, the candidates the scan-side contracts (find_post of C01 / C04 / C05)
/// quantify over are exactly the pattern-level candidates of the active mode AS PROPERTY C04 STATES THEM (every pattern gated by its own lookahead) — for modes in
/// which patterns sharing a token type carry the same lookahead. Without that hypothesis the statement is FALSE for the pinned code (known finding D9, see
/// units/u_c04find/finding_c04.rs): lookaheads are stored per token type, not per pattern.
pub proof fn theorem_scanner_cand(modes: Seq<ScannerMode>, k: int, cm: CompiledScannerMode, cls: ClsF, lf: LeafF, text: Seq<char>, l: int, tid: TerminalID)
    requires
        0 <= k < modes.len(), mode_built(modes, k, cm), modes_fit(modes), lf_respects(lf), cls_ok(cls, lf, final_reg(modes)),
        la_consistent(modes[k].patterns@),
    ensures cand(core(cm.dfa), cls, text, l, tid) <==> p_cand(modes[k].patterns@, lf, text, l, tid)
{
    lemma_scanner_cand_last(modes, k, cm, cls, lf, text, l, tid);
    lemma_last_is_own(modes[k].patterns@, lf, text, l, tid);
}

// ---- the tie rule (C01 / C05): "ties go to the pattern listed first"
/// configurations on which "first position of the token type" is "position of the pattern": the token types of a mode's patterns are pairwise distinct
pub open spec fn tt_distinct(pats: Seq<Pattern>) -> bool {
    forall|i: int, j: int| 0 <= i < j < pats.len() ==> tid_of(#[trigger] pats[i]) != tid_of(#[trigger] pats[j])
}
/// the token types of mode k's automaton are those of the mode's patterns, in pattern order
pub proof fn lemma_scanner_terminal_ids(modes: Seq<ScannerMode>, k: int, cm: CompiledScannerMode)
    requires 0 <= k < modes.len(), mode_built(modes, k, cm)
    ensures core(cm.dfa).terminal_ids@ == Seq::new(modes[k].patterns@.len(), |i: int| tid_of(modes[k].patterns@[i]))
{
    let pats = modes[k].patterns@;
    let reg0 = mode_reg(modes, k);
    let reg1 = mp_th(pats, pats.len() as int, reg0).1;
    let d = cm.dfa;
    let (m, d0, reps, dm) = choose|m: MultiPatternNfa, d0: CompiledDfa, reps: Seq<StateID>, dm: CompiledDfa| {
        &&& #[trigger] mp_built(pats, reg0, m) && #[trigger] elim_ok(g_mp(m), d0, reps) && #[trigger] min_of(d0, dm)
        &&& d0.terminal_ids@ == Seq::new(pats.len(), |i: int| tid_of(pats[i]))
        &&& d.states == dm.states && d.end_states == dm.end_states && d.terminal_ids == dm.terminal_ids
        &&& la_map_ok(pats, reg1, pats.len() as int, dm.lookaheads@, d.lookaheads@)
        &&& mode_reg(modes, k + 1) == la_reg(pats, pats.len() as int, reg1)
    };
}
/// THEOREM (tie rule at pattern level): with pairwise distinct token types, the priority the scan side gives to the token type of pattern i is i, the position of
/// the pattern. Without that hypothesis the statement is FALSE for the pinned code (known finding D10, units/u_c01find/finding_c01.rs): the priority of a
/// candidate is the first position of its TOKEN TYPE, so a pattern that shares its token type with an earlier pattern jumps ahead of the patterns in between.
pub proof fn theorem_scanner_prio(modes: Seq<ScannerMode>, k: int, cm: CompiledScannerMode, i: int)
    requires 0 <= k < modes.len(), mode_built(modes, k, cm), tt_distinct(modes[k].patterns@), 0 <= i < modes[k].patterns@.len()
    ensures prio(core(cm.dfa), tid_of(modes[k].patterns@[i])) == i
{
    let pats = modes[k].patterns@;
    lemma_scanner_terminal_ids(modes, k, cm);
    let ids = core(cm.dfa).terminal_ids@;
    assert(is_prio(ids, tid_of(pats[i]), i)) by {
        assert forall|j: int| 0 <= j < i implies ids[j] != tid_of(pats[i]) by { assert(tid_of(pats[j]) != tid_of(pats[i])); }
    }
    let r = prio(core(cm.dfa), tid_of(pats[i]));
    assert(is_prio(ids, tid_of(pats[i]), r));
    if r < i { assert(ids[r] != tid_of(pats[i])); }
    if i < r { assert(ids[i] != tid_of(pats[i])); }
}
