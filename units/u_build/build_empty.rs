// ---------------------------------------------------------------- C02: the empty string is never accepted (the start state is never an accepting state)
/// no transition target reaches the start state through epsilon edges (so no transition target has the start state's closure)
pub open spec fn gr_start_fresh(g: Gr) -> bool {
    forall|s: int, cc: CharClassID, t: StateID| #[trigger] (g.tr)(s, cc, t) ==> !(g.reach)(t.0 as int, g.start)
}
/// epsilon elimination: if no transition target reaches the start state, automaton state 0 is never entered, hence never accepting
pub proof fn lemma_elim_start_not_accepting(g: Gr, d0: CompiledDfa, reps: Seq<StateID>)
    requires gr_wf(g), elim_ok(g, d0, reps), gr_start_fresh(g), (g.reach)(g.start, g.start)
    ensures !d0.end_states@[0].0
{
    reveal(g_fires); reveal(same_closure);
    if elim_entered(d0, reps.len() as int, 0) {
        let (f, cc) = choose|f: int, cc: CharClassID| 0 <= f < reps.len() && #[trigger] d0.states@[f].transitions@.contains((cc, StateSetID(0int as u32)));
        assert(elim_edge(g, reps, f, cc, StateSetID(0u32)));
        let t = choose|t: StateID| #[trigger] g_fires(g, reps[f].0 as int, cc, t) && same_closure(g, t.0 as int, reps[0].0 as int);
        let x = choose|x: int| (g.reach)(reps[f].0 as int, x) && #[trigger] (g.tr)(x, cc, t);
        assert((g.reach)(t.0 as int, g.start));
    }
    assert(d0.end_states@[0] == elim_end(g, d0, reps, 0));
}
/// the quotient: group 0 holds the start state, so state 0 of the minimized automaton accepts only if the start state did
pub proof fn lemma_min_start_not_accepting(d0: CompiledDfa, dm: CompiledDfa)
    requires min_of(d0, dm), !d0.end_states@[0].0
    ensures !dm.end_states@[0].0
{
    let p = choose|p: PartV| #[trigger] part_ok(p, d0.states@.len() as int) && stable(d0, p) && acc_homog(d0, p) && quotient_ok(d0, p, dm) && all_nonempty(p);
    assert(q_end_ok(d0, p, dm, 0));
    if dm.end_states@[0].0 {
        let s = choose|s: int| #[trigger] in_grp(p, 0, s) && d0.end_states@[s] == dm.end_states@[0];
        assert(in_grp(p, 0, 0));
        assert(d0.end_states@[0] == d0.end_states@[s]);
    }
}
/// an automaton whose state 0 does not accept does not accept the empty word
pub proof fn lemma_empty_not_accepted(d: CompiledDfa, cls: ClsF, tid: TerminalID)
    requires !d.end_states@[0].0
    ensures !acc(core(d), cls, Seq::<char>::empty(), tid)
{
    let c = core(d);
    if acc(c, cls, Seq::<char>::empty(), tid) {
        let t = choose|t: int| 0 <= t < c.states@.len() && #[trigger] reach(c, cls, Seq::<char>::empty(), t) && c.end_states@[t] == (true, tid);
        assert(t == 0);
    }
}
/// the union: state 0 is nobody's state, so nothing leads back to it
pub proof fn lemma_mp_start_fresh(m: MultiPatternNfa)
    requires mp_wf(m)
    ensures gr_start_fresh(g_mp(m)), (g_mp(m).reach)(g_mp(m).start, g_mp(m).start)
{
    let g = g_mp(m);
    assert forall|s: int, cc: CharClassID, t: StateID| #[trigger] (g.tr)(s, cc, t) implies !(g.reach)(t.0 as int, g.start) by {
        // every transition target is a state of a pattern NFA (ids >= 1), and what it reaches stays inside that NFA
        let j = if s == 0 { choose|jj: int| 0 <= jj < mp_len(m) && jj < mp_len(m) && #[trigger] tr_of(m.nfas@[jj], m.nfas@[jj].start_state.0 as int, cc, t) }
                else { choose|j: int| #[trigger] owner(m, s, j) && tr_of(m.nfas@[j], s, cc, t) };
        let a = if s == 0 { m.nfas@[j].start_state.0 as int } else { s };
        assert(0 <= j < mp_len(m) && tr_of(m.nfas@[j], a, cc, t));
        let nn = m.nfas@[j];
        assert(sub_wf(nn) && n_off(nn) >= 1);
        let k = choose|k: int| #[trigger] tr_at(nn, a, k, cc, t);
        assert(has_state(nn, nn.states@[a - n_off(nn)].transitions@[k].target_state.0 as int));
        assert(has_state(nn, t.0 as int));
        assert(t.0 != 0);
        if mp_reach(m, t.0 as int, 0) {
            let j2 = choose|j2: int| #[trigger] owner(m, t.0 as int, j2) && eps_reach(m.nfas@[j2], t.0 as int, 0);
            let kk = choose|kk: nat| eps_path(m.nfas@[j2], t.0 as int, 0, kk);
            assert(sub_wf(m.nfas@[j2]) && n_off(m.nfas@[j2]) >= 1);
            lemma_reach_has_state(m.nfas@[j2], t.0 as int, 0, kk);
        }
    }
}
/// one Nfa with a Thompson view: no edge leads to the start state, so no transition target reaches it
pub proof fn lemma_eps_path_not_into(n: Nfa, a: int, b: int, k: nat)
    requires eps_path(n, a, b, k), a != b, forall|x: int| !#[trigger] eps_edge(n, x, b)
    ensures false
    decreases k
{
    if k > 0 {
        let mid = choose|mid: int| eps_path(n, a, mid, (k - 1) as nat) && #[trigger] eps_edge(n, mid, b);
    }
}
pub proof fn lemma_nfa_start_fresh(n: Nfa)
    requires ids_ok(n), n.states@.len() >= 1, v_wf(nfa_view(n)), v_fresh(nfa_view(n))
    ensures gr_start_fresh(g_nfa(n)), (g_nfa(n).reach)(g_nfa(n).start, g_nfa(n).start)
{
    let g = g_nfa(n);
    let v = nfa_view(n);
    lemma_thompson_sub_wf(n);
    lemma_reach_refl(n, n.start_state.0 as int);
    assert forall|x: int| !#[trigger] eps_edge(n, x, v.start) by {
        if eps_edge(n, x, v.start) {
            let k = choose|k: int| 0 <= k < st(n, x).epsilon_transitions@.len() && (#[trigger] st(n, x).epsilon_transitions@[k]).target_state.0 == v.start;
            assert(v.states[x] == state_view(n.states@[x]));
            assert(v.states[x].eps[k] == v.start);
        }
    }
    assert forall|s: int, cc: CharClassID, t: StateID| #[trigger] (g.tr)(s, cc, t) implies !(g.reach)(t.0 as int, g.start) by {
        let k = choose|k: int| #[trigger] tr_at(n, s, k, cc, t);
        assert(v.states[s] == state_view(n.states@[s]));
        assert(v.states[s].trans[k].1 == t.0);
        assert(t.0 != v.start);
        if eps_reach(n, t.0 as int, v.start) {
            let kk = choose|kk: nat| eps_path(n, t.0 as int, v.start, kk);
            lemma_eps_path_not_into(n, t.0 as int, v.start, kk);
        }
    }
}
/// THEOREM (C02): the automaton of a mode and its lookahead automata never accept the empty string
pub proof fn theorem_dfa_built_empty(pats: Seq<Pattern>, reg0: Seq<Ast>, d: CompiledDfa, regf: Seq<Ast>, cls: ClsF, tid: TerminalID)
    requires dfa_built(pats, reg0, d, regf), mode_fits(pats, reg0)
    ensures
        !acc(core(d), cls, Seq::<char>::empty(), tid),
        forall|t: TerminalID| #[trigger] d.lookaheads@.contains_key(t) ==> !acc(core(*d.lookaheads@[t].nfa), cls, Seq::<char>::empty(), tid),
{
    let n = pats.len() as int;
    let reg1 = mp_th(pats, n, reg0).1;
    let (m, d0, reps, dm) = choose|m: MultiPatternNfa, d0: CompiledDfa, reps: Seq<StateID>, dm: CompiledDfa| {
        &&& #[trigger] mp_built(pats, reg0, m) && #[trigger] elim_ok(g_mp(m), d0, reps) && #[trigger] min_of(d0, dm)
        &&& d0.terminal_ids@ == Seq::new(pats.len(), |i: int| tid_of(pats[i]))
        &&& d.states == dm.states && d.end_states == dm.end_states && d.terminal_ids == dm.terminal_ids
        &&& la_map_ok(pats, reg1, n, dm.lookaheads@, d.lookaheads@)
        &&& regf == la_reg(pats, n, reg1)
    };
    lemma_g_mp_wf(m);
    lemma_mp_start_fresh(m);
    lemma_elim_start_not_accepting(g_mp(m), d0, reps);
    lemma_min_start_not_accepting(d0, dm);
    lemma_empty_not_accepted(d, cls, tid);
    assert forall|t: TerminalID| #[trigger] d.lookaheads@.contains_key(t) implies !acc(core(*d.lookaheads@[t].nfa), cls, Seq::<char>::empty(), tid) by {
        let l = la_last(pats, n, t);
        if l >= 0 {
            lemma_la_last_range(pats, n, t);
            assert(la_entry_ok(pats, reg1, l, d.lookaheads@[t]));
            let la = pats[l].lookahead->0;
            let ast = spec_parse(la.pattern@);
            let rl = la_reg(pats, l, reg1);
            let e = *d.lookaheads@[t].nfa;
            assert(la_fit1(ast, rl));
            let (nn, e0, ereps) = choose|nn: Nfa, e0: CompiledDfa, ereps: Seq<StateID>| ids_ok(nn) && nn.states@.len() >= 1 && #[trigger] nfa_view(nn) == thompson(ast, rl).0
                && #[trigger] elim_ok(g_nfa(nn), e0, ereps) && e0.terminal_ids@ == seq![TerminalID(nn.pattern.token_type as u32)] && min_of(e0, e);
            theorem_thompson_start_fresh(ast, rl);
            lemma_th_nice(ast, rl);
            lemma_nfa_start_fresh(nn);
            lemma_thompson_sub_wf(nn);
            lemma_g_nfa_wf(nn);
            lemma_elim_start_not_accepting(g_nfa(nn), e0, ereps);
            lemma_min_start_not_accepting(e0, e);
            lemma_empty_not_accepted(e, cls, tid);
        } else {
            assert(dm.lookaheads == d0.lookaheads);
            assert(d0.lookaheads@.len() == 0);
            assert(!dm.lookaheads@.contains_key(t)) by { if dm.lookaheads@.contains_key(t) { assert(dm.lookaheads@.dom().contains(t)); assert(dm.lookaheads@.dom().len() == 0); } }
        }
    }
}
/// the same for mode k of a built scanner
pub proof fn theorem_scanner_empty_not_accepted(modes: Seq<ScannerMode>, k: int, cm: CompiledScannerMode, cls: ClsF, tid: TerminalID)
    requires 0 <= k < modes.len(), mode_built(modes, k, cm), modes_fit(modes)
    ensures
        !acc(core(cm.dfa), cls, Seq::<char>::empty(), tid),
        forall|t: TerminalID| #[trigger] cm.dfa.lookaheads@.contains_key(t) ==> !acc(core(*cm.dfa.lookaheads@[t].nfa), cls, Seq::<char>::empty(), tid),
{
    assert(mode_fits(modes[k].patterns@, mode_reg(modes, k)));
    theorem_dfa_built_empty(modes[k].patterns@, mode_reg(modes, k), cm.dfa, mode_reg(modes, k + 1), cls, tid);
}
