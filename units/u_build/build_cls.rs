// ---------------------------------------------------------------- C02, last clause: every character class a compiled automaton refers to is a registered one
pub open spec fn dfa_cls_below(d: CompiledDfa, r: int) -> bool {
    forall|s: int, i: int| 0 <= s < d.states@.len() && 0 <= i < d.states@[s].transitions@.len() ==> (#[trigger] d.states@[s].transitions@[i]).0.0 < r
}
pub open spec fn gr_cls_below(g: Gr, r: int) -> bool {
    forall|s: int, cc: CharClassID, t: StateID| #[trigger] (g.tr)(s, cc, t) ==> cc.0 < r
}
/// a (renumbered) Nfa value has the class ids of the view it came from
pub proof fn lemma_nfa_cls(n: Nfa, v0: NfaV, off: int, r: int)
    requires nfa_view(n) == v_shift(v0, off), v_cls_below(v0, r)
    ensures forall|a: int, cc: CharClassID, t: StateID| #[trigger] tr_of(n, a, cc, t) ==> cc.0 < r
{
    assert forall|a: int, cc: CharClassID, t: StateID| #[trigger] tr_of(n, a, cc, t) implies cc.0 < r by {
        let k = choose|k: int| #[trigger] tr_at(n, a, k, cc, t);
        let i = a - n_off(n);
        assert(0 <= i < n.states@.len());
        assert(nfa_view(n).states.len() == n.states@.len());
        assert(v_shift(v0, off).states.len() == v0.states.len());
        assert(nfa_view(n).states[i] == state_view(n.states@[i]));
        assert(nfa_view(n).states[i].trans.len() == n.states@[i].transitions@.len());
        assert(nfa_view(n).states[i].trans[k].0 == cc);
        assert(v_shift(v0, off).states[i] == sv_shift(v0.states[i], off));
        assert(sv_shift(v0.states[i], off).trans.len() == v0.states[i].trans.len());
        assert(v_shift(v0, off).states[i].trans[k].0 == v0.states[i].trans[k].0);
        assert(v0.states[i].trans[k].0.0 < r);
    }
}
/// epsilon elimination keeps the class ids of the epsilon-NFA
pub proof fn lemma_elim_cls(g: Gr, d0: CompiledDfa, reps: Seq<StateID>, r: int)
    requires elim_ok(g, d0, reps), gr_cls_below(g, r)
    ensures dfa_cls_below(d0, r)
{
    reveal(g_fires);
    assert forall|s: int, i: int| 0 <= s < d0.states@.len() && 0 <= i < d0.states@[s].transitions@.len() implies (#[trigger] d0.states@[s].transitions@[i]).0.0 < r by {
        let e = d0.states@[s].transitions@[i];
        assert(d0.states@[s].transitions@.contains((e.0, e.1)));
        assert(elim_edge(g, reps, s, e.0, e.1));
        let t = choose|t: StateID| #[trigger] g_fires(g, reps[s].0 as int, e.0, t) && same_closure(g, t.0 as int, reps[e.1.0 as int].0 as int);
        let x = choose|x: int| (g.reach)(reps[s].0 as int, x) && #[trigger] (g.tr)(x, e.0, t);
    }
}
/// the quotient keeps the class ids of the automaton that was minimized
pub proof fn lemma_min_cls(d0: CompiledDfa, dm: CompiledDfa, r: int)
    requires min_of(d0, dm), dfa_cls_below(d0, r)
    ensures dfa_cls_below(dm, r)
{
    let p = choose|p: PartV| #[trigger] part_ok(p, d0.states@.len() as int) && stable(d0, p) && acc_homog(d0, p) && quotient_ok(d0, p, dm) && all_nonempty(p);
    assert forall|s: int, i: int| 0 <= s < dm.states@.len() && 0 <= i < dm.states@[s].transitions@.len() implies (#[trigger] dm.states@[s].transitions@[i]).0.0 < r by {
        let e = dm.states@[s].transitions@[i];
        let h = e.1.0 as int;
        assert(StateSetID(h as u32) == e.1);
        assert(dm.states@[s].transitions@.contains((e.0, StateSetID(h as u32))));
        let m = choose|m: int| #[trigger] in_grp(p, s, m) && sig(d0, p, m, e.0, h);
        let t = choose|t: int| #[trigger] in_grp(p, h, t) && 0 <= m < d0.states@.len() && d0.states@[m].transitions@.contains((e.0, StateSetID(t as u32)));
        let j = choose|j: int| 0 <= j < d0.states@[m].transitions@.len() && d0.states@[m].transitions@[j] == (e.0, StateSetID(t as u32));
        assert(d0.states@[m].transitions@[j].0.0 < r);
    }
}
pub proof fn lemma_dfa_cls_mono(d: CompiledDfa, r: int, r2: int)
    requires dfa_cls_below(d, r), r <= r2
    ensures dfa_cls_below(d, r2)
{
}
/// a compiled lookahead automaton refers to classes of the registry it was compiled on only
pub proof fn lemma_la_compiled_cls(ast: Ast, reg0: Seq<Ast>, d: CompiledDfa)
    requires la_compiled(ast, reg0, d), th_fits(ast, reg0)
    ensures dfa_cls_below(d, thompson(ast, reg0).1.len() as int)
{
    let r = thompson(ast, reg0).1.len() as int;
    let (n, d0, reps) = choose|n: Nfa, d0: CompiledDfa, reps: Seq<StateID>| ids_ok(n) && n.states@.len() >= 1 && #[trigger] nfa_view(n) == thompson(ast, reg0).0
        && #[trigger] elim_ok(g_nfa(n), d0, reps) && d0.terminal_ids@ == seq![TerminalID(n.pattern.token_type as u32)] && min_of(d0, d);
    theorem_thompson_classes_registered(ast, reg0);
    lemma_shift_zero(nfa_view(n));
    lemma_nfa_cls(n, nfa_view(n), 0, r);
    lemma_elim_cls(g_nfa(n), d0, reps, r);
    lemma_min_cls(d0, d, r);
}
/// the union refers to classes registered by its patterns only
pub proof fn lemma_mp_cls(pats: Seq<Pattern>, reg0: Seq<Ast>, m: MultiPatternNfa)
    requires mp_built(pats, reg0, m), mp_fits(pats, reg0)
    ensures gr_cls_below(g_mp(m), mp_th(pats, pats.len() as int, reg0).1.len() as int)
{
    let n = pats.len() as int;
    let r = mp_th(pats, n, reg0).1.len() as int;
    assert forall|j: int, a: int, cc: CharClassID, t: StateID| 0 <= j < n && #[trigger] tr_of(m.nfas@[j], a, cc, t) implies cc.0 < r by {
        let ast = spec_parse(pats[j].pattern@);
        let rj = mp_th(pats, j, reg0).1;
        lemma_mp_pattern_view(pats, reg0, m, j);
        let v0 = thompson(ast, rj).0;
        theorem_thompson_classes_registered(ast, rj);
        lemma_mp_reg_pre(pats, j + 1, n, reg0);
        assert(mp_th(pats, j + 1, reg0).1 == thompson(ast, rj).1);
        lemma_cls_mono(v0, thompson(ast, rj).1.len() as int, r);
        lemma_nfa_cls(m.nfas@[j], v0, mp_off(pats, j, reg0), r);
    }
    let g = g_mp(m);
    assert forall|s: int, cc: CharClassID, t: StateID| #[trigger] (g.tr)(s, cc, t) implies cc.0 < r by {
        if s == 0 {
            let jj = choose|jj: int| 0 <= jj < mp_len(m) && jj < mp_len(m) && #[trigger] tr_of(m.nfas@[jj], m.nfas@[jj].start_state.0 as int, cc, t);
            assert(tr_of(m.nfas@[jj], m.nfas@[jj].start_state.0 as int, cc, t));
        } else {
            let j = choose|j: int| #[trigger] owner(m, s, j) && tr_of(m.nfas@[j], s, cc, t);
            assert(tr_of(m.nfas@[j], s, cc, t));
        }
    }
}
/// THEOREM: the automaton of a mode and every lookahead automaton stored with it refer to classes of the registry after the mode only
pub proof fn theorem_dfa_built_classes(pats: Seq<Pattern>, reg0: Seq<Ast>, d: CompiledDfa, regf: Seq<Ast>)
    requires dfa_built(pats, reg0, d, regf), mode_fits(pats, reg0)
    ensures
        dfa_cls_below(d, regf.len() as int),
        forall|t: TerminalID| #[trigger] d.lookaheads@.contains_key(t) ==> dfa_cls_below(*d.lookaheads@[t].nfa, regf.len() as int),
{
    let n = pats.len() as int;
    let reg1 = mp_th(pats, n, reg0).1;
    let (m, d0, reps, dm) = choose|m: MultiPatternNfa, d0: CompiledDfa, reps: Seq<StateID>, dm: CompiledDfa| {
        &&& #[trigger] mp_built(pats, reg0, m) && #[trigger] elim_ok(g_mp(m), d0, reps) && #[trigger] min_of(d0, dm)
        &&& d0.terminal_ids@ == Seq::new(pats.len(), |i: int| tid_of(pats[i]))
        &&& d.states == dm.states && d.end_states == dm.end_states && d.terminal_ids == dm.terminal_ids
        &&& la_map_ok(pats, reg1, n, dm.lookaheads@, d.lookaheads@)
        &&& regf == la_reg(pats, n, reg1)
    };
    lemma_la_reg_pre(pats, 0, n, reg1);
    lemma_mp_cls(pats, reg0, m);
    lemma_elim_cls(g_mp(m), d0, reps, reg1.len() as int);
    lemma_min_cls(d0, dm, reg1.len() as int);
    assert(dfa_cls_below(d, reg1.len() as int));
    lemma_dfa_cls_mono(d, reg1.len() as int, regf.len() as int);
    assert forall|t: TerminalID| #[trigger] d.lookaheads@.contains_key(t) implies dfa_cls_below(*d.lookaheads@[t].nfa, regf.len() as int) by {
        let l = la_last(pats, n, t);
        if l >= 0 {
            lemma_la_last_range(pats, n, t);
            assert(la_entry_ok(pats, reg1, l, d.lookaheads@[t]));
            let la = pats[l].lookahead->0;
            let ast = spec_parse(la.pattern@);
            let rl = la_reg(pats, l, reg1);
            assert(la_fit1(ast, rl));
            lemma_la_compiled_cls(ast, rl, *d.lookaheads@[t].nfa);
            lemma_la_reg_pre(pats, l + 1, n, reg1);
            assert(la_reg(pats, l + 1, reg1) == thompson(ast, rl).1);
            lemma_dfa_cls_mono(*d.lookaheads@[t].nfa, thompson(ast, rl).1.len() as int, regf.len() as int);
        } else {
            assert(dm.lookaheads == d0.lookaheads);
            assert(d0.lookaheads@.len() == 0);
            assert(!dm.lookaheads@.contains_key(t)) by { if dm.lookaheads@.contains_key(t) { assert(dm.lookaheads@.dom().contains(t)); assert(dm.lookaheads@.dom().len() == 0); } }
        }
    }
}
/// THEOREM (C02, last clause, for a built scanner): every class id on a transition of mode k's automaton or of one of its lookahead automata is an index into the
/// scanner's final registry (the registry create_match_char_class is called on: the bound its `get_unchecked` relies on)
pub proof fn theorem_scanner_classes_registered(modes: Seq<ScannerMode>, k: int, cm: CompiledScannerMode)
    requires 0 <= k < modes.len(), mode_built(modes, k, cm), modes_fit(modes)
    ensures
        dfa_cls_below(cm.dfa, final_reg(modes).len() as int),
        forall|t: TerminalID| #[trigger] cm.dfa.lookaheads@.contains_key(t) ==> dfa_cls_below(*cm.dfa.lookaheads@[t].nfa, final_reg(modes).len() as int),
{
    let pats = modes[k].patterns@;
    assert(mode_fits(pats, mode_reg(modes, k)));
    theorem_dfa_built_classes(pats, mode_reg(modes, k), cm.dfa, mode_reg(modes, k + 1));
    lemma_mode_reg_pre(modes, k + 1, modes.len() as int);
    let r1 = mode_reg(modes, k + 1).len() as int;
    let rf = final_reg(modes).len() as int;
    lemma_dfa_cls_mono(cm.dfa, r1, rf);
    assert forall|t: TerminalID| #[trigger] cm.dfa.lookaheads@.contains_key(t) implies dfa_cls_below(*cm.dfa.lookaheads@[t].nfa, rf) by {
        lemma_dfa_cls_mono(*cm.dfa.lookaheads@[t].nfa, r1, rf);
    }
}
