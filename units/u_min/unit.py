# U-min: the index <-> id conversions of the minimizer (C17): Minimizer::find_group under contract, plus one
# self-generated losslessness obligation per `as <IdBase>` cast in minimizer.rs.
import os
from extract import *

F_IDS = 'scnr/src/internal/ids.rs'
F_MIN = 'scnr/src/internal/minimizer.rs'
ID_SPECS = {'new': 'ensures r.0 == index', 'as_usize': 'ensures r == self.0', 'id': 'ensures r == self.0'}

find_group = Fn(
    F_MIN, 'Minimizer', 'find_group', ret='r',
    spec='''
requires partition@.len() <= u32::MAX   // groups are non-empty and disjoint, so there are at most as many as states (StateID is 32 bit)
ensures
    match r {
        Some(g) => g.0 < partition@.len() && partition@[g.0 as int]@.contains(state_id)
            && forall|i: int| 0 <= i < g.0 ==> !partition@[i]@.contains(state_id),
        None => forall|i: int| 0 <= i < partition@.len() ==> !partition@[i]@.contains(state_id),
    }
''',
    props=['C17'],
    edits=[
        Replace('E3+E6', 'partition.iter().position(|group| $b1).map(|id| $b2)', '''{
    broadcast use axiom_stateid_cmp;
    let __cl0 = |group: &StateGroup| -> (b: bool) ensures b == group@.contains(state_id) { $b1 };
    let ghost g = |grp: StateGroup| grp@.contains(state_id);
    let mut __it = partition.iter();
    let ghost rem = __it.remaining();
    proof {
        assert(models_pred(__cl0, g));
        assert(rem.len() == partition@.len());
        assert(forall|i: int| 0 <= i < rem.len() ==> *#[trigger] rem[i] == partition@[i]);
    }
    let __t0 = __it.position(__cl0);
    proof {
        assert(models_pred(__cl0, g));
        match __t0 {
            Some(k) => {
                assert(g(*rem[k as int]));
                assert forall|i: int| 0 <= i < k implies !partition@[i]@.contains(state_id) by { assert(!g(*rem[i])); }
            }
            None => {
                assert forall|i: int| 0 <= i < partition@.len() implies !partition@[i]@.contains(state_id) by { assert(!g(*rem[i])); }
            }
        }
    }
    __t0.map(|id: usize| -> (gid: StateGroupID) requires id < partition@.len() ensures gid.0 as int == id as int { $b2 })
}''', why='closure patterns typed and hoisted (E3); iter().position(..).map(..) chain split (E6)'),
    ])

UNIT = dict(
    name='u_min',
    externs=['rustc_hash'],
    header='''#![allow(unused_imports, unused_variables, unused_mut, unused_assignments, dead_code, unused_parens, unused_braces)]
use vstd::prelude::*;
use vstd::std_specs::iter::IteratorSpec;
use rustc_hash::FxHashMap;
use std::collections::BTreeSet;
''',
    items=[
        Raw('''
pub open spec fn models_pred<'a, T: 'a, P: FnMut(&'a T) -> bool>(p: P, g: spec_fn(T) -> bool) -> bool {
    forall|x: &'a T, b: bool| call_ensures(p, (x,), b) ==> b == g(*x)
}
pub assume_specification<'a, T, P: FnMut(&'a T) -> bool>[ <std::slice::Iter<'a, T> as Iterator>::position ](it: &mut std::slice::Iter<'a, T>, p: P) -> (r: Option<usize>)
    where std::slice::Iter<'a, T>: Sized
    requires
        (*old(it)).obeys_prophetic_iter_laws(),
        forall|x: &'a T| call_requires(p, (x,)),
    ensures
        r matches Some(k) ==> k < (*old(it)).remaining().len(),
        forall|g: spec_fn(T) -> bool, i: int| #![trigger models_pred(p, g), (*old(it)).remaining()[i]]
            models_pred(p, g) && 0 <= i < (*old(it)).remaining().len() && (r matches Some(k) ==> i <= k)
                ==> g(*(*old(it)).remaining()[i]) == (r matches Some(k) && i == k);
// derived Ord on StateID is the order of the wrapped integer (rule E4)
pub broadcast axiom fn axiom_stateid_cmp()
    ensures #[trigger] vstd::std_specs::btree::key_obeys_cmp_spec::<StateID>();
pub type StateGroup = BTreeSet<StateID>;
pub struct Minimizer;
''', label='trusted std contract: Iterator::position; type aliases of minimizer.rs'),
        IdMacro(F_IDS, 'StateID', members=('new', 'as_usize', 'id'), index_for=(), specs=ID_SPECS, with_from=True),
        IdMacro(F_IDS, 'StateGroupID', members=('new', 'as_usize', 'id'), index_for=(), specs=ID_SPECS, with_from=True),
        find_group,
        CastSites(F_MIN, ('StateGroupIDBase', 'StateIDBase'),
                  {'id': 'usize', 'group_id': 'usize', 'group_id.id()': 'StateGroupIDBase'}),
        CastSites('scnr/src/internal/compiled_dfa.rs', ('StateIDBase',), {'state_map.len()': 'usize'}),
    ],
)
