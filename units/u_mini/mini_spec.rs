// ---------------------------------------------------------------- U-mini: what Minimizer::minimize must preserve (C03)
/// shape minimize relies on: as many end-state entries as states, at least one state, targets are states
pub open spec fn d_wf(d: CompiledDfa) -> bool {
    &&& d.states@.len() >= 1 && d.states@.len() == d.end_states@.len() && d.states@.len() < u32::MAX
    &&& forall|s: int, k: int| 0 <= s < d.states@.len() && 0 <= k < d.states@[s].transitions@.len() ==> (#[trigger] d.states@[s].transitions@[k]).1.0 < d.states@.len()
}

// ---- partitions of the state set
pub type PartV = Seq<Set<StateID>>;
pub open spec fn in_grp(p: PartV, g: int, s: int) -> bool { 0 <= g < p.len() && 0 <= s <= u32::MAX && p[g].contains(StateID(s as u32)) }
/// every state 0..n is in exactly one group, groups hold states only
pub open spec fn part_ok(p: PartV, n: int) -> bool {
    &&& forall|s: int| 0 <= s < n ==> #[trigger] has_grp(p, s)
    &&& forall|g: int, h: int, s: int| #[trigger] in_grp(p, g, s) && #[trigger] in_grp(p, h, s) ==> g == h
    &&& forall|g: int, x: StateID| 0 <= g < p.len() && #[trigger] p[g].contains(x) ==> x.0 < n
}
pub open spec fn has_grp(p: PartV, s: int) -> bool { exists|g: int| #[trigger] in_grp(p, g, s) }
pub open spec fn grp_nonempty(p: PartV, g: int) -> bool { exists|s: int| #[trigger] in_grp(p, g, s) }
pub open spec fn grp(p: PartV, s: int) -> int { choose|g: int| in_grp(p, g, s) }
/// all members of a group agree on accepting and on the token type they accept
pub open spec fn acc_homog(d: CompiledDfa, p: PartV) -> bool {
    forall|g: int, s1: int, s2: int| #![trigger in_grp(p, g, s1), in_grp(p, g, s2)]
        in_grp(p, g, s1) && in_grp(p, g, s2) && d.end_states@[s1].0 ==> d.end_states@[s2] == d.end_states@[s1]
}
/// state s can move under class cc into group h
pub open spec fn sig(d: CompiledDfa, p: PartV, s: int, cc: CharClassID, h: int) -> bool {
    exists|t: int| #[trigger] in_grp(p, h, t) && 0 <= s < d.states@.len() && d.states@[s].transitions@.contains((cc, StateSetID(t as u32)))
}
/// members of a group cannot be told apart by one step
pub open spec fn stable(d: CompiledDfa, p: PartV) -> bool {
    forall|g: int, s1: int, s2: int, cc: CharClassID, h: int| #![trigger in_grp(p, g, s1), in_grp(p, g, s2), sig(d, p, s1, cc, h)]
        in_grp(p, g, s1) && in_grp(p, g, s2) && sig(d, p, s1, cc, h) ==> sig(d, p, s2, cc, h)
}
/// q is the quotient of d by p
pub open spec fn quotient_ok(d: CompiledDfa, p: PartV, q: CompiledDfa) -> bool {
    &&& q.states@.len() == p.len() && q.end_states@.len() == p.len() && p.len() <= u32::MAX
    &&& in_grp(p, 0, 0)
    &&& forall|g: int, cc: CharClassID, h: int| 0 <= g < p.len() && 0 <= h <= u32::MAX ==>
            (#[trigger] q.states@[g].transitions@.contains((cc, StateSetID(h as u32))) <==> exists|s: int| #[trigger] in_grp(p, g, s) && sig(d, p, s, cc, h))
    &&& forall|g: int| 0 <= g < p.len() ==> #[trigger] q_end_ok(d, p, q, g)
}
/// group g accepts (with some token type) iff one of its members does, with that token type
pub open spec fn q_end_ok(d: CompiledDfa, p: PartV, q: CompiledDfa, g: int) -> bool {
    &&& q.end_states@[g].0 ==> exists|s: int| #[trigger] in_grp(p, g, s) && d.end_states@[s] == q.end_states@[g]
    &&& forall|s: int| #[trigger] in_grp(p, g, s) && d.end_states@[s].0 ==> q.end_states@[g] == d.end_states@[s]
}

pub proof fn lemma_grp(p: PartV, n: int, g: int, s: int)
    requires part_ok(p, n), in_grp(p, g, s)
    ensures grp(p, s) == g
{
}
/// every state d reaches is represented by a group q reaches, and conversely
pub proof fn lemma_quot_sound(d: CompiledDfa, p: PartV, q: CompiledDfa, cls: ClsF, w: Seq<char>, s: int)
    requires d_wf(d), part_ok(p, d.states@.len() as int), stable(d, p), quotient_ok(d, p, q), d_reach(d, cls, w, s)
    ensures 0 <= s < d.states@.len(), exists|g: int| #[trigger] in_grp(p, g, s) && d_reach(q, cls, w, g)
    decreases w.len()
{
    if w.len() == 0 { assert(in_grp(p, 0, 0) && d_reach(q, cls, w, 0)); } else {
        let s0 = choose|s0: int| d_reach(d, cls, w.drop_last(), s0) && #[trigger] d_step(d, cls, s0, w.last(), s);
        lemma_quot_sound(d, p, q, cls, w.drop_last(), s0);
        let g0 = choose|g0: int| #[trigger] in_grp(p, g0, s0) && d_reach(q, cls, w.drop_last(), g0);
        let cc = choose|cc: CharClassID| #[trigger] d.states@[s0].transitions@.contains((cc, StateSetID(s as u32))) && cls(cc, w.last());
        let k = choose|k: int| 0 <= k < d.states@[s0].transitions@.len() && d.states@[s0].transitions@[k] == (cc, StateSetID(s as u32));
        assert(d.states@[s0].transitions@[k].1.0 < d.states@.len());
        assert(has_grp(p, s));
        let g = choose|g: int| #[trigger] in_grp(p, g, s);
        assert(sig(d, p, s0, cc, g));
        assert(q.states@[g0].transitions@.contains((cc, StateSetID(g as u32))));
        assert(d_step(q, cls, g0, w.last(), g));
        assert(in_grp(p, g, s) && d_reach(q, cls, w, g));
    }
}
pub proof fn lemma_quot_complete(d: CompiledDfa, p: PartV, q: CompiledDfa, cls: ClsF, w: Seq<char>, g: int)
    requires d_wf(d), part_ok(p, d.states@.len() as int), stable(d, p), quotient_ok(d, p, q), d_reach(q, cls, w, g)
    ensures 0 <= g < p.len(), exists|s: int| #[trigger] in_grp(p, g, s) && d_reach(d, cls, w, s)
    decreases w.len()
{
    if w.len() == 0 { assert(in_grp(p, 0, 0) && d_reach(d, cls, w, 0)); } else {
        let g0 = choose|g0: int| d_reach(q, cls, w.drop_last(), g0) && #[trigger] d_step(q, cls, g0, w.last(), g);
        lemma_quot_complete(d, p, q, cls, w.drop_last(), g0);
        let s0 = choose|s0: int| #[trigger] in_grp(p, g0, s0) && d_reach(d, cls, w.drop_last(), s0);
        let cc = choose|cc: CharClassID| #[trigger] q.states@[g0].transitions@.contains((cc, StateSetID(g as u32))) && cls(cc, w.last());
        let s1 = choose|s1: int| #[trigger] in_grp(p, g0, s1) && sig(d, p, s1, cc, g);
        // the state actually reached has the same signature as s1
        assert(sig(d, p, s0, cc, g));
        let t = choose|t: int| #[trigger] in_grp(p, g, t) && 0 <= s0 < d.states@.len() && d.states@[s0].transitions@.contains((cc, StateSetID(t as u32)));
        assert(d_step(d, cls, s0, w.last(), t));
        assert(in_grp(p, g, t) && d_reach(d, cls, w, t));
    }
}
/// THEOREM: the quotient by a stable, acceptance-homogeneous partition accepts exactly what the automaton accepts, for every word
pub proof fn theorem_quotient_language(d: CompiledDfa, p: PartV, q: CompiledDfa, cls: ClsF, w: Seq<char>, tid: TerminalID)
    requires d_wf(d), part_ok(p, d.states@.len() as int), stable(d, p), acc_homog(d, p), quotient_ok(d, p, q)
    ensures d_acc(q, cls, w, tid) <==> d_acc(d, cls, w, tid)
{
    if d_acc(q, cls, w, tid) {
        let g = choose|g: int| 0 <= g < q.states@.len() && #[trigger] d_reach(q, cls, w, g) && q.end_states@[g] == (true, tid);
        lemma_quot_complete(d, p, q, cls, w, g);
        let s = choose|s: int| #[trigger] in_grp(p, g, s) && d_reach(d, cls, w, s);
        assert(q_end_ok(d, p, q, g));
        let s2 = choose|s2: int| #[trigger] in_grp(p, g, s2) && d.end_states@[s2] == q.end_states@[g];
        assert(d.end_states@[s] == (true, tid));
        assert(s < d.states@.len());
    }
    if d_acc(d, cls, w, tid) {
        let s = choose|s: int| 0 <= s < d.states@.len() && #[trigger] d_reach(d, cls, w, s) && d.end_states@[s] == (true, tid);
        lemma_quot_sound(d, p, q, cls, w, s);
        let g = choose|g: int| #[trigger] in_grp(p, g, s) && d_reach(q, cls, w, g);
        assert(q_end_ok(d, p, q, g));
        assert(q.end_states@[g] == (true, tid));
    }
}

// ---- the contract of Minimizer::minimize, as its callers see it
pub open spec fn set_nonempty(s: Set<StateID>) -> bool { exists|x: StateID| #[trigger] s.contains(x) }
pub open spec fn all_nonempty(p: PartV) -> bool { forall|g: int| 0 <= g < p.len() ==> set_nonempty(#[trigger] p[g]) }
/// what minimize returns: the quotient by some stable, acceptance-homogeneous partition whose first group holds the start state
pub open spec fn minimized(d: CompiledDfa, r: CompiledDfa) -> bool {
    exists|p: PartV| #[trigger] part_ok(p, d.states@.len() as int) && stable(d, p) && acc_homog(d, p) && quotient_ok(d, p, r) && all_nonempty(p)
}

/// THEOREM (C03): whatever Minimizer::minimize returns accepts, for every class predicate, every word and every token type, exactly what the automaton
/// it was given accepts (both run from state 0, the start state)
pub proof fn theorem_minimize_language(d: CompiledDfa, r: CompiledDfa, cls: ClsF, w: Seq<char>, tid: TerminalID)
    requires d_wf(d), minimized(d, r)
    ensures d_acc(r, cls, w, tid) <==> d_acc(d, cls, w, tid)
{
    let p = choose|p: PartV| #[trigger] part_ok(p, d.states@.len() as int) && stable(d, p) && acc_homog(d, p) && quotient_ok(d, p, r) && all_nonempty(p);
    theorem_quotient_language(d, p, r, cls, w, tid);
}

/// what a caller of Minimizer::minimize learns about its result r for the automaton d it passed
pub open spec fn min_of(d: CompiledDfa, r: CompiledDfa) -> bool {
    d_wf(d) && minimized(d, r) && r.states@.len() <= d.states@.len() && r.terminal_ids == d.terminal_ids && r.lookaheads == d.lookaheads && r.patterns == d.patterns
}

/// shape of what minimize returns: what the scanning side calls well formed (targets in range, one end-state entry per state), and every
/// accepting entry is the entry of a state of the automaton that was minimized
pub proof fn lemma_minimized_shape(d: CompiledDfa, r: CompiledDfa)
    requires d_wf(d), minimized(d, r)
    ensures
        r.states@.len() == r.end_states@.len(), 1 <= r.states@.len() <= u32::MAX,
        forall|s: int, i: int| 0 <= s < r.states@.len() && 0 <= i < r.states@[s].transitions@.len() ==> (#[trigger] r.states@[s].transitions@[i]).1.0 < r.states@.len(),
        forall|g: int| 0 <= g < r.end_states@.len() && (#[trigger] r.end_states@[g]).0 ==> exists|s: int| 0 <= s < d.states@.len() && #[trigger] d.end_states@[s] == r.end_states@[g],
{
    let p = choose|p: PartV| #[trigger] part_ok(p, d.states@.len() as int) && stable(d, p) && acc_homog(d, p) && quotient_ok(d, p, r) && all_nonempty(p);
    assert(in_grp(p, 0, 0));
    assert forall|s: int, i: int| 0 <= s < r.states@.len() && 0 <= i < r.states@[s].transitions@.len() implies (#[trigger] r.states@[s].transitions@[i]).1.0 < r.states@.len() by {
        let e = r.states@[s].transitions@[i];
        let h = e.1.0 as int;
        assert(StateSetID(h as u32) == e.1);
        assert(r.states@[s].transitions@.contains((e.0, StateSetID(h as u32))));
        let m = choose|m: int| #[trigger] in_grp(p, s, m) && sig(d, p, m, e.0, h);
        let t = choose|t: int| #[trigger] in_grp(p, h, t) && 0 <= m < d.states@.len() && d.states@[m].transitions@.contains((e.0, StateSetID(t as u32)));
    }
    assert forall|g: int| 0 <= g < r.end_states@.len() && (#[trigger] r.end_states@[g]).0 implies exists|s: int| 0 <= s < d.states@.len() && #[trigger] d.end_states@[s] == r.end_states@[g] by {
        assert(q_end_ok(d, p, r, g));
        let s = choose|s: int| #[trigger] in_grp(p, g, s) && d.end_states@[s] == r.end_states@[g];
        assert(p[g].contains(StateID(s as u32)));
        assert(StateID(s as u32).0 < d.states@.len());
    }
}
