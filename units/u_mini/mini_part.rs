// ---------------------------------------------------------------- partitions as the code holds them
pub open spec fn pv(p: Seq<BTreeSet<StateID>>) -> PartV { Seq::new(p.len(), |i: int| p[i]@) }
/// Clone of an (empty) BTreeSet<StateID> has the same elements (std Clone of BTreeSet, rule E4)
pub axiom fn axiom_cloned_group(a: BTreeSet<StateID>, b: BTreeSet<StateID>)
    ensures vstd::pervasive::cloned(a, b) ==> a@ == b@;

/// initial partition after the first k states have been assigned: state s < k sits in group 0 iff it does not accept, else in group 1 + index of its token type
pub open spec fn ip_ok(es: Seq<(bool, TerminalID)>, tmap: Seq<TerminalID>, p: PartV, k: int) -> bool {
    &&& p.len() == tmap.len() + 1
    &&& forall|g: int, x: StateID| 0 <= g < p.len() && #[trigger] p[g].contains(x) ==> x.0 < k
            && (if g == 0 { !es[x.0 as int].0 } else { es[x.0 as int] == (true, tmap[g - 1]) })
    &&& forall|s: int| 0 <= s < k ==> #[trigger] has_grp(p, s)
}
pub proof fn lemma_ip_step(es: Seq<(bool, TerminalID)>, tmap: Seq<TerminalID>, p0: PartV, p1: PartV, k: int)
    requires
        ip_ok(es, tmap, p0, k), 0 <= k < es.len(), k <= u32::MAX, p1.len() == p0.len(),
        exists|g: int| 0 <= g < p0.len() && (if g == 0 { !es[k].0 } else { es[k] == (true, tmap[g - 1]) })
            && #[trigger] p1[g] == p0[g].insert(StateID(k as u32)) && forall|h: int| 0 <= h < p0.len() && h != g ==> p1[h] == p0[h],
    ensures ip_ok(es, tmap, p1, k + 1)
{
    let g = choose|g: int| 0 <= g < p0.len() && (if g == 0 { !es[k].0 } else { es[k] == (true, tmap[g - 1]) })
            && #[trigger] p1[g] == p0[g].insert(StateID(k as u32)) && forall|h: int| 0 <= h < p0.len() && h != g ==> p1[h] == p0[h];
    assert forall|h: int, x: StateID| 0 <= h < p1.len() && #[trigger] p1[h].contains(x) implies x.0 < k + 1
            && (if h == 0 { !es[x.0 as int].0 } else { es[x.0 as int] == (true, tmap[h - 1]) }) by {
        if h == g { if x != StateID(k as u32) { assert(p0[g].contains(x)); } } else { assert(p0[h].contains(x)); }
    }
    assert forall|s: int| 0 <= s < k + 1 implies #[trigger] has_grp(p1, s) by {
        if s < k {
            assert(has_grp(p0, s));
            let h = choose|h: int| #[trigger] in_grp(p0, h, s);
            assert(in_grp(p1, h, s)) by { if h == g { assert(p1[g].contains(StateID(s as u32))); } }
        } else { assert(in_grp(p1, g, s)); }
    }
}
pub proof fn lemma_ip_final(d: CompiledDfa, tmap: Seq<TerminalID>, p: PartV)
    requires
        d_wf(d), ip_ok(d.end_states@, tmap, p, d.states@.len() as int), tmap.no_duplicates(),
        forall|t: TerminalID| #[trigger] tmap.contains(t) <==> exists|j: int| 0 <= j < d.states@.len() && #[trigger] d.end_states@[j] == (true, t),
    ensures
        part_ok(p, d.states@.len() as int), acc_homog(d, p),
        forall|s: int| 0 <= s < d.states@.len() ==> (#[trigger] in_grp(p, 0, s) <==> !d.end_states@[s].0),
        forall|g: int| 1 <= g < p.len() ==> #[trigger] grp_nonempty(p, g),
{
    let es = d.end_states@;
    let n = d.states@.len() as int;
    assert forall|g: int, h: int, s: int| #[trigger] in_grp(p, g, s) && #[trigger] in_grp(p, h, s) implies g == h by {
        let x = StateID(s as u32);
        if g != h {
            if g == 0 { assert(!es[s].0); assert(es[s] == (true, tmap[h - 1])); }
            else if h == 0 { assert(!es[s].0); assert(es[s] == (true, tmap[g - 1])); }
            else { assert(es[s] == (true, tmap[g - 1]) && es[s] == (true, tmap[h - 1])); assert(tmap[g - 1] == tmap[h - 1]); }
        }
    }
    assert forall|s: int| 0 <= s < n implies (#[trigger] in_grp(p, 0, s) <==> !es[s].0) by {
        assert(has_grp(p, s));
        let g = choose|g: int| #[trigger] in_grp(p, g, s);
        if in_grp(p, 0, s) { assert(p[0].contains(StateID(s as u32))); }
        if !es[s].0 { if g != 0 { assert(p[g].contains(StateID(s as u32))); assert(es[s] == (true, tmap[g - 1])); } }
    }
    assert forall|g: int| 1 <= g < p.len() implies #[trigger] grp_nonempty(p, g) by {
        let t = tmap[g - 1];
        assert(tmap.contains(t));
        let j = choose|j: int| 0 <= j < n && #[trigger] es[j] == (true, t);
        assert(has_grp(p, j));
        let h = choose|h: int| #[trigger] in_grp(p, h, j);
        assert(p[h].contains(StateID(j as u32)));
        if h == 0 { assert(!es[j].0); } else { assert(es[j] == (true, tmap[h - 1])); assert(tmap[h - 1] == tmap[g - 1]); }
        assert(h == g);
        assert(in_grp(p, g, j));
    }
    assert forall|g: int, s1: int, s2: int| #![trigger in_grp(p, g, s1), in_grp(p, g, s2)]
        in_grp(p, g, s1) && in_grp(p, g, s2) && es[s1].0 implies es[s2] == es[s1] by {
        assert(p[g].contains(StateID(s1 as u32)) && p[g].contains(StateID(s2 as u32)));
        if g == 0 { assert(!es[s1].0); }
    }
}

// ---------------------------------------------------------------- the transition map minimize builds, and signatures
pub type TMapV = Map<StateID, BTreeMap<CharClassID, Vec<StateID>>>;
/// state s can move under class cc to target t (as recorded in the transition map)
pub open spec fn tm_edge(tm: TMapV, s: StateID, cc: CharClassID, t: StateID) -> bool {
    tm.contains_key(s) && tm[s]@.contains_key(cc) && tm[s]@[cc]@.contains(t)
}
/// the map records exactly the transitions of the automaton, one key per state
pub open spec fn tm_ok(d: CompiledDfa, tm: TMapV) -> bool {
    &&& forall|s: StateID| #[trigger] tm.contains_key(s) <==> s.0 < d.states@.len()
    &&& forall|s: StateID, cc: CharClassID, t: StateID| #[trigger] tm_edge(tm, s, cc, t) <==> (s.0 < d.states@.len() && d.states@[s.0 as int].transitions@.contains((cc, StateSetID(t.0))))
}
/// state s can move under class cc into group h (over the transition map)
pub open spec fn sig_tm(tm: TMapV, p: PartV, s: StateID, cc: CharClassID, h: int) -> bool {
    exists|t: StateID| #[trigger] tm_edge(tm, s, cc, t) && in_grp(p, h, t.0 as int)
}
pub proof fn lemma_sig_tm(d: CompiledDfa, tm: TMapV, p: PartV, s: StateID, cc: CharClassID, h: int)
    requires tm_ok(d, tm)
    ensures sig_tm(tm, p, s, cc, h) <==> sig(d, p, s.0 as int, cc, h)
{
    if sig_tm(tm, p, s, cc, h) {
        let t = choose|t: StateID| #[trigger] tm_edge(tm, s, cc, t) && in_grp(p, h, t.0 as int);
        assert(in_grp(p, h, t.0 as int) && d.states@[s.0 as int].transitions@.contains((cc, StateSetID(t.0 as int as u32))));
    }
    if sig(d, p, s.0 as int, cc, h) {
        let t = choose|t: int| #[trigger] in_grp(p, h, t) && 0 <= s.0 < d.states@.len() && d.states@[s.0 as int].transitions@.contains((cc, StateSetID(t as u32)));
        assert(tm_edge(tm, s, cc, StateID(t as u32)));
    }
}
/// the signature vector of a state: lists (cc, g) iff the state can move under cc into group g
#[verifier::opaque]
pub open spec fn sigvec_ok(tm: TMapV, p: PartV, s: StateID, v: Seq<(CharClassID, StateGroupID)>) -> bool {
    &&& forall|i: int| 0 <= i < v.len() ==> (#[trigger] v[i]).1.0 < p.len()
    &&& forall|cc: CharClassID, g: StateGroupID| #[trigger] v.contains((cc, g)) <==> (g.0 < p.len() && sig_tm(tm, p, s, cc, g.0 as int))
}

pub broadcast axiom fn axiom_ccid_cmp()
    ensures #[trigger] vstd::std_specs::btree::key_obeys_cmp_spec::<CharClassID>();
/// what a BTreeMap iterator yields: exactly the key/value pairs of the map
pub open spec fn btree_rem_ok<'a, K, V>(m: Map<K, V>, rem: Seq<(&'a K, &'a V)>) -> bool {
    &&& forall|i: int| 0 <= i < rem.len() ==> m.contains_key(*(#[trigger] rem[i]).0) && m[*rem[i].0] == *rem[i].1
    &&& forall|k: K| #[trigger] m.contains_key(k) ==> exists|i: int| 0 <= i < rem.len() && *(#[trigger] rem[i]).0 == k
}
pub open spec fn tgt_upto(tv: Seq<StateID>, p: PartV, k: int, h: int) -> bool {
    exists|kk: int| 0 <= kk < k && kk < tv.len() && #[trigger] in_grp(p, h, tv[kk].0 as int)
}
pub open spec fn sig_at<'a>(rem: Seq<(&'a CharClassID, &'a Vec<StateID>)>, p: PartV, i: int, cc: CharClassID, h: int) -> bool {
    0 <= i < rem.len() && *rem[i].0 == cc && tgt_upto(rem[i].1@, p, rem[i].1@.len() as int, h)
}
pub open spec fn sig_upto<'a>(rem: Seq<(&'a CharClassID, &'a Vec<StateID>)>, p: PartV, n: int, cc: CharClassID, h: int) -> bool {
    exists|i: int| 0 <= i < n && #[trigger] sig_at(rem, p, i, cc, h)
}
pub proof fn lemma_grp_unique(p: PartV, n: int, g: int, h: int, s: int)
    requires part_ok(p, n), in_grp(p, g, s), in_grp(p, h, s)
    ensures g == h
{
}
pub proof fn lemma_sig_upto_all<'a>(tm: TMapV, p: PartV, s: StateID, rem: Seq<(&'a CharClassID, &'a Vec<StateID>)>, cc: CharClassID, h: int)
    requires tm.contains_key(s), btree_rem_ok(tm[s]@, rem)
    ensures sig_upto(rem, p, rem.len() as int, cc, h) <==> sig_tm(tm, p, s, cc, h)
{
    let tos = tm[s]@;
    if sig_upto(rem, p, rem.len() as int, cc, h) {
        let i = choose|i: int| 0 <= i < rem.len() && #[trigger] sig_at(rem, p, i, cc, h);
        let tv = rem[i].1@;
        let kk = choose|kk: int| 0 <= kk < tv.len() && kk < tv.len() && #[trigger] in_grp(p, h, tv[kk].0 as int);
        assert(tos.contains_key(cc) && tos[cc]@ == tv);
        assert(tv.contains(tv[kk]));
        assert(tm_edge(tm, s, cc, tv[kk]));
    }
    if sig_tm(tm, p, s, cc, h) {
        let t = choose|t: StateID| #[trigger] tm_edge(tm, s, cc, t) && in_grp(p, h, t.0 as int);
        assert(tos.contains_key(cc));
        let i = choose|i: int| 0 <= i < rem.len() && *(#[trigger] rem[i]).0 == cc;
        assert(tos[cc] == *rem[i].1);
        let tv = rem[i].1@;
        let kk = choose|kk: int| 0 <= kk < tv.len() && tv[kk] == t;
        assert(in_grp(p, h, tv[kk].0 as int));
        assert(tgt_upto(tv, p, tv.len() as int, h));
        assert(sig_at(rem, p, i, cc, h));
    }
}

// ---------------------------------------------------------------- one refinement round
pub type KeyMapV = Map<TransitionsToPartitionGroups, BTreeSet<StateID>>;
/// derived Ord / Eq of the signature newtype: a total order whose equality is equality of the vectors (rule E4)
pub broadcast axiom fn axiom_sigkey_cmp()
    ensures #[trigger] vstd::std_specs::btree::key_obeys_cmp_spec::<TransitionsToPartitionGroups>();
pub axiom fn axiom_sigkey_ext(a: TransitionsToPartitionGroups, b: TransitionsToPartitionGroups)
    ensures a.0@ == b.0@ ==> a == b;
/// x and y cannot be told apart by one step into the groups of p
#[verifier::opaque]
pub open spec fn same_sig(tm: TMapV, p: PartV, x: StateID, y: StateID) -> bool {
    forall|cc: CharClassID, h: int| #![trigger sig_tm(tm, p, x, cc, h)] #![trigger sig_tm(tm, p, y, cc, h)] 0 <= h < p.len() ==> (sig_tm(tm, p, x, cc, h) <==> sig_tm(tm, p, y, cc, h))
}
/// states collected so far, by signature vector
pub open spec fn split_inv(tm: TMapV, p: PartV, mv: KeyMapV, done: Seq<StateID>) -> bool {
    &&& forall|k: TransitionsToPartitionGroups, x: StateID| mv.contains_key(k) && #[trigger] mv[k]@.contains(x) ==> done.contains(x) && sigvec_ok(tm, p, x, k.0@)
    &&& forall|k: TransitionsToPartitionGroups| #[trigger] mv.contains_key(k) ==> set_nonempty(mv[k]@)
    &&& forall|x: StateID| #[trigger] done.contains(x) ==> has_key_with(mv, x)
    &&& forall|k1: TransitionsToPartitionGroups, k2: TransitionsToPartitionGroups, x: StateID| mv.contains_key(k1) && mv.contains_key(k2) && #[trigger] mv[k1]@.contains(x) && #[trigger] mv[k2]@.contains(x) ==> k1 == k2
}
pub open spec fn has_key_with(mv: KeyMapV, x: StateID) -> bool { exists|k: TransitionsToPartitionGroups| #[trigger] mv.contains_key(k) && mv[k]@.contains(x) }
#[verifier::opaque]
pub open spec fn in_some(r: PartV, x: StateID) -> bool { exists|i: int| 0 <= i < r.len() && #[trigger] r[i].contains(x) }
/// the pieces a group is split into
pub open spec fn split_ok(tm: TMapV, p: PartV, grp0: Set<StateID>, r: PartV) -> bool {
    &&& forall|i: int, x: StateID| 0 <= i < r.len() && #[trigger] r[i].contains(x) ==> grp0.contains(x)
    &&& forall|i: int| 0 <= i < r.len() ==> set_nonempty(#[trigger] r[i])
    &&& forall|x: StateID| #[trigger] grp0.contains(x) ==> in_some(r, x)
    &&& groups_disjoint(r)
    &&& forall|i: int, x: StateID, y: StateID| 0 <= i < r.len() && #[trigger] r[i].contains(x) && #[trigger] r[i].contains(y) ==> same_sig(tm, p, x, y)
}
pub proof fn lemma_sigvec_same(tm: TMapV, p: PartV, x: StateID, y: StateID, v: Seq<(CharClassID, StateGroupID)>)
    requires sigvec_ok(tm, p, x, v), sigvec_ok(tm, p, y, v), p.len() <= u32::MAX
    ensures same_sig(tm, p, x, y)
{
    reveal(same_sig);
    reveal(sigvec_ok);
    assert forall|cc: CharClassID, h: int| #![trigger sig_tm(tm, p, x, cc, h)] #![trigger sig_tm(tm, p, y, cc, h)] 0 <= h < p.len() implies (sig_tm(tm, p, x, cc, h) <==> sig_tm(tm, p, y, cc, h)) by {
        let g = StateGroupID(h as u32);
        assert(v.contains((cc, g)) <==> (g.0 < p.len() && sig_tm(tm, p, x, cc, g.0 as int)));
        assert(v.contains((cc, g)) <==> (g.0 < p.len() && sig_tm(tm, p, y, cc, g.0 as int)));
    }
}

/// BTreeMap::into_values().collect::<Vec<_>>(): the values, one per key (in key order, which no contract here uses)
#[verifier::external_body]
pub fn verif_into_values(m: BTreeMap<TransitionsToPartitionGroups, StateGroup>) -> (r: Vec<StateGroup>)
    ensures
        exists|ks: Seq<TransitionsToPartitionGroups>| #![trigger ks.len()] ks.len() == r@.len() && ks.no_duplicates()
            && (forall|i: int| 0 <= i < ks.len() ==> m@.contains_key(#[trigger] ks[i]) && r@[i] == m@[ks[i]])
            && (forall|k: TransitionsToPartitionGroups| #[trigger] m@.contains_key(k) ==> ks.contains(k)),
{ m.into_values().collect::<Vec<_>>() }

pub proof fn lemma_single_group(tm: TMapV, p: PartV, g: Set<StateID>)
    requires g.len() == 1, g.finite()
    ensures split_ok(tm, p, g, seq![g])
{
    reveal(in_some);
    reveal(groups_disjoint);
    reveal(same_sig);
    let r = seq![g];
    assert(set_nonempty(g)) by {
        if !set_nonempty(g) { assert(g =~= Set::<StateID>::empty()); }
    }
    assert forall|i: int, x: StateID, y: StateID| 0 <= i < r.len() && #[trigger] r[i].contains(x) && #[trigger] r[i].contains(y) implies same_sig(tm, p, x, y) by {
        if x != y {
            let s2 = Set::<StateID>::empty().insert(x).insert(y);
            assert(s2.len() == 2);
            assert(s2.subset_of(g));
            vstd::set_lib::lemma_len_subset(s2, g);
        }
    }
    assert forall|x: StateID| #[trigger] g.contains(x) implies in_some(r, x) by { assert(r[0].contains(x)); }
}
pub proof fn lemma_split_f1(tm: TMapV, p: PartV, mv: KeyMapV, g: Set<StateID>, done: Seq<StateID>, ks: Seq<TransitionsToPartitionGroups>, r: Seq<BTreeSet<StateID>>)
    requires
        split_inv(tm, p, mv, done), p.len() <= u32::MAX, forall|x: StateID| #[trigger] g.contains(x) <==> done.contains(x),
        ks.len() == r.len(), ks.no_duplicates(), forall|i: int| 0 <= i < ks.len() ==> mv.contains_key(#[trigger] ks[i]) && r[i] == mv[ks[i]],
        forall|k: TransitionsToPartitionGroups| #[trigger] mv.contains_key(k) ==> ks.contains(k),
    ensures forall|i: int, x: StateID| 0 <= i < pv(r).len() && #[trigger] pv(r)[i].contains(x) ==> g.contains(x)
{
    let rv = pv(r);
    assert forall|i: int, x: StateID| 0 <= i < rv.len() && #[trigger] rv[i].contains(x) implies g.contains(x) by { assert(mv.contains_key(ks[i])); assert(mv[ks[i]]@.contains(x)); assert(done.contains(x)); }
}
pub proof fn lemma_split_f2(tm: TMapV, p: PartV, mv: KeyMapV, g: Set<StateID>, done: Seq<StateID>, ks: Seq<TransitionsToPartitionGroups>, r: Seq<BTreeSet<StateID>>)
    requires
        split_inv(tm, p, mv, done), p.len() <= u32::MAX, forall|x: StateID| #[trigger] g.contains(x) <==> done.contains(x),
        ks.len() == r.len(), ks.no_duplicates(), forall|i: int| 0 <= i < ks.len() ==> mv.contains_key(#[trigger] ks[i]) && r[i] == mv[ks[i]],
        forall|k: TransitionsToPartitionGroups| #[trigger] mv.contains_key(k) ==> ks.contains(k),
    ensures forall|i: int| 0 <= i < pv(r).len() ==> set_nonempty(#[trigger] pv(r)[i])
{
    let rv = pv(r);
    assert forall|i: int| 0 <= i < rv.len() implies set_nonempty(#[trigger] rv[i]) by { assert(mv.contains_key(ks[i])); assert(set_nonempty(mv[ks[i]]@)); }
}
pub proof fn lemma_split_f3(tm: TMapV, p: PartV, mv: KeyMapV, g: Set<StateID>, done: Seq<StateID>, ks: Seq<TransitionsToPartitionGroups>, r: Seq<BTreeSet<StateID>>)
    requires
        split_inv(tm, p, mv, done), p.len() <= u32::MAX, forall|x: StateID| #[trigger] g.contains(x) <==> done.contains(x),
        ks.len() == r.len(), ks.no_duplicates(), forall|i: int| 0 <= i < ks.len() ==> mv.contains_key(#[trigger] ks[i]) && r[i] == mv[ks[i]],
        forall|k: TransitionsToPartitionGroups| #[trigger] mv.contains_key(k) ==> ks.contains(k),
    ensures forall|x: StateID| #[trigger] g.contains(x) ==> in_some(pv(r), x)
{
    reveal(in_some);
    let rv = pv(r);
    assert forall|x: StateID| #[trigger] g.contains(x) implies in_some(rv, x) by {
        assert(done.contains(x));
        assert(has_key_with(mv, x));
        let k = choose|k: TransitionsToPartitionGroups| #[trigger] mv.contains_key(k) && mv[k]@.contains(x);
        assert(ks.contains(k));
        let i = choose|i: int| 0 <= i < ks.len() && ks[i] == k;
        assert(rv[i].contains(x));
    }
}
pub proof fn lemma_split_f4(tm: TMapV, p: PartV, mv: KeyMapV, g: Set<StateID>, done: Seq<StateID>, ks: Seq<TransitionsToPartitionGroups>, r: Seq<BTreeSet<StateID>>)
    requires
        split_inv(tm, p, mv, done), p.len() <= u32::MAX, forall|x: StateID| #[trigger] g.contains(x) <==> done.contains(x),
        ks.len() == r.len(), ks.no_duplicates(), forall|i: int| 0 <= i < ks.len() ==> mv.contains_key(#[trigger] ks[i]) && r[i] == mv[ks[i]],
        forall|k: TransitionsToPartitionGroups| #[trigger] mv.contains_key(k) ==> ks.contains(k),
    ensures groups_disjoint(pv(r))
{
    reveal(groups_disjoint);
    let rv = pv(r);
    assert forall|i: int, j: int, x: StateID| 0 <= i < rv.len() && 0 <= j < rv.len() && #[trigger] rv[i].contains(x) && #[trigger] rv[j].contains(x) implies i == j by {
        assert(mv.contains_key(ks[i]) && mv.contains_key(ks[j]));
        assert(mv[ks[i]]@.contains(x) && mv[ks[j]]@.contains(x));
        assert(ks[i] == ks[j]);
        if i != j { assert(ks[i] != ks[j]); }
    }
}
pub proof fn lemma_split_f5(tm: TMapV, p: PartV, mv: KeyMapV, g: Set<StateID>, done: Seq<StateID>, ks: Seq<TransitionsToPartitionGroups>, r: Seq<BTreeSet<StateID>>)
    requires
        split_inv(tm, p, mv, done), p.len() <= u32::MAX, forall|x: StateID| #[trigger] g.contains(x) <==> done.contains(x),
        ks.len() == r.len(), ks.no_duplicates(), forall|i: int| 0 <= i < ks.len() ==> mv.contains_key(#[trigger] ks[i]) && r[i] == mv[ks[i]],
        forall|k: TransitionsToPartitionGroups| #[trigger] mv.contains_key(k) ==> ks.contains(k),
    ensures forall|i: int, x: StateID, y: StateID| 0 <= i < pv(r).len() && #[trigger] pv(r)[i].contains(x) && #[trigger] pv(r)[i].contains(y) ==> same_sig(tm, p, x, y)
{
    let rv = pv(r);
    assert forall|i: int, x: StateID, y: StateID| 0 <= i < rv.len() && #[trigger] rv[i].contains(x) && #[trigger] rv[i].contains(y) implies same_sig(tm, p, x, y) by {
        assert(mv.contains_key(ks[i]));
        assert(mv[ks[i]]@.contains(x) && mv[ks[i]]@.contains(y));
        lemma_sigvec_same(tm, p, x, y, ks[i].0@);
    }
}
pub proof fn lemma_split_final(tm: TMapV, p: PartV, mv: KeyMapV, g: Set<StateID>, done: Seq<StateID>, ks: Seq<TransitionsToPartitionGroups>, r: Seq<BTreeSet<StateID>>)
    requires
        split_inv(tm, p, mv, done), p.len() <= u32::MAX, forall|x: StateID| #[trigger] g.contains(x) <==> done.contains(x),
        ks.len() == r.len(), ks.no_duplicates(), forall|i: int| 0 <= i < ks.len() ==> mv.contains_key(#[trigger] ks[i]) && r[i] == mv[ks[i]],
        forall|k: TransitionsToPartitionGroups| #[trigger] mv.contains_key(k) ==> ks.contains(k),
    ensures split_ok(tm, p, g, pv(r))
{
    lemma_split_f1(tm, p, mv, g, done, ks, r);
    lemma_split_f2(tm, p, mv, g, done, ks, r);
    lemma_split_f3(tm, p, mv, g, done, ks, r);
    lemma_split_f4(tm, p, mv, g, done, ks, r);
    lemma_split_f5(tm, p, mv, g, done, ks, r);
}
/// inserting state x under its signature vector key keeps the collection invariant
pub proof fn lemma_split_step(tm: TMapV, p: PartV, mv0: KeyMapV, mv1: KeyMapV, done: Seq<StateID>, x: StateID, k: TransitionsToPartitionGroups)
    requires
        split_inv(tm, p, mv0, done), !done.contains(x), sigvec_ok(tm, p, x, k.0@),
        mv1.contains_key(k), mv1[k]@ == (if mv0.contains_key(k) { mv0[k]@.insert(x) } else { Set::<StateID>::empty().insert(x) }),
        forall|k2: TransitionsToPartitionGroups| k2 != k ==> (#[trigger] mv1.contains_key(k2) <==> mv0.contains_key(k2)) && (mv0.contains_key(k2) ==> mv1[k2] == mv0[k2]),
    ensures split_inv(tm, p, mv1, done.push(x))
{
    let d1 = done.push(x);
    assert forall|y: StateID| done.contains(y) implies d1.contains(y) by { let i = choose|i: int| 0 <= i < done.len() && done[i] == y; assert(d1[i] == y); }
    assert(d1[done.len() as int] == x);
    assert forall|k2: TransitionsToPartitionGroups, y: StateID| mv1.contains_key(k2) && #[trigger] mv1[k2]@.contains(y) implies d1.contains(y) && sigvec_ok(tm, p, y, k2.0@) by {
        if k2 == k { if y != x { assert(mv0.contains_key(k) && mv0[k]@.contains(y)); } } else { assert(mv0[k2]@.contains(y)); }
    }
    assert forall|k2: TransitionsToPartitionGroups| #[trigger] mv1.contains_key(k2) implies set_nonempty(mv1[k2]@) by {
        if k2 == k { assert(mv1[k]@.contains(x)); } else { assert(set_nonempty(mv0[k2]@)); let y = choose|y: StateID| #[trigger] mv0[k2]@.contains(y); assert(mv1[k2]@.contains(y)); }
    }
    assert forall|y: StateID| #[trigger] d1.contains(y) implies has_key_with(mv1, y) by {
        if y == x { assert(mv1.contains_key(k) && mv1[k]@.contains(x)); } else {
            let i = choose|i: int| 0 <= i < d1.len() && d1[i] == y;
            assert(done[i] == y); assert(done.contains(y));
            assert(has_key_with(mv0, y));
            let k2 = choose|k2: TransitionsToPartitionGroups| #[trigger] mv0.contains_key(k2) && mv0[k2]@.contains(y);
            if k2 == k { assert(mv1[k]@.contains(y)); } else { assert(mv1.contains_key(k2)); assert(mv1[k2] == mv0[k2]); assert(mv1[k2]@.contains(y)); }
        }
    }
    assert forall|k1: TransitionsToPartitionGroups, k2: TransitionsToPartitionGroups, y: StateID| mv1.contains_key(k1) && mv1.contains_key(k2) && #[trigger] mv1[k1]@.contains(y) && #[trigger] mv1[k2]@.contains(y) implies k1 == k2 by {
        if y == x {
            if k1 != k { assert(mv0[k1]@.contains(x)); assert(done.contains(x)); }
            if k2 != k { assert(mv0[k2]@.contains(x)); assert(done.contains(x)); }
        } else {
            if k1 == k { assert(mv0.contains_key(k) && mv0[k]@.contains(y)); } else { assert(mv0[k1]@.contains(y)); }
            if k2 == k { assert(mv0.contains_key(k) && mv0[k]@.contains(y)); } else { assert(mv0[k2]@.contains(y)); }
        }
    }
}

// ---------------------------------------------------------------- calculate_new_partition: all groups split, pieces in order
#[verifier::opaque]
pub open spec fn groups_disjoint(p: PartV) -> bool {
    forall|g: int, h: int, x: StateID| 0 <= g < p.len() && 0 <= h < p.len() && #[trigger] p[g].contains(x) && #[trigger] p[h].contains(x) ==> g == h
}
/// new holds the pieces of the first idx groups of old, in order; org[i] = the group piece i came from
pub open spec fn refined(tm: TMapV, old: PartV, new: PartV, org: Seq<int>, idx: int) -> bool {
    &&& org.len() == new.len()
    &&& forall|i: int| 0 <= i < new.len() ==> 0 <= #[trigger] org[i] < idx && set_nonempty(new[i])
    &&& forall|i: int, x: StateID| 0 <= i < new.len() && #[trigger] new[i].contains(x) ==> old[org[i]].contains(x)
    &&& forall|j: int, x: StateID| 0 <= j < idx && #[trigger] old[j].contains(x) ==> in_some(new, x)
    &&& groups_disjoint(new)
    &&& forall|i: int, x: StateID, y: StateID| 0 <= i < new.len() && #[trigger] new[i].contains(x) && #[trigger] new[i].contains(y) ==> same_sig(tm, old, x, y)
    // as long as no group of old is empty (only the group of non-accepting states of the initial partition can be): pieces never get fewer
    &&& all_nonempty(old) ==> new.len() >= idx
    &&& all_nonempty(old) && new.len() == idx ==> forall|j: int| 0 <= j < idx ==> #[trigger] new[j] == old[j]
}
/// new1 is new0 followed by pieces (stated element-wise: sequence concatenation terms make the solver wander)
pub open spec fn is_cat(new0: PartV, pieces: PartV, new1: PartV) -> bool {
    &&& new1.len() == new0.len() + pieces.len()
    &&& forall|i: int| 0 <= i < new0.len() ==> #[trigger] new1[i] == new0[i]
    &&& forall|i: int| new0.len() <= i < new1.len() ==> #[trigger] new1[i] == pieces[i - new0.len()]
}
pub open spec fn is_cat_org(org0: Seq<int>, idx: int, k: int, org1: Seq<int>) -> bool {
    &&& org1.len() == org0.len() + k
    &&& forall|i: int| 0 <= i < org0.len() ==> #[trigger] org1[i] == org0[i]
    &&& forall|i: int| org0.len() <= i < org1.len() ==> #[trigger] org1[i] == idx
}
pub proof fn lemma_concat_disjoint(old: PartV, new0: PartV, org0: Seq<int>, idx: int, pieces: PartV, new1: PartV)
    requires
        groups_disjoint(old), groups_disjoint(new0), groups_disjoint(pieces), org0.len() == new0.len(), 0 <= idx < old.len(), is_cat(new0, pieces, new1),
        forall|i: int| 0 <= i < new0.len() ==> 0 <= #[trigger] org0[i] < idx,
        forall|i: int, x: StateID| 0 <= i < new0.len() && #[trigger] new0[i].contains(x) ==> old[org0[i]].contains(x),
        forall|i: int, x: StateID| 0 <= i < pieces.len() && #[trigger] pieces[i].contains(x) ==> old[idx].contains(x),
    ensures groups_disjoint(new1)
{
    reveal(groups_disjoint);
    let n0 = new0.len() as int;
    assert forall|g: int, h: int, x: StateID| 0 <= g < new1.len() && 0 <= h < new1.len() && #[trigger] new1[g].contains(x) && #[trigger] new1[h].contains(x) implies g == h by {
        if g < n0 { assert(new1[g] == new0[g]); } else { assert(new1[g] == pieces[g - n0]); }
        if h < n0 { assert(new1[h] == new0[h]); } else { assert(new1[h] == pieces[h - n0]); }
        if g < n0 && h < n0 { assert(new0[g].contains(x) && new0[h].contains(x)); }
        else if g >= n0 && h >= n0 { assert(pieces[g - n0].contains(x) && pieces[h - n0].contains(x)); }
        else if g < n0 { assert(new0[g].contains(x)); assert(old[org0[g]].contains(x)); assert(pieces[h - n0].contains(x)); assert(old[idx].contains(x)); }
        else { assert(new0[h].contains(x)); assert(old[org0[h]].contains(x)); assert(pieces[g - n0].contains(x)); assert(old[idx].contains(x)); }
    }
}
pub proof fn lemma_refine_s1(tm: TMapV, old: PartV, new0: PartV, org0: Seq<int>, idx: int, pieces: PartV, new1: PartV, org1: Seq<int>)
    requires
        refined(tm, old, new0, org0, idx), 0 <= idx < old.len(), split_ok(tm, old, old[idx], pieces),
        groups_disjoint(old), is_cat(new0, pieces, new1), is_cat_org(org0, idx, pieces.len() as int, org1),
    ensures
        all_nonempty(old) ==> pieces.len() >= 1, org1.len() == new1.len(),
        forall|i: int| 0 <= i < new1.len() ==> 0 <= #[trigger] org1[i] < idx + 1 && set_nonempty(new1[i]),
        forall|i: int, x: StateID| 0 <= i < new1.len() && #[trigger] new1[i].contains(x) ==> old[org1[i]].contains(x),
{
    reveal(in_some);
    let n0 = new0.len() as int;
    if all_nonempty(old) {
        assert(set_nonempty(old[idx]));
        let w = choose|w: StateID| #[trigger] old[idx].contains(w);
        assert(in_some(pieces, w));
    }
    assert forall|i: int| 0 <= i < new1.len() implies 0 <= #[trigger] org1[i] < idx + 1 && set_nonempty(new1[i]) by {
        if i < n0 { assert(new1[i] == new0[i] && org1[i] == org0[i]); } else { assert(new1[i] == pieces[i - n0]); assert(org1[i] == idx); }
    }
    assert forall|i: int, x: StateID| 0 <= i < new1.len() && #[trigger] new1[i].contains(x) implies old[org1[i]].contains(x) by {
        if i < n0 { assert(new1[i] == new0[i] && org1[i] == org0[i]); } else { assert(new1[i] == pieces[i - n0]); assert(org1[i] == idx); }
    }
}
pub proof fn lemma_refine_s2(tm: TMapV, old: PartV, new0: PartV, org0: Seq<int>, idx: int, pieces: PartV, new1: PartV, org1: Seq<int>)
    requires
        refined(tm, old, new0, org0, idx), 0 <= idx < old.len(), split_ok(tm, old, old[idx], pieces),
        groups_disjoint(old), is_cat(new0, pieces, new1), is_cat_org(org0, idx, pieces.len() as int, org1),
    ensures forall|j: int, x: StateID| 0 <= j < idx + 1 && #[trigger] old[j].contains(x) ==> in_some(new1, x)
{
    reveal(in_some);
    let n0 = new0.len() as int;
    assert forall|j: int, x: StateID| 0 <= j < idx + 1 && #[trigger] old[j].contains(x) implies in_some(new1, x) by {
        if j < idx { assert(in_some(new0, x)); let i = choose|i: int| 0 <= i < new0.len() && #[trigger] new0[i].contains(x); assert(new1[i] == new0[i]); assert(new1[i].contains(x)); }
        else { assert(in_some(pieces, x)); let i = choose|i: int| 0 <= i < pieces.len() && #[trigger] pieces[i].contains(x); assert(new1[n0 + i] == pieces[n0 + i - n0]); assert(new1[n0 + i].contains(x)); }
    }
}
pub proof fn lemma_refine_s3(tm: TMapV, old: PartV, new0: PartV, org0: Seq<int>, idx: int, pieces: PartV, new1: PartV, org1: Seq<int>)
    requires
        refined(tm, old, new0, org0, idx), 0 <= idx < old.len(), split_ok(tm, old, old[idx], pieces),
        groups_disjoint(old), is_cat(new0, pieces, new1), is_cat_org(org0, idx, pieces.len() as int, org1),
    ensures forall|i: int, x: StateID, y: StateID| 0 <= i < new1.len() && #[trigger] new1[i].contains(x) && #[trigger] new1[i].contains(y) ==> same_sig(tm, old, x, y)
{
    let n0 = new0.len() as int;
    assert forall|i: int, x: StateID, y: StateID| 0 <= i < new1.len() && #[trigger] new1[i].contains(x) && #[trigger] new1[i].contains(y) implies same_sig(tm, old, x, y) by {
        if i < n0 { assert(new1[i] == new0[i]); assert(new0[i].contains(x) && new0[i].contains(y)); } else { assert(new1[i] == pieces[i - n0]); assert(pieces[i - n0].contains(x) && pieces[i - n0].contains(y)); }
    }
}
pub proof fn lemma_refine_s4(tm: TMapV, old: PartV, new0: PartV, org0: Seq<int>, idx: int, pieces: PartV, new1: PartV, org1: Seq<int>)
    requires
        refined(tm, old, new0, org0, idx), 0 <= idx < old.len(), split_ok(tm, old, old[idx], pieces),
        groups_disjoint(old), is_cat(new0, pieces, new1), is_cat_org(org0, idx, pieces.len() as int, org1),
        all_nonempty(old) ==> pieces.len() >= 1,
    ensures all_nonempty(old) ==> new1.len() >= idx + 1, all_nonempty(old) && new1.len() == idx + 1 ==> forall|j: int| 0 <= j < idx + 1 ==> #[trigger] new1[j] == old[j]
{
    reveal(in_some);
    let n0 = new0.len() as int;
    if all_nonempty(old) && new1.len() == idx + 1 {
        assert(n0 == idx && pieces.len() == 1);
        assert forall|j: int| 0 <= j < idx + 1 implies #[trigger] new1[j] == old[j] by {
            if j < idx { assert(new1[j] == new0[j]); } else {
                assert(new1[j] == pieces[j - n0]);
                assert forall|x: StateID| pieces[0].contains(x) <==> old[idx].contains(x) by {
                    if old[idx].contains(x) { assert(in_some(pieces, x)); let i = choose|i: int| 0 <= i < pieces.len() && #[trigger] pieces[i].contains(x); assert(i == 0); }
                }
                assert(pieces[0] =~= old[idx]);
            }
        }
    }
}
pub proof fn lemma_refine_step(tm: TMapV, old: PartV, new0: PartV, org0: Seq<int>, idx: int, pieces: PartV, new1: PartV, org1: Seq<int>)
    requires
        refined(tm, old, new0, org0, idx), 0 <= idx < old.len(), split_ok(tm, old, old[idx], pieces),
        groups_disjoint(old), is_cat(new0, pieces, new1), is_cat_org(org0, idx, pieces.len() as int, org1),
    ensures refined(tm, old, new1, org1, idx + 1), all_nonempty(old) ==> pieces.len() >= 1
{
    lemma_refine_s1(tm, old, new0, org0, idx, pieces, new1, org1);
    lemma_refine_s2(tm, old, new0, org0, idx, pieces, new1, org1);
    lemma_refine_s3(tm, old, new0, org0, idx, pieces, new1, org1);
    lemma_refine_s4(tm, old, new0, org0, idx, pieces, new1, org1);
    lemma_concat_disjoint(old, new0, org0, idx, pieces, new1);
}
/// what a full round gives
pub proof fn lemma_refine_final(d: CompiledDfa, tm: TMapV, old: PartV, new: PartV, org: Seq<int>, n: int)
    requires
        refined(tm, old, new, org, old.len() as int), part_ok(old, n), acc_homog(d, old), n <= u32::MAX,
    ensures
        part_ok(new, n), acc_homog(d, new), all_nonempty(new),
        forall|g: int, x: StateID| 0 <= g < new.len() && #[trigger] new[g].contains(x) ==> old[org[g]].contains(x),
{
    reveal(in_some);
    reveal(groups_disjoint);
    assert forall|s: int| 0 <= s < n implies #[trigger] has_grp(new, s) by {
        assert(has_grp(old, s));
        let g = choose|g: int| #[trigger] in_grp(old, g, s);
        assert(old[g].contains(StateID(s as u32)));
        assert(in_some(new, StateID(s as u32)));
        let i = choose|i: int| 0 <= i < new.len() && #[trigger] new[i].contains(StateID(s as u32));
        assert(in_grp(new, i, s));
    }
    assert forall|g: int, h: int, s: int| #[trigger] in_grp(new, g, s) && #[trigger] in_grp(new, h, s) implies g == h by {
        assert(new[g].contains(StateID(s as u32)) && new[h].contains(StateID(s as u32)));
    }
    assert forall|g: int, x: StateID| 0 <= g < new.len() && #[trigger] new[g].contains(x) implies x.0 < n by { assert(old[org[g]].contains(x)); }
    assert forall|g: int| 0 <= g < new.len() implies set_nonempty(#[trigger] new[g]) by { assert(0 <= org[g]); }
    assert forall|g: int, s1: int, s2: int| #![trigger in_grp(new, g, s1), in_grp(new, g, s2)]
        in_grp(new, g, s1) && in_grp(new, g, s2) && d.end_states@[s1].0 implies d.end_states@[s2] == d.end_states@[s1] by {
        assert(new[g].contains(StateID(s1 as u32)) && new[g].contains(StateID(s2 as u32)));
        assert(in_grp(old, org[g], s1) && in_grp(old, org[g], s2));
    }
}

// ---------------------------------------------------------------- minimize
/// members of a group cannot be told apart by one step into the groups of the same partition
pub open spec fn self_stable(tm: TMapV, p: PartV) -> bool {
    forall|g: int, x: StateID, y: StateID| 0 <= g < p.len() && #[trigger] p[g].contains(x) && #[trigger] p[g].contains(y) ==> same_sig(tm, p, x, y)
}
/// `a != b` on partitions (Vec<BTreeSet<StateID>>: element-wise set equality)
#[verifier::external_body]
pub fn verif_partition_ne(a: &Vec<StateGroup>, b: &Vec<StateGroup>) -> (r: bool)
    ensures r == !(pv(a@) =~= pv(b@))
{ a != b }
/// `a.clone_from(&b)` / `a = b.clone()` on partitions
#[verifier::external_body]
pub fn verif_partition_clone(b: &Vec<StateGroup>) -> (r: Vec<StateGroup>)
    ensures pv(r@) == pv(b@), r@.len() == b@.len()
{ b.clone() }
/// the same when group 0 may be empty (initial partition of an automaton all of whose states accept)
pub proof fn lemma_groups_bounded1(p: PartV, n: int)
    requires part_ok(p, n), p.len() >= 1, forall|g: int| 1 <= g < p.len() ==> set_nonempty(#[trigger] p[g]), 0 <= n <= u32::MAX
    ensures p.len() <= n + 1
{
    let reps = Seq::new((p.len() - 1) as nat, |g: int| choose|x: StateID| #[trigger] p[g + 1].contains(x));
    assert forall|g: int| 0 <= g < p.len() - 1 implies p[g + 1].contains(#[trigger] reps[g]) by { assert(set_nonempty(p[g + 1])); }
    assert(reps.no_duplicates()) by {
        assert forall|i: int, j: int| 0 <= i < reps.len() && 0 <= j < reps.len() && i != j implies reps[i] != reps[j] by {
            if reps[i] == reps[j] {
                let x = reps[i];
                assert(p[i + 1].contains(x) && p[j + 1].contains(x));
                assert(StateID(x.0 as int as u32) == x);
                assert(in_grp(p, i + 1, x.0 as int) && in_grp(p, j + 1, x.0 as int));
            }
        }
    }
    assert forall|i: int| 0 <= i < reps.len() implies 0 <= (#[trigger] reps[i]).0 < 0 + n by { assert(p[i + 1].contains(reps[i])); }
    lemma_nodup_bounded(reps, 0, n);
}
/// non-empty disjoint groups of states below n: at most n groups
pub proof fn lemma_groups_bounded(p: PartV, n: int)
    requires part_ok(p, n), all_nonempty(p), 0 <= n <= u32::MAX
    ensures p.len() <= n
{
    let reps = Seq::new(p.len(), |g: int| choose|x: StateID| #[trigger] p[g].contains(x));
    assert forall|g: int| 0 <= g < p.len() implies p[g].contains(#[trigger] reps[g]) by { assert(set_nonempty(p[g])); }
    assert(reps.no_duplicates()) by {
        assert forall|i: int, j: int| 0 <= i < reps.len() && 0 <= j < reps.len() && i != j implies reps[i] != reps[j] by {
            if reps[i] == reps[j] {
                let x = reps[i];
                assert(p[i].contains(x) && p[j].contains(x));
                assert(StateID(x.0 as int as u32) == x);
                assert(in_grp(p, i, x.0 as int) && in_grp(p, j, x.0 as int));
            }
        }
    }
    assert forall|i: int| 0 <= i < reps.len() implies 0 <= (#[trigger] reps[i]).0 < 0 + n by { assert(p[i].contains(reps[i])); }
    lemma_nodup_bounded(reps, 0, n);
}
/// a fixpoint of the refinement is stable for the automaton
pub proof fn lemma_stable_from_tm(d: CompiledDfa, tm: TMapV, p: PartV)
    requires tm_ok(d, tm), self_stable(tm, p), part_ok(p, d.states@.len() as int)
    ensures stable(d, p)
{
    reveal(same_sig);
    assert forall|g: int, s1: int, s2: int, cc: CharClassID, h: int| #![trigger in_grp(p, g, s1), in_grp(p, g, s2), sig(d, p, s1, cc, h)]
        in_grp(p, g, s1) && in_grp(p, g, s2) && sig(d, p, s1, cc, h) implies sig(d, p, s2, cc, h) by {
        let x = StateID(s1 as u32);
        let y = StateID(s2 as u32);
        lemma_sig_tm(d, tm, p, x, cc, h);
        lemma_sig_tm(d, tm, p, y, cc, h);
        assert(same_sig(tm, p, x, y));
        let t = choose|t: int| #[trigger] in_grp(p, h, t) && 0 <= s1 < d.states@.len() && d.states@[s1].transitions@.contains((cc, StateSetID(t as u32)));
        assert(0 <= h < p.len());
    }
}

/// edges recorded so far: all transitions of the states below `full`, and the first j transitions of state `full`
pub open spec fn tm_upto(d: CompiledDfa, tm: TMapV, full: int, j: int) -> bool {
    &&& forall|s: StateID| #[trigger] tm.contains_key(s) <==> (s.0 < full || (s.0 == full && j >= 0))
    &&& forall|s: StateID, cc: CharClassID, t: StateID| #[trigger] tm_edge(tm, s, cc, t) <==>
            ((s.0 < full && d.states@[s.0 as int].transitions@.contains((cc, StateSetID(t.0))))
             || (s.0 == full && exists|jj: int| 0 <= jj < j && jj < d.states@[full].transitions@.len() && #[trigger] d.states@[full].transitions@[jj] == (cc, StateSetID(t.0))))
}
/// one more transition (cc0, x) of state `full` recorded: tm1 is tm0 with x added to the target list of cc0
pub proof fn lemma_tm_step(d: CompiledDfa, tm0: TMapV, tm1: TMapV, full: int, j: int, cc0: CharClassID, x: StateID)
    requires
        tm_upto(d, tm0, full, j), 0 <= full < d.states@.len(), 0 <= j < d.states@[full].transitions@.len(), full <= u32::MAX,
        d.states@[full].transitions@[j] == (cc0, StateSetID(x.0)),
        forall|s: StateID| #[trigger] tm1.contains_key(s) <==> tm0.contains_key(s),
        forall|s: StateID| s.0 != full && tm0.contains_key(s) ==> #[trigger] tm1[s] == tm0[s],
        tm1[StateID(full as u32)]@.contains_key(cc0),
        forall|cc: CharClassID| cc != cc0 ==> (#[trigger] tm1[StateID(full as u32)]@.contains_key(cc) <==> tm0[StateID(full as u32)]@.contains_key(cc))
            && (tm0[StateID(full as u32)]@.contains_key(cc) ==> tm1[StateID(full as u32)]@[cc] == tm0[StateID(full as u32)]@[cc]),
        forall|y: StateID| #[trigger] tm1[StateID(full as u32)]@[cc0]@.contains(y) <==> (y == x || (tm0[StateID(full as u32)]@.contains_key(cc0) && tm0[StateID(full as u32)]@[cc0]@.contains(y))),
    ensures tm_upto(d, tm1, full, j + 1)
{
    let sf = StateID(full as u32);
    let trs = d.states@[full].transitions@;
    assert forall|s: StateID, cc: CharClassID, t: StateID| #[trigger] tm_edge(tm1, s, cc, t) <==>
            ((s.0 < full && d.states@[s.0 as int].transitions@.contains((cc, StateSetID(t.0))))
             || (s.0 == full && exists|jj: int| 0 <= jj < j + 1 && jj < trs.len() && #[trigger] trs[jj] == (cc, StateSetID(t.0)))) by {
        if s.0 != full {
            assert(tm1.contains_key(s) <==> tm0.contains_key(s));
            if tm0.contains_key(s) { assert(tm1[s] == tm0[s]); }
            assert(tm_edge(tm1, s, cc, t) <==> tm_edge(tm0, s, cc, t));
        } else {
            assert(s == sf);
            assert(tm0.contains_key(sf) && tm1.contains_key(sf));
            let old_e = tm_edge(tm0, sf, cc, t);
            assert(old_e <==> exists|jj: int| 0 <= jj < j && jj < trs.len() && #[trigger] trs[jj] == (cc, StateSetID(t.0)));
            if cc == cc0 {
                assert(tm_edge(tm1, sf, cc, t) <==> (t == x || old_e));
                if t == x { assert(trs[j] == (cc, StateSetID(t.0))); }
            } else {
                assert(tm1[sf]@.contains_key(cc) <==> tm0[sf]@.contains_key(cc));
                if tm0[sf]@.contains_key(cc) { assert(tm1[sf]@[cc] == tm0[sf]@[cc]); }
                assert(tm_edge(tm1, sf, cc, t) <==> old_e);
            }
            if exists|jj: int| 0 <= jj < j + 1 && jj < trs.len() && #[trigger] trs[jj] == (cc, StateSetID(t.0)) {
                let jj = choose|jj: int| 0 <= jj < j + 1 && jj < trs.len() && #[trigger] trs[jj] == (cc, StateSetID(t.0));
                if jj == j { assert(cc == cc0 && t == x); }
            }
        }
    }
}

// ---------------------------------------------------------------- create_from_partition
/// derived Clone of StateData / Clone of the Copy pair (bool, TerminalID): field-wise (rule E4)
pub axiom fn axiom_cloned_state(a: StateData, b: StateData)
    ensures vstd::pervasive::cloned(a, b) ==> a.transitions@ == b.transitions@;
pub axiom fn axiom_cloned_end(a: (bool, TerminalID), b: (bool, TerminalID))
    ensures vstd::pervasive::cloned(a, b) ==> a == b;
/// the comparator of the sort in create_from_partition: the group holding state 0 before every other group
pub open spec fn start_cmp(a: BTreeSet<StateID>, b: BTreeSet<StateID>) -> core::cmp::Ordering {
    if a@.contains(StateID(0)) { core::cmp::Ordering::Less } else if b@.contains(StateID(0)) { core::cmp::Ordering::Greater } else { core::cmp::Ordering::Equal }
}
pub open spec fn models_cmp2<T, F: FnMut(&T, &T) -> core::cmp::Ordering>(f: F, g: spec_fn(T, T) -> core::cmp::Ordering) -> bool {
    forall|x: &T, y: &T, o: core::cmp::Ordering| call_ensures(f, (x, y), o) ==> o == g(*x, *y)
}
// TRUSTED std contract: sort_by permutes and leaves no later element that compares Less than an earlier one
pub assume_specification<T, F: FnMut(&T, &T) -> core::cmp::Ordering>[ <[T]>::sort_by ](s: &mut [T], f: F)
    requires forall|x: &T, y: &T| call_requires(f, (x, y)),
    ensures
        final(s)@.len() == old(s)@.len(),
        forall|x: T| #![trigger final(s)@.contains(x)] #![trigger old(s)@.contains(x)] final(s)@.contains(x) <==> old(s)@.contains(x),
        old(s)@.no_duplicates() ==> final(s)@.no_duplicates(),
        forall|g: spec_fn(T, T) -> core::cmp::Ordering| #[trigger] models_cmp2(f, g) ==>
            forall|i: int, j: int| 0 <= i < j < final(s)@.len() ==> g(#[trigger] final(s)@[j], #[trigger] final(s)@[i]) != core::cmp::Ordering::Less;
pub assume_specification<T: Clone>[ <[T]>::to_vec ](s: &[T]) -> (r: Vec<T>)
    ensures r@ == s@;   // Clone of BTreeSet<StateID> yields an equal set (std)
// TRUSTED std contract: the least element (its value is only traced)
pub assume_specification<T: Ord, A: Allocator + Clone>[ BTreeSet::<T, A>::first ](s: &BTreeSet<T, A>) -> (r: Option<&T>)
    ensures r is Some <==> exists|y: T| #[trigger] s@.contains(y), r matches Some(x) ==> s@.contains(*x) && (has_ord_key::<T>() ==> forall|y: T| #[trigger] s@.contains(y) ==> ord_key(*x) <= ord_key(y));

/// a reordering of the groups is as good a partition
pub proof fn lemma_perm_part(p1: Seq<BTreeSet<StateID>>, p2: Seq<BTreeSet<StateID>>, n: int)
    requires
        part_ok(pv(p1), n), all_nonempty(pv(p1)), p2.len() == p1.len(), p2.no_duplicates(),
        forall|x: BTreeSet<StateID>| #![trigger p2.contains(x)] #![trigger p1.contains(x)] p2.contains(x) <==> p1.contains(x),
    ensures part_ok(pv(p2), n), all_nonempty(pv(p2))
{
    let v1 = pv(p1);
    let v2 = pv(p2);
    assert forall|s: int| 0 <= s < n implies #[trigger] has_grp(v2, s) by {
        assert(has_grp(v1, s));
        let g = choose|g: int| #[trigger] in_grp(v1, g, s);
        assert(p1.contains(p1[g]));
        assert(p2.contains(p1[g]));
        let h = choose|h: int| 0 <= h < p2.len() && p2[h] == p1[g];
        assert(in_grp(v2, h, s));
    }
    assert forall|g: int, h: int, s: int| #[trigger] in_grp(v2, g, s) && #[trigger] in_grp(v2, h, s) implies g == h by {
        assert(p2.contains(p2[g]) && p2.contains(p2[h]));
        assert(p1.contains(p2[g]) && p1.contains(p2[h]));
        let g1 = choose|g1: int| 0 <= g1 < p1.len() && p1[g1] == p2[g];
        let h1 = choose|h1: int| 0 <= h1 < p1.len() && p1[h1] == p2[h];
        assert(in_grp(v1, g1, s) && in_grp(v1, h1, s));
        assert(p2[g] == p2[h]);
        if g != h { assert(p2[g] != p2[h]); }
    }
    assert forall|g: int, x: StateID| 0 <= g < v2.len() && #[trigger] v2[g].contains(x) implies x.0 < n by {
        assert(p2.contains(p2[g])); assert(p1.contains(p2[g]));
        let g1 = choose|g1: int| 0 <= g1 < p1.len() && p1[g1] == p2[g];
        assert(v1[g1].contains(x));
    }
    assert forall|g: int| 0 <= g < v2.len() implies set_nonempty(#[trigger] v2[g]) by {
        assert(p2.contains(p2[g])); assert(p1.contains(p2[g]));
        let g1 = choose|g1: int| 0 <= g1 < p1.len() && p1[g1] == p2[g];
        assert(set_nonempty(v1[g1]));
        assert(v2[g] == v1[g1]);
    }
}
pub proof fn lemma_groups_nodup(p1: Seq<BTreeSet<StateID>>, n: int)
    requires part_ok(pv(p1), n), all_nonempty(pv(p1))
    ensures p1.no_duplicates()
{
    let v1 = pv(p1);
    assert forall|i: int, j: int| 0 <= i < p1.len() && 0 <= j < p1.len() && i != j implies p1[i] != p1[j] by {
        if p1[i] == p1[j] {
            assert(set_nonempty(v1[i]));
            let x = choose|x: StateID| #[trigger] v1[i].contains(x);
            assert(StateID(x.0 as int as u32) == x);
            assert(in_grp(v1, i, x.0 as int) && in_grp(v1, j, x.0 as int));
        }
    }
}
/// same set of groups: group membership, signatures, stability and homogeneity carry over
pub proof fn lemma_perm_props(d: CompiledDfa, tm: TMapV, p1: Seq<BTreeSet<StateID>>, p2: Seq<BTreeSet<StateID>>)
    requires
        p2.len() == p1.len(),
        forall|x: BTreeSet<StateID>| #![trigger p2.contains(x)] #![trigger p1.contains(x)] p2.contains(x) <==> p1.contains(x),
        acc_homog(d, pv(p1)), self_stable(tm, pv(p1)),
    ensures acc_homog(d, pv(p2)), self_stable(tm, pv(p2))
{
    reveal(same_sig);
    let v1 = pv(p1);
    let v2 = pv(p2);
    assert forall|g: int, s1: int, s2: int| #![trigger in_grp(v2, g, s1), in_grp(v2, g, s2)]
        in_grp(v2, g, s1) && in_grp(v2, g, s2) && d.end_states@[s1].0 implies d.end_states@[s2] == d.end_states@[s1] by {
        assert(p2.contains(p2[g])); assert(p1.contains(p2[g]));
        let g1 = choose|g1: int| 0 <= g1 < p1.len() && p1[g1] == p2[g];
        assert(in_grp(v1, g1, s1) && in_grp(v1, g1, s2));
    }
    // sig_tm into "some group" is order independent
    assert forall|x: StateID, cc: CharClassID, h2: int| 0 <= h2 < v2.len() && #[trigger] sig_tm(tm, v2, x, cc, h2) implies exists|h1: int| 0 <= h1 < v1.len() && v1[h1] == v2[h2] && #[trigger] sig_tm(tm, v1, x, cc, h1) by {
        assert(p2.contains(p2[h2])); assert(p1.contains(p2[h2]));
        let h1 = choose|h1: int| 0 <= h1 < p1.len() && p1[h1] == p2[h2];
        let t = choose|t: StateID| #[trigger] tm_edge(tm, x, cc, t) && in_grp(v2, h2, t.0 as int);
        assert(in_grp(v1, h1, t.0 as int));
        assert(v1[h1] == v2[h2] && sig_tm(tm, v1, x, cc, h1));
    }
    assert forall|g: int, x: StateID, y: StateID| 0 <= g < v2.len() && #[trigger] v2[g].contains(x) && #[trigger] v2[g].contains(y) implies same_sig(tm, v2, x, y) by {
        assert(p2.contains(p2[g])); assert(p1.contains(p2[g]));
        let g1 = choose|g1: int| 0 <= g1 < p1.len() && p1[g1] == p2[g];
        assert(v1[g1].contains(x) && v1[g1].contains(y));
        assert(same_sig(tm, v1, x, y));
        assert forall|cc: CharClassID, h: int| #![trigger sig_tm(tm, v2, x, cc, h)] #![trigger sig_tm(tm, v2, y, cc, h)] 0 <= h < v2.len() implies (sig_tm(tm, v2, x, cc, h) <==> sig_tm(tm, v2, y, cc, h)) by {
            if sig_tm(tm, v2, x, cc, h) {
                let h1 = choose|h1: int| 0 <= h1 < v1.len() && v1[h1] == v2[h] && #[trigger] sig_tm(tm, v1, x, cc, h1);
                assert(sig_tm(tm, v1, y, cc, h1));
                let t = choose|t: StateID| #[trigger] tm_edge(tm, y, cc, t) && in_grp(v1, h1, t.0 as int);
                assert(in_grp(v2, h, t.0 as int));
            }
            if sig_tm(tm, v2, y, cc, h) {
                let h1 = choose|h1: int| 0 <= h1 < v1.len() && v1[h1] == v2[h] && #[trigger] sig_tm(tm, v1, y, cc, h1);
                assert(sig_tm(tm, v1, x, cc, h1));
                let t = choose|t: StateID| #[trigger] tm_edge(tm, x, cc, t) && in_grp(v1, h1, t.0 as int);
                assert(in_grp(v2, h, t.0 as int));
            }
        }
    }
}
/// what update_transitions must produce, over the transition map
pub open spec fn q_trans_ok(tm: TMapV, p: PartV, q: CompiledDfa) -> bool {
    forall|g: int, cc: CharClassID, h: int| 0 <= g < p.len() && 0 <= h <= u32::MAX ==>
        (#[trigger] q.states@[g].transitions@.contains((cc, StateSetID(h as u32))) <==> exists|x: StateID| #[trigger] p[g].contains(x) && sig_tm(tm, p, x, cc, h))
}

pub open spec fn seen_upto<'a>(rem: Seq<&'a StateID>, k: int, x: StateID) -> bool { exists|j: int| 0 <= j < k && j < rem.len() && *#[trigger] rem[j] == x }
pub open spec fn tm_keys(tm: TMapV, n: int) -> bool {
    &&& forall|s: StateID| #[trigger] tm.contains_key(s) <==> s.0 < n
    &&& forall|s: StateID, cc: CharClassID, t: StateID| #[trigger] tm_edge(tm, s, cc, t) ==> t.0 < n
}
/// the end-state entry of group g after its representative was added
pub open spec fn rep_end_ok(d: CompiledDfa, p: PartV, es: Seq<(bool, TerminalID)>, g: int) -> bool {
    &&& forall|x: StateID| #[trigger] p[g].contains(x) && d.end_states@[x.0 as int].0 ==> es[g] == d.end_states@[x.0 as int]
    &&& (forall|x: StateID| #[trigger] p[g].contains(x) ==> !d.end_states@[x.0 as int].0) ==> es[g] == (false, TerminalID(0))
}
pub proof fn lemma_quotient_from_parts(d: CompiledDfa, tm: TMapV, p: PartV, q: CompiledDfa)
    requires
        d_wf(d), tm_ok(d, tm), part_ok(p, d.states@.len() as int), in_grp(p, 0, 0), p.len() <= u32::MAX,
        q.states@.len() == p.len(), q.end_states@.len() == p.len(), q_trans_ok(tm, p, q),
        forall|g: int| 0 <= g < p.len() ==> rep_end_ok(d, p, q.end_states@, g),
    ensures quotient_ok(d, p, q)
{
    assert forall|g: int, cc: CharClassID, h: int| 0 <= g < p.len() && 0 <= h <= u32::MAX implies
            (#[trigger] q.states@[g].transitions@.contains((cc, StateSetID(h as u32))) <==> exists|s: int| #[trigger] in_grp(p, g, s) && sig(d, p, s, cc, h)) by {
        if exists|x: StateID| #[trigger] p[g].contains(x) && sig_tm(tm, p, x, cc, h) {
            let x = choose|x: StateID| #[trigger] p[g].contains(x) && sig_tm(tm, p, x, cc, h);
            lemma_sig_tm(d, tm, p, x, cc, h);
            assert(StateID(x.0 as int as u32) == x);
            assert(in_grp(p, g, x.0 as int) && sig(d, p, x.0 as int, cc, h));
        }
        if exists|s: int| #[trigger] in_grp(p, g, s) && sig(d, p, s, cc, h) {
            let s = choose|s: int| #[trigger] in_grp(p, g, s) && sig(d, p, s, cc, h);
            lemma_sig_tm(d, tm, p, StateID(s as u32), cc, h);
            assert(p[g].contains(StateID(s as u32)) && sig_tm(tm, p, StateID(s as u32), cc, h));
        }
    }
    assert forall|g: int| 0 <= g < p.len() implies #[trigger] q_end_ok(d, p, q, g) by {
        assert(rep_end_ok(d, p, q.end_states@, g));
        if q.end_states@[g].0 {
            if forall|x: StateID| #[trigger] p[g].contains(x) ==> !d.end_states@[x.0 as int].0 { assert(q.end_states@[g] == (false, TerminalID(0))); }
            let x = choose|x: StateID| #[trigger] p[g].contains(x) && d.end_states@[x.0 as int].0;
            assert(StateID(x.0 as int as u32) == x);
            assert(in_grp(p, g, x.0 as int) && d.end_states@[x.0 as int] == q.end_states@[g]);
        }
        assert forall|s: int| #[trigger] in_grp(p, g, s) && d.end_states@[s].0 implies q.end_states@[g] == d.end_states@[s] by {
            assert(p[g].contains(StateID(s as u32)));
        }
    }
}

// ---------------------------------------------------------------- update_transitions: the per-state maps, merged per group and renumbered
pub type TvEntry = (StateID, BTreeMap<CharClassID, Vec<StateID>>);
pub open spec fn tv_edge(tv: Seq<TvEntry>, i: int, cc: CharClassID, t: StateID) -> bool {
    0 <= i < tv.len() && tv[i].1@.contains_key(cc) && tv[i].1@[cc]@.contains(t)
}
pub open spec fn tv_sorted(tv: Seq<TvEntry>) -> bool { forall|i: int, j: int| 0 <= i < j < tv.len() ==> (#[trigger] tv[i]).0.0 < (#[trigger] tv[j]).0.0 }
pub open spec fn tv_pos(tv: Seq<TvEntry>, s: StateID, i: int) -> bool { 0 <= i < tv.len() && tv[i].0 == s }
pub open spec fn map_edge(m: Map<CharClassID, Vec<StateID>>, cc: CharClassID, t: StateID) -> bool { m.contains_key(cc) && m[cc]@.contains(t) }
/// BTreeSet<StateID> iterates in ascending id order (derived Ord of the id newtype, rule E4)
pub axiom fn axiom_set_iter_ascending<'a>(rem: Seq<&'a StateID>)
    requires vstd::std_specs::btree::increasing_seq(rem)
    ensures forall|i: int, j: int| 0 <= i < j < rem.len() ==> (#[trigger] rem[i]).0 < (#[trigger] rem[j]).0;
/// BTreeMap<StateID, _> iterates in ascending key order (same)
pub axiom fn axiom_map_iter_ascending<'a, V>(rem: Seq<(&'a StateID, &'a V)>)
    requires vstd::std_specs::btree::increasing_seq(rem.map_values(|e: (&'a StateID, &'a V)| *e.0))
    ensures forall|i: int, j: int| 0 <= i < j < rem.len() ==> (#[trigger] rem[i]).0.0 < (#[trigger] rem[j]).0.0;
/// Clone of a BTreeMap<CharClassID, Vec<StateID>> has the same keys with equal target lists (std Clone, rule E4)
pub axiom fn axiom_cloned_ccmap(a: BTreeMap<CharClassID, Vec<StateID>>, b: BTreeMap<CharClassID, Vec<StateID>>)
    ensures vstd::pervasive::cloned(a, b) ==> (forall|cc: CharClassID| #[trigger] b@.contains_key(cc) <==> a@.contains_key(cc)) && (forall|cc: CharClassID| #[trigger] a@.contains_key(cc) ==> b@[cc]@ == a@[cc]@);
pub axiom fn axiom_cloned_targets(a: Vec<StateID>, b: Vec<StateID>)
    ensures vstd::pervasive::cloned(a, b) ==> a@ == b@;
/// entry sp (state) removed, its edges added to entry rp (rep); everything else as before
pub open spec fn merged_one(old: Seq<TvEntry>, new: Seq<TvEntry>, rep: StateID, state: StateID, rp: int, sp: int) -> bool {
    &&& tv_pos(old, rep, rp) && tv_pos(old, state, sp) && rp < sp
    &&& new.len() == old.len() - 1
    &&& forall|i: int| 0 <= i < sp && i != rp ==> #[trigger] new[i] == old[i]
    &&& forall|i: int| sp <= i < new.len() ==> #[trigger] new[i] == old[i + 1]
    &&& new[rp].0 == rep
    &&& forall|cc: CharClassID, t: StateID| #[trigger] map_edge(new[rp].1@, cc, t) <==> (map_edge(old[rp].1@, cc, t) || map_edge(old[sp].1@, cc, t))
}
pub assume_specification<T: PartialEq>[ <[T]>::contains ](s: &[T], x: &T) -> (r: bool)
    ensures r == s@.contains(*x);   // assumes T's PartialEq is structural
/// clone of a target list / of a per-class map (std Clone)
#[verifier::external_body]
pub fn verif_clone_targets(v: &Vec<StateID>) -> (r: Vec<StateID>)
    ensures r@ == v@
{ v.clone() }
#[verifier::external_body]
pub fn verif_clone_ccmap(m: &BTreeMap<CharClassID, Vec<StateID>>) -> (r: BTreeMap<CharClassID, Vec<StateID>>)
    ensures forall|cc: CharClassID| #[trigger] r@.contains_key(cc) <==> m@.contains_key(cc), forall|cc: CharClassID| #[trigger] m@.contains_key(cc) ==> r@[cc]@ == m@[cc]@
{ m.clone() }
pub proof fn lemma_sorted_pos_unique(tv: Seq<TvEntry>, s: StateID, i: int, j: int)
    requires tv_sorted(tv), tv_pos(tv, s, i), tv_pos(tv, s, j)
    ensures i == j
{
    if i < j { assert(tv[i].0.0 < tv[j].0.0); }
    if j < i { assert(tv[j].0.0 < tv[i].0.0); }
}

pub open spec fn rem_edge<'a>(rem: Seq<(&'a CharClassID, &'a Vec<StateID>)>, k: int, cc: CharClassID, t: StateID) -> bool {
    exists|i: int| 0 <= i < k && i < rem.len() && *(#[trigger] rem[i]).0 == cc && rem[i].1@.contains(t)
}

// ---------------------------------------------------------------- merge_transitions: one entry per group survives, holding the edges of all members
pub type AbV = Map<StateID, StateID>;
pub open spec fn grp_min(p: PartV, g: int, r: StateID) -> bool { 0 <= g < p.len() && p[g].contains(r) && forall|z: StateID| #[trigger] p[g].contains(z) ==> r.0 <= z.0 }
/// edges an entry with state r holds: r's own and those of the states absorbed into r
pub type EdgeF = spec_fn(StateID, CharClassID, StateID) -> bool;
pub open spec fn own_or_absorbed(tm: EdgeF, ab: AbV, r: StateID, cc: CharClassID, t: StateID) -> bool {
    tm(r, cc, t) || exists|x: StateID| #[trigger] ab.contains_key(x) && ab[x] == r && tm(x, cc, t)
}
pub open spec fn merged_inv(tm: EdgeF, p: PartV, tv: Seq<TvEntry>, ab: AbV, n: int) -> bool {
    &&& tv_sorted(tv)
    &&& forall|i: int| 0 <= i < tv.len() ==> (#[trigger] tv[i]).0.0 < n && !ab.contains_key(tv[i].0)
    &&& forall|s: StateID| s.0 < n && !(#[trigger] ab.contains_key(s)) ==> tv_has(tv, s)
    &&& forall|i: int, cc: CharClassID, t: StateID| 0 <= i < tv.len() ==> (#[trigger] tv_edge(tv, i, cc, t) <==> own_or_absorbed(tm, ab, tv[i].0, cc, t))
    &&& forall|x: StateID| #[trigger] ab.contains_key(x) ==> x.0 < n && absorbed_ok(p, x, ab[x])
}
pub open spec fn tv_has(tv: Seq<TvEntry>, s: StateID) -> bool { exists|i: int| #[trigger] tv_pos(tv, s, i) }
/// x was absorbed into the least member of its own group
pub open spec fn absorbed_ok(p: PartV, x: StateID, r: StateID) -> bool { exists|g: int| #[trigger] grp_min(p, g, r) && p[g].contains(x) && r != x }

pub proof fn lemma_merge_step(tm: EdgeF, p: PartV, tv0: Seq<TvEntry>, tv1: Seq<TvEntry>, ab: AbV, n: int, r: StateID, x: StateID, rp: int, sp: int, g: int)
    requires
        merged_inv(tm, p, tv0, ab, n), merged_one(tv0, tv1, r, x, rp, sp), tv_sorted(tv1),
        grp_min(p, g, r), p[g].contains(x), r != x, groups_disjoint(p),
    ensures merged_inv(tm, p, tv1, ab.insert(x, r), n)
{
    reveal(groups_disjoint);
    let ab1 = ab.insert(x, r);
    // nothing was absorbed into x: x is not the least member of its group
    assert forall|y: StateID| ab.contains_key(y) implies ab[y] != x by {
        if ab[y] == x {
            assert(absorbed_ok(p, y, x));
            let g2 = choose|g2: int| #[trigger] grp_min(p, g2, x) && p[g2].contains(y) && x != y;
            assert(p[g2].contains(x) && p[g].contains(x));
            assert(g2 == g);
            assert(p[g].contains(r)); assert(x.0 <= r.0); assert(r.0 <= x.0);
        }
    }
    assert forall|i: int| 0 <= i < tv1.len() implies (#[trigger] tv1[i]).0.0 < n && !ab1.contains_key(tv1[i].0) by {
        let i0 = if i < sp { i } else { i + 1 };
        if i == rp { assert(tv1[i].0 == tv0[rp].0); } else { assert(tv1[i] == tv0[i0]); }
        assert(tv1[i].0 == tv0[i0].0);
        if i0 < sp { assert(tv0[i0].0.0 < tv0[sp].0.0); } else { assert(tv0[sp].0.0 < tv0[i0].0.0); }
    }
    assert forall|s: StateID| s.0 < n && !(#[trigger] ab1.contains_key(s)) implies tv_has(tv1, s) by {
        assert(!ab.contains_key(s) && s != x);
        assert(tv_has(tv0, s));
        let i0 = choose|i0: int| #[trigger] tv_pos(tv0, s, i0);
        let i = if i0 < sp { i0 } else { i0 - 1 };
        if i == rp { assert(tv1[i].0 == r); } else { assert(tv1[i] == tv0[i0]); }
        assert(tv_pos(tv1, s, i));
    }
    assert forall|i: int, cc: CharClassID, t: StateID| 0 <= i < tv1.len() implies (#[trigger] tv_edge(tv1, i, cc, t) <==> own_or_absorbed(tm, ab1, tv1[i].0, cc, t)) by {
        let i0 = if i < sp { i } else { i + 1 };
        if i == rp {
            assert(tv_edge(tv1, i, cc, t) <==> map_edge(tv1[rp].1@, cc, t));
            assert(map_edge(tv0[rp].1@, cc, t) <==> tv_edge(tv0, rp, cc, t));
            assert(map_edge(tv0[sp].1@, cc, t) <==> tv_edge(tv0, sp, cc, t));
            assert(tv_edge(tv0, rp, cc, t) <==> own_or_absorbed(tm, ab, r, cc, t));
            assert(tv_edge(tv0, sp, cc, t) <==> own_or_absorbed(tm, ab, x, cc, t));
            assert(own_or_absorbed(tm, ab, x, cc, t) <==> tm(x, cc, t));
            if own_or_absorbed(tm, ab, r, cc, t) && !tm(r, cc, t) { let y = choose|y: StateID| #[trigger] ab.contains_key(y) && ab[y] == r && tm(y, cc, t); assert(ab1.contains_key(y) && ab1[y] == r); }
            if tm(x, cc, t) { assert(ab1.contains_key(x) && ab1[x] == r); }
            if own_or_absorbed(tm, ab1, r, cc, t) && !tm(r, cc, t) {
                let y = choose|y: StateID| #[trigger] ab1.contains_key(y) && ab1[y] == r && tm(y, cc, t);
                if y != x { assert(ab.contains_key(y) && ab[y] == r); }
            }
        } else {
            assert(tv1[i] == tv0[i0]);
            assert(tv_edge(tv1, i, cc, t) <==> tv_edge(tv0, i0, cc, t));
            let s = tv0[i0].0;
            assert(s != r) by { if s == r { lemma_sorted_pos_unique(tv0, r, i0, rp); } }
            if own_or_absorbed(tm, ab, s, cc, t) && !tm(s, cc, t) { let y = choose|y: StateID| #[trigger] ab.contains_key(y) && ab[y] == s && tm(y, cc, t); assert(y != x); assert(ab1.contains_key(y) && ab1[y] == s); }
            if own_or_absorbed(tm, ab1, s, cc, t) && !tm(s, cc, t) { let y = choose|y: StateID| #[trigger] ab1.contains_key(y) && ab1[y] == s && tm(y, cc, t); assert(y != x); assert(ab.contains_key(y) && ab[y] == s); }
        }
    }
    assert forall|y: StateID| #[trigger] ab1.contains_key(y) implies y.0 < n && absorbed_ok(p, y, ab1[y]) by {
        if y == x { assert(tv0[sp].0 == x); assert(grp_min(p, g, r) && p[g].contains(x) && r != x); }
    }
}

/// the edges the entries of tv hold, by state
pub open spec fn tv_edges(tv: Seq<TvEntry>) -> EdgeF { |s: StateID, cc: CharClassID, t: StateID| exists|i: int| #[trigger] tv_pos(tv, s, i) && tv_edge(tv, i, cc, t) }
pub open spec fn grp_done(p: PartV, ab: AbV, g: int) -> bool {
    exists|r: StateID| #[trigger] grp_min(p, g, r) && !ab.contains_key(r) && forall|x: StateID| #[trigger] p[g].contains(x) && x != r ==> ab.contains_key(x) && ab[x] == r
}
pub open spec fn all_done(p: PartV, ab: AbV) -> bool { forall|g: int| 0 <= g < p.len() ==> #[trigger] grp_done(p, ab, g) }
pub open spec fn grp_untouched(p: PartV, ab: AbV, g: int) -> bool { forall|x: StateID| #[trigger] p[g].contains(x) ==> !ab.contains_key(x) }
/// every entry of tv0 holds its own edges: the starting point of the merge
pub proof fn lemma_merged_init(p: PartV, tv: Seq<TvEntry>, n: int)
    requires tv_sorted(tv), forall|i: int| 0 <= i < tv.len() ==> (#[trigger] tv[i]).0.0 < n, forall|s: StateID| s.0 < n ==> #[trigger] tv_has(tv, s)
    ensures merged_inv(tv_edges(tv), p, tv, Map::<StateID, StateID>::empty(), n)
{
    let e0 = tv_edges(tv);
    let ab = Map::<StateID, StateID>::empty();
    assert forall|i: int, cc: CharClassID, t: StateID| 0 <= i < tv.len() implies (#[trigger] tv_edge(tv, i, cc, t) <==> own_or_absorbed(e0, ab, tv[i].0, cc, t)) by {
        if tv_edge(tv, i, cc, t) { assert(tv_pos(tv, tv[i].0, i)); }
        if e0(tv[i].0, cc, t) { let j = choose|j: int| #[trigger] tv_pos(tv, tv[i].0, j) && tv_edge(tv, j, cc, t); lemma_sorted_pos_unique(tv, tv[i].0, i, j); }
    }
}
/// a group with a single member is merged as it stands
pub proof fn lemma_single_done(p: PartV, ab: AbV, g: int)
    requires 0 <= g < p.len(), p[g].len() == 1, p[g].finite(), grp_untouched(p, ab, g)
    ensures grp_done(p, ab, g)
{
    assert(set_nonempty(p[g])) by { if !set_nonempty(p[g]) { assert(p[g] =~= Set::<StateID>::empty()); } }
    let r = choose|r: StateID| #[trigger] p[g].contains(r);
    assert forall|z: StateID| #[trigger] p[g].contains(z) implies z == r by {
        if z != r {
            let s2 = Set::<StateID>::empty().insert(r).insert(z);
            assert(s2.len() == 2);
            assert(s2.subset_of(p[g]));
            vstd::set_lib::lemma_len_subset(s2, p[g]);
        }
    }
    assert(grp_min(p, g, r));
}


// ---------------------------------------------------------------- renumber_states_in_transitions: every state id replaced by the index of its group
pub open spec fn vec_renum(p: PartV, a: Seq<StateID>, b: Seq<StateID>) -> bool {
    a.len() == b.len() && forall|q: int| 0 <= q < a.len() ==> (#[trigger] b[q]).0 < p.len() && p[b[q].0 as int].contains(a[q])
}
pub open spec fn entry_renum(p: PartV, a: TvEntry, b: TvEntry) -> bool {
    &&& b.0.0 < p.len() && p[b.0.0 as int].contains(a.0)
    &&& forall|cc: CharClassID| #[trigger] b.1@.contains_key(cc) <==> a.1@.contains_key(cc)
    &&& forall|cc: CharClassID| #[trigger] a.1@.contains_key(cc) ==> vec_renum(p, a.1@[cc]@, b.1@[cc]@)
}
pub open spec fn tv_bounded(tv: Seq<TvEntry>, n: int) -> bool {
    &&& forall|i: int| 0 <= i < tv.len() ==> (#[trigger] tv[i]).0.0 < n
    &&& forall|i: int, cc: CharClassID, t: StateID| #[trigger] tv_edge(tv, i, cc, t) ==> t.0 < n
}
/// the keys of a per-class map, each once (std BTreeMap::keys; used to visit the values one by one, rule E15)
#[verifier::external_body]
pub fn verif_keys(m: &BTreeMap<CharClassID, Vec<StateID>>) -> (r: Vec<CharClassID>)
    ensures r@.no_duplicates(), forall|cc: CharClassID| #[trigger] r@.contains(cc) <==> m@.contains_key(cc)
{ m.keys().cloned().collect() }

// ---------------------------------------------------------------- update_transitions: the merged, renumbered entries are written into the new automaton
pub type CcRem<'a> = Seq<(&'a CharClassID, &'a Vec<StateID>)>;
pub open spec fn ent_upto(tv: Seq<TvEntry>, k: int, g: int, cc: CharClassID, h: int) -> bool {
    exists|i: int| 0 <= i < k && i < tv.len() && (#[trigger] tv[i]).0.0 == g && tv_edge(tv, i, cc, StateID(h as u32))
}
pub open spec fn seen_t(ts: Seq<StateID>, m: int, t: StateID) -> bool { exists|q: int| 0 <= q < m && q < ts.len() && #[trigger] ts[q] == t }
/// edges written so far: all of the first k entries, of entry k the first j classes and of class j the first m targets
pub open spec fn upd_inv<'a>(tv: Seq<TvEntry>, k: int, rem: CcRem<'a>, j: int, m: int, g: int, cc: CharClassID, h: int) -> bool {
    ent_upto(tv, k, g, cc, h) || (0 <= k < tv.len() && g == tv[k].0.0 && (rem_edge(rem, j, cc, StateID(h as u32))
        || (0 <= j < rem.len() && cc == *rem[j].0 && seen_t(rem[j].1@, m, StateID(h as u32)))))
}
#[verifier::opaque]
pub open spec fn upd_ok<'a>(sts: Seq<StateData>, np: int, tv: Seq<TvEntry>, k: int, rem: CcRem<'a>, j: int, m: int) -> bool {
    sts.len() == np && forall|g: int, cc: CharClassID, h: int| 0 <= g < np && 0 <= h <= u32::MAX ==>
        (#[trigger] sts[g].transitions@.contains((cc, StateSetID(h as u32))) <==> upd_inv(tv, k, rem, j, m, g, cc, h))
}
pub proof fn lemma_upd_init<'a>(sts: Seq<StateData>, np: int, tv: Seq<TvEntry>, rem: CcRem<'a>)
    requires sts.len() == np, forall|g: int| 0 <= g < np ==> (#[trigger] sts[g]).transitions@.len() == 0
    ensures upd_ok(sts, np, tv, 0, rem, 0, 0)
{
    reveal(upd_ok);
    assert forall|g: int, cc: CharClassID, h: int| 0 <= g < np && 0 <= h <= u32::MAX implies
        (#[trigger] sts[g].transitions@.contains((cc, StateSetID(h as u32))) <==> upd_inv(tv, 0, rem, 0, 0, g, cc, h)) by { assert(sts[g].transitions@.len() == 0); }
}
pub proof fn lemma_upd_push<'a>(sts0: Seq<StateData>, sts1: Seq<StateData>, np: int, tv: Seq<TvEntry>, k: int, rem: CcRem<'a>, j: int, m: int)
    requires
        upd_ok(sts0, np, tv, k, rem, j, m), 0 <= k < tv.len(), 0 <= j < rem.len(), 0 <= m < rem[j].1@.len(), tv[k].0.0 < np, sts1.len() == np,
        forall|g: int| 0 <= g < np && g != tv[k].0.0 ==> #[trigger] sts1[g] == sts0[g],
        forall|y: (CharClassID, StateSetID)| #[trigger] sts1[tv[k].0.0 as int].transitions@.contains(y)
            <==> (y == (*rem[j].0, StateSetID(rem[j].1@[m].0)) || sts0[tv[k].0.0 as int].transitions@.contains(y)),
    ensures upd_ok(sts1, np, tv, k, rem, j, m + 1)
{
    reveal(upd_ok);
    let sid = tv[k].0.0 as int;
    let ts = rem[j].1@;
    assert forall|g: int, cc: CharClassID, h: int| 0 <= g < np && 0 <= h <= u32::MAX implies
        (#[trigger] sts1[g].transitions@.contains((cc, StateSetID(h as u32))) <==> upd_inv(tv, k, rem, j, m + 1, g, cc, h)) by {
        let t = StateID(h as u32);
        assert(sts0[g].transitions@.contains((cc, StateSetID(h as u32))) <==> upd_inv(tv, k, rem, j, m, g, cc, h));
        if seen_t(ts, m + 1, t) { let q = choose|q: int| 0 <= q < m + 1 && q < ts.len() && #[trigger] ts[q] == t; if q < m { assert(seen_t(ts, m, t)); } else { assert(ts[m] == t); } }
        if seen_t(ts, m, t) { let q = choose|q: int| 0 <= q < m && q < ts.len() && #[trigger] ts[q] == t; assert(0 <= q < m + 1); }
        if ts[m] == t { assert(seen_t(ts, m + 1, t)); }
        if g == sid {
            assert((cc, StateSetID(h as u32)) == (*rem[j].0, StateSetID(ts[m].0)) <==> (cc == *rem[j].0 && ts[m] == t));
        }
    }
}
pub proof fn lemma_upd_next_class<'a>(sts: Seq<StateData>, np: int, tv: Seq<TvEntry>, k: int, rem: CcRem<'a>, j: int)
    requires upd_ok(sts, np, tv, k, rem, j, rem[j].1@.len() as int), 0 <= j < rem.len()
    ensures upd_ok(sts, np, tv, k, rem, j + 1, 0)
{
    reveal(upd_ok);
    let ts = rem[j].1@;
    assert forall|g: int, cc: CharClassID, h: int| 0 <= g < np && 0 <= h <= u32::MAX implies
        (#[trigger] sts[g].transitions@.contains((cc, StateSetID(h as u32))) <==> upd_inv(tv, k, rem, j + 1, 0, g, cc, h)) by {
        let t = StateID(h as u32);
        assert(sts[g].transitions@.contains((cc, StateSetID(h as u32))) <==> upd_inv(tv, k, rem, j, ts.len() as int, g, cc, h));
        if rem_edge(rem, j + 1, cc, t) {
            let i = choose|i: int| 0 <= i < j + 1 && i < rem.len() && *(#[trigger] rem[i]).0 == cc && rem[i].1@.contains(t);
            if i < j { assert(rem_edge(rem, j, cc, t)); } else { let q = choose|q: int| 0 <= q < ts.len() && ts[q] == t; assert(seen_t(ts, ts.len() as int, t)); }
        }
        if rem_edge(rem, j, cc, t) { let i = choose|i: int| 0 <= i < j && i < rem.len() && *(#[trigger] rem[i]).0 == cc && rem[i].1@.contains(t); assert(0 <= i < j + 1); }
        if cc == *rem[j].0 && seen_t(ts, ts.len() as int, t) {
            let q = choose|q: int| 0 <= q < ts.len() && q < ts.len() && #[trigger] ts[q] == t; assert(ts.contains(t)); assert(rem_edge(rem, j + 1, cc, t));
        }
    }
}
pub proof fn lemma_upd_next_entry<'a, 'b>(sts: Seq<StateData>, np: int, tv: Seq<TvEntry>, k: int, rem: CcRem<'a>, rem2: CcRem<'b>)
    requires upd_ok(sts, np, tv, k, rem, rem.len() as int, 0), 0 <= k < tv.len(), btree_rem_ok(tv[k].1@, rem)
    ensures upd_ok(sts, np, tv, k + 1, rem2, 0, 0)
{
    reveal(upd_ok);
    assert forall|g: int, cc: CharClassID, h: int| 0 <= g < np && 0 <= h <= u32::MAX implies
        (#[trigger] sts[g].transitions@.contains((cc, StateSetID(h as u32))) <==> upd_inv(tv, k + 1, rem2, 0, 0, g, cc, h)) by {
        let t = StateID(h as u32);
        assert(sts[g].transitions@.contains((cc, StateSetID(h as u32))) <==> upd_inv(tv, k, rem, rem.len() as int, 0, g, cc, h));
        if ent_upto(tv, k + 1, g, cc, h) {
            let i = choose|i: int| 0 <= i < k + 1 && i < tv.len() && (#[trigger] tv[i]).0.0 == g && tv_edge(tv, i, cc, t);
            if i < k { assert(ent_upto(tv, k, g, cc, h)); } else {
                let x = choose|x: int| 0 <= x < rem.len() && *(#[trigger] rem[x]).0 == cc;
                assert(tv[k].1@[cc] == *rem[x].1);
                assert(rem_edge(rem, rem.len() as int, cc, t));
            }
        }
        if ent_upto(tv, k, g, cc, h) { let i = choose|i: int| 0 <= i < k && i < tv.len() && (#[trigger] tv[i]).0.0 == g && tv_edge(tv, i, cc, t); assert(0 <= i < k + 1); }
        if g == tv[k].0.0 && rem_edge(rem, rem.len() as int, cc, t) {
            let i = choose|i: int| 0 <= i < rem.len() && i < rem.len() && *(#[trigger] rem[i]).0 == cc && rem[i].1@.contains(t);
            assert(tv[k].1@.contains_key(cc) && tv[k].1@[cc] == *rem[i].1);
            assert(tv_edge(tv, k, cc, t));
            assert(tv[k].0.0 == g);
        }
    }
}
/// the written automaton has exactly the quotient's edges
pub proof fn lemma_update_final<'a>(tm: TMapV, e0: EdgeF, p: PartV, tv1: Seq<TvEntry>, tv2: Seq<TvEntry>, ab: AbV, n: int, q: CompiledDfa, rem: CcRem<'a>)
    requires
        part_ok(p, n), groups_disjoint(p), tm_keys(tm, n), p.len() <= u32::MAX,
        forall|s: StateID, cc: CharClassID, t: StateID| #[trigger] e0(s, cc, t) <==> tm_edge(tm, s, cc, t),
        merged_inv(e0, p, tv1, ab, n), all_done(p, ab),
        tv2.len() == tv1.len(), forall|i: int| 0 <= i < tv1.len() ==> entry_renum(p, #[trigger] tv1[i], tv2[i]),
        upd_ok(q.states@, p.len() as int, tv2, tv2.len() as int, rem, 0, 0),
    ensures q_trans_ok(tm, p, q)
{
    reveal(upd_ok);
    reveal(groups_disjoint);
    assert forall|g: int, cc: CharClassID, h: int| 0 <= g < p.len() && 0 <= h <= u32::MAX implies
        (#[trigger] q.states@[g].transitions@.contains((cc, StateSetID(h as u32))) <==> exists|x: StateID| #[trigger] p[g].contains(x) && sig_tm(tm, p, x, cc, h)) by {
        let hs = StateID(h as u32);
        assert(q.states@[g].transitions@.contains((cc, StateSetID(h as u32))) <==> upd_inv(tv2, tv2.len() as int, rem, 0, 0, g, cc, h));
        assert(upd_inv(tv2, tv2.len() as int, rem, 0, 0, g, cc, h) <==> ent_upto(tv2, tv2.len() as int, g, cc, h));
        if ent_upto(tv2, tv2.len() as int, g, cc, h) {
            let i = choose|i: int| 0 <= i < tv2.len() && i < tv2.len() && (#[trigger] tv2[i]).0.0 == g && tv_edge(tv2, i, cc, hs);
            assert(entry_renum(p, tv1[i], tv2[i]));
            let a = tv1[i].1@[cc]@; let b = tv2[i].1@[cc]@;
            assert(tv1[i].1@.contains_key(cc));
            assert(vec_renum(p, a, b));
            let qq = choose|qq: int| 0 <= qq < b.len() && b[qq] == hs;
            let t = a[qq];
            assert(p[b[qq].0 as int].contains(t));
            assert(a.contains(t));
            assert(tv_edge(tv1, i, cc, t));
            let r = tv1[i].0;
            assert(p[g].contains(r));
            assert(own_or_absorbed(e0, ab, r, cc, t));
            assert(StateID(t.0 as int as u32) == t);
            assert(in_grp(p, h, t.0 as int));
            if e0(r, cc, t) {
                assert(tm_edge(tm, r, cc, t)); assert(sig_tm(tm, p, r, cc, h));
            } else {
                let x = choose|x: StateID| #[trigger] ab.contains_key(x) && ab[x] == r && e0(x, cc, t);
                assert(absorbed_ok(p, x, r));
                let g2 = choose|g2: int| #[trigger] grp_min(p, g2, r) && p[g2].contains(x) && r != x;
                assert(p[g2].contains(r) && p[g].contains(r));
                assert(tm_edge(tm, x, cc, t)); assert(sig_tm(tm, p, x, cc, h));
                assert(p[g].contains(x));
            }
        }
        if exists|x: StateID| #[trigger] p[g].contains(x) && sig_tm(tm, p, x, cc, h) {
            let x = choose|x: StateID| #[trigger] p[g].contains(x) && sig_tm(tm, p, x, cc, h);
            let t = choose|t: StateID| #[trigger] tm_edge(tm, x, cc, t) && in_grp(p, h, t.0 as int);
            assert(StateID(t.0 as int as u32) == t);
            assert(p[h].contains(t));
            assert(grp_done(p, ab, g));
            let r = choose|r: StateID| #[trigger] grp_min(p, g, r) && !ab.contains_key(r) && forall|y: StateID| #[trigger] p[g].contains(y) && y != r ==> ab.contains_key(y) && ab[y] == r;
            assert(r.0 < n);
            assert(tv_has(tv1, r));
            let i = choose|i: int| #[trigger] tv_pos(tv1, r, i);
            assert(e0(x, cc, t));
            assert(own_or_absorbed(e0, ab, r, cc, t)) by { if x != r { assert(ab.contains_key(x) && ab[x] == r); } }
            assert(tv_edge(tv1, i, cc, t));
            assert(entry_renum(p, tv1[i], tv2[i]));
            let a = tv1[i].1@[cc]@; let b = tv2[i].1@[cc]@;
            assert(vec_renum(p, a, b));
            let qq = choose|qq: int| 0 <= qq < a.len() && a[qq] == t;
            assert(p[b[qq].0 as int].contains(t));
            assert(b[qq].0 as int == h);
            assert(b[qq] == hs);
            assert(b.contains(hs));
            assert(p[tv2[i].0.0 as int].contains(r) && p[g].contains(r));
            assert(tv2[i].0.0 == g);
            assert(tv_edge(tv2, i, cc, hs));
            assert(ent_upto(tv2, tv2.len() as int, g, cc, h));
        }
    }
}
pub open spec fn ccmap_same(a: Map<CharClassID, Vec<StateID>>, b: Map<CharClassID, Vec<StateID>>) -> bool {
    (forall|cc: CharClassID| #[trigger] a.contains_key(cc) <==> b.contains_key(cc)) && (forall|cc: CharClassID| #[trigger] b.contains_key(cc) ==> a[cc]@ == b[cc]@)
}
pub proof fn lemma_part_n_unique(p: PartV, n: int, n1: int)
    requires part_ok(p, n), part_ok(p, n1), 0 <= n, 0 <= n1
    ensures n == n1
{
    if n < n1 { assert(has_grp(p, n)); let g = choose|g: int| #[trigger] in_grp(p, g, n); assert(p[g].contains(StateID(n as u32))); }
    if n1 < n { assert(has_grp(p, n1)); let g = choose|g: int| #[trigger] in_grp(p, g, n1); assert(p[g].contains(StateID(n1 as u32))); }
}
/// the vector copy of the transition map: ascending keys, one entry per key, equal per-class target lists
pub open spec fn tv_of_map(tm: TMapV, tv: Seq<TvEntry>) -> bool {
    &&& tv_sorted(tv)
    &&& forall|i: int| 0 <= i < tv.len() ==> tm.contains_key((#[trigger] tv[i]).0) && ccmap_same(tv[i].1@, tm[tv[i].0]@)
    &&& forall|s: StateID| #[trigger] tm.contains_key(s) ==> tv_has(tv, s)
}

