# U-mini: Minimizer (C03): minimize returns the quotient of the automaton by a stable, acceptance-homogeneous partition;
# theorem_quotient_language: such a quotient accepts exactly what the automaton accepts.
import os, importlib.util
from extract import *

F_MIN = 'scnr/src/internal/minimizer.rs'
F_DFA = 'scnr/src/internal/compiled_dfa.rs'
F_IDS = 'scnr/src/internal/ids.rs'
ID_SPECS = {'new': 'ensures r.0 == index', 'as_usize': 'ensures r == self.0', 'id': 'ensures r == self.0'}
P = ['C03']
HERE = os.path.dirname(os.path.abspath(__file__))

UNIT = dict(
    name='u_mini',
    externs=['rustc_hash'],
    header='''#![feature(allocator_api)]
#![feature(sized_hierarchy)]
#![allow(unused_imports, unused_variables, unused_mut, unused_assignments, dead_code, unused_parens, unused_braces)]
use vstd::prelude::*;
use vstd::std_specs::iter::IteratorSpec;
use std::alloc::Allocator;
use rustc_hash::{FxHashMap, FxHashSet};
use std::collections::{BTreeMap, BTreeSet};
''',
    items=[
        IdMacro(F_IDS, 'StateID', members=('new', 'as_usize', 'id'), index_for=('Vec', 'slice'), specs=ID_SPECS, with_from=True),
        IdMacro(F_IDS, 'StateSetID', members=('new', 'as_usize', 'id'), index_for=('Vec',), specs=ID_SPECS, with_from=True),
        IdMacro(F_IDS, 'StateGroupID', members=('new', 'as_usize', 'id'), index_for=(), specs=ID_SPECS, with_from=True),
        IdMacro(F_IDS, 'CharClassID', members=('new', 'as_usize', 'id'), index_for=(), specs=ID_SPECS),
        IdMacro(F_IDS, 'TerminalID', members=('new', 'as_usize', 'id'), index_for=(), specs=ID_SPECS, with_from=True),
        Raw('''
#[verifier::external_type_specification]
#[verifier::external_body]
pub struct ExFxBuildHasher(rustc_hash::FxBuildHasher);
#[verifier::external_body] pub struct CompiledLookahead { _private: () }
''', label='external types; opaque CompiledLookahead'),
        Struct(F_DFA, 'StateData', derive=[]),
        Struct(F_DFA, 'CompiledDfa', derive=[]),
        RawFile(os.path.join(HERE, '..', 'common', 'clsf.rs'), 'clsf.rs'),
        RawFile('mini_spec.rs'),
    ],
)
