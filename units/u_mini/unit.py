# U-mini: Minimizer (C03): minimize returns the quotient of the automaton by a stable, acceptance-homogeneous partition;
# theorem_quotient_language: such a quotient accepts exactly what the automaton accepts.
import os, importlib.util
from extract import *

F_MIN = 'scnr/src/internal/minimizer.rs'
F_DFA = 'scnr/src/internal/compiled_dfa.rs'
F_IDS = 'scnr/src/internal/ids.rs'
ID_SPECS = {'new': 'ensures r.0 == index', 'as_usize': 'ensures r == self.0', 'id': 'ensures r == self.0'}
P = ['C03']
HERE = os.path.dirname(os.path.abspath(__file__))

def _load(name):
    p = os.path.join(os.path.dirname(os.path.abspath(__file__)), '..', name, 'unit.py')
    spec = importlib.util.spec_from_file_location('unit_' + name + '_for_mini', p)
    m = importlib.util.module_from_spec(spec)
    spec.loader.exec_module(m)
    return m

umin = _load('u_min')
TRACE = [Replace('E5', 'Self::trace_partition($_);', '', occ='all', why='trace-only helper (log::trace! of the partition): no effect on results'),
         Replace('E5', 'Self::trace_transitions_to_groups($_);', '', occ='all', why='trace-only helper')]

initial_partition = Fn(F_MIN, 'Minimizer', 'calculate_initial_partition', ret='r', props=P, attrs='#[verifier::loop_isolation(false)] #[verifier::allow_complex_invariants]',
    spec="""
requires d_wf(*dfa)
ensures
    // group 0: the non-accepting states; one further group per accepted token type, holding exactly the states accepting it
    r@.len() >= 1, r@.len() <= dfa.states@.len() + 1,
    part_ok(pv(r@), dfa.states@.len() as int), acc_homog(*dfa, pv(r@)),
    forall|s: int| 0 <= s < dfa.states@.len() ==> (#[trigger] in_grp(pv(r@), 0, s) <==> !dfa.end_states@[s].0),
    forall|g: int| 1 <= g < r@.len() ==> #[trigger] grp_nonempty(pv(r@), g),
""",
    edits=[
        Ins('body_start', None, """
broadcast use axiom_stateid_cmp;
let ghost n = dfa.states@.len() as int;
let ghost es = dfa.end_states@;
"""),
        Replace('E11', 'dfa.end_states.iter().filter_map(|(accept, id)| $body).collect::<Vec<_>>()', """{
    let mut __out: Vec<TerminalID> = Vec::new();
    let mut __it0 = dfa.end_states.iter();
    let ghost rem = __it0.remaining();
    proof {
        assert(rem.len() == es.len());
        assert(forall|i: int| 0 <= i < rem.len() ==> *#[trigger] rem[i] == es[i]);
    }
    loop
        invariant
            __it0.obeys_prophetic_iter_laws(), __it0.decrease() is Some,
            rem.len() == es.len(), forall|i: int| 0 <= i < rem.len() ==> *#[trigger] rem[i] == es[i],
            __it0.remaining().len() <= rem.len(),
            forall|q: int| 0 <= q < __it0.remaining().len() ==> #[trigger] __it0.remaining()[q] == rem[rem.len() - __it0.remaining().len() + q],
            __out@.len() <= rem.len() - __it0.remaining().len(),
            forall|t: TerminalID| #[trigger] __out@.contains(t) <==> exists|j: int| 0 <= j < rem.len() - __it0.remaining().len() && #[trigger] es[j] == (true, t),
        ensures __it0.remaining().len() == 0,
        decreases __it0.decrease()->0
    {
        let ghost pos = rem.len() - __it0.remaining().len();
        let ghost before = __out@;
        let Some(__x) = __it0.next() else { break };
        proof { assert(*__x == es[pos]); }
        let (accept, id) = __x;
        let __y: Option<TerminalID> = $body;
        if let Some(__t) = __y { __out.push(__t); }
        proof {
            assert forall|t: TerminalID| #[trigger] __out@.contains(t) <==> exists|j: int| 0 <= j < pos + 1 && #[trigger] es[j] == (true, t) by {
                if __out@ != before { lemma_push_contains_pair(before, es[pos].1, t); }
                assert(before.contains(t) <==> exists|j: int| 0 <= j < pos && #[trigger] es[j] == (true, t));
                if exists|j: int| 0 <= j < pos + 1 && #[trigger] es[j] == (true, t) {
                    let j = choose|j: int| 0 <= j < pos + 1 && #[trigger] es[j] == (true, t);
                    if j == pos { assert(es[pos].0 && es[pos].1 == t); }
                }
                if es[pos].0 && es[pos].1 == t { assert(es[pos] == (true, t)); }
            }
        }
    }
    __out
}""", why='iter().filter_map(|p| f(p)).collect::<Vec<_>>() is the loop pushing the Some results in order (std definitions); the closure parameter pattern becomes a let pattern, the closure body is kept verbatim'),
        Ins('after_stmt', 'let mut terminal_map = $_;', """
let ghost tm0 = terminal_map@;
"""),
        Ins('after_stmt', 'terminal_map.sort();', """
let ghost tm1 = terminal_map@;
proof {
    assert(has_ord_key::<TerminalID>()) by { axiom_key_terminalid(TerminalID(0)); }
}
"""),
        Ins('after_stmt', 'terminal_map.dedup();', """
let ghost tmap = terminal_map@;
proof {
    assert(key_injective::<TerminalID>()) by {
        assert forall|x: TerminalID, y: TerminalID| #![trigger ord_key(x), ord_key(y)] ord_key(x) == ord_key(y) implies x == y by { axiom_key_terminalid(x); axiom_key_terminalid(y); }
    }
    lemma_dedup_sorted(tm1);
    lemma_dedup_len(tm1);
    assert(tmap == dedup_adj(tm1));
    assert(tmap.no_duplicates()) by {
        assert forall|i: int, j: int| 0 <= i < tmap.len() && 0 <= j < tmap.len() && i != j implies tmap[i] != tmap[j] by {
            if i < j { assert(ord_key(tmap[i]) < ord_key(tmap[j])); } else { assert(ord_key(tmap[j]) < ord_key(tmap[i])); }
        }
    }
    assert forall|t: TerminalID| #[trigger] tmap.contains(t) <==> exists|j: int| 0 <= j < n && #[trigger] es[j] == (true, t) by {
        assert(tmap.contains(t) <==> tm1.contains(t));
        assert(tm1.contains(t) <==> tm0.contains(t));
    }
    assert(tmap.len() <= n);
}
"""),
        Replace('E6', 'let mut initial_partition = vec![StateGroup::new(); number_of_end_states + 1];', """
let __e = StateGroup::new();
let ghost e0 = __e;
let mut initial_partition = vec![__e; number_of_end_states + 1];
proof {
    assert(initial_partition@.len() == tmap.len() + 1);
    assert forall|g: int| 0 <= g < initial_partition@.len() implies (#[trigger] initial_partition@[g])@ =~= Set::<StateID>::empty() by {
        axiom_cloned_group(e0, initial_partition@[g]);
    }
}
""", why='the repeated element of vec![e; n] is let-bound so that ghost code can name it (E6)'),
        ForLoop('for state in 0..dfa.states.len() {', it='__r1', label='initial_partition.assign', spec="""
invariant
    __r1.obeys_prophetic_iter_laws(), __r1.decrease() is Some,
    0 <= k1 <= n, __r1.remaining().len() == n - k1,
    forall|q: int| 0 <= q < __r1.remaining().len() ==> #[trigger] __r1.remaining()[q] == k1 + q,
    terminal_map@ == tmap, initial_partition@.len() == tmap.len() + 1,
    ip_ok(es, tmap, pv(initial_partition@), k1 as int),
ensures k1 == n,
decreases __r1.decrease()->0
""", pre='let ghost mut k1: nat = 0; proof { assert(__r1.remaining() =~= Seq::new(n as nat, |i: int| i as usize)); }'),
        Ins('after', 'for state in 0..dfa.states.len() {', """
proof { assert(state == k1); }
let ghost pv_in = pv(initial_partition@);
"""),
        Ins('after_stmt', 'let state: StateID = $_;', """
proof { assert(state.0 == k1); }
"""),
        Replace('E3+E6', 'terminal_map.iter().position(|id| $body).unwrap()', """{
    let __cl0 = |id: &TerminalID| -> (b: bool) ensures b == (*id == terminal_id) { $body };
    let ghost gg = |t: TerminalID| t == terminal_id;
    let mut __it = terminal_map.iter();
    let ghost rem = __it.remaining();
    proof {
        assert(models_pred(__cl0, gg));
        assert(rem.len() == tmap.len());
        assert(forall|i: int| 0 <= i < rem.len() ==> *#[trigger] rem[i] == tmap[i]);
    }
    let __t0 = __it.position(__cl0);
    proof {
        assert(models_pred(__cl0, gg));
        assert(es[k1 as int] == (true, terminal_id));
        assert(tmap.contains(terminal_id));
        let w = choose|w: int| 0 <= w < tmap.len() && tmap[w] == terminal_id;
        match __t0 {
            Some(kk) => { assert(gg(*rem[kk as int])); }
            None => { assert(!gg(*rem[w])); }
        }
    }
    __t0.unwrap()
}""", why='closure typed and hoisted (E3); iter().position(..).unwrap() chain split (E6)'),
        Ins('after_stmt', 'initial_partition[index + 1].insert(state);', """
proof {
    let g = index as int + 1;
    let p1 = pv(initial_partition@);
    assert(tmap[index as int] == terminal_id);
    assert(p1[g] == pv_in[g].insert(StateID(k1 as u32)));
    assert forall|h: int| 0 <= h < pv_in.len() && h != g implies p1[h] == pv_in[h] by { }
    assert(es[k1 as int] == (true, tmap[g - 1]));
}
"""),
        Ins('after_stmt', 'initial_partition[0].insert(state);', """
proof {
    let p1 = pv(initial_partition@);
    assert(p1[0] == pv_in[0].insert(StateID(k1 as u32)));
    assert forall|h: int| 0 <= h < pv_in.len() && h != 0 implies p1[h] == pv_in[h] by { }
}
"""),
        Ins('block_end', 'for state in 0..dfa.states.len() {', """
proof {
    lemma_ip_step(es, tmap, pv_in, pv(initial_partition@), k1 as int);
    k1 = k1 + 1;
}
"""),
        Tail("""
proof {
    lemma_ip_final(*dfa, tmap, pv(__res@));
}
"""),
    ])

build_sig = Fn(F_MIN, 'Minimizer', 'build_transitions_to_partition_group', ret='r', props=P, attrs='#[verifier::loop_isolation(false)] #[verifier::allow_complex_invariants]',
    spec="""
requires
    partition@.len() <= u32::MAX, exists|n: int| part_ok(pv(partition@), n) && forall|s: StateID, cc: CharClassID, t: StateID| #[trigger] tm_edge(transitions@, s, cc, t) ==> t.0 < n,
ensures
    // (cc, g) is listed iff the state can move under cc into group g
    sigvec_ok(transitions@, pv(partition@), state_id, r.0@),
""",
    edits=TRACE + [
        Ins('body_start', None, """
reveal(sigvec_ok);
broadcast use axiom_stateid_cmp, axiom_ccid_cmp;
let ghost tm = transitions@;
let ghost p = pv(partition@);
let ghost n = choose|n: int| part_ok(p, n) && forall|s: StateID, cc: CharClassID, t: StateID| #[trigger] tm_edge(tm, s, cc, t) ==> t.0 < n;
"""),
        Ins('after', 'if let Some(transitions_of_state) = transitions.get(&state_id) {', """
let ghost tos = transitions_of_state@;
proof { assert(tm.contains_key(state_id) && tm[state_id] == *transitions_of_state); }
"""),
        ForLoop('for transition in transitions_of_state {', it='__it1', via='%s.iter()', label='build_sig.classes',
                pre='let ghost rem = __it1.remaining(); proof { assert(btree_rem_ok(tos, rem)); }', body_pre="""
proof {
    if __it1.remaining().len() == 0 {
        assert forall|cc: CharClassID, g: StateGroupID| #[trigger] transitions_to_partition_groups.0@.contains((cc, g)) <==> (g.0 < p.len() && sig_tm(tm, p, state_id, cc, g.0 as int)) by {
            lemma_sig_upto_all(tm, p, state_id, rem, cc, g.0 as int);
        }
    }
    assert(true);
}
""", spec="""
invariant
    __it1.obeys_prophetic_iter_laws(), __it1.decrease() is Some,
    tos == transitions_of_state@, btree_rem_ok(tos, rem),
    __it1.remaining().len() <= rem.len(),
    forall|q: int| 0 <= q < __it1.remaining().len() ==> #[trigger] __it1.remaining()[q] == rem[rem.len() - __it1.remaining().len() + q],
    forall|i: int| 0 <= i < transitions_to_partition_groups.0@.len() ==> (#[trigger] transitions_to_partition_groups.0@[i]).1.0 < p.len(),
    forall|cc: CharClassID, g: StateGroupID| #[trigger] transitions_to_partition_groups.0@.contains((cc, g))
        <==> (g.0 < p.len() && sig_upto(rem, p, rem.len() - __it1.remaining().len(), cc, g.0 as int)),
ensures __it1.remaining().len() == 0, sigvec_ok(tm, p, state_id, transitions_to_partition_groups.0@),
decreases __it1.decrease()->0
"""),
        Ins('after', 'for transition in transitions_of_state {', """
let ghost i0 = rem.len() - __it1.remaining().len() - 1;
let ghost out_in = transitions_to_partition_groups.0@;
proof { assert(transition == rem[i0]); assert(tos.contains_key(*transition.0) && tos[*transition.0] == *transition.1); }
let ghost tv = transition.1@;
"""),
        ForLoop('for target_state in transition.1.iter() {', it='__it2', into_iter=False, label='build_sig.targets', spec="""
invariant
    __it2.obeys_prophetic_iter_laws(), __it2.decrease() is Some,
    __it2.remaining().len() <= tv.len(), tv == transition.1@, transition == rem[i0], 0 <= i0 < rem.len(),
    forall|q: int| 0 <= q < __it2.remaining().len() ==> *#[trigger] __it2.remaining()[q] == tv[tv.len() - __it2.remaining().len() + q],
    forall|i: int| 0 <= i < transitions_to_partition_groups.0@.len() ==> (#[trigger] transitions_to_partition_groups.0@[i]).1.0 < p.len(),
    forall|cc: CharClassID, g: StateGroupID| #[trigger] transitions_to_partition_groups.0@.contains((cc, g))
        <==> (out_in.contains((cc, g)) || (cc == *rem[i0].0 && g.0 < p.len() && tgt_upto(tv, p, tv.len() - __it2.remaining().len(), g.0 as int))),
ensures __it2.remaining().len() == 0,
decreases __it2.decrease()->0
"""),
        Ins('after', 'for target_state in transition.1.iter() {', """
let ghost k0 = tv.len() - __it2.remaining().len() - 1;
let ghost out_mid = transitions_to_partition_groups.0@;
proof {
    assert(*target_state == tv[k0]);
    assert(tv.contains(tv[k0]));
    assert(tm_edge(tm, state_id, *rem[i0].0, *target_state));
    assert(target_state.0 < n);
    assert(has_grp(p, target_state.0 as int));
}
"""),
        Ins('after_stmt', 'let partition_group = $_;', """
proof {
    let gi = choose|gi: int| #[trigger] in_grp(p, gi, target_state.0 as int);
    assert(partition@[gi]@.contains(*target_state));
    assert(in_grp(p, partition_group.0 as int, target_state.0 as int));
}
"""),
        Ins('block_end', 'for target_state in transition.1.iter() {', """
proof {
    let e = (*rem[i0].0, partition_group);
    assert(transitions_to_partition_groups.0@ == out_mid.push(e));
    assert forall|cc: CharClassID, g: StateGroupID| #[trigger] transitions_to_partition_groups.0@.contains((cc, g))
        <==> (out_in.contains((cc, g)) || (cc == *rem[i0].0 && g.0 < p.len() && tgt_upto(tv, p, k0 + 1, g.0 as int))) by {
        lemma_push_contains_pair(out_mid, e, (cc, g));
        assert(out_mid.contains((cc, g)) <==> (out_in.contains((cc, g)) || (cc == *rem[i0].0 && g.0 < p.len() && tgt_upto(tv, p, k0, g.0 as int))));
        if tgt_upto(tv, p, k0 + 1, g.0 as int) {
            let k = choose|k: int| 0 <= k < k0 + 1 && #[trigger] in_grp(p, g.0 as int, tv[k].0 as int);
            if k == k0 { lemma_grp_unique(p, n, g.0 as int, partition_group.0 as int, tv[k0].0 as int); assert(g == partition_group); } else { assert(tgt_upto(tv, p, k0, g.0 as int)); }
        }
        if tgt_upto(tv, p, k0, g.0 as int) { let k = choose|k: int| 0 <= k < k0 && #[trigger] in_grp(p, g.0 as int, tv[k].0 as int); assert(0 <= k < k0 + 1); }
        if (cc, g) == e { assert(in_grp(p, g.0 as int, tv[k0].0 as int)); assert(tgt_upto(tv, p, k0 + 1, g.0 as int)); }
    }
}
"""),
        Ins('block_end', 'for transition in transitions_of_state {', """
proof {
    assert forall|cc: CharClassID, g: StateGroupID| #[trigger] transitions_to_partition_groups.0@.contains((cc, g))
        <==> (g.0 < p.len() && sig_upto(rem, p, i0 + 1, cc, g.0 as int)) by {
        assert(out_in.contains((cc, g)) <==> (g.0 < p.len() && sig_upto(rem, p, i0, cc, g.0 as int)));
        if sig_upto(rem, p, i0 + 1, cc, g.0 as int) {
            let i = choose|i: int| 0 <= i < i0 + 1 && #[trigger] sig_at(rem, p, i, cc, g.0 as int);
            if i < i0 { assert(sig_upto(rem, p, i0, cc, g.0 as int)); }
        }
        if sig_upto(rem, p, i0, cc, g.0 as int) { let i = choose|i: int| 0 <= i < i0 && #[trigger] sig_at(rem, p, i, cc, g.0 as int); assert(0 <= i < i0 + 1); }
        if cc == *rem[i0].0 && tgt_upto(tv, p, tv.len() as int, g.0 as int) { assert(sig_at(rem, p, i0, cc, g.0 as int)); }
    }
}
"""),
        Tail("""
proof {
    if !tm.contains_key(state_id) {
        assert(__res.0@.len() == 0);
        assert forall|cc: CharClassID, g: StateGroupID| #[trigger] __res.0@.contains((cc, g)) <==> (g.0 < p.len() && sig_tm(tm, p, state_id, cc, g.0 as int)) by { }
    }
}
"""),
    ])

PART_PRE = 'partition@.len() <= u32::MAX, exists|n: int| part_ok(pv(partition@), n) && forall|s: StateID, cc: CharClassID, t: StateID| #[trigger] tm_edge(transitions@, s, cc, t) ==> t.0 < n,'

split_group = Fn(F_MIN, 'Minimizer', 'split_group', ret='r', props=P, attrs='#[verifier::loop_isolation(false)] #[verifier::allow_complex_invariants]',
    spec="""
requires
    """ + PART_PRE + """
ensures
    // the group is cut into non-empty, disjoint pieces; members of one piece move into the same groups under the same classes
    split_ok(transitions@, pv(partition@), group@, pv(r@)),
""",
    edits=TRACE + [
        Ins('body_start', None, """
broadcast use axiom_stateid_cmp, axiom_sigkey_cmp;
let ghost tm = transitions@;
let ghost p = pv(partition@);
"""),
        Replace('E6', 'return vec![group.clone()];', """{
    let __g = group.clone();
    let __r = vec![__g];
    proof {
        lemma_single_group(tm, p, group@);
        assert(pv(__r@) =~= seq![group@]);
    }
    return __r;
}""", why='the returned vector is let-bound so that ghost code can name it (E6)'),
        Ins('before', 'for state_id in group {', 'let ghost mut done: Seq<StateID> = Seq::empty();'),
        ForLoop('for state_id in group {', it='__it1', via='%s.iter()', label='split_group.collect',
                pre='let ghost rem = __it1.remaining(); proof { assert(rem.unref().to_set() == group@); assert(rem.no_duplicates()); }',
                body_pre="""
proof {
    if __it1.remaining().len() == 0 {
        assert forall|x: StateID| #[trigger] group@.contains(x) <==> done.contains(x) by {
            assert(rem.unref().to_set().contains(x) <==> rem.unref().contains(x));
            if rem.unref().contains(x) { let i = choose|i: int| 0 <= i < rem.unref().len() && rem.unref()[i] == x; assert(done[i] == x); }
            if done.contains(x) { let i = choose|i: int| 0 <= i < done.len() && done[i] == x; assert(rem.unref()[i] == x); }
        }
    }
    assert(true);
}
""", spec="""
invariant
    __it1.obeys_prophetic_iter_laws(), __it1.decrease() is Some,
    rem.unref().to_set() == group@, rem.no_duplicates(),
    __it1.remaining().len() <= rem.len(),
    forall|q: int| 0 <= q < __it1.remaining().len() ==> #[trigger] __it1.remaining()[q] == rem[rem.len() - __it1.remaining().len() + q],
    done.len() == rem.len() - __it1.remaining().len(), forall|i: int| 0 <= i < done.len() ==> #[trigger] done[i] == *rem[i],
    split_inv(tm, p, transition_map_to_states@, done),
ensures
    __it1.remaining().len() == 0, split_inv(tm, p, transition_map_to_states@, done),
    forall|x: StateID| #[trigger] group@.contains(x) <==> done.contains(x),
decreases __it1.decrease()->0
"""),
        Ins('after', 'for state_id in group {', """
let ghost i0 = rem.len() - __it1.remaining().len() - 1;
proof {
    assert(state_id == rem[i0]);
    assert(!done.contains(*state_id)) by {
        if done.contains(*state_id) { let j = choose|j: int| 0 <= j < done.len() && done[j] == *state_id; assert(*rem[j] == *rem[i0]); assert(rem[j] == rem[i0]); }
    }
}
"""),
        Replace('E14', 'transition_map_to_states.entry(transitions_to_partition).or_default().insert(*state_id);', """{
    let __k = transitions_to_partition;
    let ghost mv0 = transition_map_to_states@;
    match transition_map_to_states.get_mut(&__k) {
        Some(__v) => { __v.insert(*state_id); }
        None => { let mut __v: StateGroup = Default::default(); __v.insert(*state_id); transition_map_to_states.insert(__k, __v); }
    }
    proof {
        lemma_split_step(tm, p, mv0, transition_map_to_states@, done, *state_id, __k);
        done = done.push(*state_id);
    }
}""", why='`m.entry(k).or_default().insert(x)` is `match m.get_mut(&k) { Some(v) => { v.insert(x); } None => { let mut v = Default::default(); v.insert(x); m.insert(k, v); } }` (std definition of Entry::or_default)'),
        Replace('U5', 'transition_map_to_states.into_values().collect::<Partition>()', """{
    let ghost mvf = transition_map_to_states@;
    let __r = verif_into_values(transition_map_to_states);
    proof {
        let ks = choose|ks: Seq<TransitionsToPartitionGroups>| #![trigger ks.len()] ks.len() == __r@.len() && ks.no_duplicates()
            && (forall|i: int| 0 <= i < ks.len() ==> mvf.contains_key(#[trigger] ks[i]) && __r@[i] == mvf[ks[i]])
            && (forall|k: TransitionsToPartitionGroups| #[trigger] mvf.contains_key(k) ==> ks.contains(k));
        lemma_split_final(tm, p, mvf, group@, done, ks, __r@);
    }
    __r
}""", why='TRUSTED std contract through a wrapper: BTreeMap::into_values().collect::<Vec<_>>() (the call is moved verbatim into an external_body function)'),
    ])

new_partition = Fn(F_MIN, 'Minimizer', 'calculate_new_partition', ret='r', props=P, attrs='#[verifier::loop_isolation(false)] #[verifier::allow_complex_invariants]',
    spec="""
requires
    """ + PART_PRE + """
ensures
    // every group is replaced, in order, by the pieces split_group cuts it into
    exists|org: Seq<int>| #[trigger] refined(transitions@, pv(partition@), pv(r@), org, partition@.len() as int),
""",
    edits=TRACE + [
        Ins('body_start', None, """
let ghost tm = transitions@;
let ghost old = pv(partition@);
let ghost n = choose|n: int| part_ok(old, n) && forall|s: StateID, cc: CharClassID, t: StateID| #[trigger] tm_edge(tm, s, cc, t) ==> t.0 < n;
let ghost mut org: Seq<int> = Seq::empty();
proof {
    assert(groups_disjoint(old)) by {
        reveal(groups_disjoint);
        assert forall|g: int, h: int, x: StateID| 0 <= g < old.len() && 0 <= h < old.len() && #[trigger] old[g].contains(x) && #[trigger] old[h].contains(x) implies g == h by {
            assert(StateID(x.0 as int as u32) == x);
            assert(in_grp(old, g, x.0 as int) && in_grp(old, h, x.0 as int));
        }
    }
}
"""),
        Ins('after_stmt', 'let mut new_partition = $_;', """
proof { assert(pv(new_partition@) =~= Seq::<Set<StateID>>::empty()); assert(groups_disjoint(pv(new_partition@))) by { reveal(groups_disjoint); } assert(refined(tm, old, pv(new_partition@), org, 0)); }
"""),
        Replace('E13+E11', 'for (index, group) in partition.iter().enumerate() { Self::split_group($args).into_iter().for_each(|new_group| { $body }); }', """
let mut __i: usize = 0;
while __i < partition.len()
    //@label new_partition.groups
    invariant
        0 <= __i <= partition@.len(), old == pv(partition@), tm == transitions@, groups_disjoint(old),
        refined(tm, old, pv(new_partition@), org, __i as int),
    decreases partition@.len() - __i
{
    let index: usize = __i;
    let group = &partition[__i];
    __i += 1;
    let ghost new0 = pv(new_partition@);
    let ghost org0 = org;
    let __pieces = Self::split_group($args);
    let ghost pcs = pv(__pieces@);
    proof { assert(old[index as int] == group@); }
    let mut __it1 = __pieces.into_iter();
    let ghost prem = __it1.remaining();
    loop
        invariant
            __it1.obeys_prophetic_iter_laws(), __it1.decrease() is Some,
            prem.len() == pcs.len(), forall|q: int| 0 <= q < prem.len() ==> (#[trigger] prem[q])@ == pcs[q],
            __it1.remaining().len() <= prem.len(),
            forall|q: int| 0 <= q < __it1.remaining().len() ==> #[trigger] __it1.remaining()[q] == prem[prem.len() - __it1.remaining().len() + q],
            pv(new_partition@) =~= new0 + pcs.take(prem.len() - __it1.remaining().len()),
        ensures __it1.remaining().len() == 0, pv(new_partition@) =~= new0 + pcs,
        decreases __it1.decrease()->0
    {
        proof { if __it1.remaining().len() == 0 { assert(pcs.take(prem.len() as int) =~= pcs); } assert(true); }
        let ghost k0 = prem.len() - __it1.remaining().len();
        let Some(new_group) = __it1.next() else { break };
        proof { assert(new_group@ == pcs[k0]); assert(pcs.take(k0 + 1) =~= pcs.take(k0).push(pcs[k0])); }
        let ghost np0 = new_partition@;
        $body
        proof {
            assert(new_partition@ == np0.push(new_group));
            assert(pv(new_partition@) =~= pv(np0).push(pcs[k0]));
            assert((new0 + pcs.take(k0)).push(pcs[k0]) =~= new0 + pcs.take(k0 + 1));
        }
    }
    proof {
        let new1 = pv(new_partition@);
        let org1 = Seq::new(new1.len(), |i: int| if i < org0.len() { org0[i] } else { index as int });
        assert(is_cat(new0, pcs, new1));
        assert(is_cat_org(org0, index as int, pcs.len() as int, org1));
        lemma_refine_step(tm, old, new0, org0, index as int, pcs, new1, org1);
        org = org1;
    }
}
""", why='`for (i, x) in v.iter().enumerate() { B }` as an index loop (E13); `it.into_iter().for_each(|g| { B })` is `for g in it { B }` (std definition), then E1; closure body kept verbatim'),
        Tail("""
proof { assert(refined(tm, old, pv(__res@), org, partition@.len() as int)); }
"""),
    ])

add_rep = Fn(F_MIN, 'Minimizer', 'add_representative_state', ret='r', props=P, attrs='#[verifier::loop_isolation(false)] #[verifier::allow_complex_invariants]',
    spec="""
requires
    group_id.0 < old(dfa).states@.len(), old(dfa).states@.len() == old(dfa).end_states@.len(),
    set_nonempty(group@), forall|x: StateID| #[trigger] group@.contains(x) ==> x.0 < end_states@.len(),
    forall|x: StateID, y: StateID| #![trigger group@.contains(x), group@.contains(y)] group@.contains(x) && group@.contains(y) && end_states@[x.0 as int].0 ==> end_states@[y.0 as int] == end_states@[x.0 as int],
ensures
    r.0 == group_id.0,
    final(dfa).states@.len() == old(dfa).states@.len(), final(dfa).end_states@.len() == old(dfa).end_states@.len(),
    final(dfa).states@[group_id.0 as int].transitions@.len() == 0,
    forall|i: int| 0 <= i < old(dfa).states@.len() && i != group_id.0 ==> #[trigger] final(dfa).states@[i] == old(dfa).states@[i],
    forall|i: int| 0 <= i < old(dfa).states@.len() && i != group_id.0 ==> #[trigger] final(dfa).end_states@[i] == old(dfa).end_states@[i],
    // accepting iff some member accepts, with that member's token type
    forall|x: StateID| #[trigger] group@.contains(x) && end_states@[x.0 as int].0 ==> final(dfa).end_states@[group_id.0 as int] == end_states@[x.0 as int],
    (forall|x: StateID| #[trigger] group@.contains(x) ==> !end_states@[x.0 as int].0) ==> final(dfa).end_states@[group_id.0 as int] == old(dfa).end_states@[group_id.0 as int],
    final(dfa).terminal_ids == old(dfa).terminal_ids, final(dfa).lookaheads == old(dfa).lookaheads, final(dfa).patterns == old(dfa).patterns,
""",
    edits=TRACE + [
        Ins('body_start', None, """
broadcast use axiom_stateid_cmp;
let ghost d_in = *dfa;
let ghost gid = group_id.0 as int;
proof { assert(exists|y: StateID| #[trigger] group@.contains(y)); }
"""),
        ForLoop('for state_in_group in group.iter() {', it='__it1', into_iter=False, label='add_rep.members',
                pre='let ghost rem = __it1.remaining(); proof { assert(rem.unref().to_set() == group@); }',
                body_pre="""
proof {
    if __it1.remaining().len() == 0 {
        assert forall|x: StateID| #[trigger] group@.contains(x) implies seen_upto(rem, rem.len() as int, x) by {
            assert(rem.unref().to_set().contains(x) <==> rem.unref().contains(x));
            let i = choose|i: int| 0 <= i < rem.unref().len() && rem.unref()[i] == x;
            assert(*rem[i] == x);
        }
        assert forall|x: StateID| #[trigger] seen_upto(rem, rem.len() as int, x) implies group@.contains(x) by {
            let j = choose|j: int| 0 <= j < rem.len() && j < rem.len() && *#[trigger] rem[j] == x;
            assert(rem.unref()[j] == x); assert(rem.unref().contains(x)); assert(rem.unref().to_set().contains(x));
        }
    }
    assert(true);
}
""", spec="""
invariant
    __it1.obeys_prophetic_iter_laws(), __it1.decrease() is Some,
    rem.unref().to_set() == group@, state_id.0 == gid,
    __it1.remaining().len() <= rem.len(),
    forall|q: int| 0 <= q < __it1.remaining().len() ==> #[trigger] __it1.remaining()[q] == rem[rem.len() - __it1.remaining().len() + q],
    dfa.states == d_in.states, dfa.terminal_ids == d_in.terminal_ids, dfa.lookaheads == d_in.lookaheads, dfa.patterns == d_in.patterns,
    dfa.current_states == d_in.current_states, dfa.next_states == d_in.next_states,
    dfa.end_states@.len() == d_in.end_states@.len(),
    forall|i: int| 0 <= i < d_in.end_states@.len() && i != gid ==> #[trigger] dfa.end_states@[i] == d_in.end_states@[i],
    forall|x: StateID| #[trigger] seen_upto(rem, rem.len() - __it1.remaining().len(), x) && end_states@[x.0 as int].0 ==> dfa.end_states@[gid] == end_states@[x.0 as int],
    (forall|x: StateID| #[trigger] seen_upto(rem, rem.len() - __it1.remaining().len(), x) ==> !end_states@[x.0 as int].0) ==> dfa.end_states@[gid] == d_in.end_states@[gid],
ensures
    __it1.remaining().len() == 0,
    forall|x: StateID| #[trigger] group@.contains(x) ==> seen_upto(rem, rem.len() as int, x),
    forall|x: StateID| #[trigger] seen_upto(rem, rem.len() as int, x) ==> group@.contains(x),
decreases __it1.decrease()->0
"""),
        Ins('after', 'for state_in_group in group.iter() {', """
let ghost i0 = rem.len() - __it1.remaining().len() - 1;
proof {
    assert(state_in_group == rem[i0]);
    assert(rem.unref()[i0] == *state_in_group);
    assert(rem.unref().contains(*state_in_group));
    assert(rem.unref().to_set().contains(*state_in_group));
    assert(group@.contains(*state_in_group));
}
"""),
        Ins('block_end', 'for state_in_group in group.iter() {', """
proof {
    assert forall|x: StateID| #[trigger] seen_upto(rem, i0 + 1, x) && end_states@[x.0 as int].0 implies dfa.end_states@[gid] == end_states@[x.0 as int] by {
        let j = choose|j: int| 0 <= j < i0 + 1 && j < rem.len() && *#[trigger] rem[j] == x;
        assert(rem.unref()[j] == x); assert(rem.unref().contains(x)); assert(rem.unref().to_set().contains(x)); assert(group@.contains(x));
        if j < i0 { assert(seen_upto(rem, i0, x)); }
    }
    assert((forall|x: StateID| #[trigger] seen_upto(rem, i0 + 1, x) ==> !end_states@[x.0 as int].0) ==> dfa.end_states@[gid] == d_in.end_states@[gid]) by {
        if forall|x: StateID| #[trigger] seen_upto(rem, i0 + 1, x) ==> !end_states@[x.0 as int].0 {
            assert(seen_upto(rem, i0 + 1, *state_in_group));
            assert forall|x: StateID| #[trigger] seen_upto(rem, i0, x) implies !end_states@[x.0 as int].0 by { let j = choose|j: int| 0 <= j < i0 && j < rem.len() && *#[trigger] rem[j] == x; assert(seen_upto(rem, i0 + 1, x)); }
        }
    }
}
"""),
    ])

POS_TMPL = """({
    let __cl%(k)s = |__e: &TvEntry| -> (b: bool) ensures b == (__e.0 == %(key)s) { let (s, _) = __e; $body };
    let ghost gp%(k)s = |e: TvEntry| e.0 == %(key)s;
    let mut __itp = transitions.iter();
    let ghost prem = __itp.remaining();
    proof {
        assert(models_pred(__cl%(k)s, gp%(k)s));
        assert(prem.len() == transitions@.len());
        assert(forall|i: int| 0 <= i < prem.len() ==> *#[trigger] prem[i] == transitions@[i]);
    }
    let __t0 = __itp.position(__cl%(k)s);
    proof {
        assert(models_pred(__cl%(k)s, gp%(k)s));
        match __t0 {
            Some(k) => { assert(gp%(k)s(*prem[k as int])); assert(tv_pos(transitions@, %(key)s, k as int)); }
            None => { assert forall|i: int| 0 <= i < transitions@.len() implies !tv_pos(transitions@, %(key)s, i) by { assert(!gp%(k)s(*prem[i])); } }
        }
    }
    __t0
})"""

merge_one = Fn(F_MIN, 'Minimizer', 'merge_transitions_of_state', props=P, attrs='#[verifier::loop_isolation(false)] #[verifier::allow_complex_invariants]',
    spec="""
requires
    tv_sorted(old(transitions)@), representative_state_id.0 < state_id.0,
    exists|rp: int| tv_pos(old(transitions)@, representative_state_id, rp), exists|sp: int| tv_pos(old(transitions)@, state_id, sp),
ensures
    exists|rp: int, sp: int| merged_one(old(transitions)@, final(transitions)@, representative_state_id, state_id, rp, sp),
    tv_sorted(final(transitions)@),
""",
    edits=TRACE + [
        Ins('body_start', None, """
broadcast use axiom_ccid_cmp;
let ghost tv0 = transitions@;
let ghost rp0 = choose|rp: int| tv_pos(tv0, representative_state_id, rp);
let ghost sp0 = choose|sp: int| tv_pos(tv0, state_id, sp);
proof { if sp0 <= rp0 { if sp0 < rp0 { assert(tv0[sp0].0.0 < tv0[rp0].0.0); } } assert(rp0 < sp0); }
"""),
        Replace('E3+E6', 'transitions.iter().position(|(s, _)| $body)', POS_TMPL % dict(k='1', key='representative_state_id'), occ=1,
                why='closure parameter pattern becomes a typed variable bound by `let (s, _) = e;` (E3); iter().position(..) chain split (E6)'),
        Ins('after', 'if let Some(rep_pos) = $_ {', """
proof { lemma_sorted_pos_unique(tv0, representative_state_id, rep_pos as int, rp0); }
""", occ=1),
        Replace('E6+U5', 'let mut rep_trans = transitions.get_mut(rep_pos).unwrap().1.clone();', """
let mut rep_trans = verif_clone_ccmap(&transitions[rep_pos].1);
let ghost m_rp = tv0[rp0].1@;
proof { assert forall|cc: CharClassID, t: StateID| map_edge(rep_trans@, cc, t) <==> map_edge(m_rp, cc, t) by { } }
""", why='`v.get_mut(i).unwrap().1.clone()` only reads: it is `v[i].1.clone()` (E6); clone of the per-class map through a trusted wrapper (U5)'),
        Replace('E3+E6', 'transitions.iter().position(|(s, _)| $body)', POS_TMPL % dict(k='2', key='state_id'), occ=2,
                why='as above'),
        Ins('after', 'if let Some(pos) = $_ {', """
proof { lemma_sorted_pos_unique(tv0, state_id, pos as int, sp0); }
""", occ=1),
        Replace('E6', 'let (_, transitions_of_state) = transitions.get_mut(pos).unwrap();', """
let transitions_of_state = &transitions[pos].1;
let ghost m_sp = tv0[sp0].1@;
""", why='the destructured `&mut` tuple is only read afterwards: shared borrow of the same place (E6)'),
        ForLoop('for (char_class, target_states) in transitions_of_state.iter() {', it='__it1', into_iter=False, label='merge_one.classes',
                pre='let ghost rem = __it1.remaining(); proof { assert(btree_rem_ok(m_sp, rem)); }',
                body_pre="""
proof {
    if __it1.remaining().len() == 0 {
        assert forall|cc: CharClassID, t: StateID| map_edge(rep_trans@, cc, t) <==> (map_edge(m_rp, cc, t) || map_edge(m_sp, cc, t)) by {
            if map_edge(m_sp, cc, t) { let i = choose|i: int| 0 <= i < rem.len() && *(#[trigger] rem[i]).0 == cc; assert(m_sp[cc] == *rem[i].1); assert(rem_edge(rem, rem.len() as int, cc, t)); }
            if rem_edge(rem, rem.len() as int, cc, t) { let i = choose|i: int| 0 <= i < rem.len() && i < rem.len() && *(#[trigger] rem[i]).0 == cc && rem[i].1@.contains(t); assert(m_sp.contains_key(cc) && m_sp[cc] == *rem[i].1); }
        }
    }
    assert(true);
}
""", spec="""
invariant
    __it1.obeys_prophetic_iter_laws(), __it1.decrease() is Some, transitions@ == tv0, btree_rem_ok(m_sp, rem),
    __it1.remaining().len() <= rem.len(),
    forall|q: int| 0 <= q < __it1.remaining().len() ==> #[trigger] __it1.remaining()[q] == rem[rem.len() - __it1.remaining().len() + q],
    forall|cc: CharClassID, t: StateID| #[trigger] map_edge(rep_trans@, cc, t) <==> (map_edge(m_rp, cc, t) || rem_edge(rem, rem.len() - __it1.remaining().len(), cc, t)),
ensures
    __it1.remaining().len() == 0,
    forall|cc: CharClassID, t: StateID| #[trigger] map_edge(rep_trans@, cc, t) <==> (map_edge(m_rp, cc, t) || map_edge(m_sp, cc, t)),
decreases __it1.decrease()->0
"""),
        Ins('after', 'for (char_class, target_states) in transitions_of_state.iter() {', """
let ghost i0 = rem.len() - __it1.remaining().len() - 1;
let ghost rt0 = rep_trans@;
proof { assert((char_class, target_states) == rem[i0]); }
"""),
        Replace('E14', 'rep_trans.entry(*char_class).and_modify(|e| { for s in target_states { $inner } }).or_insert(target_states.clone());', """{
    let __k = *char_class;
    match rep_trans.get_mut(&__k) {
        Some(e) => {
            let ghost e0 = e@;
            let ghost tvs = target_states@;
            let mut __it9 = target_states.iter();
            let ghost trem = __it9.remaining();
            proof { assert(trem.len() == tvs.len()); assert(forall|q: int| 0 <= q < trem.len() ==> *#[trigger] trem[q] == tvs[q]); }
            loop
                invariant
                    __it9.obeys_prophetic_iter_laws(), __it9.decrease() is Some,
                    trem.len() == tvs.len(), forall|q: int| 0 <= q < trem.len() ==> *#[trigger] trem[q] == tvs[q],
                    __it9.remaining().len() <= trem.len(),
                    forall|q: int| 0 <= q < __it9.remaining().len() ==> #[trigger] __it9.remaining()[q] == trem[trem.len() - __it9.remaining().len() + q],
                    forall|y: StateID| #[trigger] e@.contains(y) <==> (e0.contains(y) || exists|q: int| 0 <= q < trem.len() - __it9.remaining().len() && #[trigger] tvs[q] == y),
                ensures
                    __it9.remaining().len() == 0,
                decreases __it9.decrease()->0
            {
                let ghost q0 = trem.len() - __it9.remaining().len();
                let ghost ein = e@;
                let Some(s) = __it9.next() else { break };
                proof { assert(*s == tvs[q0]); }
                $inner
                proof {
                    assert forall|y: StateID| #[trigger] e@.contains(y) <==> (e0.contains(y) || exists|q: int| 0 <= q < q0 + 1 && #[trigger] tvs[q] == y) by {
                        if e@ != ein { lemma_push_contains_pair(ein, *s, y); }
                        assert(ein.contains(y) <==> (e0.contains(y) || exists|q: int| 0 <= q < q0 && #[trigger] tvs[q] == y));
                        if exists|q: int| 0 <= q < q0 + 1 && #[trigger] tvs[q] == y { let q = choose|q: int| 0 <= q < q0 + 1 && #[trigger] tvs[q] == y; if q == q0 { assert(y == *s); } }
                        if y == *s { assert(tvs[q0] == y); }
                    }
                }
            }
            proof {
                assert forall|y: StateID| #[trigger] e@.contains(y) <==> (e0.contains(y) || tvs.contains(y)) by {
                    if tvs.contains(y) { let q = choose|q: int| 0 <= q < tvs.len() && tvs[q] == y; assert(0 <= q < trem.len() - 0); }
                }
            }
        }
        None => { let __c = verif_clone_targets(target_states); rep_trans.insert(__k, __c); }
    }
    proof {
        let rt1 = rep_trans@;
        assert forall|cc: CharClassID, t: StateID| #[trigger] map_edge(rt1, cc, t) <==> (map_edge(rt0, cc, t) || (cc == *rem[i0].0 && rem[i0].1@.contains(t))) by {
            if cc != __k { assert(rt1.contains_key(cc) <==> rt0.contains_key(cc)); if rt0.contains_key(cc) { assert(rt1[cc] == rt0[cc]); } }
        }
    }
}""", why='`m.entry(k).and_modify(|e| B).or_insert(v)` is `match m.get_mut(&k) { Some(e) => B, None => { m.insert(k, v); } }` (std definition of Entry::and_modify / or_insert); the loop body of B kept verbatim; clone of the target list through a trusted wrapper (U5)'),
        Ins('block_end', 'for (char_class, target_states) in transitions_of_state.iter() {', """
proof {
    assert forall|cc: CharClassID, t: StateID| #[trigger] map_edge(rep_trans@, cc, t) <==> (map_edge(m_rp, cc, t) || rem_edge(rem, i0 + 1, cc, t)) by {
        assert(map_edge(rt0, cc, t) <==> (map_edge(m_rp, cc, t) || rem_edge(rem, i0, cc, t)));
        if rem_edge(rem, i0 + 1, cc, t) { let i = choose|i: int| 0 <= i < i0 + 1 && i < rem.len() && *(#[trigger] rem[i]).0 == cc && rem[i].1@.contains(t); if i < i0 { assert(rem_edge(rem, i0, cc, t)); } }
        if rem_edge(rem, i0, cc, t) { let i = choose|i: int| 0 <= i < i0 && i < rem.len() && *(#[trigger] rem[i]).0 == cc && rem[i].1@.contains(t); assert(0 <= i < i0 + 1); }
        if cc == *rem[i0].0 && rem[i0].1@.contains(t) { assert(rem_edge(rem, i0 + 1, cc, t)); }
    }
}
"""),
        Ins('after_stmt', 'transitions.remove(pos);', """
proof { assert(transitions@ == tv0.remove(sp0)); }
"""),
        Ins('body_end', None, """
proof {
    let tv1 = transitions@;
    assert(merged_one(tv0, tv1, representative_state_id, state_id, rp0, sp0));
    assert(tv_sorted(tv1)) by {
        assert forall|i: int, j: int| 0 <= i < j < tv1.len() implies (#[trigger] tv1[i]).0.0 < (#[trigger] tv1[j]).0.0 by {
            let i2 = if i < sp0 { i } else { i + 1 };
            let j2 = if j < sp0 { j } else { j + 1 };
            assert(tv1[i].0 == tv0[i2].0 && tv1[j].0 == tv0[j2].0);
            assert(tv0[i2].0.0 < tv0[j2].0.0);
        }
    }
}
"""),
    ])

merge_all = Fn(F_MIN, 'Minimizer', 'merge_transitions', props=P, attrs='#[verifier::loop_isolation(false)] #[verifier::allow_complex_invariants]',
    spec="""
requires
    exists|n: int| 0 <= n && part_ok(pv(partition@), n) && merged_inv(tv_edges(old(transitions)@), pv(partition@), old(transitions)@, Map::<StateID, StateID>::empty(), n),
    all_nonempty(pv(partition@)),
ensures
    // one entry per group survives (that of its least member), holding the edges of all members
    exists|n: int, ab: AbV| 0 <= n && part_ok(pv(partition@), n) && #[trigger] merged_inv(tv_edges(old(transitions)@), pv(partition@), final(transitions)@, ab, n) && all_done(pv(partition@), ab),
""",
    edits=TRACE + [
        Ins('body_start', None, """
broadcast use axiom_stateid_cmp;
let ghost p = pv(partition@);
let ghost tv_in = transitions@;
let ghost e0 = tv_edges(tv_in);
let ghost n = choose|n: int| 0 <= n && part_ok(p, n) && merged_inv(e0, p, tv_in, Map::<StateID, StateID>::empty(), n);
let ghost mut ab: AbV = Map::empty();
proof {
    assert(groups_disjoint(p)) by {
        reveal(groups_disjoint);
        assert forall|g: int, h: int, x: StateID| 0 <= g < p.len() && 0 <= h < p.len() && #[trigger] p[g].contains(x) && #[trigger] p[h].contains(x) implies g == h by {
            assert(StateID(x.0 as int as u32) == x);
            assert(in_grp(p, g, x.0 as int) && in_grp(p, h, x.0 as int));
        }
    }
}
"""),
        ForLoop('for group in partition {', it='__it1', label='merge_all.groups', spec="""
invariant
    __it1.obeys_prophetic_iter_laws(), __it1.decrease() is Some, p == pv(partition@), part_ok(p, n), groups_disjoint(p), all_nonempty(p),
    __it1.remaining().len() <= partition@.len(),
    forall|q: int| 0 <= q < __it1.remaining().len() ==> *#[trigger] __it1.remaining()[q] == partition@[partition@.len() - __it1.remaining().len() + q],
    merged_inv(e0, p, transitions@, ab, n),
    forall|g: int| 0 <= g < partition@.len() - __it1.remaining().len() ==> #[trigger] grp_done(p, ab, g),
    forall|g: int| partition@.len() - __it1.remaining().len() <= g < p.len() ==> #[trigger] grp_untouched(p, ab, g),
ensures __it1.remaining().len() == 0,
decreases __it1.decrease()->0
"""),
        Ins('after', 'for group in partition {', """
let ghost gi = partition@.len() - __it1.remaining().len() - 1;
let ghost ab_in = ab;
proof { assert(*group == partition@[gi]); assert(group@ == p[gi]); assert(grp_untouched(p, ab, gi)); }
"""),
        Ins('before', 'continue;', """
proof {
    lemma_single_done(p, ab, gi);
    assert forall|g: int| 0 <= g < gi + 1 implies #[trigger] grp_done(p, ab, g) by { }
}
"""),
        Ins('after_stmt', 'let representative_state_id = $_;', """
let ghost r = *representative_state_id;
proof {
    assert(set_nonempty(p[gi]));
    assert(has_ord_key::<StateID>()) by { axiom_key_stateid(r); }
    assert(grp_min(p, gi, r)) by {
        assert forall|z: StateID| #[trigger] p[gi].contains(z) implies r.0 <= z.0 by { axiom_key_stateid(r); axiom_key_stateid(z); }
    }
}
"""),
        Replace('E11', 'for state_id in group.iter().skip(1) { $body }', """
let mut __its = group.iter();
let ghost grem = __its.remaining();
proof {
    assert(grem.unref().to_set() == group@);
    axiom_set_iter_ascending(grem);
    assert(grem.len() >= 1) by { if grem.len() == 0 { assert(!grem.unref().to_set().contains(r)); } }
    // the first element yielded is the least one: the representative
    assert(*grem[0] == r) by {
        assert(grem.unref()[0] == *grem[0]); assert(grem.unref().contains(*grem[0])); assert(grem.unref().to_set().contains(*grem[0])); assert(p[gi].contains(*grem[0]));
        assert(grem.unref().to_set().contains(r)); assert(grem.unref().contains(r));
        let j = choose|j: int| 0 <= j < grem.unref().len() && grem.unref()[j] == r;
        assert(*grem[j] == r);
        if j > 0 { assert(grem[0].0 < grem[j].0); }
    }
}
let __skipped = __its.next();
proof {
    assert forall|j: int| 0 <= j < grem.len() implies !ab.contains_key(*#[trigger] grem[j]) by {
        assert(grem.unref()[j] == *grem[j]); assert(grem.unref().contains(*grem[j])); assert(grem.unref().to_set().contains(*grem[j])); assert(p[gi].contains(*grem[j]));
    }
}
loop
    //@label merge_all.members
    invariant
        __its.obeys_prophetic_iter_laws(), __its.decrease() is Some, 1 <= grem.len(), *grem[0] == r, grp_min(p, gi, r), 0 <= gi < p.len(),
        grem.unref().to_set() == p[gi], forall|i: int, j: int| 0 <= i < j < grem.len() ==> (#[trigger] grem[i]).0 < (#[trigger] grem[j]).0,
        __its.remaining().len() < grem.len(),
        forall|q: int| 0 <= q < __its.remaining().len() ==> #[trigger] __its.remaining()[q] == grem[grem.len() - __its.remaining().len() + q],
        merged_inv(e0, p, transitions@, ab, n), !ab.contains_key(r),
        forall|j: int| 1 <= j < grem.len() - __its.remaining().len() ==> ab.contains_key(*#[trigger] grem[j]) && ab[*grem[j]] == r,
        forall|j: int| grem.len() - __its.remaining().len() <= j < grem.len() ==> !ab.contains_key(*#[trigger] grem[j]),
        forall|g: int| 0 <= g < gi ==> #[trigger] grp_done(p, ab, g),
        forall|g: int| gi < g < p.len() ==> #[trigger] grp_untouched(p, ab, g),
    ensures __its.remaining().len() == 0,
    decreases __its.decrease()->0
{
    let ghost k0 = grem.len() - __its.remaining().len();
    let Some(state_id) = __its.next() else { break };
    let ghost x = *state_id;
    let ghost tv0 = transitions@;
    let ghost ab0 = ab;
    proof {
        assert(state_id == grem[k0]);
        assert(grem.unref()[k0] == x); assert(grem.unref().contains(x)); assert(grem.unref().to_set().contains(x)); assert(p[gi].contains(x));
        assert(r.0 < x.0) by { assert(grem[0].0 < grem[k0].0); }
        assert(x.0 < n && r.0 < n);
        assert(tv_has(tv0, r) && tv_has(tv0, x));
    }
    $body
    proof {
        let (rp, sp) = choose|rp: int, sp: int| merged_one(tv0, transitions@, r, x, rp, sp);
        lemma_merge_step(e0, p, tv0, transitions@, ab0, n, r, x, rp, sp, gi);
        ab = ab0.insert(x, r);
        assert forall|g: int| 0 <= g < gi implies #[trigger] grp_done(p, ab, g) by {
            assert(grp_done(p, ab0, g));
            let r2 = choose|r2: StateID| #[trigger] grp_min(p, g, r2) && !ab0.contains_key(r2) && forall|y: StateID| #[trigger] p[g].contains(y) && y != r2 ==> ab0.contains_key(y) && ab0[y] == r2;
            assert(r2 != x) by { if r2 == x { reveal(groups_disjoint); assert(p[g].contains(x) && p[gi].contains(x)); } }
            assert(grp_min(p, g, r2) && !ab.contains_key(r2));
            assert forall|y: StateID| #[trigger] p[g].contains(y) && y != r2 implies ab.contains_key(y) && ab[y] == r2 by {
                assert(y != x) by { if y == x { reveal(groups_disjoint); assert(p[g].contains(x) && p[gi].contains(x)); } }
            }
        }
        assert forall|g: int| gi < g < p.len() implies #[trigger] grp_untouched(p, ab, g) by {
            assert(grp_untouched(p, ab0, g));
            assert forall|y: StateID| #[trigger] p[g].contains(y) implies !ab.contains_key(y) by { if y == x { reveal(groups_disjoint); assert(p[g].contains(x) && p[gi].contains(x)); } }
        }
        assert forall|j: int| k0 + 1 <= j < grem.len() implies !ab.contains_key(*#[trigger] grem[j]) by { assert(grem[k0].0 < grem[j].0); }
    }
}
proof {
    assert(grp_done(p, ab, gi)) by {
        assert forall|y: StateID| #[trigger] p[gi].contains(y) && y != r implies ab.contains_key(y) && ab[y] == r by {
            assert(grem.unref().to_set().contains(y)); assert(grem.unref().contains(y));
            let j = choose|j: int| 0 <= j < grem.unref().len() && grem.unref()[j] == y;
            assert(*grem[j] == y);
            assert(j >= 1);
        }
    }
    assert forall|g: int| 0 <= g < gi + 1 implies #[trigger] grp_done(p, ab, g) by { }
}
""", why='`it.skip(1)` advances the iterator once before iterating (std definition); then E1; loop body kept verbatim'),
        Ins('body_end', None, """
proof { assert(all_done(p, ab)); }
"""),
    ])

renumber = Fn(F_MIN, 'Minimizer', 'renumber_states_in_transitions', props=P, attrs='#[verifier::loop_isolation(false)] #[verifier::allow_complex_invariants]',
    spec="""
requires
    partition@.len() <= u32::MAX, exists|n: int| part_ok(pv(partition@), n) && tv_bounded(old(transitions)@, n),
ensures
    // every state id (entry key and edge target) is replaced by the index of the group that holds it; nothing else changes
    final(transitions)@.len() == old(transitions)@.len(),
    forall|i: int| 0 <= i < old(transitions)@.len() ==> entry_renum(pv(partition@), #[trigger] old(transitions)@[i], final(transitions)@[i]),
""",
    edits=TRACE + [
        Ins('body_start', None, """
broadcast use axiom_stateid_cmp, axiom_ccid_cmp;
let ghost p = pv(partition@);
let ghost tv0 = transitions@;
let ghost n = choose|n: int| part_ok(p, n) && tv_bounded(tv0, n);
"""),
        Wrap('E3', 'let find_group_of_state = |state_id: StateID| -> StateID {', """
let find_group_of_state = |state_id: StateID| -> (r: StateID)
    requires has_grp(pv(partition@), state_id.0 as int), partition@.len() <= u32::MAX
    ensures r.0 < partition@.len(), pv(partition@)[r.0 as int].contains(state_id)
{""", "};", close_tail=1, why='closure given a contract (E3); its body is kept'),
        Replace('E13', 'for (group_id, group) in partition.iter().enumerate() { $body }', """
let mut __k: usize = 0;
while __k < partition.len()
    //@label renumber.find
    invariant 0 <= __k <= partition@.len(), partition@.len() <= u32::MAX, forall|g: int| 0 <= g < __k ==> !(#[trigger] pv(partition@)[g]).contains(state_id),
    decreases partition@.len() - __k
{
    let group_id: usize = __k;
    let group = &partition[__k];
    __k += 1;
    $body
}
proof {
    let g = choose|g: int| #[trigger] in_grp(pv(partition@), g, state_id.0 as int);
    assert(StateID(state_id.0 as int as u32) == state_id);
    assert(!pv(partition@)[g].contains(state_id));
}
""", why='`for (i, x) in v.iter().enumerate() { B }` as an index loop (E13); body kept verbatim'),
        Wrap('E13', 'for transition in transitions.iter_mut() {', """
let mut __i: usize = 0;
while __i < transitions.len()
    //@label renumber.entries
    invariant
        0 <= __i <= tv0.len(), transitions@.len() == tv0.len(), p == pv(partition@), partition@.len() <= u32::MAX, part_ok(p, n), tv_bounded(tv0, n),
        forall|x: StateID| has_grp(p, x.0 as int) ==> #[trigger] find_group_of_state.requires((x,)),
        forall|x: StateID, r: StateID| #[trigger] find_group_of_state.ensures((x,), r) ==> r.0 < p.len() && p[r.0 as int].contains(x),
        forall|i: int| 0 <= i < __i ==> entry_renum(p, #[trigger] tv0[i], transitions@[i]),
        forall|i: int| __i <= i < tv0.len() ==> #[trigger] transitions@[i] == tv0[i],
    decreases tv0.len() - __i
{
    let ghost ei = __i as int;
    proof { assert(transitions@[ei] == tv0[ei]); assert(tv0[ei].0.0 < n); assert(has_grp(p, tv0[ei].0.0 as int)); }
    let transition = &mut transitions[__i];
""", """
    __i += 1;
}
""", why='iter_mut loop written as an index loop (E13: same elements, same order)'),
        Wrap('E15', 'for target_states in transition.1.values_mut() {', """
let __ks = verif_keys(&transition.1);
let ghost m0 = tv0[ei].1@;
proof { assert(transition.1@ == m0); }
let mut __j: usize = 0;
while __j < __ks.len()
    //@label renumber.classes
    invariant
        0 <= __j <= __ks@.len(), __ks@.no_duplicates(), forall|cc: CharClassID| #[trigger] __ks@.contains(cc) <==> m0.contains_key(cc),
        transition.0.0 < p.len() && p[transition.0.0 as int].contains(tv0[ei].0),
        forall|cc: CharClassID| #[trigger] transition.1@.contains_key(cc) <==> m0.contains_key(cc),
        forall|j: int| 0 <= j < __j ==> vec_renum(p, m0[#[trigger] __ks@[j]]@, transition.1@[__ks@[j]]@),
        forall|j: int| __j <= j < __ks@.len() ==> transition.1@[#[trigger] __ks@[j]] == m0[__ks@[j]],
    decreases __ks@.len() - __j
{
    let ghost kj = __ks@[__j as int];
    let ghost m1 = transition.1@;
    proof { assert(__ks@.contains(kj)); assert(m0.contains_key(kj)); assert(m1[kj] == m0[kj]); }
    let target_states = transition.1.get_mut(&__ks[__j]).unwrap();
    let ghost ts0 = m0[kj]@;
""", """
    proof {
        let m2 = transition.1@;
        assert forall|j: int| 0 <= j < __j + 1 implies vec_renum(p, m0[#[trigger] __ks@[j]]@, m2[__ks@[j]]@) by {
            if j < __j { assert(__ks@[j] != kj); assert(m2[__ks@[j]] == m1[__ks@[j]]); }
        }
        assert forall|j: int| __j + 1 <= j < __ks@.len() implies m2[#[trigger] __ks@[j]] == m0[__ks@[j]] by { assert(__ks@[j] != kj); }
    }
    __j += 1;
}
proof {
    assert forall|cc: CharClassID| #[trigger] m0.contains_key(cc) implies vec_renum(p, m0[cc]@, transition.1@[cc]@) by {
        assert(__ks@.contains(cc));
        let j = choose|j: int| 0 <= j < __ks@.len() && __ks@[j] == cc;
        assert(vec_renum(p, m0[__ks@[j]]@, transition.1@[__ks@[j]]@));
    }
    assert(entry_renum(p, tv0[ei], *transition));
}
""", why='`for v in m.values_mut() { B }` visits every value once: written as a loop over the key list with `m.get_mut(&k).unwrap()` (E15; key list through a trusted wrapper, U5); body kept'),
        Wrap('E13', 'for target_state in target_states.iter_mut() {', """
let mut __q: usize = 0;
while __q < target_states.len()
    //@label renumber.targets
    invariant
        0 <= __q <= ts0.len(), target_states@.len() == ts0.len(),
        forall|q: int| 0 <= q < __q ==> (#[trigger] target_states@[q]).0 < p.len() && p[target_states@[q].0 as int].contains(ts0[q]),
        forall|q: int| __q <= q < ts0.len() ==> #[trigger] target_states@[q] == ts0[q],
    decreases ts0.len() - __q
{
    proof {
        assert(target_states@[__q as int] == ts0[__q as int]);
        assert(ts0.contains(ts0[__q as int]));
        assert(tv_edge(tv0, ei, kj, ts0[__q as int]));
        assert(has_grp(p, ts0[__q as int].0 as int));
    }
    let target_state = &mut target_states[__q];
""", """
    __q += 1;
}
""", why='iter_mut loop written as an index loop (E13)'),
    ])

update = Fn(F_MIN, 'Minimizer', 'update_transitions', props=P, attrs='#[verifier::loop_isolation(false)] #[verifier::allow_complex_invariants]',
    spec="""
requires
    old(dfa).states@.len() == partition@.len(), forall|g: int| 0 <= g < partition@.len() ==> (#[trigger] old(dfa).states@[g]).transitions@.len() == 0,
    partition@.len() <= u32::MAX, exists|n: int| 0 <= n && tm_keys(transitions@, n) && part_ok(pv(partition@), n), all_nonempty(pv(partition@)),
ensures
    // state g of the new automaton has an edge (cc, h) exactly when some member of group g has an edge on cc into group h
    final(dfa).states@.len() == partition@.len(), q_trans_ok(transitions@, pv(partition@), *final(dfa)),
    final(dfa).end_states == old(dfa).end_states, final(dfa).terminal_ids == old(dfa).terminal_ids, final(dfa).lookaheads == old(dfa).lookaheads, final(dfa).patterns == old(dfa).patterns,
""",
    edits=TRACE + [
        Ins('body_start', None, """
broadcast use axiom_stateid_cmp, axiom_ccid_cmp;
let ghost p = pv(partition@);
let ghost np = partition@.len() as int;
let ghost tm = transitions@;
let ghost d0 = *dfa;
let ghost n = choose|n: int| 0 <= n && tm_keys(tm, n) && part_ok(p, n);
proof {
    assert(groups_disjoint(p)) by {
        reveal(groups_disjoint);
        assert forall|g: int, h: int, x: StateID| 0 <= g < p.len() && 0 <= h < p.len() && #[trigger] p[g].contains(x) && #[trigger] p[h].contains(x) implies g == h by {
            assert(StateID(x.0 as int as u32) == x);
            assert(in_grp(p, g, x.0 as int) && in_grp(p, h, x.0 as int));
        }
    }
}
"""),
        Replace('E11+U5', 'transitions.iter().map(|(s, t)| (*s, t.clone())).collect::<Vec<_>>()', """{
    let mut __v: Vec<TvEntry> = Vec::new();
    let mut __itm = transitions.iter();
    let ghost mrem = __itm.remaining();
    proof { assert(btree_rem_ok(tm, mrem)); axiom_map_iter_ascending(mrem); }
    loop
        //@label update.copy
        invariant
            __itm.obeys_prophetic_iter_laws(), __itm.decrease() is Some, __itm.remaining().len() <= mrem.len(),
            forall|q: int| 0 <= q < __itm.remaining().len() ==> #[trigger] __itm.remaining()[q] == mrem[mrem.len() - __itm.remaining().len() + q],
            __v@.len() == mrem.len() - __itm.remaining().len(),
            forall|i: int| 0 <= i < __v@.len() ==> (#[trigger] __v@[i]).0 == *mrem[i].0 && ccmap_same(__v@[i].1@, mrem[i].1@),
        ensures __itm.remaining().len() == 0,
        decreases __itm.decrease()->0
    {
        let Some((s, t)) = __itm.next() else { break };
        __v.push((*s, verif_clone_ccmap(t)));
    }
    proof {
        assert(tv_of_map(tm, __v@)) by {
            assert forall|i: int| 0 <= i < __v@.len() implies tm.contains_key((#[trigger] __v@[i]).0) && ccmap_same(__v@[i].1@, tm[__v@[i].0]@) by { assert(tm[*mrem[i].0] == *mrem[i].1); }
            assert forall|s: StateID| #[trigger] tm.contains_key(s) implies tv_has(__v@, s) by {
                let i = choose|i: int| 0 <= i < mrem.len() && *(#[trigger] mrem[i]).0 == s;
                assert(tv_pos(__v@, s, i));
            }
            assert forall|i: int, j: int| 0 <= i < j < __v@.len() implies (#[trigger] __v@[i]).0.0 < (#[trigger] __v@[j]).0.0 by { assert(mrem[i].0.0 < mrem[j].0.0); }
        }
    }
    __v
}""", why='`it.map(|(s, t)| E).collect::<Vec<_>>()` as the loop that pushes E for every item (std definition of map/collect, E11); `t.clone()` of the per-class map through the trusted wrapper (U5)'),
        Ins('after_stmt', 'let mut transitions = $_;', """
let ghost tv_in = transitions@;
let ghost e0 = tv_edges(tv_in);
proof {
    assert(tv_of_map(tm, tv_in));
    assert forall|s: StateID| s.0 < n implies #[trigger] tv_has(tv_in, s) by { assert(tm.contains_key(s)); }
    assert forall|i: int| 0 <= i < tv_in.len() implies (#[trigger] tv_in[i]).0.0 < n by { assert(tm.contains_key(tv_in[i].0)); }
    lemma_merged_init(p, tv_in, n);
    assert forall|s: StateID, cc: CharClassID, t: StateID| #[trigger] e0(s, cc, t) <==> tm_edge(tm, s, cc, t) by {
        if e0(s, cc, t) { let i = choose|i: int| #[trigger] tv_pos(tv_in, s, i) && tv_edge(tv_in, i, cc, t); assert(ccmap_same(tv_in[i].1@, tm[tv_in[i].0]@)); }
        if tm_edge(tm, s, cc, t) {
            assert(tv_has(tv_in, s));
            let i = choose|i: int| #[trigger] tv_pos(tv_in, s, i);
            assert(ccmap_same(tv_in[i].1@, tm[tv_in[i].0]@));
            assert(tv_pos(tv_in, s, i) && tv_edge(tv_in, i, cc, t));
        }
    }
}
"""),
        Ins('after_stmt', 'Self::merge_transitions(partition, &mut transitions);', """
let ghost tv1 = transitions@;
let ghost (n1, ab) = choose|n1: int, ab: AbV| 0 <= n1 && part_ok(p, n1) && #[trigger] merged_inv(e0, p, tv1, ab, n1) && all_done(p, ab);
proof {
    lemma_part_n_unique(p, n, n1);
    assert(tv_bounded(tv1, n)) by {
        assert forall|i: int, cc: CharClassID, t: StateID| #[trigger] tv_edge(tv1, i, cc, t) implies t.0 < n by {
            assert(own_or_absorbed(e0, ab, tv1[i].0, cc, t));
            if e0(tv1[i].0, cc, t) { assert(tm_edge(tm, tv1[i].0, cc, t)); }
            else { let x = choose|x: StateID| #[trigger] ab.contains_key(x) && ab[x] == tv1[i].0 && e0(x, cc, t); assert(tm_edge(tm, x, cc, t)); }
        }
    }
}
"""),
        Ins('after_stmt', 'Self::renumber_states_in_transitions(partition, &mut transitions);', """
let ghost tv2 = transitions@;
let ghost rem_none: CcRem = Seq::empty();
proof { lemma_upd_init(dfa.states@, np, tv2, rem_none); }
"""),
        ForLoop('for (state_id, transitions_of_state) in transitions {', it='__it0', label='update.entries', spec="""
invariant
    __it0.obeys_prophetic_iter_laws(), __it0.decrease() is Some, __it0.remaining().len() <= tv2.len(),
    forall|q: int| 0 <= q < __it0.remaining().len() ==> #[trigger] __it0.remaining()[q] == tv2[tv2.len() - __it0.remaining().len() + q],
    upd_ok(dfa.states@, np, tv2, tv2.len() - __it0.remaining().len(), rem_none, 0, 0),
    dfa.end_states == d0.end_states, dfa.terminal_ids == d0.terminal_ids, dfa.lookaheads == d0.lookaheads, dfa.patterns == d0.patterns,
ensures __it0.remaining().len() == 0,
decreases __it0.decrease()->0
"""),
        Ins('after', 'for (state_id, transitions_of_state) in transitions {', """
let ghost k = tv2.len() - __it0.remaining().len() - 1;
let ghost sid0 = state_id;
proof {
    assert((state_id, transitions_of_state) == tv2[k]);
    assert(entry_renum(p, tv1[k], tv2[k]));
    assert(dfa.states@.len() == np) by { reveal(upd_ok); }
}
"""),
        ForLoop('for (char_class, target_states) in transitions_of_state.iter() {', it='__it1', into_iter=False, label='update.classes',
                pre="""let ghost rem = __it1.remaining();
proof {
    assert(btree_rem_ok(tv2[k].1@, rem));
    assert(upd_ok(dfa.states@, np, tv2, k, rem, 0, 0)) by { reveal(upd_ok); }
}""",
                body_pre="""
proof {
    if __it1.remaining().len() == 0 { lemma_upd_next_entry(dfa.states@, np, tv2, k, rem, rem_none); }
    assert(true);
}
""", spec="""
invariant
    __it1.obeys_prophetic_iter_laws(), __it1.decrease() is Some, __it1.remaining().len() <= rem.len(), btree_rem_ok(tv2[k].1@, rem),
    forall|q: int| 0 <= q < __it1.remaining().len() ==> #[trigger] __it1.remaining()[q] == rem[rem.len() - __it1.remaining().len() + q],
    upd_ok(dfa.states@, np, tv2, k, rem, rem.len() - __it1.remaining().len(), 0),
    dfa.end_states == d0.end_states, dfa.terminal_ids == d0.terminal_ids, dfa.lookaheads == d0.lookaheads, dfa.patterns == d0.patterns,
ensures __it1.remaining().len() == 0, upd_ok(dfa.states@, np, tv2, k + 1, rem_none, 0, 0),
decreases __it1.decrease()->0
"""),
        Ins('after', 'for (char_class, target_states) in transitions_of_state.iter() {', """
let ghost j = rem.len() - __it1.remaining().len() - 1;
proof { assert((char_class, target_states) == rem[j]); }
"""),
        ForLoop('for target_state in target_states {', it='__it2', via='%s.iter()', label='update.targets', spec="""
invariant
    __it2.obeys_prophetic_iter_laws(), __it2.decrease() is Some, __it2.remaining().len() <= target_states@.len(),
    forall|q: int| 0 <= q < __it2.remaining().len() ==> *#[trigger] __it2.remaining()[q] == target_states@[target_states@.len() - __it2.remaining().len() + q],
    upd_ok(dfa.states@, np, tv2, k, rem, j, target_states@.len() - __it2.remaining().len()),
    dfa.end_states == d0.end_states, dfa.terminal_ids == d0.terminal_ids, dfa.lookaheads == d0.lookaheads, dfa.patterns == d0.patterns,
ensures __it2.remaining().len() == 0,
decreases __it2.decrease()->0
"""),
        Ins('after', 'for target_state in target_states {', """
let ghost m = target_states@.len() - __it2.remaining().len() - 1;
let ghost sts0 = dfa.states@;
proof { assert(*target_state == target_states@[m]); assert(sts0.len() == np) by { reveal(upd_ok); } }
"""),
        Ins('block_end', 'for target_state in target_states {', """
proof {
    let e = (*char_class, StateSetID(target_state.0));
    assert forall|y: (CharClassID, StateSetID)| #[trigger] dfa.states@[state_id as int].transitions@.contains(y) <==> (y == e || sts0[state_id as int].transitions@.contains(y)) by {
        lemma_push_contains_pair(sts0[state_id as int].transitions@, e, y);
    }
    lemma_upd_push(sts0, dfa.states@, np, tv2, k, rem, j, m);
}
"""),
        Ins('block_end', 'for (char_class, target_states) in transitions_of_state.iter() {', """
proof { lemma_upd_next_class(dfa.states@, np, tv2, k, rem, j); }
"""),
        Ins('body_end', None, """
proof { lemma_update_final(tm, e0, p, tv1, tv2, ab, n, *dfa, rem_none); assert(dfa.states@.len() == np) by { reveal(upd_ok); } }
"""),
    ])

create_from_partition = Fn(F_MIN, 'Minimizer', 'create_from_partition', ret='r', props=P, attrs='#[verifier::loop_isolation(false)] #[verifier::allow_complex_invariants]',
    spec="""
requires
    d_wf(dfa), tm_ok(dfa, transitions@), part_ok(pv(partition@), dfa.states@.len() as int), all_nonempty(pv(partition@)),
    acc_homog(dfa, pv(partition@)), self_stable(transitions@, pv(partition@)),
ensures
    minimized(dfa, r), r.states@.len() == partition@.len(),
    r.terminal_ids == dfa.terminal_ids, r.lookaheads == dfa.lookaheads, r.patterns == dfa.patterns,
""",
    edits=TRACE + [
        Ins('body_start', None, """
broadcast use axiom_stateid_cmp;
let ghost d0 = dfa;
let ghost n = dfa.states@.len() as int;
let ghost tm = transitions@;
let ghost p1 = partition@;
proof { lemma_groups_bounded(pv(p1), n); lemma_groups_nodup(p1, n); }
"""),
        Wrap('E6', 'let mut dfa = CompiledDfa {', """
let __s0 = StateData::new();
let ghost gs0 = __s0;
let __e0: (bool, TerminalID) = (false, 0.into());
let ghost ge0 = __e0;
let mut dfa = CompiledDfa {""", """};
proof {
    assert forall|g: int| 0 <= g < p1.len() implies (#[trigger] dfa.states@[g]).transitions@.len() == 0 by { axiom_cloned_state(gs0, dfa.states@[g]); }
    assert forall|g: int| 0 <= g < p1.len() implies #[trigger] dfa.end_states@[g] == (false, TerminalID(0)) by { axiom_cloned_end(ge0, dfa.end_states@[g]); }
}
""", close_tail=1, why='the repeated elements of the two vec![e; n] are let-bound so that ghost code can name them (E6)'),
        Replace('E6', 'states: vec![StateData::new(); partition.len()],', 'states: vec![__s0; partition.len()],', why='see above'),
        Replace('E6', 'end_states: vec![(false, 0.into()); partition.len()],', 'end_states: vec![__e0; partition.len()],', why='see above'),
        Replace('E3', 'partition.sort_by(|a, b| { $body });', """
let ghost p_unsorted = partition@;
let __cl0 = |a: &BTreeSet<StateID>, b: &BTreeSet<StateID>| -> (o: core::cmp::Ordering) ensures o == start_cmp(*a, *b) { $body };
proof { assert(models_cmp2(__cl0, |x: BTreeSet<StateID>, y: BTreeSet<StateID>| start_cmp(x, y))); }
partition.sort_by(__cl0);
let ghost p2 = partition@;
proof {
    let gcmp = |x: BTreeSet<StateID>, y: BTreeSet<StateID>| start_cmp(x, y);
    assert(models_cmp2(__cl0, gcmp));
    assert(p_unsorted == p1);
    lemma_perm_part(p1, p2, n);
    lemma_perm_props(d0, tm, p1, p2);
    // the group holding state 0 comes first
    assert(has_grp(pv(p2), 0));
    let g0 = choose|g0: int| #[trigger] in_grp(pv(p2), g0, 0);
    if g0 != 0 {
        assert(gcmp(p2[g0], p2[0]) != core::cmp::Ordering::Less);
        assert(start_cmp(p2[g0], p2[0]) == core::cmp::Ordering::Less);
    }
    assert(in_grp(pv(p2), 0, 0));
    lemma_groups_bounded(pv(p2), n);
}
""", why='closure typed and hoisted (E3); its body is kept verbatim'),
        Replace('E13', 'for (id, group) in partition.iter().enumerate() { $body }', """
let mut __i: usize = 0;
while __i < partition.len()
    //@label create.representatives
    invariant
        0 <= __i <= p2.len(), partition@ == p2, dfa.states@.len() == p2.len(), dfa.end_states@.len() == p2.len(), end_states@ == d0.end_states@,
        dfa.terminal_ids == d0.terminal_ids, dfa.lookaheads == d0.lookaheads, dfa.patterns == d0.patterns,
        forall|g: int| 0 <= g < p2.len() ==> (#[trigger] dfa.states@[g]).transitions@.len() == 0,
        forall|g: int| __i <= g < p2.len() ==> #[trigger] dfa.end_states@[g] == (false, TerminalID(0)),
        forall|g: int| 0 <= g < __i ==> rep_end_ok(d0, pv(p2), dfa.end_states@, g),
    decreases p2.len() - __i
{
    let id: usize = __i;
    let group = &partition[__i];
    __i += 1;
    let ghost es_in = dfa.end_states@;
    proof {
        assert(set_nonempty(pv(p2)[id as int]));
        assert forall|x: StateID| #[trigger] group@.contains(x) implies x.0 < end_states@.len() by { assert(pv(p2)[id as int].contains(x)); }
        assert forall|x: StateID, y: StateID| #![trigger group@.contains(x), group@.contains(y)] group@.contains(x) && group@.contains(y) && end_states@[x.0 as int].0 implies end_states@[y.0 as int] == end_states@[x.0 as int] by {
            assert(StateID(x.0 as int as u32) == x && StateID(y.0 as int as u32) == y);
            assert(in_grp(pv(p2), id as int, x.0 as int) && in_grp(pv(p2), id as int, y.0 as int));
        }
    }
    $body
    proof {
        assert forall|g: int| 0 <= g < id + 1 implies rep_end_ok(d0, pv(p2), dfa.end_states@, g) by {
            if g < id { assert(rep_end_ok(d0, pv(p2), es_in, g)); assert(dfa.end_states@[g] == es_in[g]); }
        }
    }
}
""", why='`for (i, x) in v.iter().enumerate() { B }` as an index loop (E13); body kept verbatim'),
        Ins('before', 'Self::update_transitions(&mut dfa, &partition, transitions);', """
proof {
    assert(tm_keys(tm, n)) by {
        assert forall|s: StateID, cc: CharClassID, t: StateID| #[trigger] tm_edge(tm, s, cc, t) implies t.0 < n by {
            let k = choose|k: int| 0 <= k < d0.states@[s.0 as int].transitions@.len() && d0.states@[s.0 as int].transitions@[k] == (cc, StateSetID(t.0));
            assert(d0.states@[s.0 as int].transitions@[k].1.0 < n);
        }
    }
}
"""),
        Ins('after_stmt', 'Self::update_transitions(&mut dfa, &partition, transitions);', """
proof {
    lemma_quotient_from_parts(d0, tm, pv(p2), dfa);
    lemma_stable_from_tm(d0, tm, pv(p2));
}
"""),
    ])

minimize = Fn(F_MIN, 'Minimizer', 'minimize', ret='r', props=P, attrs='#[verifier::loop_isolation(false)] #[verifier::allow_complex_invariants]',
    spec="""
requires d_wf(dfa)
ensures
    // the result is the quotient of the automaton by a stable partition that never merges states accepting different token types (or an
    // accepting with a non-accepting state); group 0 holds the start state; no more states than before
    minimized(dfa, r), r.states@.len() <= dfa.states@.len(),
    r.terminal_ids == dfa.terminal_ids, r.lookaheads == dfa.lookaheads, r.patterns == dfa.patterns,
    min_of(dfa, r),   // the same, as one predicate (what the callers in U-elim quote)
""",
    edits=TRACE + [
        Ins('body_start', None, """
broadcast use axiom_stateid_cmp, axiom_ccid_cmp;
let ghost d = dfa;
let ghost n = dfa.states@.len() as int;
"""),
        Ins('after_stmt', 'let mut transitions = $_;', """
proof { assert(tm_upto(d, transitions@, 0, -1)); }
"""),
        Wrap('E13+E11', 'dfa.states.iter().enumerate().for_each(|(id, state)| {', """
let mut __i: usize = 0;
while __i < dfa.states.len()
    //@label minimize.collect_states
    invariant 0 <= __i <= n, d == dfa, n == dfa.states@.len(), d_wf(d), tm_upto(d, transitions@, __i as int, -1),
    decreases n - __i
{
    let id: usize = __i;
    let state = &dfa.states[__i];
    __i += 1;
    let ghost trs = d.states@[id as int].transitions@;
""", """    proof {
        assert(tm_upto(d, transitions@, id as int + 1, -1)) by {
            let tm = transitions@;
            assert forall|s: StateID, cc: CharClassID, t: StateID| #[trigger] tm_edge(tm, s, cc, t) <==>
                ((s.0 < id + 1 && d.states@[s.0 as int].transitions@.contains((cc, StateSetID(t.0))))
                 || (s.0 == id + 1 && exists|jj: int| 0 <= jj < -1 && jj < d.states@[id as int + 1].transitions@.len() && #[trigger] d.states@[id as int + 1].transitions@[jj] == (cc, StateSetID(t.0)))) by {
                if s.0 == id {
                    if d.states@[id as int].transitions@.contains((cc, StateSetID(t.0))) {
                        let jj = choose|jj: int| 0 <= jj < trs.len() && trs[jj] == (cc, StateSetID(t.0));
                        assert(0 <= jj < trs.len() && jj < trs.len() && trs[jj] == (cc, StateSetID(t.0)));
                    }
                }
            }
        }
    }
}
""", close_tail=2, why='`v.iter().enumerate().for_each(|(i, x)| { B })` written as the index loop `let mut k = 0; while k < v.len() { let i = k; let x = &v[k]; k += 1; B }` (for_each is the for loop, std definition; E13); body kept verbatim'),
        Replace('E14', 'transitions.entry((id as StateIDBase).into()).or_default();', """{
    let __k: StateID = (id as StateIDBase).into();
    let ghost tm_prev = transitions@;
    proof { assert(__k == StateID(id as u32)); assert(!tm_prev.contains_key(__k)); }
    if !transitions.contains_key(&__k) { transitions.insert(__k, Default::default()); }
    proof {
        assert(tm_upto(d, transitions@, id as int, 0)) by {
            let tm = transitions@;
            assert forall|s: StateID, cc: CharClassID, t: StateID| #[trigger] tm_edge(tm, s, cc, t) <==>
                ((s.0 < id && d.states@[s.0 as int].transitions@.contains((cc, StateSetID(t.0))))
                 || (s.0 == id && exists|jj: int| 0 <= jj < 0 && jj < trs.len() && #[trigger] trs[jj] == (cc, StateSetID(t.0)))) by {
                if s.0 == id { assert(s == __k); assert(tm[s]@.len() == 0); assert(!tm[s]@.contains_key(cc)); }
                else { assert(tm.contains_key(s) <==> tm_prev.contains_key(s)); if tm_prev.contains_key(s) { assert(tm[s] == tm_prev[s]); } assert(tm_edge(tm, s, cc, t) <==> tm_edge(tm_prev, s, cc, t)); }
            }
        }
    }
}""", why='`m.entry(k).or_default();` is `if !m.contains_key(&k) { m.insert(k, Default::default()); }` (std definition of Entry::or_default)'),
        ForLoop('for t in &state.transitions {', it='__it1', label='minimize.collect_transitions', spec="""
invariant
    __it1.obeys_prophetic_iter_laws(), __it1.decrease() is Some,
    trs == d.states@[id as int].transitions@, 0 <= id < n, *state == d.states@[id as int],
    __it1.remaining().len() <= trs.len(),
    forall|q: int| 0 <= q < __it1.remaining().len() ==> *#[trigger] __it1.remaining()[q] == trs[trs.len() - __it1.remaining().len() + q],
    tm_upto(d, transitions@, id as int, trs.len() - __it1.remaining().len()),
ensures __it1.remaining().len() == 0,
decreases __it1.decrease()->0
"""),
        Ins('after', 'for t in &state.transitions {', """
let ghost j0 = trs.len() - __it1.remaining().len() - 1;
let ghost tm0 = transitions@;
let ghost sf = StateID(id as u32);
proof { assert(*t == trs[j0]); assert(tm0.contains_key(sf)); }
"""),
        Replace('E14', 't_of_s.entry(t.0).or_default().push(t.1.id().into());', """{
    let __k = t.0;
    let __x: StateID = t.1.id().into();
    match t_of_s.get_mut(&__k) {
        Some(__v) => { __v.push(__x); }
        None => { let mut __v: Vec<StateID> = Default::default(); __v.push(__x); t_of_s.insert(__k, __v); }
    }
}""", why='`m.entry(k).or_default().push(x)` is `match m.get_mut(&k) { Some(v) => v.push(x), None => { let mut v = Default::default(); v.push(x); m.insert(k, v); } }` (std definition of Entry::or_default)'),
        Ins('after_stmt', 'let t_of_s = $_;', """
let ghost m0 = t_of_s@;
proof { assert(m0 == tm0[sf]@); }
"""),
        Ins('after_stmt', 't_of_s.entry(t.0).or_default().push(t.1.id().into());', """
let ghost m1 = t_of_s@;
let ghost x0 = StateID(t.1.0);
proof {
    assert(m1.contains_key(t.0));
    assert forall|y: StateID| #[trigger] m1[t.0]@.contains(y) <==> (y == x0 || (m0.contains_key(t.0) && m0[t.0]@.contains(y))) by {
        if m0.contains_key(t.0) { lemma_push_contains_pair(m0[t.0]@, x0, y); } else { lemma_push_contains_pair(Seq::<StateID>::empty(), x0, y); }
    }
    assert forall|cc: CharClassID| cc != t.0 implies (#[trigger] m1.contains_key(cc) <==> m0.contains_key(cc)) && (m0.contains_key(cc) ==> m1[cc] == m0[cc]) by { }
}
"""),
        Ins('after_stmt', 't_of_s.get_mut(&t.0).unwrap().sort();', """
let ghost m2 = t_of_s@;
proof {
    assert(m2.contains_key(t.0));
    assert forall|y: StateID| #[trigger] m2[t.0]@.contains(y) <==> m1[t.0]@.contains(y) by { }
    assert forall|cc: CharClassID| cc != t.0 implies (#[trigger] m2.contains_key(cc) <==> m1.contains_key(cc)) && (m1.contains_key(cc) ==> m2[cc] == m1[cc]) by { }
}
"""),
        Ins('after_stmt', 't_of_s.get_mut(&t.0).unwrap().dedup();', """
let ghost m3 = t_of_s@;
proof {
    assert(m3.contains_key(t.0));
    lemma_dedup_contains(m2[t.0]@);
    assert forall|y: StateID| #[trigger] m3[t.0]@.contains(y) <==> m2[t.0]@.contains(y) by { }
    assert forall|cc: CharClassID| cc != t.0 implies (#[trigger] m3.contains_key(cc) <==> m2.contains_key(cc)) && (m2.contains_key(cc) ==> m3[cc] == m2[cc]) by { }
}
"""),
        Ins('block_end', 'for t in &state.transitions {', """
proof {
    let tm1 = transitions@;
    assert(tm1.contains_key(sf) && tm1[sf]@ == m3);
    assert forall|s: StateID| #[trigger] tm1.contains_key(s) <==> tm0.contains_key(s) by { }
    assert forall|s: StateID| s.0 != id && tm0.contains_key(s) implies #[trigger] tm1[s] == tm0[s] by { }
    lemma_tm_step(d, tm0, tm1, id as int, j0, t.0, x0);
}
"""),
        Ins('after_stmt', 'let mut partition_old = $_;', """
proof {
    assert(tm_ok(d, transitions@)) by {
        let tm = transitions@;
        assert forall|s: StateID, cc: CharClassID, t: StateID| #[trigger] tm_edge(tm, s, cc, t) <==> (s.0 < d.states@.len() && d.states@[s.0 as int].transitions@.contains((cc, StateSetID(t.0)))) by { }
    }
    assert forall|g: int| 1 <= g < pv(partition_old@).len() implies set_nonempty(#[trigger] pv(partition_old@)[g]) by {
        assert(grp_nonempty(pv(partition_old@), g)); let s = choose|s: int| #[trigger] in_grp(pv(partition_old@), g, s); assert(pv(partition_old@)[g].contains(StateID(s as u32)));
    }
    lemma_groups_bounded1(pv(partition_old@), n);
}
let ghost tm = transitions@;
"""),
        LoopSpec('while $_ {', """
invariant
    d == dfa, tm == transitions@, tm_ok(d, tm), d_wf(d), n == d.states@.len(),
    part_ok(pv(partition_old@), n), acc_homog(d, pv(partition_old@)), partition_old@.len() <= n + 1,
    !changed ==> pv(partition_new@) == pv(partition_old@) && self_stable(tm, pv(partition_new@)) && all_nonempty(pv(partition_new@)),
// only the initial partition can hold an empty group (no non-accepting state): it is gone after the first round
decreases (if all_nonempty(pv(partition_old@)) { 0int } else { 1int }), n + 1 - partition_old@.len(), (if changed { 1int } else { 0int })
""", label='minimize.refine'),
        Ins('after', 'while $_ {', """
let ghost po = pv(partition_old@);
proof {
    assert forall|s: StateID, cc: CharClassID, t: StateID| #[trigger] tm_edge(tm, s, cc, t) implies t.0 < n by {
        let k = choose|k: int| 0 <= k < d.states@[s.0 as int].transitions@.len() && d.states@[s.0 as int].transitions@[k] == (cc, StateSetID(t.0));
        assert(d.states@[s.0 as int].transitions@[k].1.0 < n);
    }
}
"""),
        Ins('after_stmt', 'partition_new = $_;', """
let ghost pn = pv(partition_new@);
let ghost org = choose|org: Seq<int>| #[trigger] refined(tm, po, pn, org, po.len() as int);
proof {
    lemma_refine_final(d, tm, po, pn, org, n);
    lemma_groups_bounded(pn, n);
}
""", occ=2),
        Replace('U5', 'changed = partition_new != partition_old;', """
changed = verif_partition_ne(&partition_new, &partition_old);
proof {
    if !changed {
        assert(pn == po);
        assert(self_stable(tm, pn));
    } else if all_nonempty(po) {
        if pn.len() == po.len() { assert(pn =~= po); }
        assert(pn.len() > po.len());
    }
}
""", why='TRUSTED std contract through a wrapper: `!=` on Vec<BTreeSet<StateID>> (element-wise set equality)'),
        Replace('U5', 'partition_old.clone_from(&partition_new);', 'partition_old = verif_partition_clone(&partition_new);',
                why='`a.clone_from(&b)` is `a = b.clone()` (std default); clone of a Vec<BTreeSet<StateID>> through a trusted wrapper'),
        Ins('before', 'Self::create_from_partition(dfa, &partition_new, &transitions)', """
proof {
    assert(pv(partition_new@) == pv(partition_old@));
    assert(has_grp(pv(partition_new@), 0));
    lemma_groups_bounded(pv(partition_new@), n);
}
"""),
    ])

FUNCS = [
    Raw(umin.UNIT['items'][0].text.replace('pub type StateGroup = BTreeSet<StateID>;\n', '').replace('pub struct Minimizer;\n', ''), label='trusted std contract: Iterator::position; derived Ord of StateID'),
    Fn(F_MIN, 'TransitionsToPartitionGroups', 'new', ret='r', props=P, spec='ensures r.0@.len() == 0', external_body=True, trusted_reason='Self::default() of the derived Default: an empty vector (rule E4)'),
    Fn(F_MIN, 'TransitionsToPartitionGroups', 'with_capacity', ret='r', props=P, spec='ensures r.0@.len() == 0'),
    Fn(F_MIN, 'TransitionsToPartitionGroups', 'insert', props=P, spec='ensures final(self).0@ == old(self).0@.push((char_class, partition_group))'),
    umin.find_group,
    initial_partition,
    build_sig,
    split_group,
    new_partition,
    add_rep,
    merge_one,
    merge_all,
    renumber,
    update,
    create_from_partition,
    minimize,
]

UNIT = dict(
    name='u_mini',
    externs=['rustc_hash'],
    header='''#![feature(allocator_api)]
#![feature(sized_hierarchy)]
#![allow(unused_imports, unused_variables, unused_mut, unused_assignments, dead_code, unused_parens, unused_braces)]
use vstd::prelude::*;
use vstd::std_specs::iter::IteratorSpec;
use std::alloc::Allocator;
use rustc_hash::{FxHashMap, FxHashSet};
use std::collections::{BTreeMap, BTreeSet};
''',
    items=[
        IdMacro(F_IDS, 'StateID', members=('new', 'as_usize', 'id'), index_for=('Vec', 'slice'), specs=ID_SPECS, with_from=True),
        IdMacro(F_IDS, 'StateSetID', members=('new', 'as_usize', 'id'), index_for=('Vec',), specs=ID_SPECS, with_from=True),
        IdMacro(F_IDS, 'StateGroupID', members=('new', 'as_usize', 'id'), index_for=(), specs=ID_SPECS, with_from=True),
        IdMacro(F_IDS, 'CharClassID', members=('new', 'as_usize', 'id'), index_for=(), specs=ID_SPECS),
        IdMacro(F_IDS, 'TerminalID', members=('new', 'as_usize', 'id'), index_for=(), specs=ID_SPECS, with_from=True),
        Raw('''
#[verifier::external_type_specification]
#[verifier::external_body]
pub struct ExFxBuildHasher(rustc_hash::FxBuildHasher);
#[verifier::external_body] pub struct CompiledLookahead { _private: () }
impl<T> std::ops::IndexMut<StateID> for Vec<T> {
    fn index_mut(&mut self, index: StateID) -> (r: &mut T)
        ensures *r == old(self)@[index.0 as int], final(self)@ == old(self)@.update(index.0 as int, *final(r))
    { &mut self[index.0 as usize] }
}
''', label='external types; opaque CompiledLookahead; IndexMut<StateID> for Vec<T> (from impl_id!)'),
        Struct(F_DFA, 'StateData', derive=['Clone']),
        Fn(F_DFA, 'StateData', 'new', ret='r', props=P, spec='ensures r.transitions@.len() == 0'),
        Struct(F_DFA, 'CompiledDfa', derive=[]),
        RawFile(os.path.join(HERE, '..', 'common', 'clsf.rs'), 'clsf.rs'),
        RawFile(os.path.join(HERE, '..', 'common', 'sort_specs.rs'), 'sort_specs.rs'),
        RawFile(os.path.join(HERE, '..', 'common', 'dfa_lang.rs'), 'dfa_lang.rs'),
        RawFile('mini_spec.rs'),
        RawFile('mini_part.rs'),
        Raw('''
pub type StateGroup = BTreeSet<StateID>;
pub type Partition = Vec<StateGroup>;
pub type TransitionMap = BTreeMap<StateID, BTreeMap<CharClassID, Vec<StateID>>>;
pub struct Minimizer;
''', label='type aliases of minimizer.rs'),
        Struct(F_MIN, 'TransitionsToPartitionGroups', derive=['Debug', 'Default', 'Clone', 'PartialEq', 'Eq', 'PartialOrd', 'Ord'], structural=False),
    ] + FUNCS,
)
