# U-mini: Minimizer (C03): minimize returns the quotient of the automaton by a stable, acceptance-homogeneous partition;
# theorem_quotient_language: such a quotient accepts exactly what the automaton accepts.
import os, importlib.util
from extract import *

F_MIN = 'scnr/src/internal/minimizer.rs'
F_DFA = 'scnr/src/internal/compiled_dfa.rs'
F_IDS = 'scnr/src/internal/ids.rs'
ID_SPECS = {'new': 'ensures r.0 == index', 'as_usize': 'ensures r == self.0', 'id': 'ensures r == self.0'}
P = ['C03']
HERE = os.path.dirname(os.path.abspath(__file__))

def _load(name):
    p = os.path.join(os.path.dirname(os.path.abspath(__file__)), '..', name, 'unit.py')
    spec = importlib.util.spec_from_file_location('unit_' + name + '_for_mini', p)
    m = importlib.util.module_from_spec(spec)
    spec.loader.exec_module(m)
    return m

umin = _load('u_min')
TRACE = [Replace('E5', 'Self::trace_partition($_);', '', occ='all', why='trace-only helper (log::trace! of the partition): no effect on results'),
         Replace('E5', 'Self::trace_transitions_to_groups($_);', '', occ='all', why='trace-only helper')]

initial_partition = Fn(F_MIN, 'Minimizer', 'calculate_initial_partition', ret='r', props=P, attrs='#[verifier::loop_isolation(false)] #[verifier::allow_complex_invariants]',
    spec="""
requires d_wf(*dfa)
ensures
    // group 0: the non-accepting states; one further group per accepted token type, holding exactly the states accepting it
    r@.len() >= 1, r@.len() <= dfa.states@.len() + 1,
    part_ok(pv(r@), dfa.states@.len() as int), acc_homog(*dfa, pv(r@)),
    forall|s: int| 0 <= s < dfa.states@.len() ==> (#[trigger] in_grp(pv(r@), 0, s) <==> !dfa.end_states@[s].0),
    forall|g: int| 1 <= g < r@.len() ==> #[trigger] grp_nonempty(pv(r@), g),
""",
    edits=[
        Ins('body_start', None, """
broadcast use axiom_stateid_cmp;
let ghost n = dfa.states@.len() as int;
let ghost es = dfa.end_states@;
"""),
        Replace('E11', 'dfa.end_states.iter().filter_map(|(accept, id)| $body).collect::<Vec<_>>()', """{
    let mut __out: Vec<TerminalID> = Vec::new();
    let mut __it0 = dfa.end_states.iter();
    let ghost rem = __it0.remaining();
    proof {
        assert(rem.len() == es.len());
        assert(forall|i: int| 0 <= i < rem.len() ==> *#[trigger] rem[i] == es[i]);
    }
    loop
        invariant
            __it0.obeys_prophetic_iter_laws(), __it0.decrease() is Some,
            rem.len() == es.len(), forall|i: int| 0 <= i < rem.len() ==> *#[trigger] rem[i] == es[i],
            __it0.remaining().len() <= rem.len(),
            forall|q: int| 0 <= q < __it0.remaining().len() ==> #[trigger] __it0.remaining()[q] == rem[rem.len() - __it0.remaining().len() + q],
            __out@.len() <= rem.len() - __it0.remaining().len(),
            forall|t: TerminalID| #[trigger] __out@.contains(t) <==> exists|j: int| 0 <= j < rem.len() - __it0.remaining().len() && #[trigger] es[j] == (true, t),
        ensures __it0.remaining().len() == 0,
        decreases __it0.decrease()->0
    {
        let ghost pos = rem.len() - __it0.remaining().len();
        let ghost before = __out@;
        let Some(__x) = __it0.next() else { break };
        proof { assert(*__x == es[pos]); }
        let (accept, id) = __x;
        let __y: Option<TerminalID> = $body;
        if let Some(__t) = __y { __out.push(__t); }
        proof {
            assert forall|t: TerminalID| #[trigger] __out@.contains(t) <==> exists|j: int| 0 <= j < pos + 1 && #[trigger] es[j] == (true, t) by {
                if __out@ != before { lemma_push_contains_pair(before, es[pos].1, t); }
                assert(before.contains(t) <==> exists|j: int| 0 <= j < pos && #[trigger] es[j] == (true, t));
                if exists|j: int| 0 <= j < pos + 1 && #[trigger] es[j] == (true, t) {
                    let j = choose|j: int| 0 <= j < pos + 1 && #[trigger] es[j] == (true, t);
                    if j == pos { assert(es[pos].0 && es[pos].1 == t); }
                }
                if es[pos].0 && es[pos].1 == t { assert(es[pos] == (true, t)); }
            }
        }
    }
    __out
}""", why='iter().filter_map(|p| f(p)).collect::<Vec<_>>() is the loop pushing the Some results in order (std definitions); the closure parameter pattern becomes a let pattern, the closure body is kept verbatim'),
        Ins('after_stmt', 'let mut terminal_map = $_;', """
let ghost tm0 = terminal_map@;
"""),
        Ins('after_stmt', 'terminal_map.sort();', """
let ghost tm1 = terminal_map@;
proof {
    assert(has_ord_key::<TerminalID>()) by { axiom_key_terminalid(TerminalID(0)); }
}
"""),
        Ins('after_stmt', 'terminal_map.dedup();', """
let ghost tmap = terminal_map@;
proof {
    assert(key_injective::<TerminalID>()) by {
        assert forall|x: TerminalID, y: TerminalID| #![trigger ord_key(x), ord_key(y)] ord_key(x) == ord_key(y) implies x == y by { axiom_key_terminalid(x); axiom_key_terminalid(y); }
    }
    lemma_dedup_sorted(tm1);
    lemma_dedup_len(tm1);
    assert(tmap == dedup_adj(tm1));
    assert(tmap.no_duplicates()) by {
        assert forall|i: int, j: int| 0 <= i < tmap.len() && 0 <= j < tmap.len() && i != j implies tmap[i] != tmap[j] by {
            if i < j { assert(ord_key(tmap[i]) < ord_key(tmap[j])); } else { assert(ord_key(tmap[j]) < ord_key(tmap[i])); }
        }
    }
    assert forall|t: TerminalID| #[trigger] tmap.contains(t) <==> exists|j: int| 0 <= j < n && #[trigger] es[j] == (true, t) by {
        assert(tmap.contains(t) <==> tm1.contains(t));
        assert(tm1.contains(t) <==> tm0.contains(t));
    }
    assert(tmap.len() <= n);
}
"""),
        Replace('E6', 'let mut initial_partition = vec![StateGroup::new(); number_of_end_states + 1];', """
let __e = StateGroup::new();
let ghost e0 = __e;
let mut initial_partition = vec![__e; number_of_end_states + 1];
proof {
    assert(initial_partition@.len() == tmap.len() + 1);
    assert forall|g: int| 0 <= g < initial_partition@.len() implies (#[trigger] initial_partition@[g])@ =~= Set::<StateID>::empty() by {
        axiom_cloned_group(e0, initial_partition@[g]);
    }
}
""", why='the repeated element of vec![e; n] is let-bound so that ghost code can name it (E6)'),
        ForLoop('for state in 0..dfa.states.len() {', it='__r1', label='initial_partition.assign', spec="""
invariant
    __r1.obeys_prophetic_iter_laws(), __r1.decrease() is Some,
    0 <= k1 <= n, __r1.remaining().len() == n - k1,
    forall|q: int| 0 <= q < __r1.remaining().len() ==> #[trigger] __r1.remaining()[q] == k1 + q,
    terminal_map@ == tmap, initial_partition@.len() == tmap.len() + 1,
    ip_ok(es, tmap, pv(initial_partition@), k1 as int),
ensures k1 == n,
decreases __r1.decrease()->0
""", pre='let ghost mut k1: nat = 0; proof { assert(__r1.remaining() =~= Seq::new(n as nat, |i: int| i as usize)); }'),
        Ins('after', 'for state in 0..dfa.states.len() {', """
proof { assert(state == k1); }
let ghost pv_in = pv(initial_partition@);
"""),
        Ins('after_stmt', 'let state: StateID = $_;', """
proof { assert(state.0 == k1); }
"""),
        Replace('E3+E6', 'terminal_map.iter().position(|id| $body).unwrap()', """{
    let __cl0 = |id: &TerminalID| -> (b: bool) ensures b == (*id == terminal_id) { $body };
    let ghost gg = |t: TerminalID| t == terminal_id;
    let mut __it = terminal_map.iter();
    let ghost rem = __it.remaining();
    proof {
        assert(models_pred(__cl0, gg));
        assert(rem.len() == tmap.len());
        assert(forall|i: int| 0 <= i < rem.len() ==> *#[trigger] rem[i] == tmap[i]);
    }
    let __t0 = __it.position(__cl0);
    proof {
        assert(models_pred(__cl0, gg));
        assert(es[k1 as int] == (true, terminal_id));
        assert(tmap.contains(terminal_id));
        let w = choose|w: int| 0 <= w < tmap.len() && tmap[w] == terminal_id;
        match __t0 {
            Some(kk) => { assert(gg(*rem[kk as int])); }
            None => { assert(!gg(*rem[w])); }
        }
    }
    __t0.unwrap()
}""", why='closure typed and hoisted (E3); iter().position(..).unwrap() chain split (E6)'),
        Ins('after_stmt', 'initial_partition[index + 1].insert(state);', """
proof {
    let g = index as int + 1;
    let p1 = pv(initial_partition@);
    assert(tmap[index as int] == terminal_id);
    assert(p1[g] == pv_in[g].insert(StateID(k1 as u32)));
    assert forall|h: int| 0 <= h < pv_in.len() && h != g implies p1[h] == pv_in[h] by { }
    assert(es[k1 as int] == (true, tmap[g - 1]));
}
"""),
        Ins('after_stmt', 'initial_partition[0].insert(state);', """
proof {
    let p1 = pv(initial_partition@);
    assert(p1[0] == pv_in[0].insert(StateID(k1 as u32)));
    assert forall|h: int| 0 <= h < pv_in.len() && h != 0 implies p1[h] == pv_in[h] by { }
}
"""),
        Ins('block_end', 'for state in 0..dfa.states.len() {', """
proof {
    lemma_ip_step(es, tmap, pv_in, pv(initial_partition@), k1 as int);
    k1 = k1 + 1;
}
"""),
        Tail("""
proof {
    lemma_ip_final(*dfa, tmap, pv(__res@));
}
"""),
    ])

FUNCS = [
    Raw(umin.UNIT['items'][0].text.replace('pub type StateGroup = BTreeSet<StateID>;\n', '').replace('pub struct Minimizer;\n', ''), label='trusted std contract: Iterator::position; derived Ord of StateID'),
    Fn(F_MIN, 'TransitionsToPartitionGroups', 'new', ret='r', props=P, spec='ensures r.0@.len() == 0', external_body=True, trusted_reason='Self::default() of the derived Default: an empty vector (rule E4)'),
    Fn(F_MIN, 'TransitionsToPartitionGroups', 'with_capacity', ret='r', props=P, spec='ensures r.0@.len() == 0'),
    Fn(F_MIN, 'TransitionsToPartitionGroups', 'insert', props=P, spec='ensures final(self).0@ == old(self).0@.push((char_class, partition_group))'),
    umin.find_group,
    initial_partition,
]

UNIT = dict(
    name='u_mini',
    externs=['rustc_hash'],
    header='''#![feature(allocator_api)]
#![feature(sized_hierarchy)]
#![allow(unused_imports, unused_variables, unused_mut, unused_assignments, dead_code, unused_parens, unused_braces)]
use vstd::prelude::*;
use vstd::std_specs::iter::IteratorSpec;
use std::alloc::Allocator;
use rustc_hash::{FxHashMap, FxHashSet};
use std::collections::{BTreeMap, BTreeSet};
''',
    items=[
        IdMacro(F_IDS, 'StateID', members=('new', 'as_usize', 'id'), index_for=('Vec', 'slice'), specs=ID_SPECS, with_from=True),
        IdMacro(F_IDS, 'StateSetID', members=('new', 'as_usize', 'id'), index_for=('Vec',), specs=ID_SPECS, with_from=True),
        IdMacro(F_IDS, 'StateGroupID', members=('new', 'as_usize', 'id'), index_for=(), specs=ID_SPECS, with_from=True),
        IdMacro(F_IDS, 'CharClassID', members=('new', 'as_usize', 'id'), index_for=(), specs=ID_SPECS),
        IdMacro(F_IDS, 'TerminalID', members=('new', 'as_usize', 'id'), index_for=(), specs=ID_SPECS, with_from=True),
        Raw('''
#[verifier::external_type_specification]
#[verifier::external_body]
pub struct ExFxBuildHasher(rustc_hash::FxBuildHasher);
#[verifier::external_body] pub struct CompiledLookahead { _private: () }
''', label='external types; opaque CompiledLookahead'),
        Struct(F_DFA, 'StateData', derive=['Clone']),
        Fn(F_DFA, 'StateData', 'new', ret='r', props=P, spec='ensures r.transitions@.len() == 0'),
        Struct(F_DFA, 'CompiledDfa', derive=[]),
        RawFile(os.path.join(HERE, '..', 'common', 'clsf.rs'), 'clsf.rs'),
        RawFile(os.path.join(HERE, '..', 'common', 'sort_specs.rs'), 'sort_specs.rs'),
        RawFile('mini_spec.rs'),
        RawFile('mini_part.rs'),
        Raw('''
pub type StateGroup = BTreeSet<StateID>;
pub type Partition = Vec<StateGroup>;
pub type TransitionMap = BTreeMap<StateID, BTreeMap<CharClassID, Vec<StateID>>>;
pub struct Minimizer;
''', label='type aliases of minimizer.rs'),
        Struct(F_MIN, 'TransitionsToPartitionGroups', derive=['Debug', 'Default', 'Clone', 'PartialEq', 'Eq', 'PartialOrd', 'Ord'], structural=False),
    ] + FUNCS,
)
