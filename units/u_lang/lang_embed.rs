// ---------------------------------------------------------------- sub-automata inside a constructed automaton
/// well-formed, non-empty, and the end state has no outgoing edge (every Thompson automaton of this crate is like that)
pub open spec fn nice(a: NfaV) -> bool {
    v_wf(a) && a.states.len() >= 1 && a.states[a.end].eps.len() == 0 && a.states[a.end].trans.len() == 0
}
/// v holds a copy of a at offset off: every copied state keeps exactly its (renumbered) class edges; every copied state but the
/// end keeps exactly its epsilon edges; the copy of the end state may have gained epsilon edges
pub open spec fn embeds(v: NfaV, a: NfaV, off: int) -> bool {
    &&& 0 <= off && off + a.states.len() <= v.states.len()
    &&& forall|j: int| off <= j < off + a.states.len() ==> (#[trigger] v.states[j]).trans == sv_shift(a.states[j - off], off).trans
    &&& forall|j: int| off <= j < off + a.states.len() && j != off + a.end ==> (#[trigger] v.states[j]).eps == sv_shift(a.states[j - off], off).eps
}
pub open spec fn shift_path(p: VPath, off: int) -> VPath { VPath { nodes: Seq::new(p.nodes.len(), |i: int| p.nodes[i] + off), labs: p.labs } }

pub proof fn lemma_edge_shift(v: NfaV, a: NfaV, off: int, cls: ClsF, x: int, l: Option<char>, y: int)
    requires embeds(v, a, off), nice(a), v_edge(a, cls, x, l, y)
    ensures v_edge(v, cls, x + off, l, y + off)
{
    let j = x + off;
    assert(x != a.end);
    assert(v.states[j].trans == sv_shift(a.states[j - off], off).trans);
    assert(v.states[j].eps == sv_shift(a.states[j - off], off).eps);
    match l {
        None => {
            let k = choose|k: int| 0 <= k < a.states[x].eps.len() && #[trigger] a.states[x].eps[k] == y;
            assert(v.states[j].eps[k] == y + off);
        }
        Some(c) => {
            let k = choose|k: int| 0 <= k < a.states[x].trans.len() && cls((#[trigger] a.states[x].trans[k]).0, c) && a.states[x].trans[k].1 == y;
            assert(v.states[j].trans[k] == (a.states[x].trans[k].0, y + off));
        }
    }
}
/// runs of the copy are runs of v
pub proof fn lemma_embed_lang(v: NfaV, a: NfaV, off: int, cls: ClsF, x: int, y: int, w: Seq<char>)
    requires embeds(v, a, off), nice(a), v_lang(a, cls, x, y, w)
    ensures v_lang(v, cls, x + off, y + off, w)
{
    reveal(edges_ok);
    let p = choose|p: VPath| #[trigger] path_from_to(a, cls, p, x, y, w);
    let q = shift_path(p, off);
    assert forall|i: int| 0 <= i < q.labs.len() implies v_edge(v, cls, #[trigger] q.nodes[i], q.labs[i], q.nodes[i + 1]) by {
        assert(v_edge(a, cls, p.nodes[i], p.labs[i], p.nodes[i + 1]));
        lemma_edge_shift(v, a, off, cls, p.nodes[i], p.labs[i], p.nodes[i + 1]);
    }
    assert(path_from_to(v, cls, q, x + off, y + off, w));
}
/// an edge of v leaving an interior state of the copy is an edge of a
pub proof fn lemma_edge_unshift(v: NfaV, a: NfaV, off: int, cls: ClsF, j: int, l: Option<char>, t: int)
    requires embeds(v, a, off), nice(a), off <= j < off + a.states.len(), j != off + a.end, v_edge(v, cls, j, l, t)
    ensures off <= t < off + a.states.len(), v_edge(a, cls, j - off, l, t - off)
{
    let x = j - off;
    assert(v.states[j].trans == sv_shift(a.states[x], off).trans);
    assert(v.states[j].eps == sv_shift(a.states[x], off).eps);
    match l {
        None => {
            let k = choose|k: int| 0 <= k < v.states[j].eps.len() && #[trigger] v.states[j].eps[k] == t;
            assert(sv_shift(a.states[x], off).eps[k] == a.states[x].eps[k] + off);
            assert(0 <= a.states[x].eps[k] < a.states.len());
        }
        Some(c) => {
            let k = choose|k: int| 0 <= k < v.states[j].trans.len() && cls((#[trigger] v.states[j].trans[k]).0, c) && v.states[j].trans[k].1 == t;
            assert(sv_shift(a.states[x], off).trans[k] == (a.states[x].trans[k].0, a.states[x].trans[k].1 + off));
            assert(0 <= a.states[x].trans[k].1 < a.states.len());
        }
    }
}
/// a run of v that starts inside the copy stays a run of a until it first stands on the copy's end state (or ends)
pub proof fn lemma_project(v: NfaV, a: NfaV, off: int, cls: ClsF, p: VPath) -> (i: int)
    requires embeds(v, a, off), nice(a), is_path(v, cls, p), off <= p.nodes[0] < off + a.states.len()
    ensures
        0 <= i < p.nodes.len(), off <= p.nodes[i] < off + a.states.len(),
        v_lang(a, cls, p.nodes[0] - off, p.nodes[i] - off, labs_word(p.labs.take(i))),
        p.nodes[i] == off + a.end || i == p.nodes.len() - 1,
    decreases p.labs.len()
{
    lemma_path_len(v, cls, p);
    if p.nodes[0] == off + a.end || p.labs.len() == 0 {
        lemma_lang_refl(a, cls, p.nodes[0] - off);
        assert(p.labs.take(0) =~= Seq::<Option<char>>::empty());
        0
    } else {
        assert(v_edge(v, cls, p.nodes[0], p.labs[0], p.nodes[1])) by { reveal(edges_ok); }
        lemma_edge_unshift(v, a, off, cls, p.nodes[0], p.labs[0], p.nodes[1]);
        lemma_path_split(v, cls, p, 1);
        let q = path_skip(p, 1);
        let i1 = lemma_project(v, a, off, cls, q);
        lemma_lang_edge(a, cls, p.nodes[0] - off, p.labs[0], p.nodes[1] - off);
        lemma_lang_cat(a, cls, p.nodes[0] - off, p.nodes[1] - off, q.nodes[i1] - off, lab_word(p.labs[0]), labs_word(q.labs.take(i1)));
        assert(q.nodes[i1] == p.nodes[i1 + 1]);
        assert(p.labs.take(i1 + 1) =~= seq![p.labs[0]] + q.labs.take(i1));
        lemma_labs_word_concat(seq![p.labs[0]], q.labs.take(i1));
        lemma_labs_word_one(p.labs[0]);
        i1 + 1
    }
}
