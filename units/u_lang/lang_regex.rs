// ---------------------------------------------------------------- the language of a regex AST, and the theorem
/// meaning of a leaf (literal, dot, class) on one character: supplied by the class layer (C08), abstract here
pub type LeafF = spec_fn(Ast, char) -> bool;
pub open spec fn is_nat(k: nat) -> bool { true }

/// the words a regex AST matches in full (leaves match exactly one character)
pub open spec fn re_lang(a: Ast, lf: LeafF, w: Seq<char>) -> bool
    decreases a, 0int
{
    match a {
        Ast::Repetition(r) => match r.op.kind {
            RepetitionKind::ZeroOrOne => w.len() == 0 || re_lang(*r.ast, lf, w),
            RepetitionKind::ZeroOrMore => exists|k: nat| #[trigger] is_nat(k) && re_pow(*r.ast, lf, k, w),
            RepetitionKind::OneOrMore => exists|k: nat| #[trigger] is_nat(k) && k >= 1 && re_pow(*r.ast, lf, k, w),
            RepetitionKind::Range(rr) => match rr {
                // x{c}: c copies
                RepetitionRange::Exactly(c) => re_rep(*r.ast, lf, c as nat, w),
                // x{c,}: c copies, then any number
                RepetitionRange::AtLeast(c) => exists|u: Seq<char>, x: Seq<char>| #[trigger] splits(w, u, x) && re_rep(*r.ast, lf, c as nat, u)
                    && exists|k: nat| #[trigger] is_nat(k) && re_pow(*r.ast, lf, k, x),
                // x{l,m}: l copies, then (m - l) optional copies
                RepetitionRange::Bounded(l, m) => re_rep_opt(*r.ast, lf, l as nat, (if m >= l { m - l } else { 0 }) as nat, w),
            },
        },
        Ast::Group(g) => re_lang(*g.ast, lf, w),
        Ast::Alternation(x) => re_alt(x.asts@, x.asts@.len() as int, lf, w),
        Ast::Concat(x) => re_cat(x.asts@, x.asts@.len() as int, lf, w),
        Ast::Empty(_) => w.len() == 0,
        _ => w.len() == 1 && lf(a, w[0]),
    }
}
/// k copies (prepend form)
pub open spec fn re_pow(a: Ast, lf: LeafF, k: nat, w: Seq<char>) -> bool
    decreases a, 1 + k
{
    if k == 0 { w.len() == 0 } else {
        exists|u: Seq<char>, x: Seq<char>| #[trigger] splits(w, u, x) && re_lang(a, lf, u) && re_pow(a, lf, (k - 1) as nat, x)
    }
}
/// k copies (append form)
pub open spec fn re_rep(a: Ast, lf: LeafF, k: nat, w: Seq<char>) -> bool
    decreases a, 1 + k
{
    if k == 0 { w.len() == 0 } else {
        exists|u: Seq<char>, x: Seq<char>| #[trigger] splits(w, u, x) && re_rep(a, lf, (k - 1) as nat, u) && re_lang(a, lf, x)
    }
}
/// l copies followed by j optional copies
pub open spec fn re_rep_opt(a: Ast, lf: LeafF, l: nat, j: nat, w: Seq<char>) -> bool
    decreases a, 1 + l + j + 1
{
    if j == 0 { re_rep(a, lf, l, w) } else {
        exists|u: Seq<char>, x: Seq<char>| #[trigger] splits(w, u, x) && re_rep_opt(a, lf, l, (j - 1) as nat, u) && (x.len() == 0 || re_lang(a, lf, x))
    }
}
/// concatenation of the first n sub-patterns
pub open spec fn re_cat(asts: Seq<Ast>, n: int, lf: LeafF, w: Seq<char>) -> bool
    decreases asts, n
{
    if n <= 0 || n > asts.len() { w.len() == 0 } else {
        exists|u: Seq<char>, x: Seq<char>| #[trigger] splits(w, u, x) && re_cat(asts, n - 1, lf, u) && re_lang(asts[n - 1], lf, x)
    }
}
/// one of the first n branches (no branch at all: the empty pattern)
pub open spec fn re_alt(asts: Seq<Ast>, n: int, lf: LeafF, w: Seq<char>) -> bool
    decreases asts, n
{
    if n <= 0 || n > asts.len() { w.len() == 0 }
    else if n == 1 { re_lang(asts[0], lf, w) }
    else { re_alt(asts, n - 1, lf, w) || re_lang(asts[n - 1], lf, w) }
}

/// the class predicate the scanner evaluates agrees with the leaf meaning of the registered ASTs
pub open spec fn cls_ok(cls: ClsF, lf: LeafF, reg: Seq<Ast>) -> bool {
    forall|id: int, c: char| 0 <= id < reg.len() && id <= u32::MAX ==> cls(CharClassID(id as u32), c) == #[trigger] lf(reg[id], c)
}
/// ASTs the registry identifies have the same meaning
pub open spec fn lf_respects(lf: LeafF) -> bool {
    forall|a: Ast, b: Ast, c: char| #![trigger same_class(a, b), lf(b, c)] same_class(a, b) ==> lf(a, c) == lf(b, c)
}
