// ---------------------------------------------------------------- bridges between automaton-level and regex-level powers, and the theorem
/// acc followed by k words of x (append form, the shape of v_rep)
pub open spec fn rep_accepts(acc: NfaV, x: NfaV, cls: ClsF, k: nat, w: Seq<char>) -> bool
    decreases k
{
    if k == 0 { v_accepts(acc, cls, w) } else {
        exists|u: Seq<char>, xx: Seq<char>| #[trigger] splits(w, u, xx) && rep_accepts(acc, x, cls, (k - 1) as nat, u) && v_accepts(x, cls, xx)
    }
}
pub proof fn lemma_rep_nice(acc: NfaV, x: NfaV, k: nat)
    requires nice(acc), nice(x)
    ensures nice(v_rep(acc, x, k))
    decreases k
{
    if k > 0 {
        lemma_rep_nice(acc, x, (k - 1) as nat);
        lemma_lang_concat(v_rep(acc, x, (k - 1) as nat), x, |c: CharClassID, ch: char| true, Seq::<char>::empty());
    }
}
pub proof fn lemma_lang_rep(acc: NfaV, x: NfaV, cls: ClsF, k: nat, w: Seq<char>)
    requires nice(acc), nice(x)
    ensures v_accepts(v_rep(acc, x, k), cls, w) <==> rep_accepts(acc, x, cls, k, w)
    decreases k
{
    if k > 0 {
        let prev = v_rep(acc, x, (k - 1) as nat);
        lemma_rep_nice(acc, x, (k - 1) as nat);
        lemma_lang_concat(prev, x, cls, w);
        if v_accepts(v_rep(acc, x, k), cls, w) {
            let (u, xx) = choose|u: Seq<char>, xx: Seq<char>| #![trigger v_accepts(prev, cls, u), v_accepts(x, cls, xx)] w == u + xx && v_accepts(prev, cls, u) && v_accepts(x, cls, xx);
            lemma_lang_rep(acc, x, cls, (k - 1) as nat, u);
            assert(splits(w, u, xx));
        }
        if rep_accepts(acc, x, cls, k, w) {
            let (u, xx) = choose|u: Seq<char>, xx: Seq<char>| #[trigger] splits(w, u, xx) && rep_accepts(acc, x, cls, (k - 1) as nat, u) && v_accepts(x, cls, xx);
            lemma_lang_rep(acc, x, cls, (k - 1) as nat, u);
            assert(v_accepts(prev, cls, u) && v_accepts(x, cls, xx));
        }
    }
}
/// hypothesis of the bridges: automaton x accepts exactly the language of the sub-pattern
pub open spec fn same_lang(x: NfaV, cls: ClsF, sub: Ast, lf: LeafF) -> bool {
    forall|u: Seq<char>| #![trigger v_accepts(x, cls, u)] #![trigger re_lang(sub, lf, u)] v_accepts(x, cls, u) <==> re_lang(sub, lf, u)
}
pub proof fn lemma_rep_bridge(x: NfaV, sub: Ast, cls: ClsF, lf: LeafF, k: nat, w: Seq<char>)
    requires same_lang(x, cls, sub, lf)
    ensures rep_accepts(v_new(), x, cls, k, w) <==> re_rep(sub, lf, k, w)
    decreases k
{
    if k == 0 { lemma_lang_new(cls, w); } else {
        if rep_accepts(v_new(), x, cls, k, w) {
            let (u, xx) = choose|u: Seq<char>, xx: Seq<char>| #[trigger] splits(w, u, xx) && rep_accepts(v_new(), x, cls, (k - 1) as nat, u) && v_accepts(x, cls, xx);
            lemma_rep_bridge(x, sub, cls, lf, (k - 1) as nat, u);
            assert(splits(w, u, xx) && re_rep(sub, lf, (k - 1) as nat, u) && re_lang(sub, lf, xx));
        }
        if re_rep(sub, lf, k, w) {
            let (u, xx) = choose|u: Seq<char>, xx: Seq<char>| #[trigger] splits(w, u, xx) && re_rep(sub, lf, (k - 1) as nat, u) && re_lang(sub, lf, xx);
            lemma_rep_bridge(x, sub, cls, lf, (k - 1) as nat, u);
            assert(splits(w, u, xx) && rep_accepts(v_new(), x, cls, (k - 1) as nat, u) && v_accepts(x, cls, xx));
        }
    }
}
pub proof fn lemma_pow_bridge(x: NfaV, sub: Ast, cls: ClsF, lf: LeafF, k: nat, w: Seq<char>)
    requires same_lang(x, cls, sub, lf)
    ensures pow_accepts(x, cls, k, w) <==> re_pow(sub, lf, k, w)
    decreases k
{
    if k > 0 {
        if pow_accepts(x, cls, k, w) {
            let (u, xx) = choose|u: Seq<char>, xx: Seq<char>| #[trigger] splits(w, u, xx) && v_accepts(x, cls, u) && pow_accepts(x, cls, (k - 1) as nat, xx);
            lemma_pow_bridge(x, sub, cls, lf, (k - 1) as nat, xx);
            assert(splits(w, u, xx) && re_lang(sub, lf, u) && re_pow(sub, lf, (k - 1) as nat, xx));
        }
        if re_pow(sub, lf, k, w) {
            let (u, xx) = choose|u: Seq<char>, xx: Seq<char>| #[trigger] splits(w, u, xx) && re_lang(sub, lf, u) && re_pow(sub, lf, (k - 1) as nat, xx);
            lemma_pow_bridge(x, sub, cls, lf, (k - 1) as nat, xx);
            assert(splits(w, u, xx) && v_accepts(x, cls, u) && pow_accepts(x, cls, (k - 1) as nat, xx));
        }
    }
}
/// x{l,m}: l copies, then j optional copies
pub proof fn lemma_rep_opt_bridge(x: NfaV, sub: Ast, cls: ClsF, lf: LeafF, l: nat, j: nat, w: Seq<char>)
    requires same_lang(x, cls, sub, lf), nice(x)
    ensures rep_accepts(v_rep(v_new(), x, l), v_opt(x), cls, j, w) <==> re_rep_opt(sub, lf, l, j, w)
    decreases j
{
    let base = v_rep(v_new(), x, l);
    lemma_lang_new(cls, w);
    if j == 0 {
        lemma_lang_rep(v_new(), x, cls, l, w);
        lemma_rep_bridge(x, sub, cls, lf, l, w);
    } else {
        if rep_accepts(base, v_opt(x), cls, j, w) {
            let (u, xx) = choose|u: Seq<char>, xx: Seq<char>| #[trigger] splits(w, u, xx) && rep_accepts(base, v_opt(x), cls, (j - 1) as nat, u) && v_accepts(v_opt(x), cls, xx);
            lemma_rep_opt_bridge(x, sub, cls, lf, l, (j - 1) as nat, u);
            lemma_lang_opt(x, cls, xx);
            assert(splits(w, u, xx) && re_rep_opt(sub, lf, l, (j - 1) as nat, u) && (xx.len() == 0 || re_lang(sub, lf, xx)));
        }
        if re_rep_opt(sub, lf, l, j, w) {
            let (u, xx) = choose|u: Seq<char>, xx: Seq<char>| #[trigger] splits(w, u, xx) && re_rep_opt(sub, lf, l, (j - 1) as nat, u) && (xx.len() == 0 || re_lang(sub, lf, xx));
            lemma_rep_opt_bridge(x, sub, cls, lf, l, (j - 1) as nat, u);
            lemma_lang_opt(x, cls, xx);
            assert(splits(w, u, xx) && rep_accepts(base, v_opt(x), cls, (j - 1) as nat, u) && v_accepts(v_opt(x), cls, xx));
        }
    }
}

// ---- registry growth
pub open spec fn pre(a: Seq<Ast>, b: Seq<Ast>) -> bool { a.len() <= b.len() && forall|i: int| 0 <= i < a.len() ==> #[trigger] a[i] == b[i] }
pub proof fn lemma_pre_trans(a: Seq<Ast>, b: Seq<Ast>, c: Seq<Ast>)
    requires pre(a, b), pre(b, c)
    ensures pre(a, c)
{
    assert forall|i: int| 0 <= i < a.len() implies #[trigger] a[i] == c[i] by { assert(a[i] == b[i]); assert(b[i] == c[i]); }
}
pub proof fn lemma_cls_ok_pre(cls: ClsF, lf: LeafF, reg: Seq<Ast>, reg2: Seq<Ast>)
    requires pre(reg, reg2), cls_ok(cls, lf, reg2)
    ensures cls_ok(cls, lf, reg)
{
    assert forall|id: int, c: char| 0 <= id < reg.len() && id <= u32::MAX implies cls(CharClassID(id as u32), c) == #[trigger] lf(reg[id], c) by {
        assert(reg[id] == reg2[id]);
        assert(cls(CharClassID(id as u32), c) == lf(reg2[id], c));
    }
}
pub proof fn lemma_leaf(a: Ast, reg: Seq<Ast>, reg2: Seq<Ast>, cls: ClsF, lf: LeafF, w: Seq<char>)
    requires lf_respects(lf), reg.len() < u32::MAX, pre(reg_add(reg, a).1, reg2), cls_ok(cls, lf, reg2)
    ensures
        nice(v_leaf(reg_add(reg, a).0)), pre(reg, reg_add(reg, a).1),
        v_accepts(v_leaf(reg_add(reg, a).0), cls, w) <==> (w.len() == 1 && lf(a, w[0])),
{
    let (id, r1) = reg_add(reg, a);
    if exists|i: int| reg_has(reg, a, i) {
        let i = choose|i: int| reg_has(reg, a, i);
        assert(id == i && r1 == reg);
    } else {
        assert(id == reg.len() && r1 == reg.push(a));
    }
    assert(0 <= id <= reg.len());
    lemma_lang_leaf(id, cls, w);
    if w.len() == 1 {
        assert(0 <= id < reg2.len());
        assert(cls(CharClassID(id as u32), w[0]) == lf(reg2[id], w[0]));
        assert(reg2[id] == r1[id]);
        if exists|i: int| reg_has(reg, a, i) {
            assert(same_class(reg[id], a));
            assert(lf(reg[id], w[0]) == lf(a, w[0]));
        } else {
            assert(r1[id] == a);
        }
    }
}

// ---------------------------------------------------------------- THEOREM: the Thompson automaton of an AST accepts exactly the language of the AST
pub proof fn theorem_thompson_language(a: Ast, reg: Seq<Ast>, reg2: Seq<Ast>, cls: ClsF, lf: LeafF, w: Seq<char>)
    requires lf_respects(lf), th_fits(a, reg), pre(thompson(a, reg).1, reg2), cls_ok(cls, lf, reg2)
    ensures
        nice(thompson(a, reg).0), pre(reg, thompson(a, reg).1),
        v_accepts(thompson(a, reg).0, cls, w) <==> re_lang(a, lf, w),
    decreases a, 0int
{
    match a {
        Ast::Repetition(r) => {
            let sub = *r.ast;
            let (x, r1) = thompson(sub, reg);
            theorem_thompson_language(sub, reg, reg2, cls, lf, w);
            assert(same_lang(x, cls, sub, lf)) by {
                assert forall|u: Seq<char>| #![trigger v_accepts(x, cls, u)] #![trigger re_lang(sub, lf, u)] v_accepts(x, cls, u) <==> re_lang(sub, lf, u) by {
                    theorem_thompson_language(sub, reg, reg2, cls, lf, u);
                }
            }
            match r.op.kind {
                RepetitionKind::ZeroOrOne => { lemma_opt_shape(x); lemma_lang_opt(x, cls, w); }
                RepetitionKind::ZeroOrMore => {
                    lemma_star_shape(x); lemma_lang_star(x, cls, w);
                    if exists|k: nat| #[trigger] pow_accepts(x, cls, k, w) {
                        let k = choose|k: nat| #[trigger] pow_accepts(x, cls, k, w);
                        lemma_pow_bridge(x, sub, cls, lf, k, w);
                        assert(is_nat(k) && re_pow(sub, lf, k, w));
                    }
                    if exists|k: nat| #[trigger] is_nat(k) && re_pow(sub, lf, k, w) {
                        let k = choose|k: nat| #[trigger] is_nat(k) && re_pow(sub, lf, k, w);
                        lemma_pow_bridge(x, sub, cls, lf, k, w);
                        assert(pow_accepts(x, cls, k, w));
                    }
                }
                RepetitionKind::OneOrMore => {
                    lemma_plus_shape(x); lemma_lang_plus(x, cls, w);
                    if exists|k: nat| k >= 1 && #[trigger] pow_accepts(x, cls, k, w) {
                        let k = choose|k: nat| k >= 1 && #[trigger] pow_accepts(x, cls, k, w);
                        lemma_pow_bridge(x, sub, cls, lf, k, w);
                        assert(is_nat(k) && k >= 1 && re_pow(sub, lf, k, w));
                    }
                    if exists|k: nat| #[trigger] is_nat(k) && k >= 1 && re_pow(sub, lf, k, w) {
                        let k = choose|k: nat| #[trigger] is_nat(k) && k >= 1 && re_pow(sub, lf, k, w);
                        lemma_pow_bridge(x, sub, cls, lf, k, w);
                        assert(k >= 1 && pow_accepts(x, cls, k, w));
                    }
                }
                RepetitionKind::Range(rr) => {
                    lemma_lang_new(cls, w);
                    match rr {
                        RepetitionRange::Exactly(c) => {
                            lemma_rep_nice(v_new(), x, c as nat);
                            lemma_lang_rep(v_new(), x, cls, c as nat, w);
                            lemma_rep_bridge(x, sub, cls, lf, c as nat, w);
                        }
                        RepetitionRange::AtLeast(c) => {
                            let rp = v_rep(v_new(), x, c as nat);
                            let st = v_star(x);
                            lemma_rep_nice(v_new(), x, c as nat);
                            lemma_star_shape(x);
                            lemma_lang_concat(rp, st, cls, w);
                            if cat_accepts(rp, st, cls, w) {
                                let (u, xx) = choose|u: Seq<char>, xx: Seq<char>| #![trigger v_accepts(rp, cls, u), v_accepts(st, cls, xx)] w == u + xx && v_accepts(rp, cls, u) && v_accepts(st, cls, xx);
                                lemma_lang_rep(v_new(), x, cls, c as nat, u);
                                lemma_rep_bridge(x, sub, cls, lf, c as nat, u);
                                lemma_lang_star(x, cls, xx);
                                let k = choose|k: nat| #[trigger] pow_accepts(x, cls, k, xx);
                                lemma_pow_bridge(x, sub, cls, lf, k, xx);
                                assert(is_nat(k) && re_pow(sub, lf, k, xx));
                                assert(splits(w, u, xx));
                            }
                            if re_lang(a, lf, w) {
                                let (u, xx) = choose|u: Seq<char>, xx: Seq<char>| #[trigger] splits(w, u, xx) && re_rep(sub, lf, c as nat, u)
                                    && exists|k: nat| #[trigger] is_nat(k) && re_pow(sub, lf, k, xx);
                                let k = choose|k: nat| #[trigger] is_nat(k) && re_pow(sub, lf, k, xx);
                                lemma_lang_rep(v_new(), x, cls, c as nat, u);
                                lemma_rep_bridge(x, sub, cls, lf, c as nat, u);
                                lemma_pow_bridge(x, sub, cls, lf, k, xx);
                                lemma_lang_star(x, cls, xx);
                                assert(v_accepts(rp, cls, u) && v_accepts(st, cls, xx));
                            }
                        }
                        RepetitionRange::Bounded(l, m) => {
                            let j = (if m >= l { m - l } else { 0 }) as nat;
                            let base = v_rep(v_new(), x, l as nat);
                            lemma_rep_nice(v_new(), x, l as nat);
                            lemma_opt_shape(x);
                            lemma_rep_nice(base, v_opt(x), j);
                            lemma_lang_rep(base, v_opt(x), cls, j, w);
                            lemma_rep_opt_bridge(x, sub, cls, lf, l as nat, j, w);
                        }
                    }
                }
            }
        }
        Ast::Group(g) => { theorem_thompson_language(*g.ast, reg, reg2, cls, lf, w); }
        Ast::Alternation(x) => { lemma_th_alt(x.asts@, x.asts@.len() as int, reg, reg2, cls, lf, w); }
        Ast::Concat(x) => { lemma_th_cat(x.asts@, x.asts@.len() as int, reg, reg2, cls, lf, w); }
        Ast::Empty(_) => { lemma_lang_new(cls, w); }
        _ => { lemma_leaf(a, reg, reg2, cls, lf, w); }
    }
}
pub proof fn lemma_th_cat(asts: Seq<Ast>, n: int, reg: Seq<Ast>, reg2: Seq<Ast>, cls: ClsF, lf: LeafF, w: Seq<char>)
    requires lf_respects(lf), 0 <= n <= asts.len(), th_concat_fits(asts, n, reg), pre(th_concat(asts, n, reg).1, reg2), cls_ok(cls, lf, reg2)
    ensures
        nice(th_concat(asts, n, reg).0), pre(reg, th_concat(asts, n, reg).1),
        v_accepts(th_concat(asts, n, reg).0, cls, w) <==> re_cat(asts, n, lf, w),
    decreases asts, n
{
    if n <= 0 { lemma_lang_new(cls, w); } else {
        let (acc, r1) = th_concat(asts, n - 1, reg);
        let (b, r2) = thompson(asts[n - 1], r1);
        theorem_thompson_language(asts[n - 1], r1, reg2, cls, lf, w);
        lemma_pre_trans(r1, r2, reg2);
        lemma_th_cat(asts, n - 1, reg, reg2, cls, lf, w);
        lemma_pre_trans(reg, r1, r2);
        lemma_lang_concat(acc, b, cls, w);
        if cat_accepts(acc, b, cls, w) {
            let (u, xx) = choose|u: Seq<char>, xx: Seq<char>| #![trigger v_accepts(acc, cls, u), v_accepts(b, cls, xx)] w == u + xx && v_accepts(acc, cls, u) && v_accepts(b, cls, xx);
            lemma_th_cat(asts, n - 1, reg, reg2, cls, lf, u);
            theorem_thompson_language(asts[n - 1], r1, reg2, cls, lf, xx);
            assert(splits(w, u, xx) && re_cat(asts, n - 1, lf, u) && re_lang(asts[n - 1], lf, xx));
        }
        if re_cat(asts, n, lf, w) {
            let (u, xx) = choose|u: Seq<char>, xx: Seq<char>| #[trigger] splits(w, u, xx) && re_cat(asts, n - 1, lf, u) && re_lang(asts[n - 1], lf, xx);
            lemma_th_cat(asts, n - 1, reg, reg2, cls, lf, u);
            theorem_thompson_language(asts[n - 1], r1, reg2, cls, lf, xx);
            assert(v_accepts(acc, cls, u) && v_accepts(b, cls, xx));
        }
    }
}
pub proof fn lemma_th_alt(asts: Seq<Ast>, n: int, reg: Seq<Ast>, reg2: Seq<Ast>, cls: ClsF, lf: LeafF, w: Seq<char>)
    requires lf_respects(lf), 0 <= n <= asts.len(), th_alt_fits(asts, n, reg), pre(th_alt(asts, n, reg).1, reg2), cls_ok(cls, lf, reg2)
    ensures
        nice(th_alt(asts, n, reg).0), pre(reg, th_alt(asts, n, reg).1),
        v_accepts(th_alt(asts, n, reg).0, cls, w) <==> re_alt(asts, n, lf, w),
    decreases asts, n
{
    if n <= 0 { lemma_lang_new(cls, w); }
    else if n == 1 { theorem_thompson_language(asts[0], reg, reg2, cls, lf, w); }
    else {
        let (acc, r1) = th_alt(asts, n - 1, reg);
        let (b, r2) = thompson(asts[n - 1], r1);
        theorem_thompson_language(asts[n - 1], r1, reg2, cls, lf, w);
        lemma_pre_trans(r1, r2, reg2);
        lemma_th_alt(asts, n - 1, reg, reg2, cls, lf, w);
        lemma_pre_trans(reg, r1, r2);
        lemma_alt_shape(acc, b);
        lemma_lang_alt(acc, b, cls, w);
    }
}
