// ---------------------------------------------------------------- the start state of a Thompson automaton has no incoming edge
/// no edge (epsilon or class) of v leads to state x
pub open spec fn v_avoid(v: NfaV, x: int) -> bool {
    &&& forall|i: int, k: int| 0 <= i < v.states.len() && 0 <= k < v.states[i].eps.len() ==> #[trigger] v.states[i].eps[k] != x
    &&& forall|i: int, k: int| 0 <= i < v.states.len() && 0 <= k < v.states[i].trans.len() ==> (#[trigger] v.states[i].trans[k]).1 != x
}
pub open spec fn v_fresh(v: NfaV) -> bool { v_avoid(v, v.start) }

pub proof fn lemma_avoid_wf(v: NfaV, x: int)
    requires v_wf(v), x >= v.states.len() || x < 0
    ensures v_avoid(v, x)
{
}
pub proof fn lemma_avoid_add_eps(v: NfaV, from: int, to: int, x: int)
    requires v_avoid(v, x), 0 <= from < v.states.len(), to != x
    ensures v_avoid(v_add_eps(v, from, to), x), v_add_eps(v, from, to).states.len() == v.states.len()
{
    let v2 = v_add_eps(v, from, to);
    assert forall|i: int, k: int| 0 <= i < v2.states.len() && 0 <= k < v2.states[i].eps.len() implies #[trigger] v2.states[i].eps[k] != x by {
        if i == from { if k < v.states[i].eps.len() { assert(v2.states[i].eps[k] == v.states[i].eps[k]); } } else { assert(v2.states[i] == v.states[i]); }
    }
    assert forall|i: int, k: int| 0 <= i < v2.states.len() && 0 <= k < v2.states[i].trans.len() implies (#[trigger] v2.states[i].trans[k]).1 != x by {
        assert(v2.states[i].trans == v.states[i].trans);
        assert(v.states[i].trans[k].1 != x);
    }
}
pub proof fn lemma_avoid_push(v: NfaV, x: int)
    requires v_avoid(v, x)
    ensures v_avoid(v_push_state(v), x), v_push_state(v).states.len() == v.states.len() + 1
{
    let v2 = v_push_state(v);
    assert forall|i: int, k: int| 0 <= i < v2.states.len() && 0 <= k < v2.states[i].eps.len() implies #[trigger] v2.states[i].eps[k] != x by {
        if i < v.states.len() { assert(v2.states[i] == v.states[i]); assert(v.states[i].eps[k] != x); }
    }
    assert forall|i: int, k: int| 0 <= i < v2.states.len() && 0 <= k < v2.states[i].trans.len() implies (#[trigger] v2.states[i].trans[k]).1 != x by {
        if i < v.states.len() { assert(v2.states[i] == v.states[i]); assert(v.states[i].trans[k].1 != x); }
    }
}
pub proof fn lemma_avoid_join(a: NfaV, b: NfaV, start: int, end: int, x: int)
    requires v_avoid(a, x), v_avoid(b, x)
    ensures v_avoid(NfaV { states: a.states + b.states, start, end }, x)
{
    let j = NfaV { states: a.states + b.states, start, end };
    assert forall|i: int, k: int| 0 <= i < j.states.len() && 0 <= k < j.states[i].eps.len() implies #[trigger] j.states[i].eps[k] != x by {
        if i < a.states.len() { assert(j.states[i] == a.states[i]); assert(a.states[i].eps[k] != x); }
        else { assert(j.states[i] == b.states[i - a.states.len()]); assert(b.states[i - a.states.len()].eps[k] != x); }
    }
    assert forall|i: int, k: int| 0 <= i < j.states.len() && 0 <= k < j.states[i].trans.len() implies (#[trigger] j.states[i].trans[k]).1 != x by {
        if i < a.states.len() { assert(j.states[i] == a.states[i]); assert(a.states[i].trans[k].1 != x); }
        else { assert(j.states[i] == b.states[i - a.states.len()]); assert(b.states[i - a.states.len()].trans[k].1 != x); }
    }
}
pub proof fn lemma_avoid_retarget(v: NfaV, start: int, end: int, x: int)
    requires v_avoid(v, x)
    ensures v_avoid(NfaV { start, end, ..v }, x)
{
    let v2 = NfaV { start, end, ..v };
    assert forall|i: int, k: int| 0 <= i < v2.states.len() && 0 <= k < v2.states[i].eps.len() implies #[trigger] v2.states[i].eps[k] != x by { assert(v.states[i].eps[k] != x); }
    assert forall|i: int, k: int| 0 <= i < v2.states.len() && 0 <= k < v2.states[i].trans.len() implies (#[trigger] v2.states[i].trans[k]).1 != x by { assert(v.states[i].trans[k].1 != x); }
}
/// the shifted copy of b has no edge into states below the offset
pub proof fn lemma_avoid_shift_low(b: NfaV, n: int, x: int)
    requires v_wf(b), n >= 0, x < n || x >= n + b.states.len()
    ensures v_avoid(v_shift(b, n), x), v_shift(b, n).states.len() == b.states.len()
{
    lemma_shift_wf(b, n);
    let b2 = v_shift(b, n);
    assert forall|i: int, k: int| 0 <= i < b2.states.len() && 0 <= k < b2.states[i].eps.len() implies #[trigger] b2.states[i].eps[k] != x by { assert(n <= b2.states[i].eps[k] < n + b.states.len()); }
    assert forall|i: int, k: int| 0 <= i < b2.states.len() && 0 <= k < b2.states[i].trans.len() implies (#[trigger] b2.states[i].trans[k]).1 != x by { assert(n <= b2.states[i].trans[k].1 < n + b.states.len()); }
}
pub proof fn lemma_fresh_new() ensures v_fresh(v_new()) { }
pub proof fn lemma_fresh_leaf(id: int) ensures v_fresh(v_leaf(id))
{
    let v = v_leaf(id);
    assert forall|i: int, k: int| 0 <= i < v.states.len() && 0 <= k < v.states[i].trans.len() implies (#[trigger] v.states[i].trans[k]).1 != v.start by {
        if i == 0 { assert(v.states[0].trans[k] == (CharClassID(id as u32), 1int)); }
    }
}
pub proof fn lemma_fresh_concat(a: NfaV, b: NfaV)
    requires v_fresh(a), v_fresh(b), v_wf(a), v_wf(b)
    ensures v_fresh(v_concat(a, b))
{
    if !v_is_empty(a) {
        let n = a.states.len() as int;
        let b2 = v_shift(b, n);
        lemma_shift_wf(b, n);
        lemma_avoid_shift_low(b, n, a.start);
        let joined = NfaV { states: a.states + b2.states, start: a.start, end: a.end };
        lemma_avoid_join(a, b2, a.start, a.end, a.start);
        lemma_avoid_add_eps(joined, a.end, b2.start, a.start);
        lemma_avoid_retarget(v_add_eps(joined, a.end, b2.start), a.start, b2.end, a.start);
    }
}
pub proof fn lemma_fresh_alt(a: NfaV, b: NfaV)
    requires v_wf(a), v_wf(b)
    ensures v_fresh(v_alt(a, b))
{
    let n = a.states.len() as int;
    let b2 = v_shift(b, n);
    lemma_shift_wf(b, n);
    let joined = NfaV { states: a.states + b2.states, start: a.start, end: a.end };
    let s = joined.states.len() as int;
    lemma_avoid_wf(a, s);
    lemma_avoid_shift_low(b, n, s);
    lemma_avoid_join(a, b2, a.start, a.end, s);
    let p1 = v_push_state(joined);
    lemma_avoid_push(joined, s);
    let q1 = v_add_eps(p1, s, a.start);
    lemma_avoid_add_eps(p1, s, a.start, s);
    let v1 = v_add_eps(q1, s, b2.start);
    lemma_avoid_add_eps(q1, s, b2.start, s);
    let e = s + 1;
    let p2 = v_push_state(v1);
    lemma_avoid_push(v1, s);
    let q2 = v_add_eps(p2, a.end, e);
    lemma_avoid_add_eps(p2, a.end, e, s);
    let v2 = v_add_eps(q2, b2.end, e);
    lemma_avoid_add_eps(q2, b2.end, e, s);
    lemma_avoid_retarget(v2, s, e, s);
}
pub proof fn lemma_fresh_opt(a: NfaV)
    requires v_wf(a)
    ensures v_fresh(v_opt(a))
{
    let s = a.states.len() as int;
    lemma_avoid_wf(a, s);
    let p1 = v_push_state(a);
    lemma_avoid_push(a, s);
    let q1 = v_add_eps(p1, s, a.start);
    lemma_avoid_add_eps(p1, s, a.start, s);
    let v1 = v_add_eps(q1, s, a.end);
    lemma_avoid_add_eps(q1, s, a.end, s);
    lemma_avoid_retarget(v1, s, v1.end, s);
}
pub proof fn lemma_fresh_plus(a: NfaV)
    requires v_wf(a)
    ensures v_fresh(v_plus(a))
{
    let s = a.states.len() as int;
    lemma_avoid_wf(a, s);
    let p1 = v_push_state(a);
    lemma_avoid_push(a, s);
    let v1 = v_add_eps(p1, s, a.start);
    lemma_avoid_add_eps(p1, s, a.start, s);
    let e = s + 1;
    let p2 = v_push_state(v1);
    lemma_avoid_push(v1, s);
    let q2 = v_add_eps(p2, a.end, e);
    lemma_avoid_add_eps(p2, a.end, e, s);
    let v2 = v_add_eps(q2, a.end, a.start);
    lemma_avoid_add_eps(q2, a.end, a.start, s);
    lemma_avoid_retarget(v2, s, e, s);
}
pub proof fn lemma_fresh_star(a: NfaV)
    requires v_wf(a)
    ensures v_fresh(v_star(a))
{
    let s = a.states.len() as int;
    lemma_avoid_wf(a, s);
    let p1 = v_push_state(a);
    lemma_avoid_push(a, s);
    let q1 = v_add_eps(p1, s, a.start);
    lemma_avoid_add_eps(p1, s, a.start, s);
    let v1 = v_add_eps(q1, s, a.end);
    lemma_avoid_add_eps(q1, s, a.end, s);
    let e = s + 1;
    let p2 = v_push_state(v1);
    lemma_avoid_push(v1, s);
    let q2 = v_add_eps(p2, a.end, e);
    lemma_avoid_add_eps(p2, a.end, e, s);
    let v2 = v_add_eps(q2, a.end, a.start);
    lemma_avoid_add_eps(q2, a.end, a.start, s);
    lemma_avoid_retarget(v2, s, e, s);
}
pub proof fn lemma_fresh_rep(acc: NfaV, x: NfaV, k: nat)
    requires v_fresh(acc), v_fresh(x), nice(acc), nice(x)
    ensures v_fresh(v_rep(acc, x, k)), nice(v_rep(acc, x, k))
    decreases k
{
    lemma_rep_nice(acc, x, k);
    if k > 0 {
        lemma_fresh_rep(acc, x, (k - 1) as nat);
        lemma_fresh_concat(v_rep(acc, x, (k - 1) as nat), x);
    }
}
/// THEOREM: no edge of thompson(a, reg) leads to its start state
pub proof fn theorem_thompson_start_fresh(a: Ast, reg: Seq<Ast>)
    requires th_fits(a, reg)
    ensures v_fresh(thompson(a, reg).0)
    decreases a, 0int
{
    lemma_th_nice(a, reg);
    match a {
        Ast::Repetition(r) => {
            let (x, r1) = thompson(*r.ast, reg);
            theorem_thompson_start_fresh(*r.ast, reg);
            lemma_th_nice(*r.ast, reg);
            lemma_fresh_new();
            assert(nice(v_new()));
            match r.op.kind {
                RepetitionKind::ZeroOrOne => { lemma_fresh_opt(x); }
                RepetitionKind::ZeroOrMore => { lemma_fresh_star(x); }
                RepetitionKind::OneOrMore => { lemma_fresh_plus(x); }
                RepetitionKind::Range(rr) => match rr {
                    RepetitionRange::Exactly(c) => { lemma_fresh_rep(v_new(), x, c as nat); }
                    RepetitionRange::AtLeast(c) => {
                        lemma_fresh_rep(v_new(), x, c as nat);
                        lemma_fresh_star(x);
                        lemma_lang_star(x, |cc: CharClassID, ch: char| true, Seq::<char>::empty());
                        lemma_fresh_concat(v_rep(v_new(), x, c as nat), v_star(x));
                    }
                    RepetitionRange::Bounded(l, m) => {
                        lemma_fresh_rep(v_new(), x, l as nat);
                        lemma_fresh_opt(x);
                        lemma_lang_opt(x, |cc: CharClassID, ch: char| true, Seq::<char>::empty());
                        lemma_fresh_rep(v_rep(v_new(), x, l as nat), v_opt(x), (if m >= l { m - l } else { 0 }) as nat);
                    }
                },
            }
        }
        Ast::Group(g) => { theorem_thompson_start_fresh(*g.ast, reg); }
        Ast::Alternation(x) => { lemma_fresh_th_alt(x.asts@, x.asts@.len() as int, reg); }
        Ast::Concat(x) => { lemma_fresh_th_cat(x.asts@, x.asts@.len() as int, reg); }
        Ast::Empty(_) => { lemma_fresh_new(); }
        _ => { let (id, r1) = reg_add(reg, a); lemma_fresh_leaf(id); }
    }
}
pub proof fn lemma_fresh_th_cat(asts: Seq<Ast>, n: int, reg: Seq<Ast>)
    requires 0 <= n <= asts.len(), th_concat_fits(asts, n, reg)
    ensures v_fresh(th_concat(asts, n, reg).0)
    decreases asts, n
{
    if n <= 0 { lemma_fresh_new(); } else {
        let (acc, r1) = th_concat(asts, n - 1, reg);
        let (b, r2) = thompson(asts[n - 1], r1);
        lemma_fresh_th_cat(asts, n - 1, reg);
        theorem_thompson_start_fresh(asts[n - 1], r1);
        lemma_cat_nice(asts, n - 1, reg);
        lemma_th_nice(asts[n - 1], r1);
        lemma_fresh_concat(acc, b);
    }
}
pub proof fn lemma_fresh_th_alt(asts: Seq<Ast>, n: int, reg: Seq<Ast>)
    requires 0 <= n <= asts.len(), th_alt_fits(asts, n, reg)
    ensures v_fresh(th_alt(asts, n, reg).0)
    decreases asts, n
{
    if n <= 0 { lemma_fresh_new(); }
    else if n == 1 { theorem_thompson_start_fresh(asts[0], reg); }
    else {
        let (acc, r1) = th_alt(asts, n - 1, reg);
        let (b, r2) = thompson(asts[n - 1], r1);
        lemma_alt_nice(asts, n - 1, reg);
        lemma_th_nice(asts[n - 1], r1);
        lemma_fresh_alt(acc, b);
    }
}
