// ---------------------------------------------------------------- U-lang: runs of an NFA view, as explicit node / label sequences

/// a --lab--> b is an edge of v (None: epsilon edge; Some(c): a class edge whose class holds for c)
pub open spec fn v_edge(v: NfaV, cls: ClsF, a: int, lab: Option<char>, b: int) -> bool {
    0 <= a < v.states.len() && match lab {
        None => exists|k: int| 0 <= k < v.states[a].eps.len() && #[trigger] v.states[a].eps[k] == b,
        Some(c) => exists|k: int| 0 <= k < v.states[a].trans.len() && cls((#[trigger] v.states[a].trans[k]).0, c) && v.states[a].trans[k].1 == b,
    }
}
pub struct VPath { pub nodes: Seq<int>, pub labs: Seq<Option<char>> }
#[verifier::opaque]
pub open spec fn edges_ok(v: NfaV, cls: ClsF, p: VPath) -> bool {
    forall|i: int| 0 <= i < p.labs.len() ==> v_edge(v, cls, #[trigger] p.nodes[i], p.labs[i], p.nodes[i + 1])
}
pub open spec fn is_path(v: NfaV, cls: ClsF, p: VPath) -> bool {
    p.nodes.len() == p.labs.len() + 1 && edges_ok(v, cls, p)
}
pub open spec fn lab_word(l: Option<char>) -> Seq<char> { match l { Some(c) => seq![c], None => Seq::empty() } }
/// the word read along the labels
pub open spec fn labs_word(labs: Seq<Option<char>>) -> Seq<char>
    decreases labs.len()
{
    if labs.len() == 0 { Seq::empty() } else { labs_word(labs.drop_last()) + lab_word(labs.last()) }
}
pub open spec fn path_from_to(v: NfaV, cls: ClsF, p: VPath, a: int, b: int, w: Seq<char>) -> bool {
    is_path(v, cls, p) && p.nodes[0] == a && p.nodes.last() == b && labs_word(p.labs) == w
}
/// some run from a to b reads w
pub open spec fn v_lang(v: NfaV, cls: ClsF, a: int, b: int, w: Seq<char>) -> bool { exists|p: VPath| #[trigger] path_from_to(v, cls, p, a, b, w) }
pub open spec fn v_accepts(v: NfaV, cls: ClsF, w: Seq<char>) -> bool { v_lang(v, cls, v.start, v.end, w) }

pub proof fn lemma_labs_word_concat(x: Seq<Option<char>>, y: Seq<Option<char>>)
    ensures labs_word(x + y) == labs_word(x) + labs_word(y)
    decreases y.len()
{
    if y.len() == 0 {
        assert(x + y =~= x);
        assert(labs_word(x) + labs_word(y) =~= labs_word(x));
    } else {
        assert((x + y).drop_last() =~= x + y.drop_last());
        assert((x + y).last() == y.last());
        lemma_labs_word_concat(x, y.drop_last());
        assert(labs_word(x + y) =~= labs_word(x) + labs_word(y));
    }
}
pub proof fn lemma_labs_word_one(l: Option<char>)
    ensures labs_word(seq![l]) == lab_word(l)
{
    let s1 = seq![l];
    assert(s1.drop_last() =~= Seq::<Option<char>>::empty());
    assert(s1.last() == l);
    assert(labs_word(s1.drop_last()) =~= Seq::<char>::empty());
    assert(labs_word(s1) == labs_word(s1.drop_last()) + lab_word(s1.last()));
    assert(labs_word(s1) =~= lab_word(l));
}
pub open spec fn path_empty(a: int) -> VPath { VPath { nodes: seq![a], labs: Seq::empty() } }
pub open spec fn path_cat(p: VPath, q: VPath) -> VPath { VPath { nodes: p.nodes + q.nodes.drop_first(), labs: p.labs + q.labs } }
pub open spec fn path_edge(a: int, l: Option<char>, b: int) -> VPath { VPath { nodes: seq![a, b], labs: seq![l] } }
pub open spec fn path_take(p: VPath, i: int) -> VPath { VPath { nodes: p.nodes.take(i + 1), labs: p.labs.take(i) } }
pub open spec fn path_skip(p: VPath, i: int) -> VPath { VPath { nodes: p.nodes.skip(i), labs: p.labs.skip(i) } }

pub proof fn lemma_lang_refl(v: NfaV, cls: ClsF, a: int)
    ensures v_lang(v, cls, a, a, Seq::<char>::empty())
{
    reveal(edges_ok);
    assert(path_from_to(v, cls, path_empty(a), a, a, Seq::<char>::empty()));
}
pub proof fn lemma_lang_edge(v: NfaV, cls: ClsF, a: int, l: Option<char>, b: int)
    requires v_edge(v, cls, a, l, b)
    ensures v_lang(v, cls, a, b, lab_word(l))
{
    reveal(edges_ok);
    lemma_labs_word_one(l);
    let p = path_edge(a, l, b);
    assert(is_path(v, cls, p));
    assert(path_from_to(v, cls, p, a, b, lab_word(l)));
}
pub proof fn lemma_lang_cat(v: NfaV, cls: ClsF, a: int, m: int, b: int, w1: Seq<char>, w2: Seq<char>)
    requires v_lang(v, cls, a, m, w1), v_lang(v, cls, m, b, w2)
    ensures v_lang(v, cls, a, b, w1 + w2)
{
    reveal(edges_ok);
    let p = choose|p: VPath| #[trigger] path_from_to(v, cls, p, a, m, w1);
    let q = choose|q: VPath| #[trigger] path_from_to(v, cls, q, m, b, w2);
    let r = path_cat(p, q);
    lemma_labs_word_concat(p.labs, q.labs);
    assert(r.nodes.len() == r.labs.len() + 1);
    assert forall|i: int| 0 <= i < r.labs.len() implies v_edge(v, cls, #[trigger] r.nodes[i], r.labs[i], r.nodes[i + 1]) by {
        if i < p.labs.len() {
            assert(r.nodes[i] == p.nodes[i] && r.labs[i] == p.labs[i]);
            if i + 1 < p.nodes.len() { assert(r.nodes[i + 1] == p.nodes[i + 1]); }
        } else {
            let j = i - p.labs.len();
            assert(r.labs[i] == q.labs[j]);
            assert(r.nodes[i + 1] == q.nodes[j + 1]);
            if j == 0 { assert(r.nodes[i] == p.nodes.last()); assert(q.nodes[0] == m); } else { assert(r.nodes[i] == q.nodes[j]); }
            assert(v_edge(v, cls, q.nodes[j], q.labs[j], q.nodes[j + 1]));
        }
    }
    assert(r.nodes[0] == p.nodes[0]);
    assert(r.nodes.last() == b) by { if q.labs.len() == 0 { assert(q.nodes.len() == 1); assert(r.nodes =~= p.nodes); } else { assert(r.nodes.last() == q.nodes.last()); } }
    assert(path_from_to(v, cls, r, a, b, w1 + w2));
}
/// a path can be cut at any node
pub proof fn lemma_path_split(v: NfaV, cls: ClsF, p: VPath, i: int)
    requires is_path(v, cls, p), 0 <= i < p.nodes.len()
    ensures
        is_path(v, cls, path_take(p, i)), is_path(v, cls, path_skip(p, i)),
        path_take(p, i).nodes[0] == p.nodes[0], path_take(p, i).nodes.last() == p.nodes[i],
        path_skip(p, i).nodes[0] == p.nodes[i], path_skip(p, i).nodes.last() == p.nodes.last(),
        labs_word(p.labs) == labs_word(path_take(p, i).labs) + labs_word(path_skip(p, i).labs),
        path_skip(p, i).labs.len() == p.labs.len() - i,
{
    reveal(edges_ok);
    let a = path_take(p, i);
    let b = path_skip(p, i);
    assert forall|k: int| 0 <= k < a.labs.len() implies v_edge(v, cls, #[trigger] a.nodes[k], a.labs[k], a.nodes[k + 1]) by {
        assert(a.nodes[k] == p.nodes[k] && a.labs[k] == p.labs[k] && a.nodes[k + 1] == p.nodes[k + 1]);
    }
    assert forall|k: int| 0 <= k < b.labs.len() implies v_edge(v, cls, #[trigger] b.nodes[k], b.labs[k], b.nodes[k + 1]) by {
        assert(b.nodes[k] == p.nodes[i + k] && b.labs[k] == p.labs[i + k] && b.nodes[k + 1] == p.nodes[i + k + 1]);
        assert(v_edge(v, cls, p.nodes[i + k], p.labs[i + k], p.nodes[i + k + 1]));
    }
    assert(p.labs =~= a.labs + b.labs);
    lemma_labs_word_concat(a.labs, b.labs);
}

pub proof fn lemma_path_len(v: NfaV, cls: ClsF, p: VPath)
    requires is_path(v, cls, p)
    ensures p.nodes.len() == p.labs.len() + 1
{
    reveal(edges_ok);
}
