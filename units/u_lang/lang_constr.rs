// ---------------------------------------------------------------- the language of each construction
pub proof fn lemma_stuck(v: NfaV, cls: ClsF, p: VPath)
    requires is_path(v, cls, p), 0 <= p.nodes[0] < v.states.len() ==> (v.states[p.nodes[0]].eps.len() == 0 && v.states[p.nodes[0]].trans.len() == 0)
    ensures p.labs.len() == 0
{
    reveal(edges_ok);
    if p.labs.len() > 0 { assert(v_edge(v, cls, p.nodes[0], p.labs[0], p.nodes[1])); }
}
pub proof fn lemma_shift0(s: StateV)
    ensures sv_shift(s, 0).eps == s.eps, sv_shift(s, 0).trans == s.trans
{
    assert(sv_shift(s, 0).eps =~= s.eps);
    assert(sv_shift(s, 0).trans =~= s.trans);
}
/// v extends a (same first states, possibly more epsilon edges at a.end): a sits in v at offset 0
pub proof fn lemma_embeds0(v: NfaV, a: NfaV)
    requires
        a.states.len() <= v.states.len(),
        forall|j: int| 0 <= j < a.states.len() ==> (#[trigger] v.states[j]).trans == a.states[j].trans,
        forall|j: int| 0 <= j < a.states.len() && j != a.end ==> (#[trigger] v.states[j]).eps == a.states[j].eps,
    ensures embeds(v, a, 0)
{
    assert forall|j: int| 0 <= j < 0 + a.states.len() implies (#[trigger] v.states[j]).trans == sv_shift(a.states[j - 0], 0).trans by { lemma_shift0(a.states[j]); }
    assert forall|j: int| 0 <= j < 0 + a.states.len() && j != 0 + a.end implies (#[trigger] v.states[j]).eps == sv_shift(a.states[j - 0], 0).eps by { lemma_shift0(a.states[j]); }
}
/// a run of `a` that starts on its end state is the empty run
pub proof fn lemma_end_run(a: NfaV, cls: ClsF, y: int, w: Seq<char>)
    requires nice(a), v_lang(a, cls, a.end, y, w)
    ensures y == a.end, w.len() == 0
{
    let p = choose|p: VPath| #[trigger] path_from_to(a, cls, p, a.end, y, w);
    lemma_stuck(a, cls, p);
    assert(p.nodes.len() == 1);
    assert(labs_word(p.labs) =~= Seq::<char>::empty());
}

// ---- the empty automaton and a leaf
pub proof fn lemma_lang_new(cls: ClsF, w: Seq<char>)
    ensures v_accepts(v_new(), cls, w) <==> w.len() == 0, nice(v_new())
{
    let v = v_new();
    if v_accepts(v, cls, w) {
        let p = choose|p: VPath| #[trigger] path_from_to(v, cls, p, 0, 0, w);
        lemma_stuck(v, cls, p);
        assert(labs_word(p.labs) =~= Seq::<char>::empty());
    }
    if w.len() == 0 { lemma_lang_refl(v, cls, 0); assert(w =~= Seq::<char>::empty()); }
}
pub proof fn lemma_lang_leaf(id: int, cls: ClsF, w: Seq<char>)
    requires 0 <= id <= u32::MAX
    ensures v_accepts(v_leaf(id), cls, w) <==> (w.len() == 1 && cls(CharClassID(id as u32), w[0])), nice(v_leaf(id))
{
    let v = v_leaf(id);
    lemma_leaf_view(id);
    assert(v.states[1] == sv_empty());
    if v_accepts(v, cls, w) {
        let p = choose|p: VPath| #[trigger] path_from_to(v, cls, p, 0, 1, w);
        assert(p.labs.len() > 0);
        lemma_step(v, cls, p);
        assert(p.labs[0] is Some);
        let c = p.labs[0]->0;
        assert(p.nodes[1] == 1 && cls(CharClassID(id as u32), c));
        lemma_path_split(v, cls, p, 1);
        lemma_stuck(v, cls, path_skip(p, 1));
        assert(p.labs.len() == 1);
        assert(p.labs =~= seq![p.labs[0]]);
        lemma_labs_word_one(p.labs[0]);
        assert(w =~= seq![c]);
    }
    if w.len() == 1 && cls(CharClassID(id as u32), w[0]) {
        assert(v.states[0].trans[0] == (CharClassID(id as u32), 1int));
        assert(v_edge(v, cls, 0, Some(w[0]), 1));
        lemma_lang_edge(v, cls, 0, Some(w[0]), 1);
        assert(lab_word(Some(w[0])) =~= w);
    }
}

// ---- a? : new start S --eps--> a.start, a.end
pub proof fn lemma_opt_shape(a: NfaV)
    requires nice(a)
    ensures
        nice(v_opt(a)), v_opt(a).states.len() == a.states.len() + 1, embeds(v_opt(a), a, 0),
        v_opt(a).start == a.states.len(), v_opt(a).end == a.end,
        v_opt(a).states[a.states.len() as int].eps == seq![a.start, a.end], v_opt(a).states[a.states.len() as int].trans.len() == 0,
        v_opt(a).states[a.end].eps.len() == 0,
{
    let v = v_opt(a);
    let s = a.states.len() as int;
    lemma_opt_wf(a);
    assert(v.states[s].eps =~= seq![a.start, a.end]);
    assert forall|j: int| 0 <= j < a.states.len() implies (#[trigger] v.states[j]) == a.states[j] by { }
    lemma_embeds0(v, a);
}
pub proof fn lemma_lang_opt(a: NfaV, cls: ClsF, w: Seq<char>)
    requires nice(a)
    ensures v_accepts(v_opt(a), cls, w) <==> (w.len() == 0 || v_accepts(a, cls, w))
{
    let v = v_opt(a);
    let s = a.states.len() as int;
    lemma_opt_shape(a);
    if v_accepts(v, cls, w) {
        let p = choose|p: VPath| #[trigger] path_from_to(v, cls, p, s, a.end, w);
        assert(p.labs.len() > 0);
        lemma_step(v, cls, p);
        assert(p.labs[0] is None);
        let t = p.nodes[1];
        assert(t == a.start || t == a.end);
        lemma_path_split(v, cls, p, 1);
        let q = path_skip(p, 1);
        assert(path_take(p, 1).labs =~= seq![p.labs[0]]);
        lemma_labs_word_one(p.labs[0]);
        assert(labs_word(q.labs) =~= w);
        let i = lemma_project(v, a, 0, cls, q);
        lemma_path_split(v, cls, q, i);
        if q.nodes[i] == a.end { lemma_stuck(v, cls, path_skip(q, i)); }
        assert(i == q.nodes.len() - 1);
        assert(q.labs.take(i) =~= q.labs);
        if t == a.end { lemma_end_run(a, cls, q.nodes[i], w); }
    }
    if w.len() == 0 {
        assert(v.states[s].eps[1] == a.end);
        assert(v_edge(v, cls, s, None, a.end));
        lemma_lang_edge(v, cls, s, None, a.end);
        assert(lab_word(None) =~= w);
    }
    if v_accepts(a, cls, w) {
        assert(v.states[s].eps[0] == a.start);
        assert(v_edge(v, cls, s, None, a.start));
        lemma_lang_edge(v, cls, s, None, a.start);
        lemma_embed_lang(v, a, 0, cls, a.start, a.end, w);
        lemma_lang_cat(v, cls, s, a.start, a.end, lab_word(None), w);
        assert(lab_word(None) + w =~= w);
    }
}

/// first step of a non-empty run
pub proof fn lemma_step(v: NfaV, cls: ClsF, p: VPath)
    requires is_path(v, cls, p), p.labs.len() > 0
    ensures
        v_edge(v, cls, p.nodes[0], p.labs[0], p.nodes[1]),
        is_path(v, cls, path_skip(p, 1)), path_skip(p, 1).nodes[0] == p.nodes[1], path_skip(p, 1).nodes.last() == p.nodes.last(),
        path_skip(p, 1).labs.len() == p.labs.len() - 1,
        labs_word(p.labs) == lab_word(p.labs[0]) + labs_word(path_skip(p, 1).labs),
{
    reveal(edges_ok);
    lemma_path_split(v, cls, p, 1);
    assert(path_take(p, 1).labs =~= seq![p.labs[0]]);
    lemma_labs_word_one(p.labs[0]);
}
/// the copy of b inside `a.states + shift(b).states (+ more states)` with nothing added except epsilon edges at b's end
pub proof fn lemma_embeds_shifted(v: NfaV, b: NfaV, n: int)
    requires
        0 <= n, n + b.states.len() <= v.states.len(),
        forall|j: int| n <= j < n + b.states.len() ==> (#[trigger] v.states[j]).trans == sv_shift(b.states[j - n], n).trans,
        forall|j: int| n <= j < n + b.states.len() && j != n + b.end ==> (#[trigger] v.states[j]).eps == sv_shift(b.states[j - n], n).eps,
    ensures embeds(v, b, n)
{
}

// ---- a | b : new start S --eps--> a.start, b.start ; a.end, b.end --eps--> new end E
pub proof fn lemma_alt_shape(a: NfaV, b: NfaV)
    requires nice(a), nice(b)
    ensures ({
        let v = v_alt(a, b);
        let n = a.states.len() as int;
        let s = n + b.states.len();
        let e = s + 1;
        &&& nice(v) && v.states.len() == e + 1 && v.start == s && v.end == e
        &&& embeds(v, a, 0) && embeds(v, b, n)
        &&& v.states[s].eps == seq![a.start, b.start + n] && v.states[s].trans.len() == 0
        &&& v.states[a.end].eps == seq![e] && v.states[a.end].trans.len() == 0
        &&& v.states[b.end + n].eps == seq![e] && v.states[b.end + n].trans.len() == 0
    })
{
    let v = v_alt(a, b);
    let n = a.states.len() as int;
    let b2 = v_shift(b, n);
    let joined = NfaV { states: a.states + b2.states, start: a.start, end: a.end };
    let s = n + b.states.len();
    let e = s + 1;
    lemma_alt_wf(a, b);
    lemma_alt_len(a, b);
    assert(b2.states[b.end] == sv_shift(b.states[b.end], n));
    assert(sv_shift(b.states[b.end], n).eps =~= Seq::<int>::empty());
    assert(sv_shift(b.states[b.end], n).trans.len() == 0);
    assert(v.states[s].eps =~= seq![a.start, b.start + n]);
    assert(v.states[a.end].eps =~= seq![e]);
    assert(v.states[b.end + n].eps =~= seq![e]);
    assert forall|j: int| 0 <= j < n implies (#[trigger] v.states[j]).trans == a.states[j].trans by { assert(joined.states[j] == a.states[j]); }
    assert forall|j: int| 0 <= j < n && j != a.end implies (#[trigger] v.states[j]).eps == a.states[j].eps by { assert(joined.states[j] == a.states[j]); }
    lemma_embeds0(v, a);
    assert forall|j: int| n <= j < n + b.states.len() implies (#[trigger] v.states[j]).trans == sv_shift(b.states[j - n], n).trans by {
        assert(joined.states[j] == b2.states[j - n]);
    }
    assert forall|j: int| n <= j < n + b.states.len() && j != n + b.end implies (#[trigger] v.states[j]).eps == sv_shift(b.states[j - n], n).eps by {
        assert(joined.states[j] == b2.states[j - n]);
    }
    lemma_embeds_shifted(v, b, n);
}
/// a run of v from the start of an embedded copy to the fresh end E, where the copy's end has the single edge eps -> E: the word is in L(copy)
pub proof fn lemma_through_copy(v: NfaV, c: NfaV, off: int, e: int, cls: ClsF, q: VPath)
    requires
        embeds(v, c, off), nice(c), is_path(v, cls, q), q.nodes[0] == off + c.start, q.nodes.last() == e,
        !(off <= e < off + c.states.len()), 0 <= e < v.states.len(),
        v.states[off + c.end].eps == seq![e], v.states[off + c.end].trans.len() == 0,
        v.states[e].eps.len() == 0, v.states[e].trans.len() == 0,
    ensures v_accepts(c, cls, labs_word(q.labs))
{
    let i = lemma_project(v, c, off, cls, q);
    lemma_path_split(v, cls, q, i);
    let r = path_skip(q, i);
    assert(q.nodes[i] == off + c.end);
    assert(r.labs.len() > 0);
    lemma_step(v, cls, r);
    assert(r.labs[0] is None && r.nodes[1] == e);
    lemma_stuck(v, cls, path_skip(r, 1));
    assert(labs_word(path_skip(r, 1).labs) =~= Seq::<char>::empty());
    assert(labs_word(r.labs) =~= Seq::<char>::empty());
    assert(labs_word(q.labs) =~= labs_word(q.labs.take(i)));
}
pub proof fn lemma_lang_alt(a: NfaV, b: NfaV, cls: ClsF, w: Seq<char>)
    requires nice(a), nice(b)
    ensures v_accepts(v_alt(a, b), cls, w) <==> (v_accepts(a, cls, w) || v_accepts(b, cls, w))
{
    let v = v_alt(a, b);
    let n = a.states.len() as int;
    let s = n + b.states.len();
    let e = s + 1;
    lemma_alt_shape(a, b);
    if v_accepts(v, cls, w) {
        let p = choose|p: VPath| #[trigger] path_from_to(v, cls, p, s, e, w);
        assert(p.labs.len() > 0);
        lemma_step(v, cls, p);
        assert(p.labs[0] is None);
        let t = p.nodes[1];
        assert(t == a.start || t == b.start + n);
        let q = path_skip(p, 1);
        assert(labs_word(q.labs) =~= w);
        if t == a.start { lemma_through_copy(v, a, 0, e, cls, q); } else { lemma_through_copy(v, b, n, e, cls, q); }
    }
    if v_accepts(a, cls, w) {
        assert(v.states[s].eps[0] == a.start);
        assert(v_edge(v, cls, s, None, a.start));
        lemma_lang_edge(v, cls, s, None, a.start);
        lemma_embed_lang(v, a, 0, cls, a.start, a.end, w);
        assert(v.states[a.end].eps[0] == e);
        assert(v_edge(v, cls, a.end, None, e));
        lemma_lang_edge(v, cls, a.end, None, e);
        lemma_lang_cat(v, cls, s, a.start, a.end, lab_word(None), w);
        lemma_lang_cat(v, cls, s, a.end, e, lab_word(None) + w, lab_word(None));
        assert(lab_word(None) + w + lab_word(None) =~= w);
    }
    if v_accepts(b, cls, w) {
        assert(v.states[s].eps[1] == b.start + n);
        assert(v_edge(v, cls, s, None, b.start + n));
        lemma_lang_edge(v, cls, s, None, b.start + n);
        lemma_embed_lang(v, b, n, cls, b.start, b.end, w);
        assert(v.states[b.end + n].eps[0] == e);
        assert(v_edge(v, cls, b.end + n, None, e));
        lemma_lang_edge(v, cls, b.end + n, None, e);
        lemma_lang_cat(v, cls, s, b.start + n, b.end + n, lab_word(None), w);
        lemma_lang_cat(v, cls, s, b.end + n, e, lab_word(None) + w, lab_word(None));
        assert(lab_word(None) + w + lab_word(None) =~= w);
    }
}

// ---- a . b : a.end --eps--> b.start (a not the empty automaton; otherwise the result is b)
pub proof fn lemma_concat_shape(a: NfaV, b: NfaV)
    requires nice(a), nice(b), !v_is_empty(a)
    ensures ({
        let v = v_concat(a, b);
        let n = a.states.len() as int;
        &&& nice(v) && v.states.len() == n + b.states.len() && v.start == a.start && v.end == b.end + n
        &&& embeds(v, a, 0) && embeds(v, b, n)
        &&& v.states[a.end].eps == seq![b.start + n] && v.states[a.end].trans.len() == 0
        &&& v.states[b.end + n].eps.len() == 0 && v.states[b.end + n].trans.len() == 0
    })
{
    let v = v_concat(a, b);
    let n = a.states.len() as int;
    let b2 = v_shift(b, n);
    let joined = NfaV { states: a.states + b2.states, start: a.start, end: a.end };
    lemma_concat_wf(a, b);
    lemma_concat_len(a, b);
    assert(b2.states[b.end] == sv_shift(b.states[b.end], n));
    assert(sv_shift(b.states[b.end], n).eps =~= Seq::<int>::empty());
    assert(sv_shift(b.states[b.end], n).trans.len() == 0);
    assert(joined.states[b.end + n] == b2.states[b.end]);
    assert(v.states[a.end].eps =~= seq![b.start + n]);
    assert forall|j: int| 0 <= j < n implies (#[trigger] v.states[j]).trans == a.states[j].trans by { assert(joined.states[j] == a.states[j]); }
    assert forall|j: int| 0 <= j < n && j != a.end implies (#[trigger] v.states[j]).eps == a.states[j].eps by { assert(joined.states[j] == a.states[j]); }
    lemma_embeds0(v, a);
    assert forall|j: int| n <= j < n + b.states.len() implies (#[trigger] v.states[j]).trans == sv_shift(b.states[j - n], n).trans by {
        assert(joined.states[j] == b2.states[j - n]);
    }
    assert forall|j: int| n <= j < n + b.states.len() && j != n + b.end implies (#[trigger] v.states[j]).eps == sv_shift(b.states[j - n], n).eps by {
        assert(joined.states[j] == b2.states[j - n]);
    }
    lemma_embeds_shifted(v, b, n);
}
/// w = u + x with u accepted by a and x accepted by b
pub open spec fn cat_accepts(a: NfaV, b: NfaV, cls: ClsF, w: Seq<char>) -> bool {
    exists|u: Seq<char>, x: Seq<char>| #![trigger v_accepts(a, cls, u), v_accepts(b, cls, x)] w == u + x && v_accepts(a, cls, u) && v_accepts(b, cls, x)
}
pub proof fn lemma_lang_concat_fwd(a: NfaV, b: NfaV, cls: ClsF, w: Seq<char>)
    requires nice(a), nice(b), !v_is_empty(a), v_accepts(v_concat(a, b), cls, w)
    ensures cat_accepts(a, b, cls, w)
{
    let v = v_concat(a, b);
    let n = a.states.len() as int;
    lemma_concat_shape(a, b);
    let p = choose|p: VPath| #[trigger] path_from_to(v, cls, p, a.start, b.end + n, w);
    let i = lemma_project(v, a, 0, cls, p);
    lemma_path_split(v, cls, p, i);
    let r = path_skip(p, i);
    assert(p.nodes[i] == a.end);
    let w1 = labs_word(p.labs.take(i));
    assert(r.labs.len() > 0);
    lemma_step(v, cls, r);
    assert(r.labs[0] is None && r.nodes[1] == b.start + n);
    let q = path_skip(r, 1);
    lemma_concat_tail(v, b, n, cls, q);
    let w2 = labs_word(q.labs);
    assert(labs_word(r.labs) =~= w2);
    assert(w =~= w1 + w2);
    assert(v_accepts(a, cls, w1) && v_accepts(b, cls, w2));
}
/// a run of v that starts at the copy's start and ends on the copy's (stuck) end is a run of the copy
pub proof fn lemma_concat_tail(v: NfaV, b: NfaV, n: int, cls: ClsF, q: VPath)
    requires
        embeds(v, b, n), nice(b), is_path(v, cls, q), q.nodes[0] == n + b.start, q.nodes.last() == n + b.end,
        v.states[b.end + n].eps.len() == 0, v.states[b.end + n].trans.len() == 0,
    ensures v_accepts(b, cls, labs_word(q.labs))
{
    let i2 = lemma_project(v, b, n, cls, q);
    lemma_path_split(v, cls, q, i2);
    if q.nodes[i2] == n + b.end { lemma_stuck(v, cls, path_skip(q, i2)); }
    assert(i2 == q.nodes.len() - 1);
    assert(q.labs.take(i2) =~= q.labs);
}
pub proof fn lemma_lang_concat_bwd(a: NfaV, b: NfaV, cls: ClsF, w: Seq<char>)
    requires nice(a), nice(b), !v_is_empty(a), cat_accepts(a, b, cls, w)
    ensures v_accepts(v_concat(a, b), cls, w)
{
    let v = v_concat(a, b);
    let n = a.states.len() as int;
    lemma_concat_shape(a, b);
    let (u, x) = choose|u: Seq<char>, x: Seq<char>| #![trigger v_accepts(a, cls, u), v_accepts(b, cls, x)] w == u + x && v_accepts(a, cls, u) && v_accepts(b, cls, x);
    lemma_embed_lang(v, a, 0, cls, a.start, a.end, u);
    lemma_embed_lang(v, b, n, cls, b.start, b.end, x);
    assert(v.states[a.end].eps[0] == b.start + n);
    assert(v_edge(v, cls, a.end, None, b.start + n));
    lemma_lang_edge(v, cls, a.end, None, b.start + n);
    lemma_lang_cat(v, cls, a.start, a.end, b.start + n, u, lab_word(None));
    lemma_lang_cat(v, cls, a.start, b.start + n, b.end + n, u + lab_word(None), x);
    assert(u + lab_word(None) + x =~= w);
}
pub proof fn lemma_lang_concat(a: NfaV, b: NfaV, cls: ClsF, w: Seq<char>)
    requires nice(a), nice(b)
    ensures v_accepts(v_concat(a, b), cls, w) <==> cat_accepts(a, b, cls, w), nice(v_concat(a, b))
{
    if v_is_empty(a) {
        assert(a.states[0].eps =~= Seq::<int>::empty());
        assert(a.states[0].trans =~= Seq::<(CharClassID, int)>::empty());
        assert(a.states[0] == sv_empty());
        assert(a.states =~= v_new().states);
        assert(a == v_new());
        assert forall|u: Seq<char>| v_accepts(a, cls, u) <==> u.len() == 0 by { lemma_lang_new(cls, u); }
        if v_accepts(b, cls, w) {
            let e0 = Seq::<char>::empty();
            lemma_lang_new(cls, e0);
            assert(v_accepts(a, cls, e0));
            assert(w =~= e0 + w);
        }
        if cat_accepts(a, b, cls, w) {
            let (u, x) = choose|u: Seq<char>, x: Seq<char>| #![trigger v_accepts(a, cls, u), v_accepts(b, cls, x)] w == u + x && v_accepts(a, cls, u) && v_accepts(b, cls, x);
            assert(u.len() == 0);
            assert(w =~= x);
        }
    } else {
        lemma_concat_shape(a, b);
        if v_accepts(v_concat(a, b), cls, w) { lemma_lang_concat_fwd(a, b, cls, w); }
        if cat_accepts(a, b, cls, w) { lemma_lang_concat_bwd(a, b, cls, w); }
    }
}

// ---- iteration: a+ and a*
pub open spec fn splits(w: Seq<char>, u: Seq<char>, x: Seq<char>) -> bool { w == u + x }
/// w is the concatenation of k words accepted by a
pub open spec fn pow_accepts(a: NfaV, cls: ClsF, k: nat, w: Seq<char>) -> bool
    decreases k
{
    if k == 0 { w.len() == 0 } else {
        exists|u: Seq<char>, x: Seq<char>| #[trigger] splits(w, u, x) && v_accepts(a, cls, u) && pow_accepts(a, cls, (k - 1) as nat, x)
    }
}
/// what a+ and a* share: a sits at offset 0, its end has exactly the edges eps -> E (fresh, stuck, outside the copy) and eps -> a.start
pub open spec fn loop_shape(v: NfaV, a: NfaV, e: int) -> bool {
    &&& embeds(v, a, 0) && nice(a) && a.states.len() <= e < v.states.len()
    &&& v.states[e].eps.len() == 0 && v.states[e].trans.len() == 0
    &&& v.states[a.end].eps == seq![e, a.start] && v.states[a.end].trans.len() == 0
}
pub proof fn lemma_pow_cons(a: NfaV, cls: ClsF, k: nat, u: Seq<char>, x: Seq<char>)
    requires v_accepts(a, cls, u), pow_accepts(a, cls, k, x)
    ensures pow_accepts(a, cls, k + 1, u + x)
{
    assert(splits(u + x, u, x));
    assert(pow_accepts(a, cls, ((k + 1) - 1) as nat, x));
}
/// the part of a run from a.start to E up to and including the edge that leaves a's end
pub proof fn lemma_loop_head(v: NfaV, a: NfaV, e: int, cls: ClsF, q: VPath) -> (j: int)
    requires loop_shape(v, a, e), is_path(v, cls, q), q.nodes[0] == a.start, q.nodes.last() == e
    ensures
        1 <= j < q.nodes.len(), q.nodes[j] == e || q.nodes[j] == a.start,
        v_accepts(a, cls, labs_word(q.labs.take(j))),
        is_path(v, cls, path_skip(q, j)), labs_word(q.labs) == labs_word(q.labs.take(j)) + labs_word(path_skip(q, j).labs),
        path_skip(q, j).labs.len() == q.labs.len() - j,
        path_skip(q, j).nodes[0] == q.nodes[j], path_skip(q, j).nodes.last() == e,
{
    let i = lemma_project(v, a, 0, cls, q);
    lemma_path_split(v, cls, q, i);
    let r = path_skip(q, i);
    assert(q.nodes[i] == a.end);
    lemma_path_len(v, cls, q);
    lemma_path_len(v, cls, r);
    assert(r.labs.len() > 0);
    lemma_step(v, cls, r);
    assert(r.labs[0] is None);
    assert(r.nodes[1] == q.nodes[i + 1]);
    lemma_path_split(v, cls, q, i + 1);
    assert(q.labs.take(i + 1) =~= q.labs.take(i) + seq![q.labs[i]]);
    lemma_labs_word_concat(q.labs.take(i), seq![q.labs[i]]);
    lemma_labs_word_one(q.labs[i]);
    assert(q.labs[i] == r.labs[0]);
    assert(labs_word(q.labs.take(i + 1)) =~= labs_word(q.labs.take(i)));
    i + 1
}
pub proof fn lemma_loop_fwd(v: NfaV, a: NfaV, e: int, cls: ClsF, q: VPath) -> (k: nat)
    requires loop_shape(v, a, e), is_path(v, cls, q), q.nodes[0] == a.start, q.nodes.last() == e
    ensures k >= 1, pow_accepts(a, cls, k, labs_word(q.labs))
    decreases q.labs.len()
{
    let j = lemma_loop_head(v, a, e, cls, q);
    let q2 = path_skip(q, j);
    let w1 = labs_word(q.labs.take(j));
    if q.nodes[j] == e {
        lemma_stuck(v, cls, q2);
        assert(labs_word(q2.labs) =~= Seq::<char>::empty());
        assert(pow_accepts(a, cls, 0, labs_word(q2.labs)));
        lemma_pow_cons(a, cls, 0, w1, labs_word(q2.labs));
        1
    } else {
        let k2 = lemma_loop_fwd(v, a, e, cls, q2);
        lemma_pow_cons(a, cls, k2, w1, labs_word(q2.labs));
        k2 + 1
    }
}
pub proof fn lemma_loop_bwd(v: NfaV, a: NfaV, e: int, cls: ClsF, k: nat, w: Seq<char>)
    requires loop_shape(v, a, e), k >= 1, pow_accepts(a, cls, k, w)
    ensures v_lang(v, cls, a.start, e, w)
    decreases k
{
    let (u, x) = choose|u: Seq<char>, x: Seq<char>| #[trigger] splits(w, u, x) && v_accepts(a, cls, u) && pow_accepts(a, cls, (k - 1) as nat, x);
    lemma_embed_lang(v, a, 0, cls, a.start, a.end, u);
    if k == 1 {
        assert(v.states[a.end].eps[0] == e);
        assert(v_edge(v, cls, a.end, None, e));
        lemma_lang_edge(v, cls, a.end, None, e);
        lemma_lang_cat(v, cls, a.start, a.end, e, u, lab_word(None));
        assert(u + lab_word(None) =~= w);
    } else {
        assert(v.states[a.end].eps[1] == a.start);
        assert(v_edge(v, cls, a.end, None, a.start));
        lemma_lang_edge(v, cls, a.end, None, a.start);
        lemma_loop_bwd(v, a, e, cls, (k - 1) as nat, x);
        lemma_lang_cat(v, cls, a.start, a.end, a.start, u, lab_word(None));
        lemma_lang_cat(v, cls, a.start, a.start, e, u + lab_word(None), x);
        assert(u + lab_word(None) + x =~= w);
    }
}
pub proof fn lemma_plus_shape(a: NfaV)
    requires nice(a)
    ensures ({
        let v = v_plus(a);
        let s = a.states.len() as int;
        &&& nice(v) && v.states.len() == s + 2 && v.start == s && v.end == s + 1 && loop_shape(v, a, s + 1)
        &&& v.states[s].eps == seq![a.start] && v.states[s].trans.len() == 0
    })
{
    let v = v_plus(a);
    let s = a.states.len() as int;
    lemma_plus_wf(a);
    assert(v.states[s].eps =~= seq![a.start]);
    assert(v.states[a.end].eps =~= seq![s + 1, a.start]);
    assert forall|j: int| 0 <= j < s implies (#[trigger] v.states[j]).trans == a.states[j].trans by { }
    assert forall|j: int| 0 <= j < s && j != a.end implies (#[trigger] v.states[j]).eps == a.states[j].eps by { }
    lemma_embeds0(v, a);
}
pub proof fn lemma_star_shape(a: NfaV)
    requires nice(a)
    ensures ({
        let v = v_star(a);
        let s = a.states.len() as int;
        &&& nice(v) && v.states.len() == s + 2 && v.start == s && v.end == s + 1 && loop_shape(v, a, s + 1)
        &&& v.states[s].eps == seq![a.start, a.end] && v.states[s].trans.len() == 0
    })
{
    let v = v_star(a);
    let s = a.states.len() as int;
    lemma_star_wf(a);
    assert(v.states[s].eps =~= seq![a.start, a.end]);
    assert(v.states[a.end].eps =~= seq![s + 1, a.start]);
    assert forall|j: int| 0 <= j < s implies (#[trigger] v.states[j]).trans == a.states[j].trans by { }
    assert forall|j: int| 0 <= j < s && j != a.end implies (#[trigger] v.states[j]).eps == a.states[j].eps by { }
    lemma_embeds0(v, a);
}
pub proof fn lemma_lang_plus(a: NfaV, cls: ClsF, w: Seq<char>)
    requires nice(a)
    ensures v_accepts(v_plus(a), cls, w) <==> exists|k: nat| k >= 1 && #[trigger] pow_accepts(a, cls, k, w)
{
    let v = v_plus(a);
    let s = a.states.len() as int;
    let e = s + 1;
    lemma_plus_shape(a);
    if v_accepts(v, cls, w) {
        let p = choose|p: VPath| #[trigger] path_from_to(v, cls, p, s, e, w);
        assert(p.labs.len() > 0);
        lemma_step(v, cls, p);
        assert(p.labs[0] is None && p.nodes[1] == a.start);
        let q = path_skip(p, 1);
        assert(labs_word(q.labs) =~= w);
        let k = lemma_loop_fwd(v, a, e, cls, q);
        assert(k >= 1 && pow_accepts(a, cls, k, w));
    }
    if exists|k: nat| k >= 1 && #[trigger] pow_accepts(a, cls, k, w) {
        let k = choose|k: nat| k >= 1 && #[trigger] pow_accepts(a, cls, k, w);
        lemma_loop_bwd(v, a, e, cls, k, w);
        assert(v.states[s].eps[0] == a.start);
        assert(v_edge(v, cls, s, None, a.start));
        lemma_lang_edge(v, cls, s, None, a.start);
        lemma_lang_cat(v, cls, s, a.start, e, lab_word(None), w);
        assert(lab_word(None) + w =~= w);
    }
}
pub proof fn lemma_lang_star(a: NfaV, cls: ClsF, w: Seq<char>)
    requires nice(a)
    ensures v_accepts(v_star(a), cls, w) <==> exists|k: nat| #[trigger] pow_accepts(a, cls, k, w)
{
    let v = v_star(a);
    let s = a.states.len() as int;
    let e = s + 1;
    lemma_star_shape(a);
    if v_accepts(v, cls, w) {
        let p = choose|p: VPath| #[trigger] path_from_to(v, cls, p, s, e, w);
        assert(p.labs.len() > 0);
        lemma_step(v, cls, p);
        assert(p.labs[0] is None);
        let t = p.nodes[1];
        assert(t == a.start || t == a.end);
        let q = path_skip(p, 1);
        assert(labs_word(q.labs) =~= w);
        if t == a.start {
            let k = lemma_loop_fwd(v, a, e, cls, q);
            assert(pow_accepts(a, cls, k, w));
        } else {
            assert(q.labs.len() > 0);
            lemma_step(v, cls, q);
            assert(q.labs[0] is None);
            let t2 = q.nodes[1];
            assert(t2 == e || t2 == a.start);
            let q2 = path_skip(q, 1);
            assert(labs_word(q2.labs) =~= w);
            if t2 == e {
                lemma_stuck(v, cls, q2);
                assert(w =~= Seq::<char>::empty());
                assert(pow_accepts(a, cls, 0, w));
            } else {
                let k = lemma_loop_fwd(v, a, e, cls, q2);
                assert(pow_accepts(a, cls, k, w));
            }
        }
    }
    if exists|k: nat| #[trigger] pow_accepts(a, cls, k, w) {
        let k = choose|k: nat| #[trigger] pow_accepts(a, cls, k, w);
        if k == 0 {
            assert(v.states[s].eps[1] == a.end);
            assert(v_edge(v, cls, s, None, a.end));
            lemma_lang_edge(v, cls, s, None, a.end);
            assert(v.states[a.end].eps[0] == e);
            assert(v_edge(v, cls, a.end, None, e));
            lemma_lang_edge(v, cls, a.end, None, e);
            lemma_lang_cat(v, cls, s, a.end, e, lab_word(None), lab_word(None));
            assert(lab_word(None) + lab_word(None) =~= w);
        } else {
            lemma_loop_bwd(v, a, e, cls, k, w);
            assert(v.states[s].eps[0] == a.start);
            assert(v_edge(v, cls, s, None, a.start));
            lemma_lang_edge(v, cls, s, None, a.start);
            lemma_lang_cat(v, cls, s, a.start, e, lab_word(None), w);
            assert(lab_word(None) + w =~= w);
        }
    }
}
