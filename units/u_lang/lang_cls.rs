// ---------------------------------------------------------------- every character class a Thompson automaton refers to is a registered one
pub open spec fn v_cls_below(v: NfaV, r: int) -> bool {
    forall|i: int, k: int| 0 <= i < v.states.len() && 0 <= k < v.states[i].trans.len() ==> (#[trigger] v.states[i].trans[k]).0.0 < r
}
pub proof fn lemma_cls_mono(v: NfaV, r: int, r2: int)
    requires v_cls_below(v, r), r <= r2
    ensures v_cls_below(v, r2)
{
}
pub proof fn lemma_cls_add_eps(v: NfaV, from: int, to: int, r: int)
    requires v_cls_below(v, r), 0 <= from < v.states.len()
    ensures v_cls_below(v_add_eps(v, from, to), r), v_add_eps(v, from, to).states.len() == v.states.len()
{
    let v2 = v_add_eps(v, from, to);
    assert forall|i: int, k: int| 0 <= i < v2.states.len() && 0 <= k < v2.states[i].trans.len() implies (#[trigger] v2.states[i].trans[k]).0.0 < r by {
        assert(v2.states[i].trans == v.states[i].trans);
        assert(v.states[i].trans[k].0.0 < r);
    }
}
pub proof fn lemma_cls_push(v: NfaV, r: int)
    requires v_cls_below(v, r)
    ensures v_cls_below(v_push_state(v), r), v_push_state(v).states.len() == v.states.len() + 1
{
    let v2 = v_push_state(v);
    assert forall|i: int, k: int| 0 <= i < v2.states.len() && 0 <= k < v2.states[i].trans.len() implies (#[trigger] v2.states[i].trans[k]).0.0 < r by {
        if i < v.states.len() { assert(v2.states[i] == v.states[i]); assert(v.states[i].trans[k].0.0 < r); }
    }
}
pub proof fn lemma_cls_shift(v: NfaV, off: int, r: int)
    requires v_cls_below(v, r)
    ensures v_cls_below(v_shift(v, off), r), v_shift(v, off).states.len() == v.states.len()
{
    let v2 = v_shift(v, off);
    assert forall|i: int, k: int| 0 <= i < v2.states.len() && 0 <= k < v2.states[i].trans.len() implies (#[trigger] v2.states[i].trans[k]).0.0 < r by {
        assert(v2.states[i].trans[k].0 == v.states[i].trans[k].0);
        assert(v.states[i].trans[k].0.0 < r);
    }
}
pub proof fn lemma_cls_join(a: NfaV, b: NfaV, start: int, end: int, r: int)
    requires v_cls_below(a, r), v_cls_below(b, r)
    ensures v_cls_below(NfaV { states: a.states + b.states, start, end }, r)
{
    let j = NfaV { states: a.states + b.states, start, end };
    assert forall|i: int, k: int| 0 <= i < j.states.len() && 0 <= k < j.states[i].trans.len() implies (#[trigger] j.states[i].trans[k]).0.0 < r by {
        if i < a.states.len() { assert(j.states[i] == a.states[i]); assert(a.states[i].trans[k].0.0 < r); }
        else { assert(j.states[i] == b.states[i - a.states.len()]); assert(b.states[i - a.states.len()].trans[k].0.0 < r); }
    }
}
pub proof fn lemma_cls_retarget(v: NfaV, start: int, end: int, r: int)
    requires v_cls_below(v, r)
    ensures v_cls_below(NfaV { start, end, ..v }, r)
{
    let v2 = NfaV { start, end, ..v };
    assert forall|i: int, k: int| 0 <= i < v2.states.len() && 0 <= k < v2.states[i].trans.len() implies (#[trigger] v2.states[i].trans[k]).0.0 < r by { assert(v.states[i].trans[k].0.0 < r); }
}
pub proof fn lemma_cls_new(r: int) ensures v_cls_below(v_new(), r) { }
pub proof fn lemma_cls_concat(a: NfaV, b: NfaV, r: int)
    requires v_cls_below(a, r), v_cls_below(b, r), v_wf(a), v_wf(b)
    ensures v_cls_below(v_concat(a, b), r)
{
    if !v_is_empty(a) {
        let n = a.states.len() as int;
        let b2 = v_shift(b, n);
        lemma_cls_shift(b, n, r);
        let joined = NfaV { states: a.states + b2.states, start: a.start, end: a.end };
        lemma_cls_join(a, b2, a.start, a.end, r);
        lemma_cls_add_eps(joined, a.end, b2.start, r);
        lemma_cls_retarget(v_add_eps(joined, a.end, b2.start), v_add_eps(joined, a.end, b2.start).start, b2.end, r);
    }
}
pub proof fn lemma_cls_alt(a: NfaV, b: NfaV, r: int)
    requires v_cls_below(a, r), v_cls_below(b, r), v_wf(a), v_wf(b)
    ensures v_cls_below(v_alt(a, b), r)
{
    let n = a.states.len() as int;
    let b2 = v_shift(b, n);
    lemma_cls_shift(b, n, r);
    lemma_shift_wf(b, n);
    let joined = NfaV { states: a.states + b2.states, start: a.start, end: a.end };
    lemma_cls_join(a, b2, a.start, a.end, r);
    let s = joined.states.len() as int;
    let p1 = v_push_state(joined);
    lemma_cls_push(joined, r);
    let q1 = v_add_eps(p1, s, a.start);
    lemma_cls_add_eps(p1, s, a.start, r);
    let v1 = v_add_eps(q1, s, b2.start);
    lemma_cls_add_eps(q1, s, b2.start, r);
    let e = s + 1;
    let p2 = v_push_state(v1);
    lemma_cls_push(v1, r);
    let q2 = v_add_eps(p2, a.end, e);
    lemma_cls_add_eps(p2, a.end, e, r);
    let v2 = v_add_eps(q2, b2.end, e);
    lemma_cls_add_eps(q2, b2.end, e, r);
    lemma_cls_retarget(v2, s, e, r);
}
pub proof fn lemma_cls_opt(a: NfaV, r: int)
    requires v_cls_below(a, r), v_wf(a)
    ensures v_cls_below(v_opt(a), r)
{
    let s = a.states.len() as int;
    let p1 = v_push_state(a);
    lemma_cls_push(a, r);
    let q1 = v_add_eps(p1, s, a.start);
    lemma_cls_add_eps(p1, s, a.start, r);
    let v1 = v_add_eps(q1, s, a.end);
    lemma_cls_add_eps(q1, s, a.end, r);
    lemma_cls_retarget(v1, s, v1.end, r);
}
pub proof fn lemma_cls_plus(a: NfaV, r: int)
    requires v_cls_below(a, r), v_wf(a)
    ensures v_cls_below(v_plus(a), r)
{
    let s = a.states.len() as int;
    let p1 = v_push_state(a);
    lemma_cls_push(a, r);
    let v1 = v_add_eps(p1, s, a.start);
    lemma_cls_add_eps(p1, s, a.start, r);
    let e = s + 1;
    let p2 = v_push_state(v1);
    lemma_cls_push(v1, r);
    let q2 = v_add_eps(p2, a.end, e);
    lemma_cls_add_eps(p2, a.end, e, r);
    let v2 = v_add_eps(q2, a.end, a.start);
    lemma_cls_add_eps(q2, a.end, a.start, r);
    lemma_cls_retarget(v2, s, e, r);
}
pub proof fn lemma_cls_star(a: NfaV, r: int)
    requires v_cls_below(a, r), v_wf(a)
    ensures v_cls_below(v_star(a), r)
{
    let s = a.states.len() as int;
    let p1 = v_push_state(a);
    lemma_cls_push(a, r);
    let q1 = v_add_eps(p1, s, a.start);
    lemma_cls_add_eps(p1, s, a.start, r);
    let v1 = v_add_eps(q1, s, a.end);
    lemma_cls_add_eps(q1, s, a.end, r);
    let e = s + 1;
    let p2 = v_push_state(v1);
    lemma_cls_push(v1, r);
    let q2 = v_add_eps(p2, a.end, e);
    lemma_cls_add_eps(p2, a.end, e, r);
    let v2 = v_add_eps(q2, a.end, a.start);
    lemma_cls_add_eps(q2, a.end, a.start, r);
    lemma_cls_retarget(v2, s, e, r);
}
pub proof fn lemma_cls_rep(acc: NfaV, x: NfaV, k: nat, r: int)
    requires v_cls_below(acc, r), v_cls_below(x, r), nice(acc), nice(x)
    ensures v_cls_below(v_rep(acc, x, k), r), nice(v_rep(acc, x, k))
    decreases k
{
    lemma_rep_nice(acc, x, k);
    if k > 0 {
        lemma_cls_rep(acc, x, (k - 1) as nat, r);
        lemma_cls_concat(v_rep(acc, x, (k - 1) as nat), x, r);
    }
}
/// niceness of the Thompson automaton without a language argument
pub proof fn lemma_th_nice(a: Ast, reg: Seq<Ast>)
    requires th_fits(a, reg)
    ensures pre(reg, thompson(a, reg).1), nice(thompson(a, reg).0)
{
    let lf = |x: Ast, c: char| false;
    let cls = |cc: CharClassID, c: char| false;
    let r1 = thompson(a, reg).1;
    assert(pre(r1, r1));
    theorem_thompson_language(a, reg, r1, cls, lf, Seq::<char>::empty());
}
pub proof fn lemma_cat_nice(asts: Seq<Ast>, n: int, reg: Seq<Ast>)
    requires 0 <= n <= asts.len(), th_concat_fits(asts, n, reg)
    ensures pre(reg, th_concat(asts, n, reg).1), nice(th_concat(asts, n, reg).0)
{
    let lf = |x: Ast, c: char| false;
    let cls = |cc: CharClassID, c: char| false;
    let r1 = th_concat(asts, n, reg).1;
    assert(pre(r1, r1));
    lemma_th_cat(asts, n, reg, r1, cls, lf, Seq::<char>::empty());
}
pub proof fn lemma_alt_nice(asts: Seq<Ast>, n: int, reg: Seq<Ast>)
    requires 0 <= n <= asts.len(), th_alt_fits(asts, n, reg)
    ensures pre(reg, th_alt(asts, n, reg).1), nice(th_alt(asts, n, reg).0)
{
    let lf = |x: Ast, c: char| false;
    let cls = |cc: CharClassID, c: char| false;
    let r1 = th_alt(asts, n, reg).1;
    assert(pre(r1, r1));
    lemma_th_alt(asts, n, reg, r1, cls, lf, Seq::<char>::empty());
}
/// THEOREM (C02, last clause): every class id on a transition of thompson(a, reg) is an index into the registry it returns
pub proof fn theorem_thompson_classes_registered(a: Ast, reg: Seq<Ast>)
    requires th_fits(a, reg)
    ensures v_cls_below(thompson(a, reg).0, thompson(a, reg).1.len() as int)
    decreases a, 0int
{
    lemma_th_nice(a, reg);
    match a {
        Ast::Repetition(r) => {
            let (x, r1) = thompson(*r.ast, reg);
            let n = r1.len() as int;
            theorem_thompson_classes_registered(*r.ast, reg);
            lemma_th_nice(*r.ast, reg);
            lemma_cls_new(n);
            assert(nice(v_new()));
            match r.op.kind {
                RepetitionKind::ZeroOrOne => { lemma_cls_opt(x, n); }
                RepetitionKind::ZeroOrMore => { lemma_cls_star(x, n); }
                RepetitionKind::OneOrMore => { lemma_cls_plus(x, n); }
                RepetitionKind::Range(rr) => match rr {
                    RepetitionRange::Exactly(c) => { lemma_cls_rep(v_new(), x, c as nat, n); }
                    RepetitionRange::AtLeast(c) => {
                        lemma_cls_rep(v_new(), x, c as nat, n);
                        lemma_cls_star(x, n);
                        lemma_lang_star(x, |cc: CharClassID, ch: char| true, Seq::<char>::empty());
                        lemma_cls_concat(v_rep(v_new(), x, c as nat), v_star(x), n);
                    }
                    RepetitionRange::Bounded(l, m) => {
                        lemma_cls_rep(v_new(), x, l as nat, n);
                        lemma_cls_opt(x, n);
                        lemma_lang_opt(x, |cc: CharClassID, ch: char| true, Seq::<char>::empty());
                        lemma_cls_rep(v_rep(v_new(), x, l as nat), v_opt(x), (if m >= l { m - l } else { 0 }) as nat, n);
                    }
                },
            }
        }
        Ast::Group(g) => { theorem_thompson_classes_registered(*g.ast, reg); }
        Ast::Alternation(x) => { lemma_cls_th_alt(x.asts@, x.asts@.len() as int, reg); }
        Ast::Concat(x) => { lemma_cls_th_cat(x.asts@, x.asts@.len() as int, reg); }
        Ast::Empty(_) => { lemma_cls_new(reg.len() as int); }
        _ => {
            let (id, r1) = reg_add(reg, a);
            assert(0 <= id < r1.len()) by { if exists|i: int| reg_has(reg, a, i) { let i = choose|i: int| reg_has(reg, a, i); assert(reg_has(reg, a, i)); } }
            assert(CharClassID(id as u32).0 == id);
            let v = v_leaf(id);
            assert forall|i: int, k: int| 0 <= i < v.states.len() && 0 <= k < v.states[i].trans.len() implies (#[trigger] v.states[i].trans[k]).0.0 < r1.len() by {
                if i == 0 { assert(v.states[0].trans[k] == (CharClassID(id as u32), 1int)); }
            }
        }
    }
}
pub proof fn lemma_cls_th_cat(asts: Seq<Ast>, n: int, reg: Seq<Ast>)
    requires 0 <= n <= asts.len(), th_concat_fits(asts, n, reg)
    ensures v_cls_below(th_concat(asts, n, reg).0, th_concat(asts, n, reg).1.len() as int)
    decreases asts, n
{
    if n <= 0 { lemma_cls_new(reg.len() as int); } else {
        let (acc, r1) = th_concat(asts, n - 1, reg);
        let (b, r2) = thompson(asts[n - 1], r1);
        lemma_cls_th_cat(asts, n - 1, reg);
        theorem_thompson_classes_registered(asts[n - 1], r1);
        lemma_cat_nice(asts, n - 1, reg);
        lemma_th_nice(asts[n - 1], r1);
        lemma_cls_mono(acc, r1.len() as int, r2.len() as int);
        lemma_cls_concat(acc, b, r2.len() as int);
    }
}
pub proof fn lemma_cls_th_alt(asts: Seq<Ast>, n: int, reg: Seq<Ast>)
    requires 0 <= n <= asts.len(), th_alt_fits(asts, n, reg)
    ensures v_cls_below(th_alt(asts, n, reg).0, th_alt(asts, n, reg).1.len() as int)
    decreases asts, n
{
    if n <= 0 { lemma_cls_new(reg.len() as int); }
    else if n == 1 { theorem_thompson_classes_registered(asts[0], reg); }
    else {
        let (acc, r1) = th_alt(asts, n - 1, reg);
        let (b, r2) = thompson(asts[n - 1], r1);
        lemma_cls_th_alt(asts, n - 1, reg);
        theorem_thompson_classes_registered(asts[n - 1], r1);
        lemma_alt_nice(asts, n - 1, reg);
        lemma_th_nice(asts[n - 1], r1);
        lemma_cls_mono(acc, r1.len() as int, r2.len() as int);
        lemma_cls_alt(acc, b, r2.len() as int);
    }
}
