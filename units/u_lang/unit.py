# U-lang: language theorem of the Thompson construction (pure spec level, C02): v_accepts(thompson(ast).0, cls, w) <==> re_lang(ast, w)
import os, importlib.util
from extract import *

def _load(name):
    p = os.path.join(os.path.dirname(os.path.abspath(__file__)), '..', name, 'unit.py')
    spec = importlib.util.spec_from_file_location('unit_' + name + '_for_lang', p)
    m = importlib.util.module_from_spec(spec)
    spec.loader.exec_module(m)
    return m

nfa = _load('u_nfa')
HERE = os.path.dirname(os.path.abspath(__file__))
items = []
for it in nfa.UNIT['items']:
    if isinstance(it, Fn):
        continue
    if isinstance(it, RawFile) and not os.path.isabs(it.path):
        items.append(RawFile(os.path.join(HERE, '..', 'u_nfa', it.path), it.label))
    else:
        items.append(it)
items += [RawFile(os.path.join(HERE, '..', 'common', 'clsf.rs'), 'clsf.rs'), RawFile('lang_path.rs'), RawFile('lang_embed.rs'), RawFile('lang_constr.rs'), RawFile('lang_regex.rs'), RawFile('lang_thm.rs'), RawFile('lang_cls.rs'), RawFile('lang_fresh.rs')]

LANG_FILES = ['lang_path.rs', 'lang_embed.rs', 'lang_constr.rs', 'lang_regex.rs', 'lang_thm.rs', 'lang_cls.rs', 'lang_fresh.rs']
UNIT = dict(name='u_lang', externs=['regex_syntax'], header=nfa.UNIT['header'], items=items)
