// ---------------------------------------------------------------- U-class: error type and the MatchFn wrapper
#[verifier::external_body]
pub struct ScnrError { _private: () }
pub type Result<T> = std::result::Result<T, ScnrError>;

// ---- the MatchFn wrapper (3 lines around `Box<dyn Fn(char) -> bool>`) is TRUSTED and opaque here
#[verifier::external_body]
pub struct MatchFn { _private: () }

pub open spec fn mf_models<F: Fn(char) -> bool>(f: F, g: CharSet) -> bool {
    forall|c: char, b: bool| call_ensures(f, (c,), b) ==> b == g(c)
}

impl MatchFn {
    /// the set of characters the boxed closure accepts
    pub uninterp spec fn sem(&self) -> CharSet;

    #[verifier::external_body]
    pub fn new<F>(f: F) -> (r: Self)
        where F: Fn(char) -> bool + 'static + Send + Sync
        requires forall|c: char| call_requires(f, (c,)),
        ensures forall|g: CharSet| #[trigger] mf_models(f, g) ==> forall|c: char| #[trigger] r.sem()(c) == g(c),
    {
        unimplemented!()
    }

    /// stands for `self.inner()(ch)`: calling the boxed closure
    #[verifier::external_body]
    pub fn __call(&self, ch: char) -> (b: bool)
        ensures b == self.sem()(ch)
    {
        unimplemented!()
    }
}

// TRUSTED: construction of the error value (`unsupported!(format!(..))`)
#[verifier::external_body] pub fn verif_unsupported() -> ScnrError { unimplemented!() }

// std contracts: the char predicates are the (uninterpreted) spec predicates of class_sem.rs
pub assume_specification[ char::is_numeric ](c: char) -> (r: bool)
    ensures r == spec_is_numeric(c);
// (char::is_whitespace is specified by vstd: r == vstd::std_specs::char::is_white_space(c))
pub assume_specification[ char::is_alphanumeric ](c: char) -> (r: bool)
    ensures r == spec_is_alphanumeric(c);
pub assume_specification[ char::is_alphabetic ](c: char) -> (r: bool)
    ensures r == spec_is_alphabetic(c);
pub assume_specification[ char::is_ascii ](c: &char) -> (r: bool)
    ensures r == spec_is_ascii(*c);
pub assume_specification[ char::is_ascii_whitespace ](c: &char) -> (r: bool)
    ensures r == spec_is_ascii_whitespace(*c);
pub assume_specification[ char::is_ascii_control ](c: &char) -> (r: bool)
    ensures r == spec_is_ascii_control(*c);
pub assume_specification[ char::is_ascii_graphic ](c: &char) -> (r: bool)
    ensures r == spec_is_ascii_graphic(*c);
pub assume_specification[ char::is_lowercase ](c: char) -> (r: bool)
    ensures r == spec_is_lowercase(c);
pub assume_specification[ char::is_ascii_punctuation ](c: &char) -> (r: bool)
    ensures r == spec_is_ascii_punctuation(*c);
pub assume_specification[ char::is_uppercase ](c: char) -> (r: bool)
    ensures r == spec_is_uppercase(c);
pub assume_specification[ char::is_ascii_hexdigit ](c: &char) -> (r: bool)
    ensures r == spec_is_ascii_hexdigit(*c);
