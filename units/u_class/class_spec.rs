// ---------------------------------------------------------------- U-class: imported AST types (regex_syntax 0.8) and the set-algebra semantics (C08)
#[verifier::external_type_specification] pub struct ExPosition(Position);
#[verifier::external_type_specification] pub struct ExSpan(Span);
#[verifier::external_type_specification] pub struct ExHexLiteralKind(HexLiteralKind);
#[verifier::external_type_specification] pub struct ExSpecialLiteralKind(SpecialLiteralKind);
#[verifier::external_type_specification] pub struct ExLiteralKind(LiteralKind);
#[verifier::external_type_specification] pub struct ExLiteral(Literal);
#[verifier::external_type_specification] pub struct ExClassSetRange(ClassSetRange);
#[verifier::external_type_specification] #[verifier::external_body] pub struct ExClassAscii(ClassAscii);
#[verifier::external_type_specification] #[verifier::external_body] pub struct ExClassUnicode(ClassUnicode);
#[verifier::external_type_specification] #[verifier::external_body] pub struct ExClassPerl(ClassPerl);
#[verifier::external_type_specification] pub struct ExClassSetUnion(ClassSetUnion);
#[verifier::external_type_specification] pub struct ExClassBracketed(ClassBracketed);
#[verifier::external_type_specification] pub struct ExClassSet(ClassSet);
#[verifier::external_type_specification] pub struct ExClassSetBinaryOp(ClassSetBinaryOp);
#[verifier::external_type_specification] pub struct ExClassSetBinaryOpKind(ClassSetBinaryOpKind);
#[verifier::external_type_specification] pub struct ExClassSetItem(ClassSetItem);

// derived PartialEq of the AST's LiteralKind is structural
pub assume_specification[ <LiteralKind as PartialEq>::eq ](a: &LiteralKind, b: &LiteralKind) -> (r: bool)
    ensures r == (*a == *b);

pub assume_specification<T: ?Sized + core::marker::MetaSized, A: std::alloc::Allocator>[ <std::boxed::Box<T, A> as std::convert::AsRef<T>>::as_ref ](b: &std::boxed::Box<T, A>) -> (r: &T)
    ensures r == &**b;

#[verifier::external_body]
pub struct ScnrError { _private: () }
pub type Result<T> = std::result::Result<T, ScnrError>;

pub type CharSet = spec_fn(char) -> bool;

/// a named item "contributes exactly the set it denotes when used alone": the sets of \d \s \w, [:alpha:], \p{..}
/// are uninterpreted leaves of the algebra
pub uninterp spec fn named_ascii(a: ClassAscii) -> CharSet;
pub uninterp spec fn named_unicode(a: ClassUnicode) -> CharSet;
pub uninterp spec fn named_perl(a: ClassPerl) -> CharSet;

/// a literal matches only itself; the verbatim `.` inside a class stands for "neither \n nor \r" (README)
pub open spec fn lit_in(l: Literal, ch: char) -> bool {
    if l.c == '.' && l.kind == LiteralKind::Verbatim { ch != '\n' && ch != '\r' } else { ch == l.c }
}

/// membership in a class set: the boolean combination of its operands
pub open spec fn set_in(s: ClassSet, ch: char) -> bool
    decreases s
{
    match s {
        ClassSet::Item(i) => item_in(i, ch),
        ClassSet::BinaryOp(op) => match op.kind {
            ClassSetBinaryOpKind::Intersection => set_in(*op.lhs, ch) && set_in(*op.rhs, ch),
            ClassSetBinaryOpKind::Difference => set_in(*op.lhs, ch) && !set_in(*op.rhs, ch),
            ClassSetBinaryOpKind::SymmetricDifference => set_in(*op.lhs, ch) != set_in(*op.rhs, ch),
        },
    }
}

pub open spec fn item_in(i: ClassSetItem, ch: char) -> bool
    decreases i
{
    match i {
        ClassSetItem::Empty(_) => false,
        ClassSetItem::Literal(l) => lit_in(l, ch),
        ClassSetItem::Range(r) => r.start.c <= ch && ch <= r.end.c,
        ClassSetItem::Ascii(a) => named_ascii(a)(ch),
        ClassSetItem::Unicode(u) => named_unicode(u)(ch),
        ClassSetItem::Perl(p) => named_perl(p)(ch),
        ClassSetItem::Bracketed(b) => set_in(b.kind, ch) != b.negated,
        ClassSetItem::Union(u) => union_in(u.items@, u.items@.len() as int, ch),
    }
}

/// item k of the list contains ch
pub open spec fn in_item(items: Seq<ClassSetItem>, k: int, ch: char) -> bool
    decreases items, 0int
{
    0 <= k < items.len() && item_in(items[k], ch)
}

/// ch is in the union of the first n items
pub open spec fn union_in(items: Seq<ClassSetItem>, n: int, ch: char) -> bool
    decreases items, 1int
{
    exists|k: int| 0 <= #[trigger] idx(k) < n && in_item(items, k, ch)
}

/// (trigger helper: a non-recursive term to instantiate the witness with)
pub open spec fn idx(k: int) -> int { k }

pub open spec fn bracketed_in(b: ClassBracketed, ch: char) -> bool {
    set_in(b.kind, ch) != b.negated
}

// ---- the MatchFn wrapper (3 lines around `Box<dyn Fn(char) -> bool>`) is TRUSTED and opaque here
#[verifier::external_body]
pub struct MatchFn { _private: () }

pub open spec fn mf_models<F: Fn(char) -> bool>(f: F, g: CharSet) -> bool {
    forall|c: char, b: bool| call_ensures(f, (c,), b) ==> b == g(c)
}

impl MatchFn {
    /// the set of characters the boxed closure accepts
    pub uninterp spec fn sem(&self) -> CharSet;

    #[verifier::external_body]
    pub fn new<F>(f: F) -> (r: Self)
        where F: Fn(char) -> bool + 'static + Send + Sync
        requires forall|c: char| call_requires(f, (c,)),
        ensures forall|g: CharSet| #[trigger] mf_models(f, g) ==> forall|c: char| #[trigger] r.sem()(c) == g(c),
    {
        unimplemented!()
    }

    /// stands for `self.inner()(ch)`: calling the boxed closure
    #[verifier::external_body]
    pub fn __call(&self, ch: char) -> (b: bool)
        ensures b == self.sem()(ch)
    {
        unimplemented!()
    }
}

// TRUSTED leaves: the closures built for [:alnum:] .. [:xdigit:] call char / seshat predicates Verus does not model
#[verifier::external_body]
pub fn verif_ascii_leaf(a: &ClassAscii) -> (r: MatchFn)
    ensures forall|c: char| #[trigger] r.sem()(c) == named_ascii(*a)(c)
{ unimplemented!() }
