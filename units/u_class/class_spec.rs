// ---------------------------------------------------------------- U-class: error type and the MatchFn wrapper
#[verifier::external_body]
pub struct ScnrError { _private: () }
pub type Result<T> = std::result::Result<T, ScnrError>;

// ---- the MatchFn wrapper (3 lines around `Box<dyn Fn(char) -> bool>`) is TRUSTED and opaque here
#[verifier::external_body]
pub struct MatchFn { _private: () }

pub open spec fn mf_models<F: Fn(char) -> bool>(f: F, g: CharSet) -> bool {
    forall|c: char, b: bool| call_ensures(f, (c,), b) ==> b == g(c)
}

impl MatchFn {
    /// the set of characters the boxed closure accepts
    pub uninterp spec fn sem(&self) -> CharSet;

    #[verifier::external_body]
    pub fn new<F>(f: F) -> (r: Self)
        where F: Fn(char) -> bool + 'static + Send + Sync
        requires forall|c: char| call_requires(f, (c,)),
        ensures forall|g: CharSet| #[trigger] mf_models(f, g) ==> forall|c: char| #[trigger] r.sem()(c) == g(c),
    {
        unimplemented!()
    }

    /// stands for `self.inner()(ch)`: calling the boxed closure
    #[verifier::external_body]
    pub fn __call(&self, ch: char) -> (b: bool)
        ensures b == self.sem()(ch)
    {
        unimplemented!()
    }
}

// TRUSTED leaves: the closures built for [:alnum:] .. [:xdigit:] call char / seshat predicates Verus does not model
#[verifier::external_body]
pub fn verif_ascii_leaf(a: &ClassAscii) -> (r: MatchFn)
    ensures forall|c: char| #[trigger] r.sem()(c) == named_ascii(*a)(c)
{ unimplemented!() }

// TRUSTED: construction of the error value (`unsupported!(format!(..))`)
#[verifier::external_body] pub fn verif_unsupported() -> ScnrError { unimplemented!() }
