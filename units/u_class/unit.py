# U-class: the set algebra of character classes (C08): TryFrom<..> for MatchFn over the imported regex_syntax AST.
from extract import *

F_MF = 'scnr/src/internal/match_function.rs'
MF = 'MatchFn'


def tf(impl_ty, rename, spec, edits=(), external_body=False, trusted_reason=None, props=('C08',)):
    return Fn(F_MF, 'TryFrom<%s> for MatchFn' % impl_ty, 'try_from', ret='r', rename=rename, impl_as=MF, qual_as=MF,
              spec=spec, edits=list(edits), external_body=external_body, trusted_reason=trusted_reason, props=list(props),
              sig_replace=[('Result<Self>', 'Result<MatchFn>')] if False else None)


literal = tf('&Literal', 'try_from__literal', '''
ensures r matches Ok(f) && forall|ch: char| #[trigger] f.sem()(ch) == lit_in(*l, ch)
''', edits=[MatchFnClosures()])

unicode = tf('&ClassUnicode', 'try_from__unicode', '''
ensures r matches Ok(f) ==> forall|ch: char| #[trigger] f.sem()(ch) == named_unicode(*unicode)(ch)
''', external_body=True, trusted_reason='named leaf: closures call seshat / char predicates; the set is the uninterpreted named_unicode')
perl = tf('&ClassPerl', 'try_from__perl', '''
ensures r matches Ok(f) && forall|ch: char| #[trigger] f.sem()(ch) == named_perl(*perl)(ch)
''', edits=[
    MatchFnClosures(calls={'is_numeric': 'spec_is_numeric', 'is_whitespace': 'spec_is_whitespace', 'is_alphanumeric': 'spec_is_alphanumeric', 'join_c': 'spec_join_c', 'gc': 'spec_gc'}),
])

union = tf('&ClassSetUnion', 'try_from__union', '''
ensures r matches Ok(f) ==> forall|ch: char| #[trigger] f.sem()(ch) == union_in(union.items@, union.items@.len() as int, ch)
decreases *union, 0int
''', edits=[
    Replace('E11', 'union.items.iter().try_fold($init, |acc, s| { (s, false).try_into().map(|f: MatchFn| $mk) })', '''{
    let mut __acc = $init;
    let ghost items = union.items@;
    let ghost mut n: int = 0;
    let mut __it0 = union.items.iter();
    loop
        invariant
            __it0.obeys_prophetic_iter_laws(), __it0.decrease() is Some,
            items == union.items@, 0 <= n <= items.len(),
            __it0.remaining().len() == items.len() - n,
            forall|q: int| 0 <= q < __it0.remaining().len() ==> *#[trigger] __it0.remaining()[q] == items[n + q],
            forall|ch: char| #[trigger] __acc.sem()(ch) == union_in(items, n, ch),
        ensures n == items.len()
        decreases __it0.decrease()->0
    {
        let Some(s) = __it0.next() else { break };
        proof { assert(*s == items[n]); }
        let f: MatchFn = MatchFn::try_from__item((s, false))?;
        let acc = __acc;
        let ghost acc_sem = acc.sem();
        let ghost f_sem = f.sem();
        __acc = $mk;
        proof {
            assert forall|ch: char| #[trigger] __acc.sem()(ch) == union_in(items, n + 1, ch) by {
                assert(__acc.sem()(ch) == (acc_sem(ch) || f_sem(ch)));
                assert(f_sem(ch) == item_in(items[n], ch));
                assert(in_item(items, n, ch) == f_sem(ch));
                if union_in(items, n + 1, ch) {
                    let k = choose|k: int| 0 <= #[trigger] idx(k) < n + 1 && in_item(items, k, ch);
                    if k < n { assert(0 <= idx(k) < n && in_item(items, k, ch)); assert(union_in(items, n, ch)); }
                }
                if union_in(items, n, ch) {
                    let k = choose|k: int| 0 <= #[trigger] idx(k) < n && in_item(items, k, ch);
                    assert(0 <= idx(k) < n + 1 && in_item(items, k, ch));
                }
                if f_sem(ch) { assert(0 <= idx(n) < n + 1 && in_item(items, n, ch)); }
            }
            n = n + 1;
        }
    }
    Ok(__acc)
}''', why='iter().try_fold(init, |acc, s| f(acc, s)) on a slice is `for s in iter { acc = f(acc, s)? } Ok(acc)` (std definition); the accumulator-building closure body is kept verbatim'),
    MatchFnClosures(),
])

bracketed = tf('&ClassBracketed', 'try_from__bracketed', '''
ensures r matches Ok(f) ==> forall|ch: char| #[trigger] f.sem()(ch) == bracketed_in(*bracketed, ch)
decreases *bracketed, 0int
''', edits=[
    Replace('E9', 'ClassSet::Item(item) => $x.try_into()', 'ClassSet::Item(item) => MatchFn::try_from__item($x)', why='trait dispatch resolved by argument type'),
    Replace('E9', 'ClassSet::BinaryOp(bin_op) => $x.try_into()', 'ClassSet::BinaryOp(bin_op) => MatchFn::try_from__binop($x)', why='trait dispatch resolved by argument type'),
])

class_set = tf('&ClassSet', 'try_from__class_set', '''
ensures r matches Ok(f) ==> forall|ch: char| #[trigger] f.sem()(ch) == set_in(*set, ch)
decreases *set, 1int
''', edits=[
    Replace('E9', 'ClassSet::Item(item) => $x.try_into()', 'ClassSet::Item(item) => MatchFn::try_from__item($x)', why='trait dispatch resolved by argument type'),
    Replace('E9', 'ClassSet::BinaryOp(bin_op) => $x.try_into()', 'ClassSet::BinaryOp(bin_op) => MatchFn::try_from__binop($x)', why='trait dispatch resolved by argument type'),
])

item = Fn(F_MF, 'TryFrom<(&ClassSetItem, bool)> for MatchFn', 'try_from', ret='r', rename='try_from__item', impl_as=MF, qual_as=MF, props=['C08'],
          sig_replace=[('(item, negated): (&ClassSetItem, bool)', 'arg: (&ClassSetItem, bool)')],
          spec='''
ensures r matches Ok(f) ==> forall|ch: char| #[trigger] f.sem()(ch) == (item_in(*arg.0, ch) != arg.1)
decreases *arg.0, 0int
''', edits=[
    Ins('body_start', None, 'let (item, negated) = arg;') if False else Replace('E2', 'let match_function = match item {', 'let (item, negated) = arg;\nlet match_function = match item {', why='tuple pattern in the parameter list bound by a let (Verus rejects patterns in parameters of functions with contracts)'),
    Replace('E9', 'l.try_into()?', 'MatchFn::try_from__literal(l)?', why='trait dispatch resolved by argument type'),
    Replace('E9', 'ClassSetItem::Unicode(ref c) => c.try_into()?', 'ClassSetItem::Unicode(ref c) => MatchFn::try_from__unicode(c)?', why='trait dispatch resolved by argument type'),
    Replace('E9', 'ClassSetItem::Perl(ref c) => c.try_into()?', 'ClassSetItem::Perl(ref c) => MatchFn::try_from__perl(c)?', why='trait dispatch resolved by argument type'),
    Replace('E9', 'c.as_ref().try_into()?', 'MatchFn::try_from__bracketed(c.as_ref())?', why='trait dispatch resolved by argument type'),
    Replace('E9', 'ClassSetItem::Union(ref c) => c.try_into()?', 'ClassSetItem::Union(ref c) => MatchFn::try_from__union(c)?', why='trait dispatch resolved by argument type'),
    MatchFnClosures(calls={'is_alphanumeric': 'spec_is_alphanumeric', 'is_alphabetic': 'spec_is_alphabetic', 'is_ascii': 'spec_is_ascii', 'is_ascii_whitespace': 'spec_is_ascii_whitespace', 'is_ascii_control': 'spec_is_ascii_control', 'is_ascii_graphic': 'spec_is_ascii_graphic', 'is_lowercase': 'spec_is_lowercase', 'is_ascii_punctuation': 'spec_is_ascii_punctuation', 'is_uppercase': 'spec_is_uppercase', 'is_ascii_hexdigit': 'spec_is_ascii_hexdigit', 'is_numeric': 'spec_is_numeric', 'is_whitespace': 'spec_is_whitespace', 'join_c': 'spec_join_c', 'gc': 'spec_gc'}),
])

binop = Fn(F_MF, 'TryFrom<(&ClassSetBinaryOp, bool)> for MatchFn', 'try_from', ret='r', rename='try_from__binop', impl_as=MF, qual_as=MF, props=['C08'],
           sig_replace=[('(bin_op, negated): (&ClassSetBinaryOp, bool)', 'arg: (&ClassSetBinaryOp, bool)')],
           spec='''
ensures r matches Ok(f) ==> forall|ch: char| #[trigger] f.sem()(ch) == (set_in(ClassSet::BinaryOp(*arg.0), ch) != arg.1)
decreases *arg.0, 0int
''', edits=[
    Replace('E2', 'let ClassSetBinaryOp { kind, lhs, rhs, .. } = bin_op;', 'let (bin_op, negated) = arg;\nlet ClassSetBinaryOp { kind, lhs, rhs, .. } = bin_op;', why='tuple pattern in the parameter list bound by a let'),
    Replace('E9', 'lhs.as_ref().try_into()?', 'MatchFn::try_from__class_set(lhs.as_ref())?', why='trait dispatch resolved by argument type'),
    Replace('E9', 'rhs.as_ref().try_into()?', 'MatchFn::try_from__class_set(rhs.as_ref())?', why='trait dispatch resolved by argument type'),
    MatchFnClosures(),
])

# ---- MatchFunction: the wrapper the registry stores per class, and the dispatch on the leaf kind (top-level `.`, literal, \\d, \\p{..}, [..])
mfun_new = Fn(F_MF, 'MatchFunction', 'new', ret='r', props=['C08', 'C02'], spec='''
requires forall|c: char| call_requires(f, (c,)),
ensures forall|g: CharSet| #[trigger] mf_models(f, g) ==> forall|c: char| #[trigger] r.match_fn.sem()(c) == g(c),
''')
mfun_call = Fn(F_MF, 'MatchFunction', 'call', ret='b', props=['C08', 'C02'], spec='''
ensures b == self.match_fn.sem()(c)
''', edits=[Replace('E3', 'self.match_fn.inner()(c)', 'self.match_fn.__call(c)', why='calling the boxed closure of the trusted MatchFn wrapper')])
mfun_try_from = Fn(F_MF, 'TryFrom<&Ast> for MatchFunction', 'try_from', ret='r', rename='try_from__ast', impl_as='MatchFunction', qual_as='MatchFunction', props=['C08', 'C02', 'C15'],
    spec='''
ensures
    // the class predicate of a registered leaf is the leaf's meaning (top-level `.`: everything except \\n and \\r; a literal: only itself)
    r matches Ok(f) ==> is_class_leaf(*ast) && forall|ch: char| #[trigger] f.match_fn.sem()(ch) == leaf_sem(*ast, ch),
    // any other node is rejected, never mis-compiled
    !is_class_leaf(*ast) ==> r is Err,
''', edits=[
    Replace('E9', 'match_fn: l.as_ref().try_into()?', 'match_fn: MatchFn::try_from__literal(l.as_ref())?', why='trait dispatch resolved by argument type'),
    Replace('E9', 'Ast::ClassUnicode(ref c) => Self { match_fn: c.as_ref().try_into()?, }', 'Ast::ClassUnicode(ref c) => Self { match_fn: MatchFn::try_from__unicode(c.as_ref())?, }', why='trait dispatch resolved by argument type'),
    Replace('E9', 'Ast::ClassPerl(ref c) => Self { match_fn: c.as_ref().try_into()?, }', 'Ast::ClassPerl(ref c) => Self { match_fn: MatchFn::try_from__perl(c.as_ref())?, }', why='trait dispatch resolved by argument type'),
    Replace('E9', 'Ast::ClassBracketed(ref c) => Self { match_fn: c.as_ref().try_into()?, }', 'Ast::ClassBracketed(ref c) => Self { match_fn: MatchFn::try_from__bracketed(c.as_ref())?, }', why='trait dispatch resolved by argument type'),
    Replace('U3', 'return Err(unsupported!(format!("{:#?}", ast)))', 'return Err(verif_unsupported())', why='TRUSTED: construction of the error value'),
    MatchFnClosures('Self :: new'),
])

UNIT = dict(
    name='u_class',
    externs=['regex_syntax'],
    header='''#![feature(allocator_api)]
#![feature(sized_hierarchy)]
#![allow(unused_imports, unused_variables, unused_mut, unused_assignments, dead_code, unused_parens, unused_braces)]
use vstd::prelude::*;
use vstd::std_specs::iter::IteratorSpec;
use regex_syntax::ast::{
    Ast, Assertion, Flag, FlagsItemKind, FlagsItem, Flags, SetFlags, RepetitionRange, RepetitionKind, RepetitionOp, Repetition, CaptureName, GroupKind, Group, Alternation, Concat,
    ClassBracketed, ClassSet, ClassSetBinaryOp, ClassSetBinaryOpKind, ClassSetItem, ClassSetRange,
    ClassSetUnion, Literal, LiteralKind, Span, Position, ClassAscii, ClassAsciiKind, ClassUnicode, ClassPerl, ClassPerlKind, HexLiteralKind, SpecialLiteralKind,
};
''',
    items=[
        RawFile('../common/class_types.rs'),
        RawFile('../common/ast_upper_types.rs'),
        RawFile('../common/class_sem.rs'),
        RawFile('../common/leaf_sem.rs'),
        RawFile('class_spec.rs'),
        literal, unicode, perl, union, bracketed, class_set, item, binop,
        Struct(F_MF, 'MatchFunction', derive=[]),
        mfun_new, mfun_call, mfun_try_from,
    ],
)
