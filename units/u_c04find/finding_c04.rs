// ---------------------------------------------------------------- KNOWN FINDING D9 (property C04), kept as a failing obligation on purpose
/// Property C04 says: a pattern is gated by ITS OWN lookahead. The statement below is theorem_scanner_cand WITHOUT the hypothesis la_consistent
/// (patterns of a mode that share a token type carry the same lookahead). It is FALSE for the pinned code: CompiledDfa::try_from_patterns stores
/// lookaheads in a map keyed by token type (`add_lookahead(terminal_id, ..)`, HashMap::insert overwrites), so of several patterns sharing a token
/// type only the last lookahead survives and gates ALL of them (proved: lemma_scanner_cand_last). Concrete failing input against the real crate:
/// findings/D9_shared_token_type_lookahead.json (patterns ab(?=x) -> 1, cd(?=y) -> 1 on "aby": token (1, 0..2) although no x follows; on "abx": no
/// token). This obligation is listed in known_findings.txt; it must keep failing exactly here until the defect is repaired.
pub proof fn finding_c04_lookahead_per_token_type(pats: Seq<Pattern>, lf: LeafF, tid: TerminalID, rest: Seq<char>, i: int)
    requires 0 <= i < pats.len(), tid_of(pats[i]) == tid
    // lemma_scanner_cand_last (proved, U-build): the compiled scanner gates every candidate of token type tid by p_la_ok_last. C04 demands pattern i's own
    // lookahead condition. The two differ as soon as another pattern with the same token type carries a different lookahead (or none / one where this has none).
    ensures p_la_ok_own(pats[i], lf, rest) == p_la_ok_last(pats, lf, tid, rest)
{
    hide(p_la_matches);
}
