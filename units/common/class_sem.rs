// ---------------------------------------------------------------- set-algebra semantics of character classes (C08), shared by U-class, U-reg, U-build
pub type CharSet = spec_fn(char) -> bool;

/// a named item "contributes exactly the set it denotes when used alone": the sets of \d \s \w, [:alpha:], \p{..}
/// are uninterpreted leaves of the algebra
pub uninterp spec fn named_ascii(a: ClassAscii) -> CharSet;
pub uninterp spec fn named_unicode(a: ClassUnicode) -> CharSet;
pub uninterp spec fn named_perl(a: ClassPerl) -> CharSet;

/// a literal matches only itself; the verbatim `.` inside a class stands for "neither \n nor \r" (README)
pub open spec fn lit_in(l: Literal, ch: char) -> bool {
    if l.c == '.' && l.kind == LiteralKind::Verbatim { ch != '\n' && ch != '\r' } else { ch == l.c }
}

/// membership in a class set: the boolean combination of its operands
pub open spec fn set_in(s: ClassSet, ch: char) -> bool
    decreases s
{
    match s {
        ClassSet::Item(i) => item_in(i, ch),
        ClassSet::BinaryOp(op) => match op.kind {
            ClassSetBinaryOpKind::Intersection => set_in(*op.lhs, ch) && set_in(*op.rhs, ch),
            ClassSetBinaryOpKind::Difference => set_in(*op.lhs, ch) && !set_in(*op.rhs, ch),
            ClassSetBinaryOpKind::SymmetricDifference => set_in(*op.lhs, ch) != set_in(*op.rhs, ch),
        },
    }
}

pub open spec fn item_in(i: ClassSetItem, ch: char) -> bool
    decreases i
{
    match i {
        ClassSetItem::Empty(_) => false,
        ClassSetItem::Literal(l) => lit_in(l, ch),
        ClassSetItem::Range(r) => r.start.c <= ch && ch <= r.end.c,
        ClassSetItem::Ascii(a) => named_ascii(a)(ch),
        ClassSetItem::Unicode(u) => named_unicode(u)(ch),
        ClassSetItem::Perl(p) => named_perl(p)(ch),
        ClassSetItem::Bracketed(b) => set_in(b.kind, ch) != b.negated,
        ClassSetItem::Union(u) => union_in(u.items@, u.items@.len() as int, ch),
    }
}

/// item k of the list contains ch
pub open spec fn in_item(items: Seq<ClassSetItem>, k: int, ch: char) -> bool
    decreases items, 0int
{
    0 <= k < items.len() && item_in(items[k], ch)
}

/// ch is in the union of the first n items
pub open spec fn union_in(items: Seq<ClassSetItem>, n: int, ch: char) -> bool
    decreases items, 1int
{
    exists|k: int| 0 <= #[trigger] idx(k) < n && in_item(items, k, ch)
}

/// (trigger helper: a non-recursive term to instantiate the witness with)
pub open spec fn idx(k: int) -> int { k }

pub open spec fn bracketed_in(b: ClassBracketed, ch: char) -> bool {
    set_in(b.kind, ch) != b.negated
}

