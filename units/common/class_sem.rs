// ---------------------------------------------------------------- set-algebra semantics of character classes (C08), shared by U-class, U-reg, U-build
pub type CharSet = spec_fn(char) -> bool;

/// a named item "contributes exactly the set it denotes when used alone": the sets of \d \s \w, [:alpha:], \p{..}
/// are uninterpreted leaves of the algebra
/// std's char predicates behind the [:class:] items (uninterpreted: statements about std)
pub uninterp spec fn spec_is_alphanumeric(c: char) -> bool;
pub uninterp spec fn spec_is_alphabetic(c: char) -> bool;
pub uninterp spec fn spec_is_ascii(c: char) -> bool;
pub uninterp spec fn spec_is_ascii_whitespace(c: char) -> bool;
pub uninterp spec fn spec_is_ascii_control(c: char) -> bool;
pub uninterp spec fn spec_is_ascii_graphic(c: char) -> bool;
pub uninterp spec fn spec_is_lowercase(c: char) -> bool;
pub uninterp spec fn spec_is_ascii_punctuation(c: char) -> bool;
pub uninterp spec fn spec_is_uppercase(c: char) -> bool;
pub uninterp spec fn spec_is_ascii_hexdigit(c: char) -> bool;
/// the set a [:class:] item denotes is that of the predicate the code calls for its kind; [:^class:] is its complement
pub open spec fn ascii_base(k: ClassAsciiKind, c: char) -> bool {
    match k {
        ClassAsciiKind::Alnum => spec_is_alphanumeric(c),
        ClassAsciiKind::Alpha => spec_is_alphabetic(c),
        ClassAsciiKind::Ascii => spec_is_ascii(c),
        ClassAsciiKind::Blank => spec_is_ascii_whitespace(c),
        ClassAsciiKind::Cntrl => spec_is_ascii_control(c),
        ClassAsciiKind::Digit => spec_is_numeric(c),
        ClassAsciiKind::Graph => spec_is_ascii_graphic(c),
        ClassAsciiKind::Lower => spec_is_lowercase(c),
        ClassAsciiKind::Print => spec_is_ascii_graphic(c),
        ClassAsciiKind::Punct => spec_is_ascii_punctuation(c),
        ClassAsciiKind::Space => spec_is_whitespace(c),
        ClassAsciiKind::Upper => spec_is_uppercase(c),
        ClassAsciiKind::Word => spec_perl_word(c),
        ClassAsciiKind::Xdigit => spec_is_ascii_hexdigit(c),
    }
}
pub open spec fn named_ascii(a: ClassAscii) -> CharSet { |c: char| ascii_base(a.kind, c) != a.negated }
pub uninterp spec fn named_unicode(a: ClassUnicode) -> CharSet;
/// std's char predicates behind \\d and \\s (uninterpreted: statements about std's Unicode tables), and the predicate of \\w (std + seshat tables)
pub uninterp spec fn spec_is_numeric(c: char) -> bool;
/// (vstd's own contract of char::is_whitespace: the White_Space code points, written out)
pub open spec fn spec_is_whitespace(c: char) -> bool { vstd::std_specs::char::is_white_space(c) }
// ---- TRUSTED declaration of the dependency seshat-unicode 0.3.1 (its tables are outside Verus): `props::Gc` (General_Category; the 30 values it declares, in its order) and
// the two members of `trait Ucd` that the \\w / [:word:] closures call, specified by uninterpreted functions (statements about seshat's tables)
#[derive(PartialEq, Eq, Clone, Copy, Structural)]
pub enum Gc { Cc, Cf, Cn, Co, Cs, Ll, Lm, Lo, Lt, Lu, Mc, Me, Mn, Nd, Nl, No, Pc, Pd, Pe, Pf, Pi, Po, Ps, Sc, Sk, Sm, So, Zl, Zp, Zs }
pub uninterp spec fn spec_gc(c: char) -> Gc;
pub uninterp spec fn spec_join_c(c: char) -> bool;
pub trait Ucd: Sized {
    spec fn ucd_char(&self) -> char;
    fn gc(&self) -> (r: Gc)
        ensures r == spec_gc(self.ucd_char());
    fn join_c(&self) -> (r: bool)
        ensures r == spec_join_c(self.ucd_char());
}
impl Ucd for char {
    open spec fn ucd_char(&self) -> char { *self }
    #[verifier::external_body] fn gc(&self) -> Gc { unimplemented!() }
    #[verifier::external_body] fn join_c(&self) -> bool { unimplemented!() }
}
/// the set of \\w and [:word:]: what the code's closure computes (alphanumeric, Join_Control, connector punctuation, nonspacing marks) - its `ensures` is generated from its body
pub open spec fn spec_perl_word(c: char) -> bool {
    spec_is_alphanumeric(c) || spec_join_c(c) || spec_gc(c) == Gc::Pc || spec_gc(c) == Gc::Mn
}
/// \\d \\s \\w denote the sets of those predicates; \\D \\S \\W their complements
pub open spec fn perl_base(k: ClassPerlKind, c: char) -> bool {
    match k {
        ClassPerlKind::Digit => spec_is_numeric(c),
        ClassPerlKind::Space => spec_is_whitespace(c),
        ClassPerlKind::Word => spec_perl_word(c),
    }
}
pub open spec fn named_perl(a: ClassPerl) -> CharSet { |c: char| perl_base(a.kind, c) != a.negated }

/// TRUSTED std fact (std's char::is_numeric: `match self { '0'..='9' => true, c => c > '\\x7f' && unicode::N(c) }`): on ASCII it is the decimal digits
pub axiom fn axiom_is_numeric_ascii(c: char)
    requires (c as u32) < 128
    ensures spec_is_numeric(c) == ('0' <= c && c <= '9');

/// TRUSTED std fact (std's char::is_alphanumeric = is_alphabetic || is_numeric, both with ASCII fast paths): on ASCII it is [0-9A-Za-z]
pub axiom fn axiom_is_alphanumeric_ascii(c: char)
    requires (c as u32) < 128
    ensures spec_is_alphanumeric(c) == (('0' <= c && c <= '9') || ('A' <= c && c <= 'Z') || ('a' <= c && c <= 'z'));
/// TRUSTED Unicode facts about seshat's tables on ASCII (UnicodeData.txt / PropList.txt): Join_Control is {U+200C, U+200D}; the only ASCII code point of category Pc is
/// U+005F LOW LINE; the first Mn is U+0300. (Cross-checked on every C08 run by the `named_leaves` enumeration of the real closures over all 128 ASCII code points.)
pub axiom fn axiom_seshat_ascii(c: char)
    requires (c as u32) < 128
    ensures !spec_join_c(c), (spec_gc(c) == Gc::Pc) == (c == '_'), spec_gc(c) != Gc::Mn;

/// C08: \\d and \\s restricted to ASCII are [0-9] and [\\t\\n\\x0B\\x0C\\r ]; \\D and \\S are their complements (everywhere, by definition of named_perl)
pub proof fn lemma_perl_ascii(p: ClassPerl, c: char)
    requires (c as u32) < 128
    ensures
        p.kind is Digit ==> named_perl(p)(c) == (('0' <= c && c <= '9') != p.negated),
        p.kind is Space ==> named_perl(p)(c) == ((c == '\t' || c == '\n' || c == '\x0B' || c == '\x0C' || c == '\r' || c == ' ') != p.negated),
        p.kind is Word ==> named_perl(p)(c) == ((('0' <= c && c <= '9') || ('A' <= c && c <= 'Z') || ('a' <= c && c <= 'z') || c == '_') != p.negated),
{
    axiom_is_numeric_ascii(c);
    axiom_is_alphanumeric_ascii(c);
    axiom_seshat_ascii(c);
}
pub proof fn lemma_perl_complement(p: ClassPerl, q: ClassPerl, c: char)
    requires p.kind == q.kind, p.negated != q.negated
    ensures named_perl(p)(c) == !named_perl(q)(c)
{ }

/// a literal matches only itself; the verbatim `.` inside a class stands for "neither \n nor \r" (README)
pub open spec fn lit_in(l: Literal, ch: char) -> bool {
    if l.c == '.' && l.kind == LiteralKind::Verbatim { ch != '\n' && ch != '\r' } else { ch == l.c }
}

/// membership in a class set: the boolean combination of its operands
pub open spec fn set_in(s: ClassSet, ch: char) -> bool
    decreases s
{
    match s {
        ClassSet::Item(i) => item_in(i, ch),
        ClassSet::BinaryOp(op) => match op.kind {
            ClassSetBinaryOpKind::Intersection => set_in(*op.lhs, ch) && set_in(*op.rhs, ch),
            ClassSetBinaryOpKind::Difference => set_in(*op.lhs, ch) && !set_in(*op.rhs, ch),
            ClassSetBinaryOpKind::SymmetricDifference => set_in(*op.lhs, ch) != set_in(*op.rhs, ch),
        },
    }
}

pub open spec fn item_in(i: ClassSetItem, ch: char) -> bool
    decreases i
{
    match i {
        ClassSetItem::Empty(_) => false,
        ClassSetItem::Literal(l) => lit_in(l, ch),
        ClassSetItem::Range(r) => r.start.c <= ch && ch <= r.end.c,
        ClassSetItem::Ascii(a) => named_ascii(a)(ch),
        ClassSetItem::Unicode(u) => named_unicode(u)(ch),
        ClassSetItem::Perl(p) => named_perl(p)(ch),
        ClassSetItem::Bracketed(b) => set_in(b.kind, ch) != b.negated,
        ClassSetItem::Union(u) => union_in(u.items@, u.items@.len() as int, ch),
    }
}

/// item k of the list contains ch
pub open spec fn in_item(items: Seq<ClassSetItem>, k: int, ch: char) -> bool
    decreases items, 0int
{
    0 <= k < items.len() && item_in(items[k], ch)
}

/// ch is in the union of the first n items
pub open spec fn union_in(items: Seq<ClassSetItem>, n: int, ch: char) -> bool
    decreases items, 1int
{
    exists|k: int| 0 <= #[trigger] idx(k) < n && in_item(items, k, ch)
}

/// (trigger helper: a non-recursive term to instantiate the witness with)
pub open spec fn idx(k: int) -> int { k }

pub open spec fn bracketed_in(b: ClassBracketed, ch: char) -> bool {
    set_in(b.kind, ch) != b.negated
}

