// ---------------------------------------------------------------- a compiled automaton read as find_from reads it (U-dfa: step1 / reach / acc)
pub open spec fn d_step(d: CompiledDfa, cls: ClsF, s: int, c: char, t: int) -> bool {
    0 <= s < d.states@.len() && 0 <= t <= u32::MAX
        && exists|cc: CharClassID| #[trigger] d.states@[s].transitions@.contains((cc, StateSetID(t as u32))) && cls(cc, c)
}
pub open spec fn d_reach(d: CompiledDfa, cls: ClsF, w: Seq<char>, t: int) -> bool
    decreases w.len()
{
    if w.len() == 0 { t == 0 } else { exists|s: int| d_reach(d, cls, w.drop_last(), s) && #[trigger] d_step(d, cls, s, w.last(), t) }
}
pub open spec fn d_acc(d: CompiledDfa, cls: ClsF, w: Seq<char>, tid: TerminalID) -> bool {
    exists|t: int| 0 <= t < d.states@.len() && #[trigger] d_reach(d, cls, w, t) && d.end_states@[t] == (true, tid)
}
