// ---------------------------------------------------------------- what a compiled automaton matches, as find_from reads it (written from properties C01 / C04 / C05;
// shared by the scan side, whose contracts are stated over it, and the build side, which proves what it means in terms of the patterns)
pub open spec fn trans(d: DfaCore, s: int) -> Seq<(CharClassID, StateSetID)> { d.states@[s].transitions@ }

pub open spec fn fires(d: DfaCore, cls: Cls, s: int, i: int, c: char) -> bool {
    0 <= i < trans(d, s).len() && cls(trans(d, s)[i].0, c)
}

pub open spec fn step1(d: DfaCore, cls: Cls, s: int, c: char, t: int) -> bool {
    exists|i: int| #[trigger] fires(d, cls, s, i, c) && trans(d, s)[i].1.0 == t
}

pub open spec fn reach(d: DfaCore, cls: Cls, w: Seq<char>, t: int) -> bool
    decreases w.len()
{
    if w.len() == 0 { t == 0 }
    else { exists|s: int| 0 <= s < d.states@.len() && reach(d, cls, w.drop_last(), s) && #[trigger] step1(d, cls, s, w.last(), t) }
}

pub open spec fn acc(d: DfaCore, cls: Cls, w: Seq<char>, tid: TerminalID) -> bool {
    exists|t: int| 0 <= t < d.states@.len() && #[trigger] reach(d, cls, w, t) && d.end_states@[t] == (true, tid)
}

pub open spec fn has_match(d: DfaCore, cls: Cls, rest: Seq<char>) -> bool {
    exists|l: int, tid: TerminalID| 1 <= l <= rest.len() && #[trigger] acc(d, cls, rest.take(l), tid)
}

pub open spec fn is_longest(d: DfaCore, cls: Cls, rest: Seq<char>, l: int) -> bool {
    &&& 1 <= l <= rest.len()
    &&& exists|tid: TerminalID| #[trigger] acc(d, cls, rest.take(l), tid)
    &&& forall|l2: int, tid2: TerminalID| l < l2 <= rest.len() ==> !#[trigger] acc(d, cls, rest.take(l2), tid2)
}

pub open spec fn longest(d: DfaCore, cls: Cls, rest: Seq<char>) -> int {
    choose|l: int| is_longest(d, cls, rest, l)
}

pub open spec fn la_ok(d: DfaCore, cls: Cls, tid: TerminalID, rest: Seq<char>) -> bool {
    d.lookaheads@.contains_key(tid) ==> (d.lookaheads@[tid].is_positive == has_match(core(*d.lookaheads@[tid].nfa), cls, rest))
}

pub open spec fn cand(d: DfaCore, cls: Cls, text: Seq<char>, l: int, tid: TerminalID) -> bool {
    1 <= l <= text.len() && acc(d, cls, text.take(l), tid) && la_ok(d, cls, tid, text.skip(l))
}

/// priority of a token type: the first position at which it occurs in the automaton's list of token types (pattern order)
pub open spec fn is_prio(ids: Seq<TerminalID>, tid: TerminalID, r: int) -> bool {
    0 <= r < ids.len() && ids[r] == tid && forall|j: int| 0 <= j < r ==> ids[j] != tid
}

pub open spec fn prio(d: DfaCore, tid: TerminalID) -> int {
    choose|r: int| is_prio(d.terminal_ids@, tid, r)
}

