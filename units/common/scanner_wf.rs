// ---------------------------------------------------------------- well-formedness of a scanner (assumed by the scan side, established by ScannerImpl::try_from: unit U-build)
pub open spec fn sorted_tr(ts: Seq<(TerminalID, ScannerModeID)>) -> bool {
    forall|i: int, j: int| 0 <= i < j < ts.len() ==> ts[i].0.0 < ts[j].0.0
}

pub open spec fn mode_wf(m: CompiledScannerMode, nmodes: int) -> bool {
    &&& wf(core(m.dfa))
    &&& sorted_tr(m.transitions@)
    &&& forall|i: int| 0 <= i < m.transitions@.len() ==> (#[trigger] m.transitions@[i]).1.0 < nmodes
}

/// valid configuration: at least one mode, every mode well formed, transitions lead to existing modes,
/// the class predicate is a deterministic function callable on every class id an automaton of the scanner refers to
pub open spec fn scanner_wf<M: Fn(CharClassID, char) -> bool>(s: ScannerImpl<M>) -> bool {
    &&& s.scanner_modes@.len() >= 1
    &&& forall|i: int| 0 <= i < s.scanner_modes@.len() ==> mode_wf(#[trigger] s.scanner_modes@[i], s.scanner_modes@.len() as int)
    &&& forall|i: int| 0 <= i < s.scanner_modes@.len() ==> cls_functional(&*s.match_char_class, core((#[trigger] s.scanner_modes@[i]).dfa))
}

