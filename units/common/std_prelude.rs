// ---------------------------------------------------------------- trusted prelude (std contracts)
#[verifier::external_type_specification]
#[verifier::external_body]
pub struct ExCharIndices<'a>(std::str::CharIndices<'a>);

#[verifier::external_type_specification]
#[verifier::external_body]
pub struct ExFxBuildHasher(rustc_hash::FxBuildHasher);

pub open spec fn clen(c: char) -> nat { vstd::utf8::encode_scalar(c as u32).len() }

pub open spec fn blen(s: Seq<char>) -> nat
    decreases s.len()
{
    if s.len() == 0 { 0 } else { blen(s.drop_last()) + clen(s.last()) }
}

/// byte offset of char index k
#[verifier::opaque]
pub open spec fn boff(input: Seq<char>, k: int) -> nat { blen(input.take(k)) }

/// the (byte index, char) pairs CharIndices yields for text `s` whose first char is at byte `base`
pub open spec fn ci_seq(s: Seq<char>, base: nat) -> Seq<(usize, char)> {
    Seq::new(s.len(), |i: int| ((base + blen(s.take(i))) as usize, s[i]))
}

pub assume_specification<'a>[ str::char_indices ](s: &'a str) -> (it: std::str::CharIndices<'a>)
    ensures
        it.obeys_prophetic_iter_laws(),
        it.decrease() is Some,
        it.remaining() == ci_seq(s@, 0);

pub assume_specification<'a>[ str::split_at_checked ](s: &'a str, mid: usize) -> (r: Option<(&'a str, &'a str)>)
    ensures
        match r {
            Some((a, b)) => exists|kk: int| 0 <= kk <= s@.len() && blen(#[trigger] s@.take(kk)) == mid && a@ == s@.take(kk) && b@ == s@.skip(kk),
            None => forall|kk: int| 0 <= kk <= s@.len() ==> blen(#[trigger] s@.take(kk)) != mid,
        };

pub assume_specification<T: PartialEq>[ <[T]>::contains ](s: &[T], x: &T) -> (r: bool)
    ensures r == s@.contains(*x);   // assumes T's PartialEq is structural

/// a char encodes to 1..4 bytes (from vstd's definition of encode_scalar)
pub broadcast proof fn lemma_clen_bounds(c: char)
    ensures 1 <= #[trigger] clen(c) <= 4
{
}

pub axiom fn axiom_str_blen(s: &str)
    ensures blen(s@) <= usize::MAX;

pub broadcast axiom fn axiom_terminal_id_key_model()
    ensures #[trigger] vstd::std_specs::hash::obeys_key_model::<TerminalID>();

pub broadcast axiom fn axiom_fx_valid()
    ensures #[trigger] vstd::std_specs::hash::builds_valid_hashers::<rustc_hash::FxBuildHasher>();

// ---- closures handed to std: model-quantified contracts (DESIGN.md section 7.1)
pub open spec fn models_pred<'a, T: 'a, P: FnMut(&'a T) -> bool>(p: P, g: spec_fn(T) -> bool) -> bool {
    forall|x: &'a T, b: bool| call_ensures(p, (x,), b) ==> b == g(*x)
}

pub assume_specification<'a, T, P: FnMut(&'a T) -> bool>[ <std::slice::Iter<'a, T> as Iterator>::position ](it: &mut std::slice::Iter<'a, T>, p: P) -> (r: Option<usize>)
    where std::slice::Iter<'a, T>: Sized
    requires
        (*old(it)).obeys_prophetic_iter_laws(),
        forall|x: &'a T| call_requires(p, (x,)),
    ensures
        r matches Some(k) ==> k < (*old(it)).remaining().len(),
        forall|g: spec_fn(T) -> bool, i: int| #![trigger models_pred(p, g), (*old(it)).remaining()[i]]
            models_pred(p, g) && 0 <= i < (*old(it)).remaining().len() && (r matches Some(k) ==> i <= k)
                ==> g(*(*old(it)).remaining()[i]) == (r matches Some(k) && i == k);
