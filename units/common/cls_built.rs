// ---------------------------------------------------------------- what the class predicate built from the registry must be (proved for CharacterClassRegistry::create_match_char_class in unit U-reg)
/// the closure accepts every registered class id (the safety condition of its `unsafe get_unchecked`) and computes the meaning of
/// the registered leaf AST (this is `cls_ok(cls_of(f), leaf_sem, reg)` of the language theorems, stated on the closure itself)
pub open spec fn cls_built<F: Fn(CharClassID, char) -> bool>(f: &F, reg: Seq<Ast>) -> bool {
    &&& forall|id: CharClassID, c: char| id.0 < reg.len() ==> #[trigger] call_requires(*f, (id, c))
    &&& forall|id: CharClassID, c: char, b: bool| id.0 < reg.len() && #[trigger] call_ensures(*f, (id, c), b) ==> b == leaf_sem(reg[id.0 as int], c)
}

