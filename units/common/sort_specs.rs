// ---------------------------------------------------------------- shared: trusted contracts of sort / dedup and lemmas about them (copied from units/u_sub/sub_spec.rs)
// ---- trusted std contracts: sort_unstable / dedup on vectors whose element order is the order of an injective integer key
pub uninterp spec fn ord_key<T>(x: T) -> int;
pub uninterp spec fn has_ord_key<T>() -> bool;
/// derived Ord of the id newtype = order of the wrapped integer; of a pair = lexicographic (rule E4)
pub broadcast axiom fn axiom_key_stateid(x: StateID)
    ensures has_ord_key::<StateID>(), #[trigger] ord_key(x) == x.0;
pub broadcast axiom fn axiom_key_pair(x: (CharClassID, StateID))
    ensures has_ord_key::<(CharClassID, StateID)>(), #[trigger] ord_key(x) == x.0.0 * 0x1_0000_0000 + x.1.0;

pub open spec fn key_sorted<T>(s: Seq<T>) -> bool { forall|i: int, j: int| 0 <= i < j < s.len() ==> ord_key(#[trigger] s[i]) <= ord_key(#[trigger] s[j]) }
pub open spec fn key_strict<T>(s: Seq<T>) -> bool { forall|i: int, j: int| 0 <= i < j < s.len() ==> ord_key(#[trigger] s[i]) < ord_key(#[trigger] s[j]) }
pub open spec fn key_injective<T>() -> bool { forall|x: T, y: T| #![trigger ord_key(x), ord_key(y)] ord_key(x) == ord_key(y) ==> x == y }

pub assume_specification<T: Ord>[ <[T]>::sort_unstable ](s: &mut [T])
    ensures
        final(s)@.len() == old(s)@.len(),
        final(s)@.to_multiset() == old(s)@.to_multiset(),
        forall|x: T| #![trigger final(s)@.contains(x)] #![trigger old(s)@.contains(x)] final(s)@.contains(x) <==> old(s)@.contains(x),
        old(s)@.no_duplicates() ==> final(s)@.no_duplicates(),
        has_ord_key::<T>() ==> key_sorted(final(s)@);

/// Vec::dedup: an element survives iff it differs from its predecessor (assumes T's PartialEq is structural)
pub open spec fn dedup_adj<T>(s: Seq<T>) -> Seq<T>
    decreases s.len()
{
    if s.len() <= 1 { s } else {
        let r = dedup_adj(s.drop_last());
        if s[s.len() - 2] == s.last() { r } else { r.push(s.last()) }
    }
}
pub assume_specification<T: PartialEq, A: Allocator>[ Vec::<T, A>::dedup ](v: &mut Vec<T, A>)
    ensures final(v)@ == dedup_adj(old(v)@);

pub proof fn lemma_dedup_sorted<T>(s: Seq<T>)
    requires key_sorted(s), key_injective::<T>()
    ensures
        key_strict(dedup_adj(s)),
        forall|x: T| #![trigger dedup_adj(s).contains(x)] #![trigger s.contains(x)] dedup_adj(s).contains(x) <==> s.contains(x),
        s.len() > 0 ==> dedup_adj(s).len() > 0 && dedup_adj(s).last() == s.last(),
    decreases s.len()
{
    if s.len() <= 1 {
    } else {
        let t = s.drop_last();
        assert(key_sorted(t)) by {
            assert forall|i: int, j: int| 0 <= i < j < t.len() implies ord_key(#[trigger] t[i]) <= ord_key(#[trigger] t[j]) by { assert(t[i] == s[i] && t[j] == s[j]); }
        }
        lemma_dedup_sorted(t);
        let r = dedup_adj(t);
        let d = dedup_adj(s);
        assert(t.last() == s[s.len() - 2]);
        assert forall|x: T| #![trigger d.contains(x)] #![trigger s.contains(x)] d.contains(x) <==> s.contains(x) by {
            if s.contains(x) {
                let i = choose|i: int| 0 <= i < s.len() && s[i] == x;
                if i < s.len() - 1 { assert(t[i] == x); assert(t.contains(x)); assert(r.contains(x)); if d != r { let j = choose|j: int| 0 <= j < r.len() && r[j] == x; assert(d[j] == x); } }
                else { if s[s.len() - 2] == s.last() { assert(t.contains(t.last())); assert(r.contains(x)); } else { assert(d[d.len() - 1] == x); } }
            }
            if d.contains(x) {
                let j = choose|j: int| 0 <= j < d.len() && d[j] == x;
                if j < r.len() { assert(r[j] == x); assert(r.contains(x)); assert(t.contains(x)); let i = choose|i: int| 0 <= i < t.len() && t[i] == x; assert(s[i] == x); }
                else { assert(x == s.last()); assert(s[s.len() - 1] == x); }
            }
        }
        if s[s.len() - 2] != s.last() {
            assert forall|i: int, j: int| 0 <= i < j < d.len() implies ord_key(#[trigger] d[i]) < ord_key(#[trigger] d[j]) by {
                if j < r.len() { assert(d[i] == r[i] && d[j] == r[j]); }
                else {
                    assert(d[j] == s.last());
                    assert(d[i] == r[i]);
                    // r[i] <= r.last() == t.last() < s.last()
                    assert(ord_key(s[s.len() - 2]) <= ord_key(s[s.len() - 1]));
                    if i < r.len() - 1 { assert(ord_key(r[i]) < ord_key(r[r.len() - 1])); }
                }
            }
        }
    }
}

pub proof fn lemma_push_contains_pair<T>(s: Seq<T>, e: T, x: T)
    ensures s.push(e).contains(x) <==> (s.contains(x) || x == e)
{
    if s.contains(x) { let i = choose|i: int| 0 <= i < s.len() && s[i] == x; assert(s.push(e)[i] == x); }
    if x == e { assert(s.push(e)[s.len() as int] == x); }
    if s.push(e).contains(x) { let i = choose|i: int| 0 <= i < s.push(e).len() && s.push(e)[i] == x; if i < s.len() { assert(s[i] == x); } }
}
pub proof fn lemma_sorted_nodup_strict<T>(s: Seq<T>)
    requires key_sorted(s), s.no_duplicates(), key_injective::<T>()
    ensures key_strict(s)
{
    assert forall|i: int, j: int| 0 <= i < j < s.len() implies ord_key(#[trigger] s[i]) < ord_key(#[trigger] s[j]) by {
        assert(s[i] != s[j]);
    }
}
/// dedup keeps at least one copy of every element, sorted or not
pub proof fn lemma_dedup_contains<T>(s: Seq<T>)
    ensures
        forall|x: T| #![trigger dedup_adj(s).contains(x)] #![trigger s.contains(x)] dedup_adj(s).contains(x) <==> s.contains(x),
        s.len() > 0 ==> dedup_adj(s).len() > 0 && dedup_adj(s).last() == s.last(),
    decreases s.len()
{
    if s.len() <= 1 {
    } else {
        let t = s.drop_last();
        lemma_dedup_contains(t);
        let r = dedup_adj(t);
        let d = dedup_adj(s);
        assert(t.last() == s[s.len() - 2]);
        assert forall|x: T| #![trigger d.contains(x)] #![trigger s.contains(x)] d.contains(x) <==> s.contains(x) by {
            if s.contains(x) {
                let i = choose|i: int| 0 <= i < s.len() && s[i] == x;
                if i < s.len() - 1 { assert(t[i] == x); assert(t.contains(x)); assert(r.contains(x)); if d != r { let j = choose|j: int| 0 <= j < r.len() && r[j] == x; assert(d[j] == x); } }
                else { if s[s.len() - 2] == s.last() { assert(t.contains(t.last())); assert(r.contains(x)); } else { assert(d[d.len() - 1] == x); } }
            }
            if d.contains(x) {
                let j = choose|j: int| 0 <= j < d.len() && d[j] == x;
                if j < r.len() { assert(r[j] == x); assert(r.contains(x)); assert(t.contains(x)); let i = choose|i: int| 0 <= i < t.len() && t[i] == x; assert(s[i] == x); }
                else { assert(x == s.last()); assert(s[s.len() - 1] == x); }
            }
        }
    }
}


// stable sort: same contract shape as sort_unstable (the stability is not used by any contract here)
pub assume_specification<T: Ord>[ <[T]>::sort ](s: &mut [T])
    ensures
        final(s)@.len() == old(s)@.len(),
        final(s)@.to_multiset() == old(s)@.to_multiset(),
        forall|x: T| #![trigger final(s)@.contains(x)] #![trigger old(s)@.contains(x)] final(s)@.contains(x) <==> old(s)@.contains(x),
        old(s)@.no_duplicates() ==> final(s)@.no_duplicates(),
        has_ord_key::<T>() ==> key_sorted(final(s)@);
pub broadcast axiom fn axiom_key_terminalid(x: TerminalID)
    ensures has_ord_key::<TerminalID>(), #[trigger] ord_key(x) == x.0;
pub proof fn lemma_dedup_len<T>(s: Seq<T>)
    ensures dedup_adj(s).len() <= s.len()
    decreases s.len()
{
    if s.len() > 1 { lemma_dedup_len(s.drop_last()); }
}

/// a duplicate-free sequence of ids drawn from [lo, lo+n) has at most n elements
pub proof fn lemma_nodup_bounded(s: Seq<StateID>, lo: int, n: int)
    requires s.no_duplicates(), n >= 0, forall|i: int| 0 <= i < s.len() ==> lo <= (#[trigger] s[i]).0 < lo + n
    ensures s.len() <= n
{
    let m = s.map_values(|x: StateID| x.0 as int);
    assert(m.no_duplicates()) by {
        assert forall|i: int, j: int| 0 <= i < m.len() && 0 <= j < m.len() && i != j implies m[i] != m[j] by {
            assert(s[i] != s[j]);
        }
    }
    m.unique_seq_to_set();
    let r = vstd::set_lib::set_int_range(lo, lo + n);
    vstd::set_lib::lemma_int_range(lo, lo + n);
    assert(m.to_set().subset_of(r)) by {
        assert forall|x: int| m.to_set().contains(x) implies r.contains(x) by {
            let i = choose|i: int| 0 <= i < m.len() && m[i] == x;
            assert(lo <= s[i].0 < lo + n);
        }
    }
    vstd::set_lib::lemma_len_subset(m.to_set(), r);
}

