// ---------------------------------------------------------------- meaning of a registered leaf AST on one character (C08 / C02): the reference the class predicate is checked against
/// the node kinds `MatchFunction::try_from(&Ast)` accepts (everything the Thompson construction registers as a character class, plus Empty)
pub open spec fn is_class_leaf(a: Ast) -> bool {
    a is Empty || a is Dot || a is Literal || a is ClassUnicode || a is ClassPerl || a is ClassBracketed
}

/// what a registered leaf matches: a literal only itself (the verbatim `.` of a bracket: neither \n nor \r), `.` everything except \n and \r,
/// a bracketed class the boolean combination of its items (class_sem.rs), \d \s \w \p{..} the set they denote when used alone
pub open spec fn leaf_sem(a: Ast, c: char) -> bool {
    match a {
        Ast::Empty(_) => true,
        Ast::Dot(_) => c != '\n' && c != '\r',
        Ast::Literal(l) => lit_in(*l, c),
        Ast::ClassUnicode(u) => named_unicode(*u)(c),
        Ast::ClassPerl(p) => named_perl(*p)(c),
        Ast::ClassBracketed(b) => bracketed_in(*b, c),
        _ => false,
    }
}
