// ---------------------------------------------------------------- imported regex_syntax 0.8 class-level AST types, transparent (shared by U-class, U-reg, U-build)
#[verifier::external_type_specification] pub struct ExPosition(Position);
#[verifier::external_type_specification] pub struct ExSpan(Span);
#[verifier::external_type_specification] pub struct ExHexLiteralKind(HexLiteralKind);
#[verifier::external_type_specification] pub struct ExSpecialLiteralKind(SpecialLiteralKind);
#[verifier::external_type_specification] pub struct ExLiteralKind(LiteralKind);
#[verifier::external_type_specification] pub struct ExLiteral(Literal);
#[verifier::external_type_specification] pub struct ExClassSetRange(ClassSetRange);
#[verifier::external_type_specification] pub struct ExClassAsciiKind(ClassAsciiKind);
#[verifier::external_type_specification] pub struct ExClassAscii(ClassAscii);
#[verifier::external_type_specification] #[verifier::external_body] pub struct ExClassUnicode(ClassUnicode);
#[verifier::external_type_specification] pub struct ExClassPerlKind(ClassPerlKind);
#[verifier::external_type_specification] pub struct ExClassPerl(ClassPerl);
#[verifier::external_type_specification] pub struct ExClassSetUnion(ClassSetUnion);
#[verifier::external_type_specification] pub struct ExClassBracketed(ClassBracketed);
#[verifier::external_type_specification] pub struct ExClassSet(ClassSet);
#[verifier::external_type_specification] pub struct ExClassSetBinaryOp(ClassSetBinaryOp);
#[verifier::external_type_specification] pub struct ExClassSetBinaryOpKind(ClassSetBinaryOpKind);
#[verifier::external_type_specification] pub struct ExClassSetItem(ClassSetItem);

// derived PartialEq of the AST's LiteralKind is structural
pub assume_specification[ <LiteralKind as PartialEq>::eq ](a: &LiteralKind, b: &LiteralKind) -> (r: bool)
    ensures r == (*a == *b);

pub assume_specification<T: ?Sized + core::marker::MetaSized, A: std::alloc::Allocator>[ <std::boxed::Box<T, A> as std::convert::AsRef<T>>::as_ref ](b: &std::boxed::Box<T, A>) -> (r: &T)
    ensures r == &**b;

