// ---------------------------------------------------------------- registry equality of leaf ASTs, as `impl PartialEq for ComparableAst` computes it
/// the text the comparison is made on: `ast.to_string().escape_default().to_string()` (regex-syntax's printer; spans are not printed)
pub uninterp spec fn printed(a: Ast) -> Seq<char>;

/// two leaf ASTs are the same character class for the registry
pub open spec fn same_class(a: Ast, b: Ast) -> bool {
    match (a, b) {
        (Ast::ClassUnicode(_), Ast::ClassUnicode(_)) => printed(a) == printed(b),
        (Ast::ClassPerl(_), Ast::ClassPerl(_)) => printed(a) == printed(b),
        (Ast::ClassBracketed(_), Ast::ClassBracketed(_)) => printed(a) == printed(b),
        (Ast::Empty(_), Ast::Empty(_)) => true,
        (Ast::Literal(l), Ast::Literal(r)) => l.c == r.c && l.kind == r.kind,
        (Ast::Dot(_), Ast::Dot(_)) => true,
        _ => false,
    }
}

/// TRUSTED (about regex-syntax's printer): class nodes of the same kind that print identically denote the same set of characters
/// (the printer writes a class back in concrete syntax; the meaning of a class depends on its syntax only, not on its source positions)
pub axiom fn axiom_print_faithful(a: Ast, b: Ast, c: char)
    requires
        printed(a) == printed(b),
        (a is ClassUnicode && b is ClassUnicode) || (a is ClassPerl && b is ClassPerl) || (a is ClassBracketed && b is ClassBracketed),
    ensures leaf_sem(a, c) == leaf_sem(b, c);

/// ASTs the registry identifies have the same meaning (hypothesis `lf_respects` of the language theorems, discharged for lf = leaf_sem)
pub proof fn lemma_leaf_sem_respects(a: Ast, b: Ast, c: char)
    requires same_class(a, b)
    ensures leaf_sem(a, c) == leaf_sem(b, c)
{
    match (a, b) {
        (Ast::ClassUnicode(_), Ast::ClassUnicode(_)) => { axiom_print_faithful(a, b, c); }
        (Ast::ClassPerl(_), Ast::ClassPerl(_)) => { axiom_print_faithful(a, b, c); }
        (Ast::ClassBracketed(_), Ast::ClassBracketed(_)) => { axiom_print_faithful(a, b, c); }
        (Ast::Literal(l), Ast::Literal(r)) => { assert(lit_in(*l, c) == lit_in(*r, c)); }
        _ => { }
    }
}
