// ---------------------------------------------------------------- trusted prelude, part 2: strings, binary search, CharIndices::clone
// `&s[range]` on str: vstd states the precondition (IndexSpecImpl for str) but not the postcondition of
// `impl<I: SliceIndex<str>> Index<I> for str`; it is the SliceIndex postcondition vstd itself defines.
pub assume_specification<I: core::slice::SliceIndex<str>>[ <str as core::ops::Index<I>>::index ](s: &str, index: I) -> (r: &I::Output)
    ensures vstd::slice::SliceIndexSpec::index_postcondition(&index, s, r);

// UTF-8 bridge (theorems about UTF-8 that are assumed here): vstd specifies str slicing on the byte encoding,
// the contracts of this framework use the char-level view `s@`.
pub axiom fn axiom_utf8_boundary(s: &str, k: int)
    requires 0 <= k <= s@.len()
    ensures vstd::utf8::is_char_boundary(s.spec_bytes(), boff(s@, k) as int);

pub axiom fn axiom_utf8_bytes_len(s: &str)
    ensures s.spec_bytes().len() == blen(s@);

pub axiom fn axiom_utf8_suffix_view(s: &str, t: &str, k: int)
    requires 0 <= k <= s@.len(), t.spec_bytes() == s.spec_bytes().subrange(boff(s@, k) as int, s.spec_bytes().len() as int)
    ensures t@ == s@.skip(k);

pub axiom fn axiom_utf8_prefix_view(s: &str, t: &str, k: int)
    requires 0 <= k <= s@.len(), t.spec_bytes() == s.spec_bytes().subrange(0, boff(s@, k) as int)
    ensures t@ == s@.take(k);

pub assume_specification<'a>[ <std::str::CharIndices<'a> as Clone>::clone ](it: &std::str::CharIndices<'a>) -> (r: std::str::CharIndices<'a>)
    ensures
        r.remaining() == it.remaining(),
        r.obeys_prophetic_iter_laws() == it.obeys_prophetic_iter_laws(),
        r.decrease() is Some == it.decrease() is Some;

pub assume_specification<T: Ord>[ <[T]>::binary_search ](s: &[T], x: &T) -> (r: Result<usize, usize>)
    requires
        T::obeys_cmp_spec(),
        forall|i: int, j: int| 0 <= i < j < s@.len() ==> #[trigger] s@[i].cmp_spec(&s@[j]) == core::cmp::Ordering::Less,
    ensures match r {
        Ok(i) => i < s@.len() && s@[i as int].cmp_spec(x) == core::cmp::Ordering::Equal,
        Err(i) => i <= s@.len() && (forall|j: int| 0 <= j < i ==> (#[trigger] s@[j]).cmp_spec(x) == core::cmp::Ordering::Less) && (forall|j: int| i <= j < s@.len() ==> (#[trigger] s@[j]).cmp_spec(x) == core::cmp::Ordering::Greater),
    };

/// g over-approximates the behaviour of the closure f (see DESIGN.md 7.1)
pub open spec fn models_ord<'a, T: 'a, F: FnMut(&'a T) -> core::cmp::Ordering>(f: F, g: spec_fn(T) -> core::cmp::Ordering) -> bool {
    forall|x: &'a T, o: core::cmp::Ordering| call_ensures(f, (x,), o) ==> o == g(*x)
}
pub open spec fn mono_ord<T>(g: spec_fn(T) -> core::cmp::Ordering, s: Seq<T>) -> bool {
    forall|j: int, k: int| 0 <= j < k < s.len() ==>
        (g(#[trigger] s[k]) == core::cmp::Ordering::Less ==> g(#[trigger] s[j]) == core::cmp::Ordering::Less) && (g(s[j]) == core::cmp::Ordering::Greater ==> g(s[k]) == core::cmp::Ordering::Greater)
}
pub assume_specification<'a, T, F: FnMut(&'a T) -> core::cmp::Ordering>[ <[T]>::binary_search_by ](s: &'a [T], f: F) -> (r: Result<usize, usize>)
    requires
        forall|x: &'a T| call_requires(f, (x,)),
    ensures
        forall|g: spec_fn(T) -> core::cmp::Ordering| #[trigger] models_ord(f, g) && mono_ord(g, s@) ==> match r {
            Ok(i) => i < s@.len() && g(s@[i as int]) == core::cmp::Ordering::Equal,
            Err(i) => i <= s@.len()
                && (forall|j: int| 0 <= j < i ==> g(#[trigger] s@[j]) == core::cmp::Ordering::Less)
                && (forall|j: int| i <= j < s@.len() ==> g(#[trigger] s@[j]) == core::cmp::Ordering::Greater),
        };
