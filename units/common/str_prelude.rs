// ---------------------------------------------------------------- trusted prelude, part 2: strings, binary search, CharIndices::clone
// `&s[range]` on str: vstd states the precondition (IndexSpecImpl for str) but not the postcondition of
// `impl<I: SliceIndex<str>> Index<I> for str`; it is the SliceIndex postcondition vstd itself defines.
pub assume_specification<I: core::slice::SliceIndex<str>>[ <str as core::ops::Index<I>>::index ](s: &str, index: I) -> (r: &I::Output)
    ensures vstd::slice::SliceIndexSpec::index_postcondition(&index, s, r);

// UTF-8 bridge: vstd specifies str slicing on the byte encoding (`s.spec_bytes() == encode_utf8(s@)`), the contracts of this framework use the
// char-level view `s@`. The four bridge facts are PROVED from vstd's definitions and its lemmas about encode_utf8 / decode_utf8 / is_char_boundary.
/// byte length of the encoding = sum of the encoded lengths
pub proof fn lemma_encode_len(cs: Seq<char>)
    ensures vstd::utf8::encode_utf8(cs).len() == blen(cs)
    decreases cs.len()
{
    if cs.len() == 0 {
        reveal_with_fuel(vstd::utf8::encode_utf8, 1);
    } else {
        lemma_encode_len(cs.drop_last());
        vstd::utf8::encode_utf8_push(cs.drop_last(), cs.last());
        assert(cs.drop_last().push(cs.last()) =~= cs);
    }
}

/// the byte offset of every char index is a char boundary of the encoding (induction along vstd's recursive is_char_boundary)
pub proof fn lemma_boundary(cs: Seq<char>, k: int)
    requires 0 <= k <= cs.len()
    ensures vstd::utf8::is_char_boundary(vstd::utf8::encode_utf8(cs), blen(cs.take(k)) as int)
    decreases k
{
    vstd::utf8::encode_utf8_valid_utf8(cs);
    reveal_with_fuel(vstd::utf8::is_char_boundary, 1);
    if k == 0 {
        assert(cs.take(0) =~= Seq::<char>::empty());
    } else {
        let rest = cs.drop_first();
        let bytes = vstd::utf8::encode_utf8(cs);
        vstd::utf8::encode_utf8_first_scalar(cs);
        reveal_with_fuel(vstd::utf8::encode_utf8, 1);
        assert(bytes == vstd::utf8::encode_scalar(cs[0] as u32) + vstd::utf8::encode_utf8(rest));
        assert(vstd::utf8::pop_first_scalar(bytes) =~= vstd::utf8::encode_utf8(rest));
        lemma_boundary(rest, k - 1);
        assert(cs.take(k) =~= seq![cs[0]] + rest.take(k - 1));
        lemma_blen_add(seq![cs[0]], rest.take(k - 1));
        assert(blen(seq![cs[0]]) == clen(cs[0])) by {
            reveal_with_fuel(blen, 2);
            assert(seq![cs[0]].drop_last() =~= Seq::<char>::empty());
            assert(seq![cs[0]].last() == cs[0]);
        }
        assert(cs =~= cs.take(k) + cs.skip(k));
        lemma_blen_add(cs.take(k), cs.skip(k));
        lemma_encode_len(cs);
    }
}

pub proof fn lemma_suffix_view(s: Seq<char>, t: Seq<char>, k: int)
    requires 0 <= k <= s.len(), vstd::utf8::encode_utf8(t) == vstd::utf8::encode_utf8(s).subrange(blen(s.take(k)) as int, vstd::utf8::encode_utf8(s).len() as int)
    ensures t == s.skip(k)
{
    assert(s =~= s.take(k) + s.skip(k));
    vstd::utf8::encode_utf8_concat(s.take(k), s.skip(k));
    lemma_encode_len(s.take(k));
    assert(vstd::utf8::encode_utf8(s).subrange(blen(s.take(k)) as int, vstd::utf8::encode_utf8(s).len() as int) =~= vstd::utf8::encode_utf8(s.skip(k)));
    vstd::utf8::encode_utf8_decode_utf8(t);
    vstd::utf8::encode_utf8_decode_utf8(s.skip(k));
}

pub proof fn lemma_prefix_view(s: Seq<char>, t: Seq<char>, k: int)
    requires 0 <= k <= s.len(), vstd::utf8::encode_utf8(t) == vstd::utf8::encode_utf8(s).subrange(0, blen(s.take(k)) as int)
    ensures t == s.take(k)
{
    assert(s =~= s.take(k) + s.skip(k));
    vstd::utf8::encode_utf8_concat(s.take(k), s.skip(k));
    lemma_encode_len(s.take(k));
    assert(vstd::utf8::encode_utf8(s).subrange(0, blen(s.take(k)) as int) =~= vstd::utf8::encode_utf8(s.take(k)));
    vstd::utf8::encode_utf8_decode_utf8(t);
    vstd::utf8::encode_utf8_decode_utf8(s.take(k));
}

pub proof fn lemma_utf8_boundary(s: &str, k: int)
    requires 0 <= k <= s@.len()
    ensures vstd::utf8::is_char_boundary(s.spec_bytes(), boff(s@, k) as int)
{
    reveal(boff);
    lemma_boundary(s@, k);
}

pub proof fn lemma_utf8_bytes_len(s: &str)
    ensures s.spec_bytes().len() == blen(s@)
{
    lemma_encode_len(s@);
}

pub proof fn lemma_utf8_suffix_view(s: &str, t: &str, k: int)
    requires 0 <= k <= s@.len(), t.spec_bytes() == s.spec_bytes().subrange(boff(s@, k) as int, s.spec_bytes().len() as int)
    ensures t@ == s@.skip(k)
{
    reveal(boff);
    lemma_suffix_view(s@, t@, k);
}

pub proof fn lemma_utf8_prefix_view(s: &str, t: &str, k: int)
    requires 0 <= k <= s@.len(), t.spec_bytes() == s.spec_bytes().subrange(0, boff(s@, k) as int)
    ensures t@ == s@.take(k)
{
    reveal(boff);
    lemma_prefix_view(s@, t@, k);
}

pub assume_specification<'a>[ <std::str::CharIndices<'a> as Clone>::clone ](it: &std::str::CharIndices<'a>) -> (r: std::str::CharIndices<'a>)
    ensures
        r.remaining() == it.remaining(),
        r.obeys_prophetic_iter_laws() == it.obeys_prophetic_iter_laws(),
        r.decrease() is Some == it.decrease() is Some;

pub assume_specification<T: Ord>[ <[T]>::binary_search ](s: &[T], x: &T) -> (r: Result<usize, usize>)
    requires
        T::obeys_cmp_spec(),
        forall|i: int, j: int| 0 <= i < j < s@.len() ==> #[trigger] s@[i].cmp_spec(&s@[j]) == core::cmp::Ordering::Less,
    ensures match r {
        Ok(i) => i < s@.len() && s@[i as int].cmp_spec(x) == core::cmp::Ordering::Equal,
        Err(i) => i <= s@.len() && (forall|j: int| 0 <= j < i ==> (#[trigger] s@[j]).cmp_spec(x) == core::cmp::Ordering::Less) && (forall|j: int| i <= j < s@.len() ==> (#[trigger] s@[j]).cmp_spec(x) == core::cmp::Ordering::Greater),
    };

/// g over-approximates the behaviour of the closure f (see DESIGN.md 7.1)
pub open spec fn models_ord<'a, T: 'a, F: FnMut(&'a T) -> core::cmp::Ordering>(f: F, g: spec_fn(T) -> core::cmp::Ordering) -> bool {
    forall|x: &'a T, o: core::cmp::Ordering| call_ensures(f, (x,), o) ==> o == g(*x)
}
pub open spec fn mono_ord<T>(g: spec_fn(T) -> core::cmp::Ordering, s: Seq<T>) -> bool {
    forall|j: int, k: int| 0 <= j < k < s.len() ==>
        (g(#[trigger] s[k]) == core::cmp::Ordering::Less ==> g(#[trigger] s[j]) == core::cmp::Ordering::Less) && (g(s[j]) == core::cmp::Ordering::Greater ==> g(s[k]) == core::cmp::Ordering::Greater)
}
pub assume_specification<'a, T, F: FnMut(&'a T) -> core::cmp::Ordering>[ <[T]>::binary_search_by ](s: &'a [T], f: F) -> (r: Result<usize, usize>)
    requires
        forall|x: &'a T| call_requires(f, (x,)),
    ensures
        forall|g: spec_fn(T) -> core::cmp::Ordering| #[trigger] models_ord(f, g) && mono_ord(g, s@) ==> match r {
            Ok(i) => i < s@.len() && g(s@[i as int]) == core::cmp::Ordering::Equal,
            Err(i) => i <= s@.len()
                && (forall|j: int| 0 <= j < i ==> g(#[trigger] s@[j]) == core::cmp::Ordering::Less)
                && (forall|j: int| i <= j < s@.len() ==> g(#[trigger] s@[j]) == core::cmp::Ordering::Greater),
        };
