// ---------------------------------------------------------------- imported regex_syntax 0.8 AST types above the class level (used together with class_types.rs)
#[verifier::external_type_specification] #[verifier::external_body] pub struct ExAssertion(Assertion);
#[verifier::external_type_specification] pub struct ExFlag(Flag);
#[verifier::external_type_specification] pub struct ExFlagsItemKind(FlagsItemKind);
#[verifier::external_type_specification] pub struct ExFlagsItem(FlagsItem);
#[verifier::external_type_specification] pub struct ExFlags(Flags);
#[verifier::external_type_specification] pub struct ExSetFlags(SetFlags);
#[verifier::external_type_specification] pub struct ExRepetitionRange(RepetitionRange);
#[verifier::external_type_specification] pub struct ExRepetitionKind(RepetitionKind);
#[verifier::external_type_specification] pub struct ExRepetitionOp(RepetitionOp);
#[verifier::external_type_specification] pub struct ExRepetition(Repetition);
#[verifier::external_type_specification] #[verifier::external_body] pub struct ExCaptureName(CaptureName);
#[verifier::external_type_specification] pub struct ExGroupKind(GroupKind);
#[verifier::external_type_specification] pub struct ExGroup(Group);
#[verifier::external_type_specification] pub struct ExAlternation(Alternation);
#[verifier::external_type_specification] pub struct ExConcat(Concat);
#[verifier::external_type_specification] pub struct ExAst(Ast);

// derived Clone of the AST is structural
pub assume_specification[ <Ast as Clone>::clone ](a: &Ast) -> (r: Ast)
    ensures r == *a;
