// ---------------------------------------------------------------- byte-length lemmas (blen / take / skip)
pub proof fn lemma_blen_push(s: Seq<char>, c: char)
    ensures blen(s.push(c)) == blen(s) + clen(c)
{
    assert(s.push(c).drop_last() =~= s);
}

pub proof fn lemma_blen_add(a: Seq<char>, b: Seq<char>)
    ensures blen(a + b) == blen(a) + blen(b)
    decreases b.len()
{
    if b.len() == 0 {
        assert(a + b =~= a);
    } else {
        assert((a + b).drop_last() =~= a + b.drop_last());
        lemma_blen_add(a, b.drop_last());
    }
}

pub proof fn lemma_blen_take_mono(s: Seq<char>, i: int, j: int)
    requires 0 <= i <= j <= s.len()
    ensures blen(s.take(i)) <= blen(s.take(j)), i < j ==> blen(s.take(i)) < blen(s.take(j)),
            blen(s.take(j)) <= blen(s)
    decreases j - i
{
    broadcast use lemma_clen_bounds;
    assert(s.take(j) + s.skip(j) =~= s);
    lemma_blen_add(s.take(j), s.skip(j));
    if i < j {
        assert(s.take(j).drop_last() =~= s.take(j - 1));
        lemma_blen_take_mono(s, i, j - 1);
    }
}

pub proof fn lemma_blen_split(s: Seq<char>, i: int)
    requires 0 <= i <= s.len()
    ensures blen(s.take(i)) + blen(s.skip(i)) == blen(s)
{
    assert(s.take(i) + s.skip(i) =~= s);
    lemma_blen_add(s.take(i), s.skip(i));
}

// ---------------------------------------------------------------- more lemmas
pub proof fn lemma_split_point(input: Seq<char>, a: Seq<char>, b: Seq<char>, m2: int)
    requires a + b == input, 0 <= m2 <= input.len(), blen(a) == blen(input.take(m2))
    ensures a == input.take(m2), b == input.skip(m2)
{
    let m = a.len() as int;
    assert(a =~= input.take(m));
    assert(b =~= input.skip(m));
    if m < m2 { lemma_blen_take_mono(input, m, m2); }
    if m2 < m { lemma_blen_take_mono(input, m2, m); }
}

pub proof fn lemma_take_take_skip(input: Seq<char>, n0: int, k: int)
    requires 0 <= n0, 0 <= k, n0 + k <= input.len()
    ensures blen(input.take(n0 + k)) == blen(input.take(n0)) + blen(input.skip(n0).take(k)),
            input.skip(n0 + k) == input.skip(n0).skip(k)
{
    assert(input.take(n0 + k) =~= input.take(n0) + input.skip(n0).take(k));
    lemma_blen_add(input.take(n0), input.skip(n0).take(k));
    assert(input.skip(n0 + k) =~= input.skip(n0).skip(k));
}

pub proof fn lemma_blen_take_next(text: Seq<char>, k: int)
    requires 0 <= k < text.len()
    ensures blen(text.take(k + 1)) == blen(text.take(k)) + clen(text[k]), blen(text.take(k + 1)) <= blen(text)
{
    assert(text.take(k + 1).drop_last() =~= text.take(k));
    lemma_blen_take_mono(text, k, k + 1);
}

