// ---------------------------------------------------------------- well-formedness of a compiled automaton (assumed by the scan side, established by the build side: unit U-build)
pub type Cls = spec_fn(CharClassID, char) -> bool;

/// the part of a compiled automaton that matching depends on (everything but the scratch buffers)
pub struct DfaCore {
    pub patterns: Vec<String>,
    pub terminal_ids: Vec<TerminalID>,
    pub states: Vec<StateData>,
    pub end_states: Vec<(bool, TerminalID)>,
    pub lookaheads: FxHashMap<TerminalID, CompiledLookahead>,
}

pub open spec fn core(d: CompiledDfa) -> DfaCore {
    DfaCore { patterns: d.patterns, terminal_ids: d.terminal_ids, states: d.states, end_states: d.end_states, lookaheads: d.lookaheads }
}

pub open spec fn wf_flat(d: DfaCore) -> bool {
    &&& d.states@.len() == d.end_states@.len()
    &&& d.states@.len() >= 1
    &&& d.states@.len() <= u32::MAX
    &&& forall|s: int, i: int| 0 <= s < d.states@.len() && 0 <= i < d.states@[s].transitions@.len()
            ==> (#[trigger] d.states@[s].transitions@[i]).1.0 < d.states@.len()
    &&& forall|s: int| 0 <= s < d.end_states@.len() && (#[trigger] d.end_states@[s]).0 ==> d.terminal_ids@.contains(d.end_states@[s].1)
}

pub open spec fn wf(d: DfaCore) -> bool {
    &&& wf_flat(d)
    &&& forall|t: TerminalID| #[trigger] d.lookaheads@.contains_key(t) ==> wf_flat(core(*d.lookaheads@[t].nfa)) && d.lookaheads@[t].nfa.lookaheads@.len() == 0
}

/// the class predicate may be called with class id `cc` (for every character) and is deterministic there
pub open spec fn cls_functional_on<F: Fn(CharClassID, char) -> bool>(f: &F, cc: CharClassID) -> bool {
    &&& forall|c: char| call_requires(f, (cc, c))
    &&& forall|c: char| !(#[trigger] call_ensures(f, (cc, c), true) && call_ensures(f, (cc, c), false))
}

/// ... for every class id on a transition of the automaton
pub open spec fn cls_covers_flat<F: Fn(CharClassID, char) -> bool>(f: &F, d: DfaCore) -> bool {
    forall|s: int, i: int| 0 <= s < d.states@.len() && 0 <= i < d.states@[s].transitions@.len()
        ==> cls_functional_on(f, (#[trigger] d.states@[s].transitions@[i]).0)
}

/// the class predicate closure is a deterministic function that may be called with every class id the automaton and its lookahead automata
/// refer to (the predicate a scanner is built with indexes a table WITHOUT bounds check: only registered ids may be handed to it)
pub open spec fn cls_functional<F: Fn(CharClassID, char) -> bool>(f: &F, d: DfaCore) -> bool {
    &&& cls_covers_flat(f, d)
    &&& forall|t: TerminalID| #[trigger] d.lookaheads@.contains_key(t) ==> cls_covers_flat(f, core(*d.lookaheads@[t].nfa))
}

/// the class relation the contracts are stated over: what the closure answers `true` to
pub open spec fn cls_of<F: Fn(CharClassID, char) -> bool>(f: &F) -> Cls {
    |cc: CharClassID, c: char| call_ensures(f, (cc, c), true)
}
