/// the class predicate the scanner evaluates: does character class cc hold for character c
pub type ClsF = spec_fn(CharClassID, char) -> bool;
