// ---------------------------------------------------------------- language theorem: the epsilon-elimination automaton accepts what the epsilon-NFA accepts

// ---- the epsilon-NFA (closures folded into `reach`): where the automaton can stand right after the last character of w
pub open spec fn g_step(g: Gr, cls: ClsF, a: int, c: char, t: int) -> bool {
    exists|cc: CharClassID, tg: StateID| #[trigger] g_fires(g, a, cc, tg) && cls(cc, c) && tg.0 == t
}
pub open spec fn g_lands(g: Gr, cls: ClsF, w: Seq<char>, t: int) -> bool
    decreases w.len()
{
    if w.len() == 0 { t == g.start } else { exists|m: int| g_lands(g, cls, w.drop_last(), m) && #[trigger] g_step(g, cls, m, w.last(), t) }
}
/// w (non-empty) is accepted with token type tok: after its last character the closure of the state reached holds an accepting state for tok
pub open spec fn g_acc(g: Gr, cls: ClsF, w: Seq<char>, tok: usize) -> bool {
    w.len() > 0 && exists|t: int| #[trigger] g_lands(g, cls, w, t) && (g.acc)(t) == Some(tok)
}

pub proof fn lemma_fires_same(g: Gr, a: int, b: int, cc: CharClassID, tg: StateID)
    requires same_closure(g, a, b), g_fires(g, a, cc, tg)
    ensures g_fires(g, b, cc, tg)
{
    reveal(g_fires); reveal(same_closure);
    let s = choose|s: int| (g.reach)(a, s) && #[trigger] (g.tr)(s, cc, tg);
    assert((g.reach)(b, s) && (g.tr)(s, cc, tg));
}
pub proof fn lemma_lands_ok(g: Gr, cls: ClsF, w: Seq<char>, t: int)
    requires gr_wf(g), g_lands(g, cls, w, t)
    ensures (g.ok)(t)
    decreases w.len()
{
    if w.len() > 0 {
        let m = choose|m: int| g_lands(g, cls, w.drop_last(), m) && #[trigger] g_step(g, cls, m, w.last(), t);
        lemma_lands_ok(g, cls, w.drop_last(), m);
        let (cc, tg) = choose|cc: CharClassID, tg: StateID| #[trigger] g_fires(g, m, cc, tg) && cls(cc, w.last()) && tg.0 == t;
        lemma_fires_target(g, m, cc, tg);
    }
}
/// every automaton state reached on w stands for the closure of a state the epsilon-NFA can land on
pub proof fn lemma_elim_sound(g: Gr, d: CompiledDfa, reps: Seq<StateID>, cls: ClsF, w: Seq<char>, i: int)
    requires gr_wf(g), elim_ok(g, d, reps), d_reach(d, cls, w, i)
    ensures
        0 <= i < reps.len(),
        exists|t: int| #[trigger] g_lands(g, cls, w, t) && same_closure(g, t, reps[i].0 as int),
        w.len() > 0 ==> elim_entered(d, reps.len() as int, i),
    decreases w.len()
{
    if w.len() == 0 {
        lemma_same_closure_refl(g, g.start);
        assert(g_lands(g, cls, w, g.start));
    } else {
        let s = choose|s: int| d_reach(d, cls, w.drop_last(), s) && #[trigger] d_step(d, cls, s, w.last(), i);
        lemma_elim_sound(g, d, reps, cls, w.drop_last(), s);
        let t0 = choose|t0: int| #[trigger] g_lands(g, cls, w.drop_last(), t0) && same_closure(g, t0, reps[s].0 as int);
        let cc = choose|cc: CharClassID| #[trigger] d.states@[s].transitions@.contains((cc, StateSetID(i as u32))) && cls(cc, w.last());
        assert(elim_edge(g, reps, s, cc, StateSetID(i as u32)));
        let tg = choose|tg: StateID| #[trigger] g_fires(g, reps[s].0 as int, cc, tg) && same_closure(g, tg.0 as int, reps[i].0 as int);
        lemma_same_closure_sym(g, t0, reps[s].0 as int);
        lemma_fires_same(g, reps[s].0 as int, t0, cc, tg);
        assert(g_step(g, cls, t0, w.last(), tg.0 as int));
        assert(g_lands(g, cls, w, tg.0 as int));
        assert(elim_entered(d, reps.len() as int, i));
    }
}
/// every state the epsilon-NFA can land on is represented by an automaton state reached on the same word
pub proof fn lemma_elim_complete(g: Gr, d: CompiledDfa, reps: Seq<StateID>, cls: ClsF, w: Seq<char>, t: int)
    requires gr_wf(g), elim_ok(g, d, reps), g_lands(g, cls, w, t)
    ensures exists|i: int| 0 <= i < reps.len() && #[trigger] d_reach(d, cls, w, i) && same_closure(g, t, reps[i].0 as int)
    decreases w.len()
{
    if w.len() == 0 {
        lemma_same_closure_refl(g, g.start);
        assert(d_reach(d, cls, w, 0));
    } else {
        let m = choose|m: int| g_lands(g, cls, w.drop_last(), m) && #[trigger] g_step(g, cls, m, w.last(), t);
        lemma_elim_complete(g, d, reps, cls, w.drop_last(), m);
        let s = choose|s: int| 0 <= s < reps.len() && #[trigger] d_reach(d, cls, w.drop_last(), s) && same_closure(g, m, reps[s].0 as int);
        let (cc, tg) = choose|cc: CharClassID, tg: StateID| #[trigger] g_fires(g, m, cc, tg) && cls(cc, w.last()) && tg.0 == t;
        lemma_fires_same(g, m, reps[s].0 as int, cc, tg);
        assert(has_rep(g, reps, tg));
        let to = choose|to: StateSetID| to.0 < reps.len() && #[trigger] same_closure(g, tg.0 as int, reps[to.0 as int].0 as int);
        assert(elim_edge(g, reps, s, cc, to));
        assert(d.states@[s].transitions@.contains((cc, to)));
        assert(StateSetID(to.0 as int as u32) == to);
        assert(d_step(d, cls, s, w.last(), to.0 as int));
        assert(d_reach(d, cls, w, to.0 as int));
    }
}
/// THEOREM: on every non-empty word and for every class predicate, the automaton accepts exactly the token types the epsilon-NFA accepts
pub proof fn theorem_elim_language(g: Gr, d: CompiledDfa, reps: Seq<StateID>, cls: ClsF, w: Seq<char>)
    requires gr_wf(g), elim_ok(g, d, reps), w.len() > 0
    ensures
        forall|tid: TerminalID| #[trigger] d_acc(d, cls, w, tid) <==> exists|tok: usize| #[trigger] g_acc(g, cls, w, tok) && tid == TerminalID(tok as u32),
{
    assert forall|tid: TerminalID| #[trigger] d_acc(d, cls, w, tid) <==> exists|tok: usize| #[trigger] g_acc(g, cls, w, tok) && tid == TerminalID(tok as u32) by {
        if d_acc(d, cls, w, tid) {
            let i = choose|i: int| 0 <= i < d.states@.len() && #[trigger] d_reach(d, cls, w, i) && d.end_states@[i] == (true, tid);
            lemma_elim_sound(g, d, reps, cls, w, i);
            let t = choose|t: int| #[trigger] g_lands(g, cls, w, t) && same_closure(g, t, reps[i].0 as int);
            lemma_lands_ok(g, cls, w, t);
            assert(d.end_states@[i] == elim_end(g, d, reps, i));
            let a = (g.acc)(reps[i].0 as int);
            assert(a is Some && tid == TerminalID(a->0 as u32));
            assert((g.acc)(t) == a);
            assert(g_acc(g, cls, w, a->0));
        }
        if exists|tok: usize| #[trigger] g_acc(g, cls, w, tok) && tid == TerminalID(tok as u32) {
            let tok = choose|tok: usize| #[trigger] g_acc(g, cls, w, tok) && tid == TerminalID(tok as u32);
            let t = choose|t: int| #[trigger] g_lands(g, cls, w, t) && (g.acc)(t) == Some(tok);
            lemma_lands_ok(g, cls, w, t);
            lemma_elim_complete(g, d, reps, cls, w, t);
            let i = choose|i: int| 0 <= i < reps.len() && #[trigger] d_reach(d, cls, w, i) && same_closure(g, t, reps[i].0 as int);
            lemma_elim_sound(g, d, reps, cls, w, i);
            assert((g.acc)(reps[i].0 as int) == Some(tok));
            assert(d.end_states@[i] == elim_end(g, d, reps, i));
            assert(d.end_states@[i] == (true, tid));
        }
    }
}
/// the empty word reaches only the start state
pub proof fn lemma_elim_empty(d: CompiledDfa, cls: ClsF, i: int)
    requires d_reach(d, cls, Seq::<char>::empty(), i)
    ensures i == 0
{
}
