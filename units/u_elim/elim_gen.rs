// ---------------------------------------------------------------- the epsilon-elimination automaton of an abstract epsilon-NFA
/// what both sources (one Nfa, the multi-pattern union) offer to the worklist construction
pub struct Gr {
    /// b is in the epsilon closure of a
    pub reach: spec_fn(int, int) -> bool,
    /// state s has the match transition (cc, t)
    pub tr: spec_fn(int, CharClassID, StateID) -> bool,
    /// a is a state
    pub ok: spec_fn(int) -> bool,
    /// all states are below this id
    pub bound: int,
    pub start: int,
    /// token type accepted when the automaton stands in the closure of a (None: the closure holds no end state)
    pub acc: spec_fn(int) -> Option<usize>,
}
#[verifier::opaque]
pub open spec fn same_closure(g: Gr, a: int, b: int) -> bool { forall|x: int| #[trigger] (g.reach)(a, x) <==> (g.reach)(b, x) }
pub open spec fn gr_wf(g: Gr) -> bool {
    &&& 0 <= g.bound <= u32::MAX
    &&& forall|a: int| #[trigger] (g.ok)(a) ==> 0 <= a < g.bound
    &&& forall|a: int, x: int| (g.ok)(a) && #[trigger] (g.reach)(a, x) ==> (g.ok)(x)
    &&& forall|s: int, cc: CharClassID, t: StateID| (g.ok)(s) && #[trigger] (g.tr)(s, cc, t) ==> (g.ok)(t.0 as int)
    &&& (g.ok)(g.start)
    &&& forall|a: int, b: int| (g.ok)(a) && (g.ok)(b) && #[trigger] same_closure(g, a, b) ==> (g.acc)(a) == (g.acc)(b)
}
/// the set k is the epsilon closure of state a
pub open spec fn key_is(g: Gr, k: Set<StateID>, a: int) -> bool { forall|x: StateID| #[trigger] k.contains(x) <==> (g.reach)(a, x.0 as int) }
/// some member of closure(a) has the transition (cc, t)
#[verifier::opaque]
pub open spec fn g_fires(g: Gr, a: int, cc: CharClassID, t: StateID) -> bool { exists|s: int| (g.reach)(a, s) && #[trigger] (g.tr)(s, cc, t) }
/// automaton state `to` stands for the closure of the target of a transition (cc, t) fired from automaton state f
pub open spec fn elim_edge(g: Gr, reps: Seq<StateID>, f: int, cc: CharClassID, to: StateSetID) -> bool {
    0 <= f < reps.len() && to.0 < reps.len()
        && exists|t: StateID| #[trigger] g_fires(g, reps[f].0 as int, cc, t) && same_closure(g, t.0 as int, reps[to.0 as int].0 as int)
}
/// reps[i]: a state whose closure automaton state i stands for; distinct automaton states stand for distinct closures
pub open spec fn reps_ok(g: Gr, reps: Seq<StateID>) -> bool {
    &&& reps.len() >= 1 && reps[0].0 == g.start
    &&& forall|i: int| 0 <= i < reps.len() ==> (g.ok)((#[trigger] reps[i]).0 as int)
    &&& reps_distinct(g, reps)
}
#[verifier::opaque]
pub open spec fn reps_distinct(g: Gr, reps: Seq<StateID>) -> bool {
    forall|i: int, j: int| 0 <= i < j < reps.len() ==> !same_closure(g, (#[trigger] reps[i]).0 as int, (#[trigger] reps[j]).0 as int)
}
pub type SMap = Map<BTreeSet<StateID>, StateSetID>;
pub type Edge = (StateSetID, CharClassID, StateSetID);
pub open spec fn map_ok(g: Gr, m: SMap, reps: Seq<StateID>) -> bool {
    &&& m.len() == reps.len()
    &&& forall|k: BTreeSet<StateID>| #[trigger] m.contains_key(k) ==> m[k].0 < reps.len() && key_is(g, k@, reps[m[k].0 as int].0 as int)
    &&& forall|i: int| 0 <= i < reps.len() ==> has_key_for(m, i)
}
pub open spec fn has_key_for(m: SMap, i: int) -> bool { exists|k: BTreeSet<StateID>| #[trigger] m.contains_key(k) && m[k].0 == i }
/// the queue holds the ids lo, lo+1, .., hi-1 in this order
pub open spec fn queue_ok(q: Seq<StateSetID>, lo: int, hi: int) -> bool {
    q.len() == hi - lo && forall|i: int| 0 <= i < q.len() ==> (#[trigger] q[i]).0 == lo + i
}
#[verifier::opaque]
pub open spec fn trans_sound(g: Gr, t: Set<Edge>, reps: Seq<StateID>, lim: int) -> bool {
    forall|e: Edge| #[trigger] t.contains(e) ==> e.0.0 < lim && elim_edge(g, reps, e.0.0 as int, e.1, e.2)
}
pub open spec fn edge_present(g: Gr, t: Set<Edge>, reps: Seq<StateID>, f: int, cc: CharClassID, tg: StateID) -> bool {
    exists|to: StateSetID| to.0 < reps.len() && same_closure(g, tg.0 as int, reps[to.0 as int].0 as int) && #[trigger] t.contains((StateSetID(f as u32), cc, to))
}
#[verifier::opaque]
pub open spec fn trans_complete(g: Gr, t: Set<Edge>, reps: Seq<StateID>, p: int) -> bool {
    forall|f: int, cc: CharClassID, tg: StateID| 0 <= f < p && f < reps.len() && #[trigger] g_fires(g, reps[f].0 as int, cc, tg) ==> edge_present(g, t, reps, f, cc, tg)
}
pub open spec fn entered(t: Set<Edge>, to: StateSetID) -> bool { exists|f: StateSetID, cc: CharClassID| #[trigger] t.contains((f, cc, to)) }
#[verifier::opaque]
pub open spec fn acc_ok(g: Gr, acc: Seq<(StateSetID, usize)>, t: Set<Edge>, reps: Seq<StateID>) -> bool {
    &&& acc.no_duplicates()
    &&& forall|i: int| 0 <= i < acc.len() ==> (#[trigger] acc[i]).0.0 < reps.len() && (g.acc)(reps[acc[i].0.0 as int].0 as int) == Some(acc[i].1) && entered(t, acc[i].0)
    &&& forall|e: Edge| #[trigger] t.contains(e) && e.2.0 < reps.len() && (g.acc)(reps[e.2.0 as int].0 as int) is Some ==> acc.contains((e.2, (g.acc)(reps[e.2.0 as int].0 as int)->0))
}

/// what the worklist construction must hand to the minimizer
pub open spec fn elim_entered(d: CompiledDfa, n: int, i: int) -> bool {
    exists|f: int, cc: CharClassID| 0 <= f < n && #[trigger] d.states@[f].transitions@.contains((cc, StateSetID(i as u32)))
}
pub open spec fn elim_end(g: Gr, d: CompiledDfa, reps: Seq<StateID>, i: int) -> (bool, TerminalID) {
    // a state accepts only if it can be entered: the start state is never marked on its own account (the empty string is not accepted)
    if elim_entered(d, reps.len() as int, i) && (g.acc)(reps[i].0 as int) is Some { (true, TerminalID((g.acc)(reps[i].0 as int)->0 as u32)) } else { (false, TerminalID(0)) }
}
pub open spec fn has_rep(g: Gr, reps: Seq<StateID>, tg: StateID) -> bool {
    exists|to: StateSetID| to.0 < reps.len() && #[trigger] same_closure(g, tg.0 as int, reps[to.0 as int].0 as int)
}
pub open spec fn elim_ok(g: Gr, d: CompiledDfa, reps: Seq<StateID>) -> bool {
    &&& reps_ok(g, reps) && reps.len() <= u32::MAX
    &&& d.states@.len() == reps.len() && d.end_states@.len() == reps.len()
    &&& forall|f: int, cc: CharClassID, to: StateSetID| 0 <= f < reps.len() ==> (#[trigger] d.states@[f].transitions@.contains((cc, to)) <==> elim_edge(g, reps, f, cc, to))
    &&& forall|f: int| 0 <= f < reps.len() ==> (#[trigger] d.states@[f]).transitions@.no_duplicates()
    // every closure a state can move to has its own state
    &&& forall|f: int, cc: CharClassID, tg: StateID| 0 <= f < reps.len() && #[trigger] g_fires(g, reps[f].0 as int, cc, tg) ==> has_rep(g, reps, tg)
    &&& forall|i: int| 0 <= i < reps.len() ==> #[trigger] d.end_states@[i] == elim_end(g, d, reps, i)
    &&& d.lookaheads@.len() == 0
}

// ---- lemmas
pub proof fn lemma_same_closure_refl(g: Gr, a: int) ensures same_closure(g, a, a) { reveal(same_closure); }
pub proof fn lemma_same_closure_trans(g: Gr, a: int, b: int, c: int)
    requires same_closure(g, a, b), same_closure(g, a, c)
    ensures same_closure(g, b, c), same_closure(g, c, b)
{
    reveal(same_closure);
    assert forall|x: int| #[trigger] (g.reach)(b, x) <==> (g.reach)(c, x) by { assert((g.reach)(a, x) <==> (g.reach)(b, x)); assert((g.reach)(a, x) <==> (g.reach)(c, x)); }
}
pub proof fn lemma_same_closure_sym(g: Gr, a: int, b: int)
    requires same_closure(g, a, b)
    ensures same_closure(g, b, a)
{
    reveal(same_closure);
}
pub proof fn lemma_same_closure_reach(g: Gr, a: int, b: int, x: int)
    requires same_closure(g, a, b)
    ensures (g.reach)(a, x) <==> (g.reach)(b, x)
{
    reveal(same_closure);
}
pub proof fn lemma_key_same(g: Gr, k: Set<StateID>, a: int, b: int)
    requires key_is(g, k, a), key_is(g, k, b), gr_wf(g), (g.ok)(a), (g.ok)(b)
    ensures same_closure(g, a, b)
{
    reveal(same_closure);
    assert forall|x: int| #[trigger] (g.reach)(a, x) <==> (g.reach)(b, x) by {
        if (g.reach)(a, x) { assert((g.ok)(x)); assert(k.contains(StateID(x as u32))); }
        if (g.reach)(b, x) { assert((g.ok)(x)); assert(k.contains(StateID(x as u32))); }
    }
}
pub proof fn lemma_keys_equal(g: Gr, k1: Set<StateID>, k2: Set<StateID>, a: int, b: int)
    requires key_is(g, k1, a), key_is(g, k2, b), same_closure(g, a, b)
    ensures k1 == k2
{
    reveal(same_closure);
    assert forall|x: StateID| k1.contains(x) <==> k2.contains(x) by {
        assert((g.reach)(a, x.0 as int) <==> (g.reach)(b, x.0 as int));
    }
    assert(k1 =~= k2);
}
pub proof fn lemma_reps_nodup(g: Gr, reps: Seq<StateID>)
    requires reps_ok(g, reps), gr_wf(g)
    ensures reps.no_duplicates(), reps.len() <= g.bound
{
    reveal(reps_distinct);
    assert forall|i: int, j: int| 0 <= i < reps.len() && 0 <= j < reps.len() && i != j implies reps[i] != reps[j] by {
        if reps[i] == reps[j] { lemma_same_closure_refl(g, reps[i].0 as int); if i < j { assert(!same_closure(g, reps[i].0 as int, reps[j].0 as int)); } else { assert(!same_closure(g, reps[j].0 as int, reps[i].0 as int)); } }
    }
    assert forall|i: int| 0 <= i < reps.len() implies 0 <= (#[trigger] reps[i]).0 < 0 + g.bound by { assert((g.ok)(reps[i].0 as int)); }
    lemma_nodup_bounded(reps, 0, g.bound);
}
/// a fired transition's target is a state
pub proof fn lemma_fires_target(g: Gr, a: int, cc: CharClassID, t: StateID)
    requires gr_wf(g), (g.ok)(a), g_fires(g, a, cc, t)
    ensures (g.ok)(t.0 as int)
{
    reveal(g_fires);
    let s = choose|s: int| (g.reach)(a, s) && #[trigger] (g.tr)(s, cc, t);
    assert((g.ok)(s));
}

pub proof fn lemma_step_found(g: Gr, m: SMap, reps: Seq<StateID>, k: BTreeSet<StateID>, t: StateID)
    requires gr_wf(g), reps_ok(g, reps), map_ok(g, m, reps), m.contains_key(k), key_is(g, k@, t.0 as int), (g.ok)(t.0 as int)
    ensures m[k].0 < reps.len(), same_closure(g, t.0 as int, reps[m[k].0 as int].0 as int)
{
    lemma_key_same(g, k@, t.0 as int, reps[m[k].0 as int].0 as int);
}

pub proof fn lemma_step_fresh(g: Gr, m: SMap, reps: Seq<StateID>, k: BTreeSet<StateID>, t: StateID)
    requires gr_wf(g), reps_ok(g, reps), map_ok(g, m, reps), !m.contains_key(k), key_is(g, k@, t.0 as int), (g.ok)(t.0 as int)
    ensures
        reps.len() < u32::MAX, reps.len() < g.bound,
        reps_ok(g, reps.push(t)),
        map_ok(g, m.insert(k, StateSetID(reps.len() as u32)), reps.push(t)),
        same_closure(g, t.0 as int, reps.push(t)[reps.len() as int].0 as int),
{
    reveal(reps_distinct);
    let r2 = reps.push(t);
    let v = StateSetID(reps.len() as u32);
    let m2 = m.insert(k, v);
    lemma_same_closure_refl(g, t.0 as int);
    assert forall|i: int| 0 <= i < reps.len() implies !same_closure(g, (#[trigger] reps[i]).0 as int, t.0 as int) by {
        if same_closure(g, reps[i].0 as int, t.0 as int) {
            assert(has_key_for(m, i));
            let ki = choose|ki: BTreeSet<StateID>| #[trigger] m.contains_key(ki) && m[ki].0 == i;
            lemma_keys_equal(g, ki@, k@, reps[i].0 as int, t.0 as int);
            axiom_set_key_ext(ki, k);
        }
    }
    assert(reps_ok(g, r2)) by {
        assert forall|i: int, j: int| 0 <= i < j < r2.len() implies !same_closure(g, (#[trigger] r2[i]).0 as int, (#[trigger] r2[j]).0 as int) by {
            if j < reps.len() { assert(r2[i] == reps[i] && r2[j] == reps[j]); } else { assert(r2[i] == reps[i]); }
        }
    }
    lemma_reps_nodup(g, r2);
    assert(map_ok(g, m2, r2)) by {
        assert(m2.len() == m.len() + 1);
        assert forall|kk: BTreeSet<StateID>| #[trigger] m2.contains_key(kk) implies m2[kk].0 < r2.len() && key_is(g, kk@, r2[m2[kk].0 as int].0 as int) by {
            if kk != k { assert(m.contains_key(kk)); assert(r2[m[kk].0 as int] == reps[m[kk].0 as int]); }
        }
        assert forall|i: int| 0 <= i < r2.len() implies has_key_for(m2, i) by {
            if i < reps.len() {
                assert(has_key_for(m, i));
                let ki = choose|ki: BTreeSet<StateID>| #[trigger] m.contains_key(ki) && m[ki].0 == i;
                assert(m2.contains_key(ki) && m2[ki].0 == i);
            } else { assert(m2.contains_key(k) && m2[k].0 == i); }
        }
    }
}

pub proof fn lemma_push_mono(g: Gr, t: Set<Edge>, acc: Seq<(StateSetID, usize)>, reps: Seq<StateID>, x: StateID, lim: int, p: int)
    requires trans_sound(g, t, reps, lim), trans_complete(g, t, reps, p), acc_ok(g, acc, t, reps), p <= reps.len()
    ensures
        trans_sound(g, t, reps.push(x), lim), trans_complete(g, t, reps.push(x), p), acc_ok(g, acc, t, reps.push(x)),
        forall|f: int, cc: CharClassID, tg: StateID| #[trigger] edge_present(g, t, reps, f, cc, tg) ==> edge_present(g, t, reps.push(x), f, cc, tg),
{
    reveal(trans_sound); reveal(trans_complete); reveal(acc_ok);
    let r2 = reps.push(x);
    assert forall|f: int, cc: CharClassID, to: StateSetID| #[trigger] elim_edge(g, reps, f, cc, to) implies elim_edge(g, r2, f, cc, to) by {
        let tg = choose|tg: StateID| #[trigger] g_fires(g, reps[f].0 as int, cc, tg) && same_closure(g, tg.0 as int, reps[to.0 as int].0 as int);
        assert(r2[f] == reps[f] && r2[to.0 as int] == reps[to.0 as int]);
        assert(g_fires(g, r2[f].0 as int, cc, tg) && same_closure(g, tg.0 as int, r2[to.0 as int].0 as int));
    }
    assert forall|f: int, cc: CharClassID, tg: StateID| #[trigger] edge_present(g, t, reps, f, cc, tg) implies edge_present(g, t, r2, f, cc, tg) by {
        let to = choose|to: StateSetID| to.0 < reps.len() && same_closure(g, tg.0 as int, reps[to.0 as int].0 as int) && #[trigger] t.contains((StateSetID(f as u32), cc, to));
        assert(r2[to.0 as int] == reps[to.0 as int]);
    }
    assert forall|f: int, cc: CharClassID, tg: StateID| 0 <= f < p && f < r2.len() && #[trigger] g_fires(g, r2[f].0 as int, cc, tg) implies edge_present(g, t, r2, f, cc, tg) by {
        if f < reps.len() { assert(r2[f] == reps[f]); assert(edge_present(g, t, reps, f, cc, tg)); }
    }
    assert(acc_ok(g, acc, t, r2)) by {
        assert forall|i: int| 0 <= i < acc.len() implies (#[trigger] acc[i]).0.0 < r2.len() && (g.acc)(r2[acc[i].0.0 as int].0 as int) == Some(acc[i].1) && entered(t, acc[i].0) by {
            assert(r2[acc[i].0.0 as int] == reps[acc[i].0.0 as int]);
        }
        assert forall|e: Edge| #[trigger] t.contains(e) && e.2.0 < r2.len() && (g.acc)(r2[e.2.0 as int].0 as int) is Some
            implies acc.contains((e.2, (g.acc)(r2[e.2.0 as int].0 as int)->0)) by {
            assert(elim_edge(g, reps, e.0.0 as int, e.1, e.2));
            assert(r2[e.2.0 as int] == reps[e.2.0 as int]);
        }
    }
}

pub proof fn lemma_insert_edge(g: Gr, t: Set<Edge>, reps: Seq<StateID>, c: int, cc: CharClassID, tg: StateID, id: StateSetID, p: int)
    requires
        trans_sound(g, t, reps, c + 1), trans_complete(g, t, reps, p), 0 <= c < reps.len(), reps.len() <= u32::MAX, id.0 < reps.len(),
        g_fires(g, reps[c].0 as int, cc, tg), same_closure(g, tg.0 as int, reps[id.0 as int].0 as int),
    ensures
        trans_sound(g, t.insert((StateSetID(c as u32), cc, id)), reps, c + 1),
        trans_complete(g, t.insert((StateSetID(c as u32), cc, id)), reps, p),
        edge_present(g, t.insert((StateSetID(c as u32), cc, id)), reps, c, cc, tg),
        forall|f: int, cc2: CharClassID, tg2: StateID| #[trigger] edge_present(g, t, reps, f, cc2, tg2) ==> edge_present(g, t.insert((StateSetID(c as u32), cc, id)), reps, f, cc2, tg2),
{
    reveal(trans_sound); reveal(trans_complete);
    let e0 = (StateSetID(c as u32), cc, id);
    let t2 = t.insert(e0);
    assert(elim_edge(g, reps, c, cc, id));
    assert forall|f: int, cc2: CharClassID, tg2: StateID| #[trigger] edge_present(g, t, reps, f, cc2, tg2) implies edge_present(g, t2, reps, f, cc2, tg2) by {
        let to = choose|to: StateSetID| to.0 < reps.len() && same_closure(g, tg2.0 as int, reps[to.0 as int].0 as int) && #[trigger] t.contains((StateSetID(f as u32), cc2, to));
        assert(t2.contains((StateSetID(f as u32), cc2, to)));
    }
    assert(t2.contains(e0));
    assert(edge_present(g, t2, reps, c, cc, tg));
    assert forall|f: int, cc2: CharClassID, tg2: StateID| 0 <= f < p && f < reps.len() && #[trigger] g_fires(g, reps[f].0 as int, cc2, tg2) implies edge_present(g, t2, reps, f, cc2, tg2) by {
        assert(edge_present(g, t, reps, f, cc2, tg2));
    }
}

/// the accepting list after one inner step: the entry for `id` is added exactly when its closure accepts and it is not listed yet
pub proof fn lemma_acc_step(g: Gr, acc0: Seq<(StateSetID, usize)>, acc1: Seq<(StateSetID, usize)>, t: Set<Edge>, reps: Seq<StateID>, e0: Edge)
    requires
        acc_ok(g, acc0, t, reps), e0.2.0 < reps.len(),
        acc1 == (if (g.acc)(reps[e0.2.0 as int].0 as int) is Some && !acc0.contains((e0.2, (g.acc)(reps[e0.2.0 as int].0 as int)->0)) { acc0.push((e0.2, (g.acc)(reps[e0.2.0 as int].0 as int)->0)) } else { acc0 }),
    ensures acc_ok(g, acc1, t.insert(e0), reps)
{
    reveal(acc_ok);
    let t2 = t.insert(e0);
    let a0 = (g.acc)(reps[e0.2.0 as int].0 as int);
    assert forall|to: StateSetID| #[trigger] entered(t, to) implies entered(t2, to) by {
        let (f, cc) = choose|f: StateSetID, cc: CharClassID| #[trigger] t.contains((f, cc, to));
        assert(t2.contains((f, cc, to)));
    }
    assert(t2.contains((e0.0, e0.1, e0.2)));
    assert(entered(t2, e0.2));
    if acc1 != acc0 {
        assert(acc1.no_duplicates()) by {
            assert forall|i: int, j: int| 0 <= i < acc1.len() && 0 <= j < acc1.len() && i != j implies acc1[i] != acc1[j] by {
                if i < acc0.len() && j < acc0.len() { assert(acc0[i] != acc0[j]); }
                else if i < acc0.len() { assert(acc0.contains(acc0[i])); }
                else if j < acc0.len() { assert(acc0.contains(acc0[j])); }
            }
        }
        assert forall|i: int| 0 <= i < acc1.len() implies (#[trigger] acc1[i]).0.0 < reps.len() && (g.acc)(reps[acc1[i].0.0 as int].0 as int) == Some(acc1[i].1) && entered(t2, acc1[i].0) by {
            if i < acc0.len() { assert(acc1[i] == acc0[i]); assert(entered(t, acc0[i].0)); }
        }
    } else {
        assert forall|i: int| 0 <= i < acc1.len() implies (#[trigger] acc1[i]).0.0 < reps.len() && (g.acc)(reps[acc1[i].0.0 as int].0 as int) == Some(acc1[i].1) && entered(t2, acc1[i].0) by {
            assert(entered(t, acc0[i].0));
        }
    }
    assert forall|e: Edge| #[trigger] t2.contains(e) && e.2.0 < reps.len() && (g.acc)(reps[e.2.0 as int].0 as int) is Some
        implies acc1.contains((e.2, (g.acc)(reps[e.2.0 as int].0 as int)->0)) by {
        let want = (e.2, (g.acc)(reps[e.2.0 as int].0 as int)->0);
        if e == e0 {
            if acc1 != acc0 { assert(acc1[acc0.len() as int] == want); }
        } else {
            assert(t.contains(e));
            assert(acc0.contains(want));
            let i = choose|i: int| 0 <= i < acc0.len() && acc0[i] == want;
            assert(acc1[i] == want);
        }
    }
}

/// the vectors built from the final worklist state form the epsilon-elimination automaton
pub proof fn lemma_elim_final(g: Gr, d: CompiledDfa, reps: Seq<StateID>, t: Set<Edge>, acc: Seq<(StateSetID, usize)>)
    requires
        gr_wf(g), reps_ok(g, reps), reps.len() <= u32::MAX,
        trans_sound(g, t, reps, reps.len() as int), trans_complete(g, t, reps, reps.len() as int), acc_ok(g, acc, t, reps),
        d.states@.len() == reps.len(), d.end_states@.len() == reps.len(),
        forall|f: int, cc: CharClassID, to: StateSetID| 0 <= f < reps.len() ==> (#[trigger] d.states@[f].transitions@.contains((cc, to)) <==> t.contains((StateSetID(f as u32), cc, to))),
        forall|f: int| 0 <= f < reps.len() ==> (#[trigger] d.states@[f]).transitions@.no_duplicates(),
        forall|i: int| 0 <= i < reps.len() ==> #[trigger] d.end_states@[i] == acc_mark(acc, acc.len() as int, i),
        d.lookaheads@.len() == 0,
    ensures elim_ok(g, d, reps)
{
    reveal(reps_distinct); reveal(trans_sound); reveal(trans_complete); reveal(acc_ok);
    assert forall|f: int, cc: CharClassID, to: StateSetID| 0 <= f < reps.len() implies (#[trigger] d.states@[f].transitions@.contains((cc, to)) <==> elim_edge(g, reps, f, cc, to)) by {
        if t.contains((StateSetID(f as u32), cc, to)) { assert(elim_edge(g, reps, f, cc, to)); }
        if elim_edge(g, reps, f, cc, to) {
            let tg = choose|tg: StateID| #[trigger] g_fires(g, reps[f].0 as int, cc, tg) && same_closure(g, tg.0 as int, reps[to.0 as int].0 as int);
            assert(edge_present(g, t, reps, f, cc, tg));
            let to2 = choose|to2: StateSetID| to2.0 < reps.len() && same_closure(g, tg.0 as int, reps[to2.0 as int].0 as int) && #[trigger] t.contains((StateSetID(f as u32), cc, to2));
            lemma_same_closure_trans(g, tg.0 as int, reps[to.0 as int].0 as int, reps[to2.0 as int].0 as int);
            if to.0 < to2.0 { assert(!same_closure(g, reps[to.0 as int].0 as int, reps[to2.0 as int].0 as int)); }
            if to2.0 < to.0 { assert(!same_closure(g, reps[to2.0 as int].0 as int, reps[to.0 as int].0 as int)); }
            assert(to == to2);
        }
    }
    assert forall|f: int, cc: CharClassID, tg: StateID| 0 <= f < reps.len() && #[trigger] g_fires(g, reps[f].0 as int, cc, tg) implies has_rep(g, reps, tg) by {
        assert(edge_present(g, t, reps, f, cc, tg));
        let to = choose|to: StateSetID| to.0 < reps.len() && same_closure(g, tg.0 as int, reps[to.0 as int].0 as int) && #[trigger] t.contains((StateSetID(f as u32), cc, to));
        assert(same_closure(g, tg.0 as int, reps[to.0 as int].0 as int));
    }
    assert forall|i: int| 0 <= i < reps.len() implies #[trigger] d.end_states@[i] == elim_end(g, d, reps, i) by {
        let a = (g.acc)(reps[i].0 as int);
        if acc_marked(acc, acc.len() as int, i) {
            let ix = acc_mark_ix(acc, acc.len() as int, i);
            lemma_acc_mark(acc, acc.len() as int, i);
            assert(entered(t, acc[ix].0));
            let (f, cc) = choose|f: StateSetID, cc: CharClassID| #[trigger] t.contains((f, cc, acc[ix].0));
            assert(f.0 < reps.len());
            assert(StateSetID(f.0 as int as u32) == f);
            assert(acc[ix].0 == StateSetID(i as u32));
            assert(d.states@[f.0 as int].transitions@.contains((cc, StateSetID(i as u32))));
            assert(elim_entered(d, reps.len() as int, i));
            assert(a == Some(acc[ix].1));
        } else {
            lemma_acc_mark(acc, acc.len() as int, i);
            if elim_entered(d, reps.len() as int, i) && a is Some {
                let (f, cc) = choose|f: int, cc: CharClassID| 0 <= f < reps.len() && #[trigger] d.states@[f].transitions@.contains((cc, StateSetID(i as u32)));
                let e = (StateSetID(f as u32), cc, StateSetID(i as u32));
                assert(t.contains(e));
                assert(acc.contains((e.2, a->0)));
                let ix = choose|ix: int| 0 <= ix < acc.len() && acc[ix] == (e.2, a->0);
                assert(acc[ix].0.0 == i);
                assert(false);
            }
        }
    }
}
/// the mark the last loop leaves on end_states[i] after processing the first k accepting entries: the token type of the LAST entry for i
pub open spec fn acc_marked(acc: Seq<(StateSetID, usize)>, k: int, i: int) -> bool { exists|ix: int| 0 <= ix < k && ix < acc.len() && (#[trigger] acc[ix]).0.0 == i }
pub open spec fn acc_mark_ix(acc: Seq<(StateSetID, usize)>, k: int, i: int) -> int
    decreases k
{
    if k <= 0 { -1 } else if k <= acc.len() && acc[k - 1].0.0 == i { k - 1 } else { acc_mark_ix(acc, k - 1, i) }
}
pub open spec fn acc_mark(acc: Seq<(StateSetID, usize)>, k: int, i: int) -> (bool, TerminalID) {
    if acc_marked(acc, k, i) { (true, TerminalID(acc[acc_mark_ix(acc, k, i)].1 as u32)) } else { (false, TerminalID(0)) }
}
pub proof fn lemma_acc_mark(acc: Seq<(StateSetID, usize)>, k: int, i: int)
    requires 0 <= k <= acc.len()
    ensures
        acc_marked(acc, k, i) ==> 0 <= acc_mark_ix(acc, k, i) < k && acc[acc_mark_ix(acc, k, i)].0.0 == i,
        !acc_marked(acc, k, i) ==> forall|ix: int| 0 <= ix < k ==> (#[trigger] acc[ix]).0.0 != i,
    decreases k
{
    if k > 0 {
        lemma_acc_mark(acc, k - 1, i);
        if acc[k - 1].0.0 != i {
            if acc_marked(acc, k, i) {
                let ix = choose|ix: int| 0 <= ix < k && ix < acc.len() && (#[trigger] acc[ix]).0.0 == i;
                assert(ix < k - 1);
                assert(acc_marked(acc, k - 1, i));
            }
        }
    }
}

pub proof fn lemma_worklist_init(g: Gr, reps: Seq<StateID>)
    ensures trans_sound(g, Set::<Edge>::empty(), reps, 0), trans_complete(g, Set::<Edge>::empty(), reps, 0), acc_ok(g, Seq::<(StateSetID, usize)>::empty(), Set::<Edge>::empty(), reps)
{
    reveal(trans_sound); reveal(trans_complete); reveal(acc_ok);
}
pub proof fn lemma_ts_use(g: Gr, t: Set<Edge>, reps: Seq<StateID>, lim: int, e: Edge)
    requires trans_sound(g, t, reps, lim), t.contains(e)
    ensures e.0.0 < lim, e.2.0 < reps.len(), 0 <= e.0.0 < reps.len()
{
    reveal(trans_sound);
}
pub proof fn lemma_ts_weaken(g: Gr, t: Set<Edge>, reps: Seq<StateID>, lim: int, lim2: int)
    requires trans_sound(g, t, reps, lim), lim <= lim2
    ensures trans_sound(g, t, reps, lim2)
{
    reveal(trans_sound);
}
pub proof fn lemma_acc_use(g: Gr, acc: Seq<(StateSetID, usize)>, t: Set<Edge>, reps: Seq<StateID>, i: int)
    requires acc_ok(g, acc, t, reps), 0 <= i < acc.len()
    ensures acc[i].0.0 < reps.len(), (g.acc)(reps[acc[i].0.0 as int].0 as int) == Some(acc[i].1)
{
    reveal(acc_ok);
}
/// all transitions fired by automaton state c have been entered: c is complete
pub proof fn lemma_complete_step(g: Gr, t: Set<Edge>, reps: Seq<StateID>, c: int, ts: Seq<(CharClassID, StateID)>)
    requires
        trans_complete(g, t, reps, c), 0 <= c < reps.len(),
        forall|cc: CharClassID, tg: StateID| #[trigger] ts.contains((cc, tg)) <==> g_fires(g, reps[c].0 as int, cc, tg),
        forall|kk: int| 0 <= kk < ts.len() ==> edge_present(g, t, reps, c, (#[trigger] ts[kk]).0, ts[kk].1),
    ensures trans_complete(g, t, reps, c + 1)
{
    reveal(trans_complete);
    assert forall|f: int, cc: CharClassID, tg: StateID| 0 <= f < c + 1 && f < reps.len() && #[trigger] g_fires(g, reps[f].0 as int, cc, tg) implies edge_present(g, t, reps, f, cc, tg) by {
        if f == c {
            assert(ts.contains((cc, tg)));
            let kk = choose|kk: int| 0 <= kk < ts.len() && ts[kk] == (cc, tg);
            assert(edge_present(g, t, reps, c, ts[kk].0, ts[kk].1));
        }
    }
}
/// the closure of the fresh target accepts what its representative accepts
pub proof fn lemma_acc_same(g: Gr, a: int, b: int)
    requires gr_wf(g), (g.ok)(a), (g.ok)(b), same_closure(g, a, b)
    ensures (g.acc)(a) == (g.acc)(b)
{
}

/// every transition target of the automaton handed to the minimizer is one of its states
pub proof fn lemma_targets_in_range(g: Gr, sts: Seq<StateData>, reps: Seq<StateID>, t: Set<Edge>)
    requires
        trans_sound(g, t, reps, reps.len() as int), sts.len() == reps.len(),
        forall|f: int, cc: CharClassID, to: StateSetID| 0 <= f < reps.len() ==> (#[trigger] sts[f].transitions@.contains((cc, to)) <==> t.contains((StateSetID(f as u32), cc, to))),
    ensures forall|s: int, k: int| 0 <= s < sts.len() && 0 <= k < sts[s].transitions@.len() ==> (#[trigger] sts[s].transitions@[k]).1.0 < sts.len()
{
    reveal(trans_sound);
    assert forall|s: int, k: int| 0 <= s < sts.len() && 0 <= k < sts[s].transitions@.len() implies (#[trigger] sts[s].transitions@[k]).1.0 < sts.len() by {
        let e = sts[s].transitions@[k];
        assert(sts[s].transitions@.contains((e.0, e.1)));
        assert(t.contains((StateSetID(s as u32), e.0, e.1)));
    }
}
