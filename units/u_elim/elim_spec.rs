// ---------------------------------------------------------------- U-elim: trusted std wrappers and the epsilon-elimination automaton
pub struct Minimizer;
/// what Minimizer::minimize returns (minimizer.rs is not under contract: property C03 is not decided)
pub uninterp spec fn spec_minimize(d: CompiledDfa) -> CompiledDfa;
impl Minimizer {
    #[verifier::external_body]
    pub fn minimize(dfa: CompiledDfa) -> (r: CompiledDfa)
        ensures r == spec_minimize(dfa)
    { unimplemented!() }
}

pub broadcast axiom fn axiom_fx_valid()
    ensures #[trigger] vstd::std_specs::hash::builds_valid_hashers::<rustc_hash::FxBuildHasher>();
/// BTreeSet<StateID> as a hash key: Eq/Hash are those of the element set (two keys with the same elements are the same key)
pub broadcast axiom fn axiom_set_key_model()
    ensures #[trigger] vstd::std_specs::hash::obeys_key_model::<BTreeSet<StateID>>();
pub broadcast axiom fn axiom_triple_key_model()
    ensures #[trigger] vstd::std_specs::hash::obeys_key_model::<(StateSetID, CharClassID, StateSetID)>();
pub axiom fn axiom_set_key_ext(k1: BTreeSet<StateID>, k2: BTreeSet<StateID>)
    ensures k1@ == k2@ ==> k1 == k2;
/// Clone of the Copy pair (bool, TerminalID) is the identity (std tuple Clone + derived Clone of the id newtype, rule E4)
pub broadcast axiom fn axiom_cloned_end_state(a: (bool, TerminalID), b: (bool, TerminalID))
    ensures #[trigger] vstd::pervasive::cloned(a, b) ==> a == b;
pub broadcast axiom fn axiom_stateid_cmp()
    ensures #[trigger] vstd::std_specs::btree::key_obeys_cmp_spec::<StateID>();

#[verifier::external_body]
pub fn verif_btreeset_from_vec(v: Vec<StateID>) -> (r: BTreeSet<StateID>)
    ensures forall|x: StateID| #[trigger] r@.contains(x) <==> v@.contains(x)
{ BTreeSet::from_iter(v) }

#[verifier::external_body]
pub fn verif_cloned<'a>(it: std::collections::btree_set::Iter<'a, StateID>) -> (r: core::iter::Cloned<std::collections::btree_set::Iter<'a, StateID>>)
    ensures
        r.obeys_prophetic_iter_laws(), r.decrease() is Some,
        // the clones of the remaining elements, in order (stated as an equality with a typed sequence: Verus does not
        // normalise `<Cloned<I> as Iterator>::Item`, so facts about remaining() of the adaptor have to come from here)
        r.remaining() == it.remaining().unref(),
{ it.cloned() }

/// `m.iter().find(|(_, v)| **v == id).unwrap().0.clone()`: a key mapped to `id` (panics if there is none)
#[verifier::external_body]
pub fn verif_key_of(m: &FxHashMap<BTreeSet<StateID>, StateSetID>, id: StateSetID) -> (r: BTreeSet<StateID>)
    requires exists|k: BTreeSet<StateID>| m@.contains_key(k) && m@[k] == id
    ensures exists|k: BTreeSet<StateID>| m@.contains_key(k) && m@[k] == id && r@ == k@
{ m.iter().find(|(_, v)| **v == id).unwrap().0.clone() }

#[verifier::external_body]
pub fn verif_hashset_into_iter<K>(s: FxHashSet<K>) -> (r: std::collections::hash_set::IntoIter<K>)
    ensures
        r.obeys_prophetic_iter_laws(), r.decrease() is Some,
        r.remaining().no_duplicates(),
        forall|x: K| #[trigger] r.remaining().contains(x) <==> s@.contains(x),
{ s.into_iter() }

// ---------------------------------------------------------------- the epsilon-elimination automaton of one NFA
#[verifier::opaque]
pub open spec fn same_closure(n: Nfa, a: int, b: int) -> bool { forall|x: int| #[trigger] eps_reach(n, a, x) <==> eps_reach(n, b, x) }
/// the set k is the epsilon closure of NFA state a
pub open spec fn key_is(n: Nfa, k: Set<StateID>, a: int) -> bool { forall|x: StateID| #[trigger] k.contains(x) <==> eps_reach(n, a, x.0 as int) }
/// some member of closure(a) has the transition (cc, t)
#[verifier::opaque]
pub open spec fn fires(n: Nfa, a: int, cc: CharClassID, t: StateID) -> bool { exists|s: int| eps_reach(n, a, s) && #[trigger] tr_of(n, s, cc, t) }
/// automaton state `to` stands for the closure of the target of a transition (cc, t) fired from automaton state f
pub open spec fn elim_edge(n: Nfa, reps: Seq<StateID>, f: int, cc: CharClassID, to: StateSetID) -> bool {
    0 <= f < reps.len() && to.0 < reps.len()
        && exists|t: StateID| #[trigger] fires(n, reps[f].0 as int, cc, t) && same_closure(n, t.0 as int, reps[to.0 as int].0 as int)
}
/// reps[i]: an NFA state whose closure automaton state i stands for; distinct automaton states stand for distinct closures
pub open spec fn reps_ok(n: Nfa, reps: Seq<StateID>) -> bool {
    &&& reps.len() >= 1 && reps[0] == n.start_state
    &&& forall|i: int| 0 <= i < reps.len() ==> has_state(n, (#[trigger] reps[i]).0 as int)
    &&& reps_distinct(n, reps)
}
#[verifier::opaque]
pub open spec fn reps_distinct(n: Nfa, reps: Seq<StateID>) -> bool {
    forall|i: int, j: int| 0 <= i < j < reps.len() ==> !same_closure(n, (#[trigger] reps[i]).0 as int, (#[trigger] reps[j]).0 as int)
}
pub type SMap = Map<BTreeSet<StateID>, StateSetID>;
pub type Edge = (StateSetID, CharClassID, StateSetID);
pub open spec fn map_ok(n: Nfa, m: SMap, reps: Seq<StateID>) -> bool {
    &&& m.len() == reps.len()
    &&& forall|k: BTreeSet<StateID>| #[trigger] m.contains_key(k) ==> m[k].0 < reps.len() && key_is(n, k@, reps[m[k].0 as int].0 as int)
    &&& forall|i: int| 0 <= i < reps.len() ==> has_key_for(m, i)
}
pub open spec fn has_key_for(m: SMap, i: int) -> bool { exists|k: BTreeSet<StateID>| #[trigger] m.contains_key(k) && m[k].0 == i }
/// the queue holds the ids lo, lo+1, .., hi-1 in this order
pub open spec fn queue_ok(q: Seq<StateSetID>, lo: int, hi: int) -> bool {
    q.len() == hi - lo && forall|i: int| 0 <= i < q.len() ==> (#[trigger] q[i]).0 == lo + i
}
#[verifier::opaque]
pub open spec fn trans_sound(n: Nfa, t: Set<Edge>, reps: Seq<StateID>, lim: int) -> bool {
    forall|e: Edge| #[trigger] t.contains(e) ==> e.0.0 < lim && elim_edge(n, reps, e.0.0 as int, e.1, e.2)
}
pub open spec fn edge_present(n: Nfa, t: Set<Edge>, reps: Seq<StateID>, f: int, cc: CharClassID, tg: StateID) -> bool {
    exists|to: StateSetID| to.0 < reps.len() && same_closure(n, tg.0 as int, reps[to.0 as int].0 as int) && #[trigger] t.contains((StateSetID(f as u32), cc, to))
}
#[verifier::opaque]
pub open spec fn trans_complete(n: Nfa, t: Set<Edge>, reps: Seq<StateID>, p: int) -> bool {
    forall|f: int, cc: CharClassID, tg: StateID| 0 <= f < p && f < reps.len() && #[trigger] fires(n, reps[f].0 as int, cc, tg) ==> edge_present(n, t, reps, f, cc, tg)
}
pub open spec fn entered(t: Set<Edge>, to: StateSetID) -> bool { exists|f: StateSetID, cc: CharClassID| #[trigger] t.contains((f, cc, to)) }
#[verifier::opaque]
pub open spec fn acc_ok(n: Nfa, acc: Seq<(StateSetID, usize)>, t: Set<Edge>, reps: Seq<StateID>) -> bool {
    let tt = n.pattern.token_type;
    let end = n.end_state.0 as int;
    &&& acc.no_duplicates()
    &&& forall|i: int| 0 <= i < acc.len() ==> (#[trigger] acc[i]).1 == tt && acc[i].0.0 < reps.len() && eps_reach(n, reps[acc[i].0.0 as int].0 as int, end) && entered(t, acc[i].0)
    &&& forall|e: Edge| #[trigger] t.contains(e) && e.2.0 < reps.len() && eps_reach(n, reps[e.2.0 as int].0 as int, end) ==> acc.contains((e.2, tt))
}

/// what the worklist construction must hand to the minimizer
pub open spec fn elim_acc(n: Nfa, d: CompiledDfa, reps: Seq<StateID>, i: int) -> bool {
    eps_reach(n, reps[i].0 as int, n.end_state.0 as int)
        && exists|f: int, cc: CharClassID| 0 <= f < reps.len() && #[trigger] d.states@[f].transitions@.contains((cc, StateSetID(i as u32)))
}
pub open spec fn elim_ok(n: Nfa, d: CompiledDfa, reps: Seq<StateID>) -> bool {
    let tt = TerminalID(n.pattern.token_type as u32);
    &&& reps_ok(n, reps) && reps.len() <= u32::MAX
    &&& d.states@.len() == reps.len() && d.end_states@.len() == reps.len()
    &&& forall|f: int, cc: CharClassID, to: StateSetID| 0 <= f < reps.len() ==> (#[trigger] d.states@[f].transitions@.contains((cc, to)) <==> elim_edge(n, reps, f, cc, to))
    &&& forall|f: int| 0 <= f < reps.len() ==> (#[trigger] d.states@[f]).transitions@.no_duplicates()
    // the start state is never marked on its own account: the empty string is not accepted
    &&& forall|i: int| 0 <= i < reps.len() ==> #[trigger] d.end_states@[i] == (if elim_acc(n, d, reps, i) { (true, tt) } else { (false, TerminalID(0)) })
    &&& d.terminal_ids@ == seq![tt]
    &&& d.lookaheads@.len() == 0
}

// ---- lemmas
pub proof fn lemma_same_closure_refl(n: Nfa, a: int) ensures same_closure(n, a, a) { reveal(same_closure); }
pub proof fn lemma_same_closure_trans(n: Nfa, a: int, b: int, c: int)
    requires same_closure(n, a, b), same_closure(n, a, c)
    ensures same_closure(n, b, c), same_closure(n, c, b)
{
    reveal(same_closure);
    assert forall|x: int| #[trigger] eps_reach(n, b, x) <==> eps_reach(n, c, x) by { assert(eps_reach(n, a, x) <==> eps_reach(n, b, x)); assert(eps_reach(n, a, x) <==> eps_reach(n, c, x)); }
}
pub proof fn lemma_key_same(n: Nfa, k: Set<StateID>, a: int, b: int)
    requires key_is(n, k, a), key_is(n, k, b), sub_wf(n), has_state(n, a), has_state(n, b)
    ensures same_closure(n, a, b)
{
    reveal(same_closure);
    assert forall|x: int| #[trigger] eps_reach(n, a, x) <==> eps_reach(n, b, x) by {
        if eps_reach(n, a, x) { let kk = choose|kk: nat| eps_path(n, a, x, kk); lemma_reach_has_state(n, a, x, kk); assert(k.contains(StateID(x as u32))); }
        if eps_reach(n, b, x) { let kk = choose|kk: nat| eps_path(n, b, x, kk); lemma_reach_has_state(n, b, x, kk); assert(k.contains(StateID(x as u32))); }
    }
}
pub proof fn lemma_keys_equal(n: Nfa, k1: Set<StateID>, k2: Set<StateID>, a: int, b: int)
    requires key_is(n, k1, a), key_is(n, k2, b), same_closure(n, a, b)
    ensures k1 == k2
{
    reveal(same_closure);
    assert forall|x: StateID| k1.contains(x) <==> k2.contains(x) by {
        assert(eps_reach(n, a, x.0 as int) <==> eps_reach(n, b, x.0 as int));
    }
    assert(k1 =~= k2);
}
pub proof fn lemma_reps_nodup(n: Nfa, reps: Seq<StateID>)
    requires reps_ok(n, reps), sub_wf(n), n_off(n) == 0
    ensures reps.no_duplicates(), reps.len() <= n_len(n)
{
    reveal(reps_distinct);
    assert forall|i: int, j: int| 0 <= i < reps.len() && 0 <= j < reps.len() && i != j implies reps[i] != reps[j] by {
        if reps[i] == reps[j] { lemma_same_closure_refl(n, reps[i].0 as int); if i < j { assert(!same_closure(n, reps[i].0 as int, reps[j].0 as int)); } else { assert(!same_closure(n, reps[j].0 as int, reps[i].0 as int)); } }
    }
    lemma_nodup_bounded(reps, 0, n_len(n));
}
/// the index-addressed match transitions of the members of a closure key are what the closure fires
pub proof fn lemma_mt_fires(n: Nfa, ss: Seq<StateID>, key: Set<StateID>, a: int)
    requires sub_wf(n), n_off(n) == 0, has_state(n, a), key_is(n, key, a), forall|x: StateID| #[trigger] key.contains(x) <==> ss.contains(x)
    ensures forall|cc: CharClassID, t: StateID| #[trigger] mt_from(n, ss, cc, t) <==> fires(n, a, cc, t)
{
    reveal(fires);
    assert forall|cc: CharClassID, t: StateID| #[trigger] mt_from(n, ss, cc, t) <==> fires(n, a, cc, t) by {
        if mt_from(n, ss, cc, t) {
            let (i, k) = choose|i: int, k: int| #[trigger] mt_at(n, ss, i, k, cc, t);
            assert(ss.contains(ss[i]));
            assert(key.contains(ss[i]));
            assert(tr_at(n, ss[i].0 as int, k, cc, t));
            assert(tr_of(n, ss[i].0 as int, cc, t));
        }
        if fires(n, a, cc, t) {
            let s = choose|s: int| eps_reach(n, a, s) && #[trigger] tr_of(n, s, cc, t);
            let k = choose|k: int| #[trigger] tr_at(n, s, k, cc, t);
            assert(key.contains(StateID(s as u32)));
            assert(ss.contains(StateID(s as u32)));
            let i = choose|i: int| 0 <= i < ss.len() && ss[i] == StateID(s as u32);
            assert(mt_at(n, ss, i, k, cc, t));
        }
    }
}
/// a fired transition's target is a state of the NFA
pub proof fn lemma_fires_target(n: Nfa, a: int, cc: CharClassID, t: StateID)
    requires sub_wf(n), fires(n, a, cc, t)
    ensures has_state(n, t.0 as int)
{
    reveal(fires);
    let s = choose|s: int| eps_reach(n, a, s) && #[trigger] tr_of(n, s, cc, t);
    let k = choose|k: int| #[trigger] tr_at(n, s, k, cc, t);
    assert(has_state(n, n.states@[s - n_off(n)].transitions@[k].target_state.0 as int));
}

pub proof fn lemma_step_found(n: Nfa, m: SMap, reps: Seq<StateID>, k: BTreeSet<StateID>, t: StateID)
    requires sub_wf(n), reps_ok(n, reps), map_ok(n, m, reps), m.contains_key(k), key_is(n, k@, t.0 as int), has_state(n, t.0 as int)
    ensures m[k].0 < reps.len(), same_closure(n, t.0 as int, reps[m[k].0 as int].0 as int)
{
    lemma_key_same(n, k@, t.0 as int, reps[m[k].0 as int].0 as int);
}

pub proof fn lemma_step_fresh(n: Nfa, m: SMap, reps: Seq<StateID>, k: BTreeSet<StateID>, t: StateID)
    requires sub_wf(n), n_off(n) == 0, reps_ok(n, reps), map_ok(n, m, reps), !m.contains_key(k), key_is(n, k@, t.0 as int), has_state(n, t.0 as int)
    ensures
        reps.len() < u32::MAX, reps.len() < n_len(n),
        reps_ok(n, reps.push(t)),
        map_ok(n, m.insert(k, StateSetID(reps.len() as u32)), reps.push(t)),
        same_closure(n, t.0 as int, reps.push(t)[reps.len() as int].0 as int),
{
    reveal(reps_distinct);
    let r2 = reps.push(t);
    let v = StateSetID(reps.len() as u32);
    let m2 = m.insert(k, v);
    lemma_same_closure_refl(n, t.0 as int);
    assert forall|i: int| 0 <= i < reps.len() implies !same_closure(n, (#[trigger] reps[i]).0 as int, t.0 as int) by {
        if same_closure(n, reps[i].0 as int, t.0 as int) {
            assert(has_key_for(m, i));
            let ki = choose|ki: BTreeSet<StateID>| #[trigger] m.contains_key(ki) && m[ki].0 == i;
            lemma_keys_equal(n, ki@, k@, reps[i].0 as int, t.0 as int);
            axiom_set_key_ext(ki, k);
        }
    }
    assert(reps_ok(n, r2)) by {
        assert forall|i: int, j: int| 0 <= i < j < r2.len() implies !same_closure(n, (#[trigger] r2[i]).0 as int, (#[trigger] r2[j]).0 as int) by {
            if j < reps.len() { assert(r2[i] == reps[i] && r2[j] == reps[j]); } else { assert(r2[i] == reps[i]); }
        }
    }
    lemma_reps_nodup(n, r2);
    assert(map_ok(n, m2, r2)) by {
        assert(m2.len() == m.len() + 1);
        assert forall|kk: BTreeSet<StateID>| #[trigger] m2.contains_key(kk) implies m2[kk].0 < r2.len() && key_is(n, kk@, r2[m2[kk].0 as int].0 as int) by {
            if kk != k { assert(m.contains_key(kk)); assert(r2[m[kk].0 as int] == reps[m[kk].0 as int]); }
        }
        assert forall|i: int| 0 <= i < r2.len() implies has_key_for(m2, i) by {
            if i < reps.len() {
                assert(has_key_for(m, i));
                let ki = choose|ki: BTreeSet<StateID>| #[trigger] m.contains_key(ki) && m[ki].0 == i;
                assert(m2.contains_key(ki) && m2[ki].0 == i);
            } else { assert(m2.contains_key(k) && m2[k].0 == i); }
        }
    }
}

pub proof fn lemma_push_mono(n: Nfa, t: Set<Edge>, acc: Seq<(StateSetID, usize)>, reps: Seq<StateID>, x: StateID, lim: int, p: int)
    requires trans_sound(n, t, reps, lim), trans_complete(n, t, reps, p), acc_ok(n, acc, t, reps), p <= reps.len()
    ensures
        trans_sound(n, t, reps.push(x), lim), trans_complete(n, t, reps.push(x), p), acc_ok(n, acc, t, reps.push(x)),
        forall|f: int, cc: CharClassID, tg: StateID| #[trigger] edge_present(n, t, reps, f, cc, tg) ==> edge_present(n, t, reps.push(x), f, cc, tg),
{
    reveal(trans_sound);
    reveal(trans_complete);
    reveal(acc_ok);
    let r2 = reps.push(x);
    assert forall|f: int, cc: CharClassID, to: StateSetID| #[trigger] elim_edge(n, reps, f, cc, to) implies elim_edge(n, r2, f, cc, to) by {
        let tg = choose|tg: StateID| #[trigger] fires(n, reps[f].0 as int, cc, tg) && same_closure(n, tg.0 as int, reps[to.0 as int].0 as int);
        assert(r2[f] == reps[f] && r2[to.0 as int] == reps[to.0 as int]);
        assert(fires(n, r2[f].0 as int, cc, tg) && same_closure(n, tg.0 as int, r2[to.0 as int].0 as int));
    }
    assert forall|f: int, cc: CharClassID, tg: StateID| #[trigger] edge_present(n, t, reps, f, cc, tg) implies edge_present(n, t, r2, f, cc, tg) by {
        let to = choose|to: StateSetID| to.0 < reps.len() && same_closure(n, tg.0 as int, reps[to.0 as int].0 as int) && #[trigger] t.contains((StateSetID(f as u32), cc, to));
        assert(r2[to.0 as int] == reps[to.0 as int]);
    }
    assert forall|f: int, cc: CharClassID, tg: StateID| 0 <= f < p && f < r2.len() && #[trigger] fires(n, r2[f].0 as int, cc, tg) implies edge_present(n, t, r2, f, cc, tg) by {
        if f < reps.len() { assert(r2[f] == reps[f]); assert(edge_present(n, t, reps, f, cc, tg)); }
    }
    assert(acc_ok(n, acc, t, r2)) by {
        assert forall|i: int| 0 <= i < acc.len() implies (#[trigger] acc[i]).1 == n.pattern.token_type && acc[i].0.0 < r2.len()
            && eps_reach(n, r2[acc[i].0.0 as int].0 as int, n.end_state.0 as int) && entered(t, acc[i].0) by {
            assert(r2[acc[i].0.0 as int] == reps[acc[i].0.0 as int]);
        }
        assert forall|e: Edge| #[trigger] t.contains(e) && e.2.0 < r2.len() && eps_reach(n, r2[e.2.0 as int].0 as int, n.end_state.0 as int)
            implies acc.contains((e.2, n.pattern.token_type)) by {
            assert(elim_edge(n, reps, e.0.0 as int, e.1, e.2));
            assert(r2[e.2.0 as int] == reps[e.2.0 as int]);
        }
    }
}

pub proof fn lemma_insert_edge(n: Nfa, t: Set<Edge>, reps: Seq<StateID>, c: int, cc: CharClassID, tg: StateID, id: StateSetID, p: int)
    requires
        trans_sound(n, t, reps, c + 1), trans_complete(n, t, reps, p), 0 <= c < reps.len(), reps.len() <= u32::MAX, id.0 < reps.len(),
        fires(n, reps[c].0 as int, cc, tg), same_closure(n, tg.0 as int, reps[id.0 as int].0 as int),
    ensures
        trans_sound(n, t.insert((StateSetID(c as u32), cc, id)), reps, c + 1),
        trans_complete(n, t.insert((StateSetID(c as u32), cc, id)), reps, p),
        edge_present(n, t.insert((StateSetID(c as u32), cc, id)), reps, c, cc, tg),
        forall|f: int, cc2: CharClassID, tg2: StateID| #[trigger] edge_present(n, t, reps, f, cc2, tg2) ==> edge_present(n, t.insert((StateSetID(c as u32), cc, id)), reps, f, cc2, tg2),
{
    reveal(trans_sound);
    reveal(trans_complete);
    let e0 = (StateSetID(c as u32), cc, id);
    let t2 = t.insert(e0);
    assert(elim_edge(n, reps, c, cc, id));
    assert forall|f: int, cc2: CharClassID, tg2: StateID| #[trigger] edge_present(n, t, reps, f, cc2, tg2) implies edge_present(n, t2, reps, f, cc2, tg2) by {
        let to = choose|to: StateSetID| to.0 < reps.len() && same_closure(n, tg2.0 as int, reps[to.0 as int].0 as int) && #[trigger] t.contains((StateSetID(f as u32), cc2, to));
        assert(t2.contains((StateSetID(f as u32), cc2, to)));
    }
    assert(t2.contains(e0));
    assert(edge_present(n, t2, reps, c, cc, tg));
    assert forall|f: int, cc2: CharClassID, tg2: StateID| 0 <= f < p && f < reps.len() && #[trigger] fires(n, reps[f].0 as int, cc2, tg2) implies edge_present(n, t2, reps, f, cc2, tg2) by {
        assert(edge_present(n, t, reps, f, cc2, tg2));
    }
}

/// the accepting list after one inner step: the entry for `id` is added exactly when its closure holds the end state and it is not listed yet
pub proof fn lemma_acc_step(n: Nfa, acc0: Seq<(StateSetID, usize)>, acc1: Seq<(StateSetID, usize)>, t: Set<Edge>, reps: Seq<StateID>, e0: Edge)
    requires
        acc_ok(n, acc0, t, reps), e0.2.0 < reps.len(),
        acc1 == (if eps_reach(n, reps[e0.2.0 as int].0 as int, n.end_state.0 as int) && !acc0.contains((e0.2, n.pattern.token_type)) { acc0.push((e0.2, n.pattern.token_type)) } else { acc0 }),
    ensures acc_ok(n, acc1, t.insert(e0), reps)
{
    reveal(acc_ok);
    let tt = n.pattern.token_type;
    let end = n.end_state.0 as int;
    let t2 = t.insert(e0);
    let newe = (e0.2, tt);
    assert forall|to: StateSetID| #[trigger] entered(t, to) implies entered(t2, to) by {
        let (f, cc) = choose|f: StateSetID, cc: CharClassID| #[trigger] t.contains((f, cc, to));
        assert(t2.contains((f, cc, to)));
    }
    assert(t2.contains((e0.0, e0.1, e0.2)));
    assert(entered(t2, e0.2));
    if acc1 != acc0 {
        assert(acc1.no_duplicates()) by {
            assert forall|i: int, j: int| 0 <= i < acc1.len() && 0 <= j < acc1.len() && i != j implies acc1[i] != acc1[j] by {
                if i < acc0.len() && j < acc0.len() { assert(acc0[i] != acc0[j]); }
                else if i < acc0.len() { assert(acc0.contains(acc0[i])); }
                else if j < acc0.len() { assert(acc0.contains(acc0[j])); }
            }
        }
        assert forall|i: int| 0 <= i < acc1.len() implies (#[trigger] acc1[i]).1 == tt && acc1[i].0.0 < reps.len()
            && eps_reach(n, reps[acc1[i].0.0 as int].0 as int, end) && entered(t2, acc1[i].0) by {
            if i < acc0.len() { assert(acc1[i] == acc0[i]); assert(entered(t, acc0[i].0)); }
        }
    } else {
        assert forall|i: int| 0 <= i < acc1.len() implies (#[trigger] acc1[i]).1 == tt && acc1[i].0.0 < reps.len()
            && eps_reach(n, reps[acc1[i].0.0 as int].0 as int, end) && entered(t2, acc1[i].0) by {
            assert(entered(t, acc0[i].0));
        }
    }
    assert forall|e: Edge| #[trigger] t2.contains(e) && e.2.0 < reps.len() && eps_reach(n, reps[e.2.0 as int].0 as int, end) implies acc1.contains((e.2, tt)) by {
        if e == e0 {
            if acc1 != acc0 { assert(acc1[acc0.len() as int] == newe); }
        } else {
            assert(t.contains(e));
            assert(acc0.contains((e.2, tt)));
            let i = choose|i: int| 0 <= i < acc0.len() && acc0[i] == (e.2, tt);
            assert(acc1[i] == (e.2, tt));
        }
    }
}

/// the vectors built from the final worklist state form the epsilon-elimination automaton
pub proof fn lemma_elim_final(n: Nfa, d: CompiledDfa, reps: Seq<StateID>, t: Set<Edge>, acc: Seq<(StateSetID, usize)>)
    requires
        sub_wf(n), n_off(n) == 0, reps_ok(n, reps), reps.len() <= n_len(n),
        trans_sound(n, t, reps, reps.len() as int), trans_complete(n, t, reps, reps.len() as int), acc_ok(n, acc, t, reps),
        d.states@.len() == reps.len(), d.end_states@.len() == reps.len(),
        forall|f: int, cc: CharClassID, to: StateSetID| 0 <= f < reps.len() ==> (#[trigger] d.states@[f].transitions@.contains((cc, to)) <==> t.contains((StateSetID(f as u32), cc, to))),
        forall|f: int| 0 <= f < reps.len() ==> (#[trigger] d.states@[f]).transitions@.no_duplicates(),
        forall|i: int| 0 <= i < reps.len() ==> #[trigger] d.end_states@[i] ==
            (if exists|ix: int| 0 <= ix < acc.len() && (#[trigger] acc[ix]).0.0 == i { (true, TerminalID(n.pattern.token_type as u32)) } else { (false, TerminalID(0)) }),
        d.terminal_ids@ == seq![TerminalID(n.pattern.token_type as u32)],
        d.lookaheads@.len() == 0,
    ensures elim_ok(n, d, reps)
{
    reveal(trans_sound);
    reveal(trans_complete);
    reveal(acc_ok);
    reveal(reps_distinct);
    let tt = n.pattern.token_type;
    let end = n.end_state.0 as int;
    assert forall|f: int, cc: CharClassID, to: StateSetID| 0 <= f < reps.len() implies (#[trigger] d.states@[f].transitions@.contains((cc, to)) <==> elim_edge(n, reps, f, cc, to)) by {
        if t.contains((StateSetID(f as u32), cc, to)) { assert(elim_edge(n, reps, f, cc, to)); }
        if elim_edge(n, reps, f, cc, to) {
            let tg = choose|tg: StateID| #[trigger] fires(n, reps[f].0 as int, cc, tg) && same_closure(n, tg.0 as int, reps[to.0 as int].0 as int);
            assert(edge_present(n, t, reps, f, cc, tg));
            let to2 = choose|to2: StateSetID| to2.0 < reps.len() && same_closure(n, tg.0 as int, reps[to2.0 as int].0 as int) && #[trigger] t.contains((StateSetID(f as u32), cc, to2));
            lemma_same_closure_trans(n, tg.0 as int, reps[to.0 as int].0 as int, reps[to2.0 as int].0 as int);
            if to.0 < to2.0 { assert(!same_closure(n, reps[to.0 as int].0 as int, reps[to2.0 as int].0 as int)); }
            if to2.0 < to.0 { assert(!same_closure(n, reps[to2.0 as int].0 as int, reps[to.0 as int].0 as int)); }
            assert(to == to2);
        }
    }
    assert forall|i: int| 0 <= i < reps.len() implies ((exists|ix: int| 0 <= ix < acc.len() && (#[trigger] acc[ix]).0.0 == i) <==> elim_acc(n, d, reps, i)) by {
        if exists|ix: int| 0 <= ix < acc.len() && (#[trigger] acc[ix]).0.0 == i {
            let ix = choose|ix: int| 0 <= ix < acc.len() && (#[trigger] acc[ix]).0.0 == i;
            assert(entered(t, acc[ix].0));
            let (f, cc) = choose|f: StateSetID, cc: CharClassID| #[trigger] t.contains((f, cc, acc[ix].0));
            assert(f.0 < reps.len());
            assert(StateSetID(f.0 as int as u32) == f);
            assert(acc[ix].0 == StateSetID(i as u32));
            assert(d.states@[f.0 as int].transitions@.contains((cc, StateSetID(i as u32))));
        }
        if elim_acc(n, d, reps, i) {
            let (f, cc) = choose|f: int, cc: CharClassID| 0 <= f < reps.len() && #[trigger] d.states@[f].transitions@.contains((cc, StateSetID(i as u32)));
            let e = (StateSetID(f as u32), cc, StateSetID(i as u32));
            assert(t.contains(e));
            assert(acc.contains((e.2, tt)));
            let ix = choose|ix: int| 0 <= ix < acc.len() && acc[ix] == (e.2, tt);
            assert(acc[ix].0.0 == i);
        }
    }
}

/// membership of the end state in a closure key is a property of the closure
pub proof fn lemma_same_closure_reach(n: Nfa, a: int, b: int, x: int)
    requires same_closure(n, a, b)
    ensures eps_reach(n, a, x) <==> eps_reach(n, b, x)
{
    reveal(same_closure);
}

pub proof fn lemma_worklist_init(n: Nfa, reps: Seq<StateID>)
    ensures trans_sound(n, Set::<Edge>::empty(), reps, 0), trans_complete(n, Set::<Edge>::empty(), reps, 0), acc_ok(n, Seq::<(StateSetID, usize)>::empty(), Set::<Edge>::empty(), reps)
{
    reveal(trans_sound); reveal(trans_complete); reveal(acc_ok);
}
pub proof fn lemma_ts_use(n: Nfa, t: Set<Edge>, reps: Seq<StateID>, lim: int, e: Edge)
    requires trans_sound(n, t, reps, lim), t.contains(e)
    ensures e.0.0 < lim, e.2.0 < reps.len(), 0 <= e.0.0 < reps.len()
{
    reveal(trans_sound);
}
pub proof fn lemma_ts_weaken(n: Nfa, t: Set<Edge>, reps: Seq<StateID>, lim: int, lim2: int)
    requires trans_sound(n, t, reps, lim), lim <= lim2
    ensures trans_sound(n, t, reps, lim2)
{
    reveal(trans_sound);
}
pub proof fn lemma_acc_use(n: Nfa, acc: Seq<(StateSetID, usize)>, t: Set<Edge>, reps: Seq<StateID>, i: int)
    requires acc_ok(n, acc, t, reps), 0 <= i < acc.len()
    ensures acc[i].1 == n.pattern.token_type, acc[i].0.0 < reps.len()
{
    reveal(acc_ok);
}
/// all transitions fired by automaton state c have been entered: c is complete
pub proof fn lemma_complete_step(n: Nfa, t: Set<Edge>, reps: Seq<StateID>, c: int, ts: Seq<(CharClassID, StateID)>)
    requires
        trans_complete(n, t, reps, c), 0 <= c < reps.len(),
        forall|cc: CharClassID, tg: StateID| #[trigger] ts.contains((cc, tg)) <==> fires(n, reps[c].0 as int, cc, tg),
        forall|kk: int| 0 <= kk < ts.len() ==> edge_present(n, t, reps, c, (#[trigger] ts[kk]).0, ts[kk].1),
    ensures trans_complete(n, t, reps, c + 1)
{
    reveal(trans_complete);
    assert forall|f: int, cc: CharClassID, tg: StateID| 0 <= f < c + 1 && f < reps.len() && #[trigger] fires(n, reps[f].0 as int, cc, tg) implies edge_present(n, t, reps, f, cc, tg) by {
        if f == c {
            assert(ts.contains((cc, tg)));
            let kk = choose|kk: int| 0 <= kk < ts.len() && ts[kk] == (cc, tg);
            assert(edge_present(n, t, reps, c, ts[kk].0, ts[kk].1));
        }
    }
}
