// ---------------------------------------------------------------- U-elim: trusted std wrappers and the epsilon-elimination automaton
pub broadcast axiom fn axiom_fx_valid()
    ensures #[trigger] vstd::std_specs::hash::builds_valid_hashers::<rustc_hash::FxBuildHasher>();
/// BTreeSet<StateID> as a hash key: Eq/Hash are those of the element set (two keys with the same elements are the same key)
pub broadcast axiom fn axiom_set_key_model()
    ensures #[trigger] vstd::std_specs::hash::obeys_key_model::<BTreeSet<StateID>>();
pub broadcast axiom fn axiom_triple_key_model()
    ensures #[trigger] vstd::std_specs::hash::obeys_key_model::<(StateSetID, CharClassID, StateSetID)>();
pub axiom fn axiom_set_key_ext(k1: BTreeSet<StateID>, k2: BTreeSet<StateID>)
    ensures k1@ == k2@ ==> k1 == k2;
/// Clone of the Copy pair (bool, TerminalID) is the identity (std tuple Clone + derived Clone of the id newtype, rule E4)
pub broadcast axiom fn axiom_cloned_end_state(a: (bool, TerminalID), b: (bool, TerminalID))
    ensures #[trigger] vstd::pervasive::cloned(a, b) ==> a == b;
pub broadcast axiom fn axiom_stateid_cmp()
    ensures #[trigger] vstd::std_specs::btree::key_obeys_cmp_spec::<StateID>();

// TRUSTED std contract: the greatest element (for key types whose Ord is the order of an integer key, see ord_key)
pub assume_specification<T: Ord, A: Allocator + Clone>[ BTreeSet::<T, A>::last ](s: &BTreeSet<T, A>) -> (r: Option<&T>)
    ensures
        match r {
            Some(x) => s@.contains(*x) && (has_ord_key::<T>() ==> forall|y: T| #[trigger] s@.contains(y) ==> ord_key(y) <= ord_key(*x)),
            None => forall|y: T| !#[trigger] s@.contains(y),
        };

#[verifier::external_body]
pub fn verif_btreeset_from_vec(v: Vec<StateID>) -> (r: BTreeSet<StateID>)
    ensures forall|x: StateID| #[trigger] r@.contains(x) <==> v@.contains(x)
{ BTreeSet::from_iter(v) }

#[verifier::external_body]
pub fn verif_cloned<'a>(it: std::collections::btree_set::Iter<'a, StateID>) -> (r: core::iter::Cloned<std::collections::btree_set::Iter<'a, StateID>>)
    ensures
        r.obeys_prophetic_iter_laws(), r.decrease() is Some,
        // the clones of the remaining elements, in order (stated as an equality with a typed sequence: Verus does not
        // normalise `<Cloned<I> as Iterator>::Item`, so facts about remaining() of the adaptor have to come from here)
        r.remaining() == it.remaining().unref(),
{ it.cloned() }

/// `m.iter().find(|(_, v)| **v == id).unwrap().0.clone()`: a key mapped to `id` (panics if there is none)
#[verifier::external_body]
pub fn verif_key_of(m: &FxHashMap<BTreeSet<StateID>, StateSetID>, id: StateSetID) -> (r: BTreeSet<StateID>)
    requires exists|k: BTreeSet<StateID>| m@.contains_key(k) && m@[k] == id
    ensures exists|k: BTreeSet<StateID>| m@.contains_key(k) && m@[k] == id && r@ == k@
{ m.iter().find(|(_, v)| **v == id).unwrap().0.clone() }

#[verifier::external_body]
pub fn verif_hashset_into_iter<K>(s: FxHashSet<K>) -> (r: std::collections::hash_set::IntoIter<K>)
    ensures
        r.obeys_prophetic_iter_laws(), r.decrease() is Some,
        r.remaining().no_duplicates(),
        forall|x: K| #[trigger] r.remaining().contains(x) <==> s@.contains(x),
{ s.into_iter() }

// ---------------------------------------------------------------- the epsilon-elimination automaton of one NFA
