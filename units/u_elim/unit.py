# U-elim: `impl From<Nfa> for CompiledDfa` / `impl From<MultiPatternNfa> for CompiledDfa` (C02): the worklist construction builds
# exactly the epsilon-elimination automaton of the NFA (one state per distinct epsilon closure of the start state / of a
# transition target; S --cc--> closure(t) for every (cc, t) leaving a member of S; accepting = entered and contains an end state).
import os, importlib.util
from extract import *

def _load(name):
    p = os.path.join(os.path.dirname(os.path.abspath(__file__)), '..', name, 'unit.py')
    spec = importlib.util.spec_from_file_location('unit_' + name + '_for_elim', p)
    m = importlib.util.module_from_spec(spec)
    spec.loader.exec_module(m)
    return m

sub = _load('u_sub')
umini = _load('u_mini')
F_NFA, F_MP, F_IDS = sub.F_NFA, sub.F_MP, sub.F_IDS
F_DFA, F_PAT = 'scnr/src/internal/compiled_dfa.rs', 'scnr/src/pattern.rs'
ID_SPECS = sub.ID_SPECS
P = ['C02']
HERE = os.path.dirname(os.path.abspath(__file__))
SUBDIR = os.path.join(HERE, '..', 'u_sub')

C = lambda f: as_contract(f, 'contract proved in unit U-sub')

WHILE_LET = 'while-let written as `loop { let Some(x) = e else { break }; .. }` (the language\'s desugaring)'
U5 = 'TRUSTED std contract through a wrapper: Verus cannot attach a specification to this std call (provided trait method / generic FromIterator / closure with a tuple pattern); the call is moved verbatim into an external_body function whose `ensures` is the std contract'

INV = '''
    n == nfa, g == g_nfa(n), gr_wf(g), sub_wf(n), n_off(n) == 0, tt == n.pattern.token_type,
    reps_ok(g, reps), reps.len() <= g.bound, map_ok(g, state_map@, reps),
'''

from_nfa = Fn(F_DFA, 'From<Nfa> for CompiledDfa', 'from', ret='r', rename='from__nfa', impl_as='CompiledDfa', qual_as='CompiledDfa', props=P,
    attrs='#[verifier::loop_isolation(false)] #[verifier::allow_complex_invariants]',
    spec='''
requires sub_wf(nfa), n_off(nfa) == 0, n_len(nfa) < u32::MAX
ensures
    // the automaton handed to the minimizer is the epsilon-elimination automaton of the NFA; the result is its quotient (contract of Minimizer::minimize, U-mini)
    exists|d0: CompiledDfa, reps: Seq<StateID>| elim_ok(g_nfa(nfa), d0, reps) && d0.terminal_ids@ == seq![TerminalID(nfa.pattern.token_type as u32)] && min_of(d0, r),
''',
    edits=[
        Ins('body_start', None, '''
broadcast use axiom_fx_valid, axiom_set_key_model, axiom_triple_key_model, axiom_stateid_cmp;
let ghost n = nfa;
let ghost g = g_nfa(nfa);
proof { lemma_g_nfa_wf(n); }
let ghost tt = nfa.pattern.token_type;
let ghost mut reps: Seq<StateID> = seq![nfa.start_state];
let ghost mut p: int = 0;
'''),
        Replace('U5', 'BTreeSet::from_iter($x)', 'verif_btreeset_from_vec($x)', occ='all', why=U5),
        Replace('U5', 'state_map.iter().find(|(_, v)| **v == current_state).unwrap().0.clone()', 'verif_key_of(&state_map, current_state)', why=U5),
        Ins('after_stmt', 'state_map.insert(epsilon_closure.clone(), current_state);', '''
proof {
    assert(key_is(g, epsilon_closure@, n.start_state.0 as int));
    assert(reps_ok(g, reps)) by { reveal(reps_distinct); }
    let k0 = choose|k0: BTreeSet<StateID>| state_map@ == Map::<BTreeSet<StateID>, StateSetID>::empty().insert(k0, current_state) && k0@ == epsilon_closure@;
    assert(map_ok(g, state_map@, reps)) by {
        assert(state_map@.contains_key(k0) && state_map@[k0].0 == 0);
        assert(has_key_for(state_map@, 0));
    }
    lemma_reps_nodup(g, reps);
}
'''),
        Ins('after_stmt', 'queue.push_back(current_state);', '''
proof { assert(queue_ok(queue@, 0, 1)); lemma_worklist_init(g, reps); assert(transitions@ =~= Set::<Edge>::empty()); assert(accepting_states@ =~= Seq::<(StateSetID, usize)>::empty()); }
''', occ=1),
        Replace('E1', 'while let Some(current_state) = queue.pop_front() {', '''loop
    //@label from_nfa.worklist
    invariant
''' + INV + '''
        0 <= p <= reps.len(), queue_ok(queue@, p, reps.len() as int),
        trans_sound(g, transitions@, reps, p), trans_complete(g, transitions@, reps, p), acc_ok(g, accepting_states@, transitions@, reps),
    ensures
''' + INV + '''
        p == reps.len(),
        trans_sound(g, transitions@, reps, p), trans_complete(g, transitions@, reps, p), acc_ok(g, accepting_states@, transitions@, reps),
    decreases g.bound + 1 - reps.len(), queue@.len()
{
    let ghost q_in = queue@;
    let Some(current_state) = queue.pop_front() else { break };
    let ghost c = p;
    let ghost reps_head = reps;
    proof {
        assert(current_state == q_in[0]);
        assert(current_state.0 == c);
        assert(queue_ok(queue@, c + 1, reps.len() as int)) by {
            assert forall|i: int| 0 <= i < queue@.len() implies (#[trigger] queue@[i]).0 == c + 1 + i by { assert(queue@[i] == q_in[i + 1]); }
        }
        lemma_ts_weaken(g, transitions@, reps, c, c + 1);
        assert(has_key_for(state_map@, c));
        let kc = choose|kc: BTreeSet<StateID>| #[trigger] state_map@.contains_key(kc) && state_map@[kc].0 == c;
        assert(state_map@[kc] == current_state);
    }''', why=WHILE_LET),
        Ins('after_stmt', 'let epsilon_closure = state_map$_;', '''
proof {
    let k = choose|k: BTreeSet<StateID>| state_map@.contains_key(k) && state_map@[k] == current_state && epsilon_closure@ == k@;
    assert(key_is(g, k@, reps[c].0 as int));
    assert(key_is(g, epsilon_closure@, reps[c].0 as int));
}
''', label='from_nfa.key_of'),
        Replace('E6+U5', 'let target_states = nfa.get_match_transitions(epsilon_closure.iter().cloned());', '''
let __bi = epsilon_closure.iter();
let ghost ec_it = __bi.remaining();
let __ci = verif_cloned(__bi);
let ghost ss = __ci.remaining();
proof {
    assert(ec_it.unref().to_set() == epsilon_closure@);
    assert(ss == ec_it.unref());
    assert forall|x: StateID| #[trigger] epsilon_closure@.contains(x) <==> ss.contains(x) by {
        assert(ec_it.unref().to_set().contains(x) <==> ec_it.unref().contains(x));
    }
    assert forall|i: int| 0 <= i < ss.len() implies (#[trigger] ss[i]).0 < n.states@.len() by {
        assert(ss.contains(ss[i]));
        assert(epsilon_closure@.contains(ss[i]));
        assert(eps_reach(n, reps[c].0 as int, ss[i].0 as int));
        let kk = choose|kk: nat| eps_path(n, reps[c].0 as int, ss[i].0 as int, kk);
        lemma_reach_has_state(n, reps[c].0 as int, ss[i].0 as int, kk);
    }
}
let target_states = nfa.get_match_transitions(__ci);
''', why='argument chain split into lets in evaluation order (E6); ' + U5),
        Ins('after_stmt', 'let target_states = $_;', '''
let ghost ts = target_states@;
proof {
    lemma_mt_fires(n, ss, epsilon_closure@, reps[c].0 as int);
    assert forall|cc: CharClassID, t: StateID| #[trigger] ts.contains((cc, t)) <==> g_fires(g, reps[c].0 as int, cc, t) by {
        assert(ts.contains((cc, t)) <==> mt_from(n, ss, cc, t));
    }
}
''', label='from_nfa.targets'),
        ForLoop('for (cc, target_state) in target_states {', it='__it1', label='from_nfa.fan_out', spec='''
invariant
    __it1.obeys_prophetic_iter_laws(), __it1.decrease() is Some,
    __it1.remaining().len() <= ts.len(),
    forall|q: int| 0 <= q < __it1.remaining().len() ==> #[trigger] __it1.remaining()[q] == ts[ts.len() - __it1.remaining().len() + q],
    forall|cc: CharClassID, t: StateID| #[trigger] ts.contains((cc, t)) <==> g_fires(g, reps[c].0 as int, cc, t),
    old_state_id.0 == c, 0 <= c < reps.len(), c == p, reps.len() >= reps_head.len(), queue@.len() == reps.len() - c - 1,
''' + INV + '''
    queue_ok(queue@, c + 1, reps.len() as int),
    trans_sound(g, transitions@, reps, c + 1), trans_complete(g, transitions@, reps, c), acc_ok(g, accepting_states@, transitions@, reps),
    forall|kk: int| 0 <= kk < ts.len() - __it1.remaining().len() ==> edge_present(g, transitions@, reps, c, (#[trigger] ts[kk]).0, ts[kk].1),
ensures
    __it1.remaining().len() == 0,
decreases __it1.decrease()->0
'''),
        Ins('after', 'for (cc, target_state) in target_states {', '''
let ghost m0 = ts.len() - __it1.remaining().len() - 1;
let ghost reps_in = reps;
let ghost t_in = transitions@;
let ghost acc_in = accepting_states@;
proof {
    assert((cc, target_state) == ts[m0]);
    assert(ts.contains(ts[m0]));
    assert(g_fires(g, reps[c].0 as int, cc, target_state));
    lemma_fires_target(g, reps[c].0 as int, cc, target_state);
}
'''),
        Ins('after_stmt', 'let epsilon_closure = BTreeSet::from_iter(nfa.epsilon_closure(target_state));', '''
proof { assert(key_is(g, epsilon_closure@, target_state.0 as int)); }
'''),
        Replace('E14', '*state_map.entry($k).or_insert_with(|| { $body })', '''{
    let __k = $k;
    proof { assert(__k@ == epsilon_closure@); assert(key_is(g, __k@, target_state.0 as int)); }
    match state_map.get(&__k) {
        Some(__v) => {
            proof { lemma_step_found(g, state_map@, reps, __k, target_state); }
            *__v
        }
        None => {
            let ghost map_in = state_map@;
            proof {
                assert(!map_in.contains_key(__k));
                lemma_reps_nodup(g, reps);
                lemma_step_fresh(g, map_in, reps, __k, target_state);
                lemma_push_mono(g, transitions@, accepting_states@, reps, target_state, c + 1, c);
                assert(new_state_id_candidate == reps.len());
            }
            let ghost q0 = queue@;
            let __v = { $body };
            state_map.insert(__k, __v);
            proof {
                assert(queue@ == q0.push(__v));
                assert(queue_ok(queue@, c + 1, reps.len() as int + 1));
                assert forall|kk: int| 0 <= kk < m0 implies edge_present(g, transitions@, reps.push(target_state), c, (#[trigger] ts[kk]).0, ts[kk].1) by {
                    assert(edge_present(g, transitions@, reps, c, ts[kk].0, ts[kk].1));
                }
                assert forall|cc: CharClassID, t: StateID| #[trigger] ts.contains((cc, t)) <==> g_fires(g, reps.push(target_state)[c].0 as int, cc, t) by {
                    assert(reps.push(target_state)[c] == reps[c]);
                }
                reps = reps.push(target_state);
                lemma_reps_nodup(g, reps);
            }
            __v
        }
    }
}''', why='`*m.entry(k).or_insert_with(|| B)` is `match m.get(&k) { Some(v) => *v, None => { let v = B; m.insert(k, v); v } }` (std definition of Entry::or_insert_with); B kept verbatim (it pushes to the queue, which a Verus closure cannot capture mutably)'),
        Ins('after_stmt', 'let new_state_id = $_;', '''
proof {
    assert(new_state_id.0 < reps.len());
    assert(same_closure(g, target_state.0 as int, reps[new_state_id.0 as int].0 as int));
    lemma_acc_same(g, target_state.0 as int, reps[new_state_id.0 as int].0 as int);
    assert(epsilon_closure@.contains(nfa.end_state) <==> (g.acc)(reps[new_state_id.0 as int].0 as int) is Some) by {
        assert(epsilon_closure@.contains(nfa.end_state) <==> eps_reach(n, target_state.0 as int, n.end_state.0 as int));
    }
    assert((g.acc)(reps[new_state_id.0 as int].0 as int) is Some ==> (g.acc)(reps[new_state_id.0 as int].0 as int) == Some(tt));
    assert(reps[c] == reps_in[c]);
}
let ghost acc_mid = accepting_states@;
''', label='from_nfa.new_state_id'),
        Ins('after_stmt', 'transitions.insert($_);', '''
proof {
    let e0 = (old_state_id, cc, new_state_id);
    assert(old_state_id == StateSetID(c as u32));
    let t_mid = t_in;
    let a0 = (g.acc)(reps[new_state_id.0 as int].0 as int);
    assert(accepting_states@ == (if a0 is Some && !acc_mid.contains((new_state_id, a0->0)) { acc_mid.push((new_state_id, a0->0)) } else { acc_mid }));
    lemma_acc_step(g, acc_mid, accepting_states@, t_mid, reps, e0);
    lemma_insert_edge(g, t_mid, reps, c, cc, target_state, new_state_id, c);
    assert(transitions@ == t_mid.insert(e0));
    assert forall|kk: int| 0 <= kk < m0 + 1 implies edge_present(g, transitions@, reps, c, (#[trigger] ts[kk]).0, ts[kk].1) by {
        if kk < m0 { assert(edge_present(g, t_mid, reps, c, ts[kk].0, ts[kk].1)); }
    }
}
''', label='from_nfa.insert_edge'),
        Ins('block_end', 'while let Some(current_state) = queue.pop_front() {', '''
proof {
    lemma_complete_step(g, transitions@, reps, c, ts);
    p = p + 1;
}
'''),
        # ---- phase 2: the state / end-state vectors
        Ins('before', 'let mut states: Vec<StateData> = $_;', '''
let ghost tset = transitions@;
let ghost acc = accepting_states@;
let ghost mut k1: nat = 0;
proof { assert(p == reps.len()); assert(state_map@.len() == reps.len()); }
'''),
        ForLoop('for _ in 0..state_map.len() {', it='__r1', label='from_nfa.alloc_states', spec='''
invariant
    __r1.obeys_prophetic_iter_laws(), __r1.decrease() is Some,
    0 <= k1 <= reps.len(), __r1.remaining().len() == reps.len() - k1,
    states@.len() == k1, forall|j: int| 0 <= j < states@.len() ==> (#[trigger] states@[j]).transitions@.len() == 0,
ensures k1 == reps.len(),
decreases __r1.decrease()->0
'''),
        Ins('block_end', 'for _ in 0..state_map.len() {', 'proof { k1 = k1 + 1; }'),
        ForLoop('for (from, cc, to) in transitions {', it='__it2', wrap='verif_hashset_into_iter', label='from_nfa.fill_transitions',
                pre='let ghost edges = __it2.remaining();', body_pre='''
proof {
    if __it2.remaining().len() == 0 {
        assert forall|f: int, cc: CharClassID, to: StateSetID| 0 <= f < reps.len() implies (#[trigger] states@[f].transitions@.contains((cc, to)) <==> tset.contains((StateSetID(f as u32), cc, to))) by {
            if tset.contains((StateSetID(f as u32), cc, to)) {
                assert(edges.contains((StateSetID(f as u32), cc, to)));
                let ix = choose|ix: int| 0 <= ix < edges.len() && edges[ix] == (StateSetID(f as u32), cc, to);
            }
            if states@[f].transitions@.contains((cc, to)) {
                let ix = choose|ix: int| 0 <= ix < edges.len() && #[trigger] edges[ix] == (StateSetID(f as u32), cc, to);
                assert(edges.contains(edges[ix]));
            }
        }
    }
    assert(true);
}
''', spec='''
invariant
    __it2.obeys_prophetic_iter_laws(), __it2.decrease() is Some,
    edges.no_duplicates(), forall|e: Edge| #[trigger] edges.contains(e) <==> tset.contains(e),
    __it2.remaining().len() <= edges.len(),
    forall|q: int| 0 <= q < __it2.remaining().len() ==> #[trigger] __it2.remaining()[q] == edges[edges.len() - __it2.remaining().len() + q],
    states@.len() == reps.len(), trans_sound(g, tset, reps, reps.len() as int),
    forall|f: int, cc: CharClassID, to: StateSetID| 0 <= f < reps.len() ==>
        (#[trigger] states@[f].transitions@.contains((cc, to)) <==> exists|ix: int| 0 <= ix < edges.len() - __it2.remaining().len() && #[trigger] edges[ix] == (StateSetID(f as u32), cc, to)),
    forall|f: int| 0 <= f < reps.len() ==> (#[trigger] states@[f]).transitions@.no_duplicates(),
ensures
    __it2.remaining().len() == 0,
    forall|f: int, cc: CharClassID, to: StateSetID| 0 <= f < reps.len() ==> (#[trigger] states@[f].transitions@.contains((cc, to)) <==> tset.contains((StateSetID(f as u32), cc, to))),
decreases __it2.decrease()->0
'''),
        Ins('after', 'for (from, cc, to) in transitions {', '''
let ghost d0 = edges.len() - __it2.remaining().len() - 1;
let ghost st_in = states@;
proof {
    assert((from, cc, to) == edges[d0]);
    assert(edges.contains(edges[d0]));
    assert(tset.contains((from, cc, to)));
    lemma_ts_use(g, tset, reps, reps.len() as int, (from, cc, to));
    assert(from.0 < reps.len());
}
'''),
        Ins('block_end', 'for (from, cc, to) in transitions {', '''
proof {
    let fi = from.0 as int;
    assert(states@[fi].transitions@ == st_in[fi].transitions@.push((cc, to)));
    assert forall|f: int| 0 <= f < reps.len() && f != fi implies states@[f] == st_in[f] by { }
    assert forall|f: int, cc2: CharClassID, to2: StateSetID| 0 <= f < reps.len() implies
        (#[trigger] states@[f].transitions@.contains((cc2, to2)) <==> exists|ix: int| 0 <= ix < d0 + 1 && #[trigger] edges[ix] == (StateSetID(f as u32), cc2, to2)) by {
        assert(st_in[f].transitions@.contains((cc2, to2)) <==> exists|ix: int| 0 <= ix < d0 && #[trigger] edges[ix] == (StateSetID(f as u32), cc2, to2));
        if f == fi { lemma_push_contains_pair(st_in[fi].transitions@, (cc, to), (cc2, to2)); }
        if exists|ix: int| 0 <= ix < d0 + 1 && #[trigger] edges[ix] == (StateSetID(f as u32), cc2, to2) {
            let ix = choose|ix: int| 0 <= ix < d0 + 1 && #[trigger] edges[ix] == (StateSetID(f as u32), cc2, to2);
            if ix == d0 { assert(f == fi && cc2 == cc && to2 == to); }
        }
        if f == fi && cc2 == cc && to2 == to { assert(edges[d0] == (StateSetID(f as u32), cc2, to2)); }
    }
    assert(states@[fi].transitions@.no_duplicates()) by {
        let old = st_in[fi].transitions@;
        if old.contains((cc, to)) {
            let ix = choose|ix: int| 0 <= ix < d0 && #[trigger] edges[ix] == (StateSetID(fi as u32), cc, to);
            assert(edges[ix] == edges[d0]);
        }
        assert forall|a: int, b: int| 0 <= a < old.len() + 1 && 0 <= b < old.len() + 1 && a != b implies old.push((cc, to))[a] != old.push((cc, to))[b] by {
            if a < old.len() && b < old.len() { assert(old[a] != old[b]); }
            else if a < old.len() { assert(old.contains(old[a])); }
            else if b < old.len() { assert(old.contains(old[b])); }
        }
    }
}
'''),
        Ins('after_stmt', 'let mut end_states = $_;', '''
proof {
    assert(end_states@.len() == reps.len());
    assert forall|i: int| 0 <= i < reps.len() implies #[trigger] end_states@[i] == acc_mark(acc, 0, i) by { axiom_cloned_end_state((false, TerminalID(0)), end_states@[i]); }
}
''', label='from_nfa.transitions_done'),
        ForLoop('for (state, term) in accepting_states {', it='__it3', label='from_nfa.mark_accepting', spec='''
invariant
    __it3.obeys_prophetic_iter_laws(), __it3.decrease() is Some,
    __it3.remaining().len() <= acc.len(),
    forall|q: int| 0 <= q < __it3.remaining().len() ==> #[trigger] __it3.remaining()[q] == acc[acc.len() - __it3.remaining().len() + q],
    end_states@.len() == reps.len(), acc_ok(g, acc, tset, reps),
    forall|i: int| 0 <= i < reps.len() ==> #[trigger] end_states@[i] == acc_mark(acc, acc.len() - __it3.remaining().len(), i),
ensures __it3.remaining().len() == 0,
decreases __it3.decrease()->0
'''),
        Ins('after', 'for (state, term) in accepting_states {', '''
let ghost a0 = acc.len() - __it3.remaining().len() - 1;
let ghost es_in = end_states@;
proof { assert((state, term) == acc[a0]); lemma_acc_use(g, acc, tset, reps, a0); assert(state.0 < reps.len()); }
'''),
        Ins('block_end', 'for (state, term) in accepting_states {', '''
proof {
    assert(end_states@ == es_in.update(state.0 as int, (true, TerminalID(term as u32))));
    assert forall|i: int| 0 <= i < reps.len() implies #[trigger] end_states@[i] == acc_mark(acc, a0 + 1, i) by {
        lemma_acc_mark_step(acc, a0, i);
    }
}
'''),
        Ins('before', 'Minimizer::minimize(Self', '''
let ghost st_fin = states@;
let ghost es_fin = end_states@;
proof { lemma_targets_in_range(g, st_fin, reps, tset); assert(st_fin.len() < u32::MAX); }
''', label='from_nfa.final'),
        Tail('''
proof {
    let d0 = choose|d0: CompiledDfa| #[trigger] min_of(d0, __res) && d0.states@ == st_fin && d0.end_states@ == es_fin
        && d0.terminal_ids@.len() == 1 && d0.terminal_ids@[0] == TerminalID(tt as u32) && d0.lookaheads@.len() == 0;
    assert(d0.terminal_ids@ =~= seq![TerminalID(tt as u32)]);
    lemma_reps_nodup(g, reps);
    lemma_elim_final(g, d0, reps, tset, acc);
}
'''),
    ])

# ---------------------------------------------------------------- From<MultiPatternNfa>: the same worklist over g_mp; edits derived from the Nfa version
import copy
MP_SUBST = [
    ('n == nfa, g == g_nfa(n), gr_wf(g), sub_wf(n), n_off(n) == 0, tt == n.pattern.token_type,', 'm == mp_nfa, g == g_mp(m), gr_wf(g), mp_wf(m),'),
    ('from_nfa.', 'from_mp.'),
]
def _sub(t):
    if t is None:
        return t
    for a, b in MP_SUBST:
        t = t.replace(a, b)
    return t
def _variant(e):
    e2 = copy.copy(e)
    for attr in ('text', 'template', 'spec', 'pre', 'body_pre', 'label'):
        if hasattr(e2, attr) and isinstance(getattr(e2, attr), str):
            setattr(e2, attr, _sub(getattr(e2, attr)))
    return e2

MP_REPLACED = {}   # label or pattern of an Nfa-version edit -> replacement edit(s) for the union
def _key(e):
    return getattr(e, 'label', None) or getattr(e, 'pattern', None)

mp_edits = []
for e in from_nfa.edits:
    k = _key(e)
    pat = getattr(e, 'pattern', None)
    if isinstance(e, Ins) and e.where == 'body_start':
        mp_edits.append(Ins('body_start', None, """
hide(mp_wf); hide(sub_wf);
broadcast use axiom_fx_valid, axiom_set_key_model, axiom_triple_key_model, axiom_stateid_cmp;
let ghost m = mp_nfa;
let ghost g = g_mp(mp_nfa);
proof { lemma_g_mp_wf(m); }
let ghost mut reps: Seq<StateID> = seq![StateID(0)];
let ghost mut p: int = 0;
"""))
    elif pat == 'state_map.insert(epsilon_closure.clone(), current_state);':
        mp_edits.append(Ins('after_stmt', 'state_map.insert(epsilon_closure.clone(), 0.into());', """
proof {
    assert(key_is(g, epsilon_closure@, 0));
    assert(reps_ok(g, reps)) by { reveal(reps_distinct); }
    let k0 = choose|k0: BTreeSet<StateID>| state_map@ == Map::<BTreeSet<StateID>, StateSetID>::empty().insert(k0, StateSetID(0)) && k0@ == epsilon_closure@;
    assert(map_ok(g, state_map@, reps)) by {
        assert(state_map@.contains_key(k0) && state_map@[k0].0 == 0);
        assert(has_key_for(state_map@, 0));
    }
    lemma_reps_nodup(g, reps);
}
"""))
    elif pat == 'queue.push_back(current_state);':
        mp_edits.append(Ins('after_stmt', 'queue.push_back(StateSetID::new(0));', e.text))
    elif isinstance(e, Replace) and e.pattern.startswith('let target_states = nfa.get_match_transitions'):
        mp_edits.append(Replace('E6+U5', 'let target_states = mp_nfa.get_match_transitions(epsilon_closure.iter().cloned());', """
let __bi = epsilon_closure.iter();
let ghost ec_it = __bi.remaining();
let __ci = verif_cloned(__bi);
let ghost ss = __ci.remaining();
proof {
    assert(ec_it.unref().to_set() == epsilon_closure@);
    assert(ss == ec_it.unref());
    assert forall|x: StateID| #[trigger] epsilon_closure@.contains(x) <==> ss.contains(x) by {
        assert(ec_it.unref().to_set().contains(x) <==> ec_it.unref().contains(x));
    }
}
let target_states = mp_nfa.get_match_transitions(__ci);
""", why=e.why))
    elif k == 'from_nfa.targets':
        mp_edits.append(Ins('after_stmt', 'let target_states = $_;', """
let ghost ts = target_states@;
proof {
    lemma_mp_mt_fires(m, ss, epsilon_closure@, reps[c].0 as int);
    assert forall|cc: CharClassID, t: StateID| #[trigger] ts.contains((cc, t)) <==> g_fires(g, reps[c].0 as int, cc, t) by {
        assert(ts.contains((cc, t)) <==> mp_mt_from(m, ss, cc, t));
    }
}
""", label='from_mp.targets'))
    elif pat == 'let epsilon_closure = BTreeSet::from_iter(nfa.epsilon_closure(target_state));':
        mp_edits.append(Ins('after_stmt', 'let epsilon_closure = BTreeSet::from_iter(mp_nfa.epsilon_closure(target_state));', e.text))
    elif k == 'from_nfa.new_state_id':
        mp_edits.append(Ins('after_stmt', 'let new_state_id = $_;', """
proof {
    assert(new_state_id.0 < reps.len());
    assert(same_closure(g, target_state.0 as int, reps[new_state_id.0 as int].0 as int));
    lemma_acc_same(g, target_state.0 as int, reps[new_state_id.0 as int].0 as int);
    assert(reps[c] == reps_in[c]);
}
let ghost acc_mid = accepting_states@;
""", label='from_mp.new_state_id'))
        # the owner of the target: find_nfa cannot fail, the closure key holds an end state iff the owner's pattern accepts
        mp_edits.append(Replace('E6', 'let target_nfa = mp_nfa.find_nfa(target_state).expect("NFA not found");', """
let __fn = mp_nfa.find_nfa(target_state);
let ghost own: int = choose|own: int| #[trigger] owner(m, target_state.0 as int, own);
proof {
    assert(mp_ok(m, target_state.0 as int));
    assert(target_state.0 != 0) by {
        // a target is a state of some pattern NFA, and those start at 1
        reveal(g_fires);
        let s = choose|s: int| (g.reach)(reps[c].0 as int, s) && #[trigger] (g.tr)(s, cc, target_state);
        lemma_mp_target_nonzero(m, s, cc, target_state);
    }
    assert(owner(m, target_state.0 as int, own));
    lemma_mp_owner_find(m, target_state, own);
    match __fn {
        Some(f) => {
            let i = choose|i: int| 0 <= i < m.nfas@.len() && *f == #[trigger] m.nfas@[i] && contains_id(*f, target_state);
            assert(i == own);
        }
        None => { assert(!contains_id(m.nfas@[own], target_state)); }
    }
    lemma_mp_acc(m, target_state.0 as int, own);
    lemma_mp_any_end(m, epsilon_closure@, target_state.0 as int, own);
}
let target_nfa = __fn.expect("NFA not found");
proof { assert(*target_nfa == m.nfas@[own]); }
""", why='method chain split into lets in evaluation order (E6)'))
        mp_edits.append(Replace('E11', 'epsilon_closure.iter().any(|s| $body)', """{
let mut __any = false;
let mut __it0 = epsilon_closure.iter();
let ghost rem = __it0.remaining();
proof {
    assert(rem.unref().to_set() == epsilon_closure@);
    assert forall|x: StateID| #[trigger] epsilon_closure@.contains(x) <==> rem.unref().contains(x) by {
        assert(rem.unref().to_set().contains(x) <==> rem.unref().contains(x));
    }
}
loop
    invariant_except_break
        __it0.obeys_prophetic_iter_laws(), __it0.decrease() is Some, !__any,
        __it0.remaining().len() <= rem.len(),
        forall|q: int| 0 <= q < __it0.remaining().len() ==> #[trigger] __it0.remaining()[q] == rem[rem.len() - __it0.remaining().len() + q],
        forall|j: int| 0 <= j < rem.len() - __it0.remaining().len() ==> !is_end(m, *#[trigger] rem[j]),
    ensures
        __any == exists|x: StateID| epsilon_closure@.contains(x) && #[trigger] is_end(m, x),
    decreases __it0.decrease()->0
{
    proof {
        if __it0.remaining().len() == 0 {
            assert forall|x: StateID| epsilon_closure@.contains(x) implies !#[trigger] is_end(m, x) by {
                assert(rem.unref().contains(x));
                let j = choose|j: int| 0 <= j < rem.unref().len() && rem.unref()[j] == x;
                assert(*rem[j] == x);
            }
        }
        assert(true);
    }
    let ghost pos = rem.len() - __it0.remaining().len();
    let Some(s) = __it0.next() else { break };
    proof { assert(s == rem[pos]); assert(rem.unref()[pos] == *s); assert(rem.unref().contains(*s)); assert(epsilon_closure@.contains(*s)); }
    if $body { proof { assert(is_end(m, *s)); } __any = true; break; }
}
__any
}""", why='iter().any(|x| p(x)) is the short-circuiting loop (std definition); the predicate body is kept verbatim'))
    elif k == 'from_nfa.insert_edge':
        mp_edits.append(Ins('after_stmt', 'transitions.insert($_);', """
proof {
    let e0 = (old_state_id, cc, new_state_id);
    assert(old_state_id == StateSetID(c as u32));
    let t_mid = t_in;
    let a0 = (g.acc)(reps[new_state_id.0 as int].0 as int);
    assert(a0 is Some ==> a0 == Some(m.nfas@[own].pattern.token_type));
    assert(accepting_states@ == (if a0 is Some && !acc_mid.contains((new_state_id, a0->0)) { acc_mid.push((new_state_id, a0->0)) } else { acc_mid }));
    lemma_acc_step(g, acc_mid, accepting_states@, t_mid, reps, e0);
    lemma_insert_edge(g, t_mid, reps, c, cc, target_state, new_state_id, c);
    assert(transitions@ == t_mid.insert(e0));
    assert forall|kk: int| 0 <= kk < m0 + 1 implies edge_present(g, transitions@, reps, c, (#[trigger] ts[kk]).0, ts[kk].1) by {
        if kk < m0 { assert(edge_present(g, t_mid, reps, c, ts[kk].0, ts[kk].1)); }
    }
}
""", label='from_mp.insert_edge'))
    elif k == 'from_nfa.final':
        mp_edits.append(_variant(e))
        mp_edits.append(Replace('U6', 'vec![mp_nfa.patterns.iter().map(|p| p.pattern()).collect()]', 'vec![verif_patterns_text(&mp_nfa.patterns)]',
                                why='TRUSTED CUT: the `patterns` field (debug text: concatenation of the pattern strings) is produced by an opaque function'))
        mp_edits.append(Replace('E11', 'mp_nfa.patterns.iter().map(|p| $body).collect()', """{
    let mut __out: Vec<TerminalID> = Vec::new();
    let mut __it9 = mp_nfa.patterns.iter();
    let ghost prem = __it9.remaining();
    proof {
        assert(prem.len() == mp_nfa.patterns@.len());
        assert(forall|i: int| 0 <= i < prem.len() ==> *#[trigger] prem[i] == mp_nfa.patterns@[i]);
    }
    loop
        invariant
            __it9.obeys_prophetic_iter_laws(), __it9.decrease() is Some,
            prem.len() == mp_nfa.patterns@.len(), forall|i: int| 0 <= i < prem.len() ==> *#[trigger] prem[i] == mp_nfa.patterns@[i],
            __it9.remaining().len() <= prem.len(),
            forall|q: int| 0 <= q < __it9.remaining().len() ==> #[trigger] __it9.remaining()[q] == prem[prem.len() - __it9.remaining().len() + q],
            __out@.len() == prem.len() - __it9.remaining().len(),
            forall|i: int| 0 <= i < __out@.len() ==> (#[trigger] __out@[i]) == TerminalID(mp_nfa.patterns@[i].token_type as u32),
        ensures __it9.remaining().len() == 0,
        decreases __it9.decrease()->0
    {
        let ghost pos = prem.len() - __it9.remaining().len();
        let Some(p) = __it9.next() else { break };
        proof { assert(*p == mp_nfa.patterns@[pos]); }
        let __x: TerminalID = $body;
        __out.push(__x);
    }
    __out
}""", occ=2, why='iter().map(|p| f(p)).collect::<Vec<_>>() is the loop pushing f(p) for every element in order (std definitions); the closure body is kept verbatim'))
    elif isinstance(e, Tail):
        mp_edits.append(Tail("""
proof {
    let tids = Seq::new(mp_nfa.patterns@.len(), |i: int| TerminalID(mp_nfa.patterns@[i].token_type as u32));
    let d0 = choose|d0: CompiledDfa| #[trigger] min_of(d0, __res) && d0.states@ == st_fin && d0.end_states@ == es_fin
        && d0.terminal_ids@ =~= tids && d0.lookaheads@.len() == 0;
    lemma_reps_nodup(g, reps);
    lemma_elim_final(g, d0, reps, tset, acc);
}
"""))
    else:
        mp_edits.append(_variant(e))

from_mp = Fn(F_DFA, 'From<MultiPatternNfa> for CompiledDfa', 'from', ret='r', rename='from__mp', impl_as='CompiledDfa', qual_as='CompiledDfa', props=P,
    attrs='#[verifier::loop_isolation(false)] #[verifier::allow_complex_invariants]',
    spec="""
requires mp_wf(mp_nfa), g_mp(mp_nfa).bound < u32::MAX
ensures
    // the automaton handed to the minimizer is the epsilon-elimination automaton of the union; token types in pattern order; the result is its quotient
    exists|d0: CompiledDfa, reps: Seq<StateID>| elim_ok(g_mp(mp_nfa), d0, reps)
        && d0.terminal_ids@ == Seq::new(mp_nfa.patterns@.len(), |i: int| TerminalID(mp_nfa.patterns@[i].token_type as u32))
        && min_of(d0, r),
""",
    edits=mp_edits)

UNIT = dict(
    name='u_elim',
    externs=['rustc_hash'],
    header='''#![feature(allocator_api)]
#![feature(sized_hierarchy)]
#![allow(unused_imports, unused_variables, unused_mut, unused_assignments, dead_code, unused_parens, unused_braces)]
use vstd::prelude::*;
use vstd::std_specs::iter::IteratorSpec;
use std::alloc::Allocator;
use rustc_hash::{FxHashMap, FxHashSet};
use std::collections::{BTreeSet, VecDeque};
''',
    items=[
        IdMacro(F_IDS, 'StateID', members=('new', 'as_usize', 'id'), index_for=('Vec', 'slice'), specs=ID_SPECS, with_from=True),
        IdMacro(F_IDS, 'StateSetID', members=('new', 'as_usize', 'id'), index_for=('Vec',), specs=ID_SPECS, with_from=True),
        IdMacro(F_IDS, 'CharClassID', members=('new', 'as_usize', 'id'), index_for=(), specs=ID_SPECS),
        IdMacro(F_IDS, 'TerminalID', members=('new', 'as_usize', 'id'), index_for=(), specs=ID_SPECS, with_from=True),
        Raw('''
#[verifier::external_type_specification]
#[verifier::external_body]
pub struct ExFxBuildHasher(rustc_hash::FxBuildHasher);
#[verifier::external_type_specification]
#[verifier::external_body]
#[verifier::reject_recursive_types(I)]
pub struct ExCloned<I>(core::iter::Cloned<I>);
#[verifier::external_type_specification]
#[verifier::external_body]
#[verifier::reject_recursive_types(K)]
#[verifier::reject_recursive_types(A)]
pub struct ExHashSetIntoIter<K, A: std::alloc::Allocator>(std::collections::hash_set::IntoIter<K, A>);

impl<T> std::ops::IndexMut<StateSetID> for Vec<T> {
    fn index_mut(&mut self, index: StateSetID) -> (r: &mut T)
        ensures *r == old(self)@[index.0 as int], final(self)@ == old(self)@.update(index.0 as int, *final(r))
    { &mut self[index.0 as usize] }
}
#[verifier::external]
impl std::fmt::Display for StateID {
    fn fmt(&self, f: &mut std::fmt::Formatter<'_>) -> std::fmt::Result { write!(f, "{}", self.0) }
}
pub assume_specification<T: PartialEq>[ <[T]>::contains ](s: &[T], x: &T) -> (r: bool)
    ensures r == s@.contains(*x);   // assumes T's PartialEq is structural
''', label='external types, IndexMut<StateSetID> (from impl_id!), <[T]>::contains'),
        Raw('''
// opaque: carried along, never inspected here
#[verifier::external_body] pub struct ComparableAst { _private: () }
''', label='opaque ComparableAst'),
        Raw('''
#[verifier::external_body] pub struct Lookahead { _private: () }
#[verifier::external_body] pub struct CompiledLookahead { _private: () }
''', label='opaque Lookahead/CompiledLookahead'),
        Struct(F_PAT, 'Pattern', derive=[]),
        Struct(F_NFA, 'EpsilonTransition', derive=[]),
        Struct(F_NFA, 'NfaTransition', derive=[]),
        Struct(F_NFA, 'NfaState', derive=[]),
        Struct(F_NFA, 'Nfa', derive=[]),
        Struct(F_MP, 'MultiPatternNfa', derive=[]),
        Struct(F_DFA, 'StateData', derive=[]),
        Struct(F_DFA, 'CompiledDfa', derive=[]),
        RawFile(os.path.join(SUBDIR, 'sub_spec.rs'), 'sub_spec.rs'),
        RawFile(os.path.join(SUBDIR, 'mp_spec.rs'), 'mp_spec.rs'),
        RawFile('elim_spec.rs'),
        RawFile('elim_gen.rs'),
        RawFile('elim_nfa.rs'),
        RawFile('elim_mp.rs'),
        RawFile(os.path.join(HERE, '..', 'common', 'clsf.rs'), 'clsf.rs'),
        RawFile(os.path.join(HERE, '..', 'common', 'dfa_lang.rs'), 'dfa_lang.rs'),
        RawFile('elim_lang.rs'),
        RawFile(os.path.join(HERE, '..', 'u_mini', 'mini_spec.rs'), 'mini_spec.rs'),
        Raw('pub struct Minimizer;', label='unit struct Minimizer'),
        as_contract(umini.minimize, 'contract proved in unit U-mini'),
        C(sub.epsilon_closure), C(sub.get_match_transitions),
        C(sub.mp_epsilon_closure), C(sub.mp_get_match_transitions), C(sub.mp_find_nfa), C(sub.mp_is_accepting),
        Fn(F_NFA, 'Nfa', 'terminal_id', ret='r', props=P, spec='ensures r == self.pattern.token_type'),
        Fn(F_PAT, 'Pattern', 'pattern', ret='r', props=P, spec='ensures r@ == self.pattern@'),
        Fn(F_PAT, 'Pattern', 'terminal_id', ret='r', props=P, spec='ensures r == self.token_type'),
        Fn(F_DFA, 'StateData', 'new', ret='r', props=P, spec='ensures r.transitions@.len() == 0'),
        from_nfa,
        from_mp,
    ],
)
