// ---------------------------------------------------------------- the multi-pattern union as an abstract epsilon-NFA
pub open spec fn mp_ok(m: MultiPatternNfa, a: int) -> bool { a == 0 || exists|j: int| #[trigger] owner(m, a, j) }
pub open spec fn mp_bound(m: MultiPatternNfa) -> int {
    if mp_len(m) == 0 { 1 } else { n_off(m.nfas@[mp_len(m) - 1]) + n_len(m.nfas@[mp_len(m) - 1]) }
}
pub open spec fn mp_accepts(m: MultiPatternNfa, a: int, j: int) -> bool { owner(m, a, j) && eps_reach(m.nfas@[j], a, m.nfas@[j].end_state.0 as int) }
/// the closure of a state of pattern j accepts pattern j's token type iff it holds pattern j's end state
pub open spec fn mp_acc(m: MultiPatternNfa, a: int) -> Option<usize> {
    if a != 0 && exists|j: int| #[trigger] mp_accepts(m, a, j) {
        Some(m.nfas@[choose|j: int| #[trigger] mp_accepts(m, a, j)].pattern.token_type)
    } else { None }
}
pub open spec fn g_mp(m: MultiPatternNfa) -> Gr {
    Gr {
        reach: |a: int, b: int| mp_reach(m, a, b),
        tr: |s: int, cc: CharClassID, t: StateID| mp_trans(m, s, cc, t),
        ok: |a: int| mp_ok(m, a),
        bound: mp_bound(m),
        start: 0,
        acc: |a: int| mp_acc(m, a),
    }
}
pub proof fn lemma_mp_acc(m: MultiPatternNfa, a: int, j: int)
    requires mp_wf(m), owner(m, a, j)
    ensures mp_acc(m, a) == (if eps_reach(m.nfas@[j], a, m.nfas@[j].end_state.0 as int) { Some(m.nfas@[j].pattern.token_type) } else { None::<usize> })
{
    assert(n_off(m.nfas@[j]) >= 1);
    assert(a != 0);
    if exists|jj: int| #[trigger] mp_accepts(m, a, jj) {
        let jj = choose|jj: int| #[trigger] mp_accepts(m, a, jj);
        lemma_owner_unique(m, a, j, jj);
    }
    if eps_reach(m.nfas@[j], a, m.nfas@[j].end_state.0 as int) { assert(mp_accepts(m, a, j)); }
}
pub proof fn lemma_g_mp_wf(m: MultiPatternNfa)
    requires mp_wf(m)
    ensures gr_wf(g_mp(m))
{
    let g = g_mp(m);
    let l = mp_len(m);
    if l > 0 { assert(sub_wf(m.nfas@[l - 1])); assert(n_off(m.nfas@[l - 1]) >= 1); }
    assert forall|a: int| #[trigger] (g.ok)(a) implies 0 <= a < g.bound by {
        if a != 0 {
            let j = choose|j: int| #[trigger] owner(m, a, j);
            assert(sub_wf(m.nfas@[j]));
            if j < l - 1 { assert(n_off(m.nfas@[j]) + n_len(m.nfas@[j]) <= n_off(m.nfas@[l - 1])); }
        }
    }
    assert forall|a: int, x: int| (g.ok)(a) && #[trigger] (g.reach)(a, x) implies (g.ok)(x) by {
        if a == 0 {
            if x != 0 {
                let j = choose|j: int| 0 <= j < l && j < mp_len(m) && eps_reach(#[trigger] m.nfas@[j], m.nfas@[j].start_state.0 as int, x);
                let k = choose|k: nat| eps_path(m.nfas@[j], m.nfas@[j].start_state.0 as int, x, k);
                lemma_reach_has_state(m.nfas@[j], m.nfas@[j].start_state.0 as int, x, k);
                assert(owner(m, x, j));
            }
        } else {
            let j = choose|j: int| #[trigger] owner(m, a, j) && eps_reach(m.nfas@[j], a, x);
            let k = choose|k: nat| eps_path(m.nfas@[j], a, x, k);
            lemma_reach_has_state(m.nfas@[j], a, x, k);
            assert(owner(m, x, j));
        }
    }
    assert forall|s: int, cc: CharClassID, t: StateID| (g.ok)(s) && #[trigger] (g.tr)(s, cc, t) implies (g.ok)(t.0 as int) by {
        if s == 0 {
            let jj = choose|jj: int| 0 <= jj < l && jj < mp_len(m) && #[trigger] tr_of(m.nfas@[jj], m.nfas@[jj].start_state.0 as int, cc, t);
            let nn = m.nfas@[jj];
            let a = nn.start_state.0 as int;
            let k = choose|k: int| #[trigger] tr_at(nn, a, k, cc, t);
            assert(has_state(nn, nn.states@[a - n_off(nn)].transitions@[k].target_state.0 as int));
            assert(owner(m, t.0 as int, jj));
        } else {
            let j = choose|j: int| #[trigger] owner(m, s, j) && tr_of(m.nfas@[j], s, cc, t);
            let nn = m.nfas@[j];
            let k = choose|k: int| #[trigger] tr_at(nn, s, k, cc, t);
            assert(has_state(nn, nn.states@[s - n_off(nn)].transitions@[k].target_state.0 as int));
            assert(owner(m, t.0 as int, j));
        }
    }
    assert forall|a: int, b: int| (g.ok)(a) && (g.ok)(b) && #[trigger] same_closure(g, a, b) implies (g.acc)(a) == (g.acc)(b) by {
        if a == 0 || b == 0 {
            // 0 is reached from 0 only
            lemma_same_closure_reach(g, a, b, 0);
            if a != 0 {
                assert((g.reach)(b, 0));
                let j = choose|j: int| #[trigger] owner(m, a, j) && eps_reach(m.nfas@[j], a, 0);
                let k = choose|k: nat| eps_path(m.nfas@[j], a, 0, k);
                lemma_reach_has_state(m.nfas@[j], a, 0, k);
                assert(false);
            }
            if b != 0 {
                assert((g.reach)(a, 0));
                let j = choose|j: int| #[trigger] owner(m, b, j) && eps_reach(m.nfas@[j], b, 0);
                let k = choose|k: nat| eps_path(m.nfas@[j], b, 0, k);
                lemma_reach_has_state(m.nfas@[j], b, 0, k);
                assert(false);
            }
        } else {
            let j = choose|j: int| #[trigger] owner(m, a, j);
            lemma_reach_refl(m.nfas@[j], a);
            assert((g.reach)(a, a));
            lemma_same_closure_reach(g, a, b, a);
            let j2 = choose|j2: int| #[trigger] owner(m, b, j2) && eps_reach(m.nfas@[j2], b, a);
            let k = choose|k: nat| eps_path(m.nfas@[j2], b, a, k);
            lemma_reach_has_state(m.nfas@[j2], b, a, k);
            lemma_owner_unique(m, a, j, j2);
            lemma_mp_acc(m, a, j);
            lemma_mp_acc(m, b, j);
            let e = m.nfas@[j].end_state.0 as int;
            lemma_same_closure_reach(g, a, b, e);
            if eps_reach(m.nfas@[j], a, e) { assert(owner(m, a, j)); assert((g.reach)(a, e)); let j3 = choose|j3: int| #[trigger] owner(m, b, j3) && eps_reach(m.nfas@[j3], b, e); lemma_owner_unique(m, b, j, j3); }
            if eps_reach(m.nfas@[j], b, e) { assert(owner(m, b, j)); assert((g.reach)(b, e)); let j3 = choose|j3: int| #[trigger] owner(m, a, j3) && eps_reach(m.nfas@[j3], a, e); lemma_owner_unique(m, a, j, j3); }
        }
    }
}
/// the match transitions of the members of a closure key are what the closure fires
pub proof fn lemma_mp_mt_fires(m: MultiPatternNfa, ss: Seq<StateID>, key: Set<StateID>, a: int)
    requires mp_wf(m), key_is(g_mp(m), key, a), forall|x: StateID| #[trigger] key.contains(x) <==> ss.contains(x)
    ensures forall|cc: CharClassID, t: StateID| #[trigger] mp_mt_from(m, ss, cc, t) <==> g_fires(g_mp(m), a, cc, t)
{
    reveal(g_fires);
    let g = g_mp(m);
    assert forall|cc: CharClassID, t: StateID| #[trigger] mp_mt_from(m, ss, cc, t) <==> g_fires(g, a, cc, t) by {
        if mp_mt_from(m, ss, cc, t) {
            let ii = choose|ii: int| 0 <= ii < ss.len() && ii < ss.len() && #[trigger] mp_trans(m, ss[ii].0 as int, cc, t);
            assert(ss.contains(ss[ii]));
            assert(key.contains(ss[ii]));
            assert((g.reach)(a, ss[ii].0 as int) && (g.tr)(ss[ii].0 as int, cc, t));
        }
        if g_fires(g, a, cc, t) {
            let s = choose|s: int| (g.reach)(a, s) && #[trigger] (g.tr)(s, cc, t);
            // s is a state id: 0 or owned, hence representable
            assert(mp_trans(m, s, cc, t));
            lemma_mp_trans_state(m, s, cc, t);
            assert(key.contains(StateID(s as u32)));
            assert(ss.contains(StateID(s as u32)));
            let ii = choose|ii: int| 0 <= ii < ss.len() && ss[ii] == StateID(s as u32);
            assert(mp_trans(m, ss[ii].0 as int, cc, t));
        }
    }
}
/// only state 0 and owned states fire
pub proof fn lemma_mp_trans_state(m: MultiPatternNfa, s: int, cc: CharClassID, t: StateID)
    requires mp_wf(m), mp_trans(m, s, cc, t)
    ensures 0 <= s <= u32::MAX
{
    if s != 0 {
        let j = choose|j: int| #[trigger] owner(m, s, j) && tr_of(m.nfas@[j], s, cc, t);
        assert(sub_wf(m.nfas@[j]));
    }
}
/// a closure key of a target holds an end state of some pattern iff the target's own pattern accepts
pub open spec fn is_end(m: MultiPatternNfa, x: StateID) -> bool { exists|i: int| 0 <= i < m.nfas@.len() && (#[trigger] m.nfas@[i]).end_state == x }
pub proof fn lemma_mp_any_end(m: MultiPatternNfa, key: Set<StateID>, t: int, j: int)
    requires mp_wf(m), owner(m, t, j), key_is(g_mp(m), key, t)
    ensures (exists|x: StateID| key.contains(x) && #[trigger] is_end(m, x)) <==> eps_reach(m.nfas@[j], t, m.nfas@[j].end_state.0 as int)
{
    let g = g_mp(m);
    assert(n_off(m.nfas@[j]) >= 1);
    if exists|x: StateID| key.contains(x) && #[trigger] is_end(m, x) {
        let x = choose|x: StateID| key.contains(x) && #[trigger] is_end(m, x);
        let i = choose|i: int| 0 <= i < m.nfas@.len() && (#[trigger] m.nfas@[i]).end_state == x;
        assert((g.reach)(t, x.0 as int));
        let j2 = choose|j2: int| #[trigger] owner(m, t, j2) && eps_reach(m.nfas@[j2], t, x.0 as int);
        lemma_owner_unique(m, t, j, j2);
        let k = choose|k: nat| eps_path(m.nfas@[j], t, x.0 as int, k);
        lemma_reach_has_state(m.nfas@[j], t, x.0 as int, k);
        assert(sub_wf(m.nfas@[i]));
        assert(owner(m, x.0 as int, i));
        assert(owner(m, x.0 as int, j));
        lemma_owner_unique(m, x.0 as int, i, j);
    }
    if eps_reach(m.nfas@[j], t, m.nfas@[j].end_state.0 as int) {
        let x = m.nfas@[j].end_state;
        assert(owner(m, t, j) && eps_reach(m.nfas@[j], t, x.0 as int));
        assert((g.reach)(t, x.0 as int));
        assert(key.contains(x));
        assert(is_end(m, x));
    }
}

/// a transition target is a state of a pattern NFA: never the union start 0
pub proof fn lemma_mp_target_nonzero(m: MultiPatternNfa, s: int, cc: CharClassID, t: StateID)
    requires mp_wf(m), mp_trans(m, s, cc, t)
    ensures t.0 != 0
{
    if s == 0 {
        let jj = choose|jj: int| 0 <= jj < mp_len(m) && jj < mp_len(m) && #[trigger] tr_of(m.nfas@[jj], m.nfas@[jj].start_state.0 as int, cc, t);
        let nn = m.nfas@[jj];
        let a = nn.start_state.0 as int;
        let k = choose|k: int| #[trigger] tr_at(nn, a, k, cc, t);
        assert(has_state(nn, nn.states@[a - n_off(nn)].transitions@[k].target_state.0 as int));
        assert(n_off(nn) >= 1);
    } else {
        let j = choose|j: int| #[trigger] owner(m, s, j) && tr_of(m.nfas@[j], s, cc, t);
        let nn = m.nfas@[j];
        let k = choose|k: int| #[trigger] tr_at(nn, s, k, cc, t);
        assert(has_state(nn, nn.states@[s - n_off(nn)].transitions@[k].target_state.0 as int));
        assert(n_off(nn) >= 1);
    }
}
#[verifier::external_body]
pub fn verif_patterns_text(p: &Vec<Pattern>) -> String { unimplemented!() }

/// find_nfa(t) can only return the owner of t
pub proof fn lemma_mp_owner_find(m: MultiPatternNfa, t: StateID, own: int)
    requires mp_wf(m), owner(m, t.0 as int, own)
    ensures forall|jj: int| 0 <= jj < mp_len(m) ==> (contains_id(#[trigger] m.nfas@[jj], t) <==> jj == own)
{
    assert forall|jj: int| 0 <= jj < mp_len(m) implies (contains_id(#[trigger] m.nfas@[jj], t) <==> jj == own) by {
        lemma_contains_id(m.nfas@[jj], t);
        if owner(m, t.0 as int, jj) { lemma_owner_unique(m, t.0 as int, jj, own); }
    }
}
