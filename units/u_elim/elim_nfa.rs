// ---------------------------------------------------------------- one Nfa as an abstract epsilon-NFA
pub open spec fn g_nfa(n: Nfa) -> Gr {
    Gr {
        reach: |a: int, b: int| eps_reach(n, a, b),
        tr: |s: int, cc: CharClassID, t: StateID| tr_of(n, s, cc, t),
        ok: |a: int| has_state(n, a),
        bound: n_off(n) + n_len(n),
        start: n.start_state.0 as int,
        acc: |a: int| if eps_reach(n, a, n.end_state.0 as int) { Some(n.pattern.token_type) } else { None },
    }
}
pub proof fn lemma_g_nfa_wf(n: Nfa)
    requires sub_wf(n)
    ensures gr_wf(g_nfa(n))
{
    let g = g_nfa(n);
    assert forall|a: int, x: int| (g.ok)(a) && #[trigger] (g.reach)(a, x) implies (g.ok)(x) by {
        let k = choose|k: nat| eps_path(n, a, x, k);
        lemma_reach_has_state(n, a, x, k);
    }
    assert forall|s: int, cc: CharClassID, t: StateID| (g.ok)(s) && #[trigger] (g.tr)(s, cc, t) implies (g.ok)(t.0 as int) by {
        let k = choose|k: int| #[trigger] tr_at(n, s, k, cc, t);
        assert(has_state(n, n.states@[s - n_off(n)].transitions@[k].target_state.0 as int));
    }
    assert forall|a: int, b: int| (g.ok)(a) && (g.ok)(b) && #[trigger] same_closure(g, a, b) implies (g.acc)(a) == (g.acc)(b) by {
        lemma_same_closure_reach(g, a, b, n.end_state.0 as int);
    }
}
/// the index-addressed match transitions of the members of a closure key are what the closure fires
pub proof fn lemma_mt_fires(n: Nfa, ss: Seq<StateID>, key: Set<StateID>, a: int)
    requires sub_wf(n), n_off(n) == 0, has_state(n, a), key_is(g_nfa(n), key, a), forall|x: StateID| #[trigger] key.contains(x) <==> ss.contains(x)
    ensures forall|cc: CharClassID, t: StateID| #[trigger] mt_from(n, ss, cc, t) <==> g_fires(g_nfa(n), a, cc, t)
{
    reveal(g_fires);
    let g = g_nfa(n);
    assert forall|cc: CharClassID, t: StateID| #[trigger] mt_from(n, ss, cc, t) <==> g_fires(g, a, cc, t) by {
        if mt_from(n, ss, cc, t) {
            let (i, k) = choose|i: int, k: int| #[trigger] mt_at(n, ss, i, k, cc, t);
            assert(ss.contains(ss[i]));
            assert(key.contains(ss[i]));
            assert(tr_at(n, ss[i].0 as int, k, cc, t));
            assert(tr_of(n, ss[i].0 as int, cc, t));
            assert((g.reach)(a, ss[i].0 as int) && (g.tr)(ss[i].0 as int, cc, t));
        }
        if g_fires(g, a, cc, t) {
            let s = choose|s: int| (g.reach)(a, s) && #[trigger] (g.tr)(s, cc, t);
            let k = choose|k: int| #[trigger] tr_at(n, s, k, cc, t);
            assert(key.contains(StateID(s as u32)));
            assert(ss.contains(StateID(s as u32)));
            let i = choose|i: int| 0 <= i < ss.len() && ss[i] == StateID(s as u32);
            assert(mt_at(n, ss, i, k, cc, t));
        }
    }
}
pub proof fn lemma_acc_mark_step(acc: Seq<(StateSetID, usize)>, k: int, i: int)
    requires 0 <= k < acc.len()
    ensures acc_mark(acc, k + 1, i) == (if acc[k].0.0 == i { (true, TerminalID(acc[k].1 as u32)) } else { acc_mark(acc, k, i) })
{
    if acc[k].0.0 == i {
        assert(acc_marked(acc, k + 1, i));
    } else {
        if acc_marked(acc, k + 1, i) { let ix = choose|ix: int| 0 <= ix < k + 1 && ix < acc.len() && (#[trigger] acc[ix]).0.0 == i; assert(ix < k); assert(acc_marked(acc, k, i)); }
        if acc_marked(acc, k, i) { let ix = choose|ix: int| 0 <= ix < k && ix < acc.len() && (#[trigger] acc[ix]).0.0 == i; assert(0 <= ix < k + 1); }
    }
}
