# U-parse: parse_regex_syntax (C15 "syntax errors always yield an error", C02 "the AST the pipeline compiles is the one the parser returns for the text"):
# the function hands regex-syntax's result through unchanged - Ok for exactly the texts the parser accepts, with the parser's AST; no fast path around the parser.
from extract import *

F_PARSER = 'scnr/src/internal/parser.rs'

parse = Fn(F_PARSER, None, 'parse_regex_syntax', ret='r', props=['C15', 'C02'],
    spec='''
ensures
    // exactly the texts regex-syntax accepts are accepted (a syntax error always yields Err), and the AST is the parser's
    r is Ok == spec_parse_ok(input@),
    r matches Ok(a) ==> a == spec_parse(input@),
''',
    edits=[
        Replace('E5', 'let now = Instant::now();', '', why='wall-clock timing for a trace message: no effect on the result (std::time::Instant is outside Verus)'),
        Replace('E5', 'let elapsed_time = now.elapsed();', '', why='see above'),
        Replace('U8', 'Parser::new().parse(input)', 'verif_regex_parse(input)', why='TRUSTED: the regex-syntax parser (external crate) is the uninterpreted pair spec_parse_ok / spec_parse'),
        Replace('U3', 'Err(e) => Err(e.into())', 'Err(e) => Err(verif_syntax_error(e))', why='TRUSTED: construction of the error value (From<regex_syntax::ast::Error> for ScnrError)'),
    ])

UNIT = dict(
    name='u_parse',
    externs=['regex_syntax'],
    header='''#![feature(allocator_api)]
#![feature(sized_hierarchy)]
#![allow(unused_imports, unused_variables, unused_mut, unused_assignments, dead_code, unused_parens, unused_braces)]
use vstd::prelude::*;
use regex_syntax::ast::Ast;
''',
    items=[
        Raw('''
#[verifier::external_type_specification] #[verifier::external_body] pub struct ExAst(Ast);
#[verifier::external_body] pub struct ScnrError { _private: () }
pub type Result<T> = std::result::Result<T, ScnrError>;
#[verifier::external_body] pub struct RegexSyntaxError { _private: () }

/// regex-syntax's parser, uninterpreted: whether it accepts a text, and the AST it returns for it
pub uninterp spec fn spec_parse_ok(text: Seq<char>) -> bool;
pub uninterp spec fn spec_parse(text: Seq<char>) -> Ast;

// TRUSTED: `regex_syntax::ast::parse::Parser::new().parse(input)` (deterministic function of the text)
#[verifier::external_body]
pub fn verif_regex_parse(input: &str) -> (r: std::result::Result<Ast, RegexSyntaxError>)
    ensures r is Ok == spec_parse_ok(input@), r matches Ok(a) ==> a == spec_parse(input@)
{ unimplemented!() }
// TRUSTED: construction of the error value
#[verifier::external_body]
pub fn verif_syntax_error(e: RegexSyntaxError) -> ScnrError { unimplemented!() }
''', label='trusted: regex-syntax parser, error construction'),
        parse,
    ],
)
