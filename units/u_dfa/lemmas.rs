// ---------------------------------------------------------------- lemmas
pub proof fn lemma_ci_at_unique(rem: Seq<(usize, char)>, input: Seq<char>, n1: int, n2: int)
    requires ci_at(rem, input, n1), ci_at(rem, input, n2)
    ensures n1 == n2
{
    reveal(best_inner); reveal(best_outer); reveal(fired_to);
    assert(rem.len() == input.skip(n1).len());
    assert(rem.len() == input.skip(n2).len());
}

pub proof fn lemma_reach_unfold(d: DfaCore, cls: Cls, w: Seq<char>, t: int)
    requires w.len() > 0
    ensures reach(d, cls, w, t) == (exists|s: int| 0 <= s < d.states@.len() && reach(d, cls, w.drop_last(), s) && #[trigger] step1(d, cls, s, w.last(), t))
{
    reveal(best_inner); reveal(best_outer); reveal(fired_to);
}

pub proof fn lemma_reach_empty_stays(d: DfaCore, cls: Cls, text: Seq<char>, k: int, l: int)
    requires 0 <= k <= l <= text.len(), forall|t: int| !reach(d, cls, text.take(k), t)
    ensures forall|t: int| !reach(d, cls, text.take(l), t)
    decreases l - k
{
    reveal(best_inner); reveal(best_outer); reveal(fired_to);
    if k < l {
        lemma_reach_empty_stays(d, cls, text, k, l - 1);
        assert(text.take(l).drop_last() =~= text.take(l - 1));
        assert forall|t: int| !reach(d, cls, text.take(l), t) by {
            lemma_reach_unfold(d, cls, text.take(l), t);
        }
    }
}

pub proof fn lemma_prio_unique(ids: Seq<TerminalID>, tid: TerminalID, r1: int, r2: int)
    requires is_prio(ids, tid, r1), is_prio(ids, tid, r2)
    ensures r1 == r2
{
    reveal(best_inner); reveal(best_outer); reveal(fired_to);
}

pub proof fn lemma_longest_unique(d: DfaCore, cls: Cls, rest: Seq<char>, l1: int, l2: int)
    requires is_longest(d, cls, rest, l1), is_longest(d, cls, rest, l2)
    ensures l1 == l2
{
    reveal(best_inner); reveal(best_outer); reveal(fired_to);
}

/// moving the inner cursor one transition further
pub proof fn lemma_fired_step(d: DfaCore, cls: Cls, cur: Seq<StateSetID>, c: char, j: int, i: int)
    requires 0 <= j < cur.len(), 0 <= i < trans(d, cur[j].0 as int).len()
    ensures forall|t: int| #[trigger] fired_to(d, cls, cur, c, j, i + 1, t) <==>
        (fired_to(d, cls, cur, c, j, i, t) || (fires(d, cls, cur[j].0 as int, i, c) && trans(d, cur[j].0 as int)[i].1.0 == t))
{
    reveal(best_inner); reveal(best_outer); reveal(fired_to);
    assert forall|t: int| #[trigger] fired_to(d, cls, cur, c, j, i + 1, t) implies
        (fired_to(d, cls, cur, c, j, i, t) || (fires(d, cls, cur[j].0 as int, i, c) && trans(d, cur[j].0 as int)[i].1.0 == t)) by {
        let (j2, i2) = choose|j2: int, i2: int| 0 <= j2 < cur.len() && before(j2, i2, j, i + 1) && #[trigger] fires(d, cls, cur[j2].0 as int, i2, c) && trans(d, cur[j2].0 as int)[i2].1.0 == t;
        if j2 == j && i2 == i {
        } else {
            assert(before(j2, i2, j, i));
        }
    }
    assert forall|t: int| (fired_to(d, cls, cur, c, j, i, t) || (fires(d, cls, cur[j].0 as int, i, c) && trans(d, cur[j].0 as int)[i].1.0 == t))
        implies #[trigger] fired_to(d, cls, cur, c, j, i + 1, t) by {
        if fired_to(d, cls, cur, c, j, i, t) {
            let (j2, i2) = choose|j2: int, i2: int| 0 <= j2 < cur.len() && before(j2, i2, j, i) && #[trigger] fires(d, cls, cur[j2].0 as int, i2, c) && trans(d, cur[j2].0 as int)[i2].1.0 == t;
            assert(before(j2, i2, j, i + 1));
        } else {
            assert(before(j, i, j, i + 1));
        }
    }
}

/// finishing a state's transitions = starting the next state
pub proof fn lemma_fired_next_state(d: DfaCore, cls: Cls, cur: Seq<StateSetID>, c: char, j: int)
    requires 0 <= j < cur.len()
    ensures forall|t: int| #[trigger] fired_to(d, cls, cur, c, j, trans(d, cur[j].0 as int).len() as int, t) <==> fired_to(d, cls, cur, c, j + 1, 0, t)
{
    reveal(best_inner); reveal(best_outer); reveal(fired_to);
    let n = trans(d, cur[j].0 as int).len() as int;
    assert forall|t: int| #[trigger] fired_to(d, cls, cur, c, j, n, t) implies fired_to(d, cls, cur, c, j + 1, 0, t) by {
        let (j2, i2) = choose|j2: int, i2: int| 0 <= j2 < cur.len() && before(j2, i2, j, n) && #[trigger] fires(d, cls, cur[j2].0 as int, i2, c) && trans(d, cur[j2].0 as int)[i2].1.0 == t;
        assert(before(j2, i2, j + 1, 0));
    }
    assert forall|t: int| #[trigger] fired_to(d, cls, cur, c, j + 1, 0, t) implies fired_to(d, cls, cur, c, j, n, t) by {
        let (j2, i2) = choose|j2: int, i2: int| 0 <= j2 < cur.len() && before(j2, i2, j + 1, 0) && #[trigger] fires(d, cls, cur[j2].0 as int, i2, c) && trans(d, cur[j2].0 as int)[i2].1.0 == t;
        assert(before(j2, i2, j, n));
    }
}

/// after all current states are processed, fired_to is exactly one step of reachability
pub proof fn lemma_fired_all_is_reach(d: DfaCore, cls: Cls, text: Seq<char>, k: int, cur: Seq<StateSetID>)
    requires
        0 <= k < text.len(),
        wf_flat(d),
        forall|x: StateSetID| #[trigger] cur.contains(x) <==> (x.0 < d.states@.len() && reach(d, cls, text.take(k), x.0 as int)),
    ensures
        forall|t: int| #[trigger] fired_to(d, cls, cur, text[k], cur.len() as int, 0, t) <==> reach(d, cls, text.take(k + 1), t)
{
    reveal(best_inner); reveal(best_outer); reveal(fired_to);
    let c = text[k];
    let w = text.take(k + 1);
    assert(w.drop_last() =~= text.take(k));
    assert(w.last() == c);
    assert forall|t: int| #[trigger] fired_to(d, cls, cur, c, cur.len() as int, 0, t) implies reach(d, cls, w, t) by {
        let (j2, i2) = choose|j2: int, i2: int| 0 <= j2 < cur.len() && before(j2, i2, cur.len() as int, 0) && #[trigger] fires(d, cls, cur[j2].0 as int, i2, c) && trans(d, cur[j2].0 as int)[i2].1.0 == t;
        let s = cur[j2].0 as int;
        assert(cur.contains(cur[j2]));
        assert(reach(d, cls, w.drop_last(), s));
        assert(step1(d, cls, s, c, t));
    }
    assert forall|t: int| reach(d, cls, w, t) implies #[trigger] fired_to(d, cls, cur, c, cur.len() as int, 0, t) by {
        let s = choose|s: int| 0 <= s < d.states@.len() && reach(d, cls, w.drop_last(), s) && #[trigger] step1(d, cls, s, w.last(), t);
        let x = StateSetID(s as u32);
        assert(cur.contains(x));
        let j2 = choose|j2: int| 0 <= j2 < cur.len() && cur[j2] == x;
        let i2 = choose|i2: int| #[trigger] fires(d, cls, s, i2, c) && trans(d, s)[i2].1.0 == t;
        assert(before(j2, i2, cur.len() as int, 0));
        assert(fires(d, cls, cur[j2].0 as int, i2, c));
    }
}

/// no_better is transitive enough: if (l,tid) beats the old best which was no worse than x, then (l,tid) is no worse than x
pub proof fn lemma_no_better_trans(d: DfaCore, cls: Cls, text: Seq<char>, l: int, tid: TerminalID, l1: int, tid1: TerminalID, l2: int, tid2: TerminalID)
    requires
        no_better(d, cls, text, l, tid, l1, tid1),
        no_better(d, cls, text, l1, tid1, l2, tid2),
    ensures no_better(d, cls, text, l, tid, l2, tid2)
{
    reveal(best_inner); reveal(best_outer); reveal(fired_to);
}

/// without lookaheads the best candidate is the longest match
pub proof fn lemma_nola_best_is_longest(d: DfaCore, cls: Cls, rest: Seq<char>, base: nat, res: Option<Match>)
    requires d.lookaheads@.len() == 0, find_post(d, cls, rest, base, res)
    ensures
        (res is Some) == has_match(d, cls, rest),
        res is Some ==> is_longest(d, cls, rest, longest(d, cls, rest)) && res->0.span.start == base && res->0.span.end == base + blen(rest.take(longest(d, cls, rest))),
{
    reveal(best_inner); reveal(best_outer); reveal(fired_to);
    assert(forall|t: TerminalID| !d.lookaheads@.contains_key(t)) by {
        if exists|t: TerminalID| d.lookaheads@.contains_key(t) {
            let t = choose|t: TerminalID| d.lookaheads@.contains_key(t);
            assert(d.lookaheads@.dom().contains(t));
            vstd::set_lib::lemma_set_empty_equivalency_len(d.lookaheads@.dom());
        }
    }
    match res {
        None => {
            if has_match(d, cls, rest) {
                let (l, tid) = choose|l: int, tid: TerminalID| 1 <= l <= rest.len() && #[trigger] acc(d, cls, rest.take(l), tid);
                assert(cand(d, cls, rest, l, tid));
            }
        }
        Some(m) => {
            let tid = TerminalID(m.token_type as u32);
            let l = choose|l: int| #[trigger] cand(d, cls, rest, l, tid)
                && m.span.end == base + blen(rest.take(l))
                && forall|l2: int, tid2: TerminalID| #[trigger] cand(d, cls, rest, l2, tid2) ==> no_better(d, cls, rest, l, tid, l2, tid2);
            assert(acc(d, cls, rest.take(l), tid));
            assert forall|l2: int, tid2: TerminalID| l < l2 <= rest.len() implies !#[trigger] acc(d, cls, rest.take(l2), tid2) by {
                if acc(d, cls, rest.take(l2), tid2) {
                    assert(cand(d, cls, rest, l2, tid2));
                    assert(no_better(d, cls, rest, l, tid, l2, tid2));
                    lemma_blen_take_mono(rest, l, l2);
                }
            }
            assert(is_longest(d, cls, rest, l));
            lemma_longest_unique(d, cls, rest, l, longest(d, cls, rest));
        }
    }
}


pub proof fn lemma_key_len_pos(d: DfaCore, t: TerminalID)
    requires d.lookaheads@.contains_key(t)
    ensures d.lookaheads@.len() > 0
{
    reveal(best_inner); reveal(best_outer); reveal(fired_to);
    if d.lookaheads@.len() == 0 { lemma_len0_no_key(d); }
}

/// a split of `input` whose left part has the byte length of the first m2 chars splits at char m2
/// what the loop body does to the best candidate when transition i of state cur[j] has been looked at
pub open spec fn upd(d: DfaCore, cls: Cls, text: Seq<char>, base: nat, k: int, t: int, hit: bool,
    m_end: Option<usize>, m_ext: Option<usize>, m_tid: Option<TerminalID>,
    n_end: Option<usize>, n_ext: Option<usize>, n_tid: Option<TerminalID>) -> bool
{
    let tid = d.end_states@[t].1;
    let e = (base + blen(text.take(k + 1))) as usize;
    let x = (base + extent(d, cls, text, k + 1, tid)) as usize;
    if !hit { n_end == m_end && n_ext == m_ext && n_tid == m_tid }
    else {
        // any policy is fine as long as the survivor is no worse than the loser
        let takes_new = n_end == Some(e) && n_ext == Some(x) && n_tid == Some(tid);
        let keeps_old = n_end == m_end && n_ext == m_ext && n_tid == m_tid;
        match (m_ext, m_tid) {
            (Some(be), Some(bt)) =>
                (takes_new && (x > be || (x == be && prio(d, tid) <= prio(d, bt))))
                || (keeps_old && (x < be || (x == be && prio(d, bt) <= prio(d, tid)))),
            _ => takes_new,
        }
    }
}

pub proof fn lemma_best_step(d: DfaCore, cls: Cls, text: Seq<char>, base: nat, k: int, cur: Seq<StateSetID>, c: char, j: int, i: int, t: int, hit: bool,
    m_end: Option<usize>, m_ext: Option<usize>, m_tid: Option<TerminalID>,
    n_end: Option<usize>, n_ext: Option<usize>, n_tid: Option<TerminalID>)
    requires
        wf_flat(d), base + blen(text) <= usize::MAX,
        0 <= k < text.len(), c == text[k],
        0 <= j < cur.len(), 0 <= i < trans(d, cur[j].0 as int).len(),
        cur[j].0 < d.states@.len(), reach(d, cls, text.take(k), cur[j].0 as int),
        t == trans(d, cur[j].0 as int)[i].1.0,
        // hit == this transition fires, leads to an accepting state and its lookahead condition holds
        hit == (fires(d, cls, cur[j].0 as int, i, c) && d.end_states@[t].0 && la_ok(d, cls, d.end_states@[t].1, text.skip(k + 1))),
        best_inner(d, cls, text, base, k, cur, c, j, i, m_end, m_ext, m_tid),
        upd(d, cls, text, base, k, t, hit, m_end, m_ext, m_tid, n_end, n_ext, n_tid),
    ensures
        best_inner(d, cls, text, base, k, cur, c, j, i + 1, n_end, n_ext, n_tid),
        hit ==> cand(d, cls, text, k + 1, d.end_states@[t].1),
{
    reveal(best_inner); reveal(best_outer); reveal(fired_to);
    let s = cur[j].0 as int;
    let tid = d.end_states@[t].1;
    let rest = text.skip(k + 1);
    lemma_fired_step(d, cls, cur, c, j, i);
    lemma_blen_take_mono(text, k, k + 1);
    lemma_blen_split(text, k + 1);
    assert(0 <= t < d.states@.len());
    if hit {
        // (k+1, tid) is a candidate
        assert(text.take(k + 1).drop_last() =~= text.take(k));
        assert(text.take(k + 1).last() == c);
        assert(step1(d, cls, s, c, t));
        lemma_reach_unfold(d, cls, text.take(k + 1), t);
        assert(reach(d, cls, text.take(k + 1), t));
        assert(d.end_states@[t] == (true, tid));
        assert(acc(d, cls, text.take(k + 1), tid));
        assert(cand(d, cls, text, k + 1, tid));
        lemma_extent_bound(d, cls, text, k + 1, tid);
    }
    match m_tid {
        None => {
            if hit {
                assert(n_tid == Some(tid));
                assert(no_better(d, cls, text, k + 1, tid, k + 1, tid));
                assert forall|t2: int| #[trigger] fired_to(d, cls, cur, c, j, i + 1, t2) && 0 <= t2 < d.states@.len() && d.end_states@[t2].0 && la_ok(d, cls, d.end_states@[t2].1, text.skip(k + 1))
                    implies no_better(d, cls, text, k + 1, tid, k + 1, d.end_states@[t2].1) by {
                    if fired_to(d, cls, cur, c, j, i, t2) { } else { assert(t2 == t); }
                }
                assert(cand(d, cls, text, k + 1, tid));
                assert(best_in_at(d, cls, text, base, k, cur, c, j, i + 1, k + 1, tid, n_end, n_ext));
                assert(exists|l: int| #[trigger] best_in_at(d, cls, text, base, k, cur, c, j, i + 1, l, tid, n_end, n_ext));
                assert(n_tid matches Some(q) && q == tid);
                assert(best_inner(d, cls, text, base, k, cur, c, j, i + 1, n_end, n_ext, n_tid));
            } else {
                assert(best_inner(d, cls, text, base, k, cur, c, j, i + 1, n_end, n_ext, n_tid));
            }
        }
        Some(bt) => {
            let l0 = choose|l: int| #[trigger] best_in_at(d, cls, text, base, k, cur, c, j, i, l, bt, m_end, m_ext);
            lemma_extent_bound(d, cls, text, l0, bt);
            if hit {
                let x = (base + extent(d, cls, text, k + 1, tid)) as usize;
                let e = (base + blen(text.take(k + 1))) as usize;
                let be = m_ext->0;
                let takes_new = n_end == Some(e) && n_ext == Some(x) && n_tid == Some(tid);
                if takes_new && (x > be || (x == be && prio(d, tid) <= prio(d, bt))) {
                    assert(no_better(d, cls, text, k + 1, tid, l0, bt));
                    assert(no_better(d, cls, text, k + 1, tid, k + 1, tid));
                    assert(cand(d, cls, text, k + 1, tid));
                    assert forall|t2: int| #[trigger] fired_to(d, cls, cur, c, j, i + 1, t2) && 0 <= t2 < d.states@.len() && d.end_states@[t2].0 && la_ok(d, cls, d.end_states@[t2].1, text.skip(k + 1))
                        implies no_better(d, cls, text, k + 1, tid, k + 1, d.end_states@[t2].1) by {
                        if fired_to(d, cls, cur, c, j, i, t2) {
                            lemma_no_better_trans(d, cls, text, k + 1, tid, l0, bt, k + 1, d.end_states@[t2].1);
                        } else { assert(t2 == t); }
                    }
                    assert forall|l2: int, tid2: TerminalID| 1 <= l2 <= k && #[trigger] cand(d, cls, text, l2, tid2) implies no_better(d, cls, text, k + 1, tid, l2, tid2) by {
                        lemma_no_better_trans(d, cls, text, k + 1, tid, l0, bt, l2, tid2);
                    }
                    assert(n_end == Some((base + blen(text.take(k + 1))) as usize) && n_ext == Some((base + extent(d, cls, text, k + 1, tid)) as usize) && n_tid == Some(tid));
                    assert(best_in_at(d, cls, text, base, k, cur, c, j, i + 1, k + 1, tid, n_end, n_ext));
                    assert(exists|l: int| #[trigger] best_in_at(d, cls, text, base, k, cur, c, j, i + 1, l, tid, n_end, n_ext));
                    assert(n_tid matches Some(q) && q == tid);
                    assert(best_inner(d, cls, text, base, k, cur, c, j, i + 1, n_end, n_ext, n_tid));
                } else {
                    assert(no_better(d, cls, text, l0, bt, k + 1, tid));
                    assert(cand(d, cls, text, l0, bt));
                    assert(best_in_at(d, cls, text, base, k, cur, c, j, i + 1, l0, bt, n_end, n_ext));
                    assert(best_inner(d, cls, text, base, k, cur, c, j, i + 1, n_end, n_ext, n_tid));
                }
            } else {
                assert(cand(d, cls, text, l0, bt));
                assert(best_in_at(d, cls, text, base, k, cur, c, j, i + 1, l0, bt, n_end, n_ext));
                assert(best_inner(d, cls, text, base, k, cur, c, j, i + 1, n_end, n_ext, n_tid));
            }
        }
    }
}

pub proof fn lemma_extent_bound(d: DfaCore, cls: Cls, text: Seq<char>, l: int, tid: TerminalID)
    requires 1 <= l <= text.len()
    ensures extent(d, cls, text, l, tid) <= blen(text), blen(text.take(l)) <= extent(d, cls, text, l, tid)
{
    reveal(best_inner); reveal(best_outer); reveal(fired_to);
    let rest = text.skip(l);
    lemma_blen_split(text, l);
    if d.lookaheads@.contains_key(tid) && d.lookaheads@[tid].is_positive && has_match(core(*d.lookaheads@[tid].nfa), cls, rest) {
        let nfa = core(*d.lookaheads@[tid].nfa);
        let (l1, t1) = choose|l1: int, t1: TerminalID| 1 <= l1 <= rest.len() && #[trigger] acc(nfa, cls, rest.take(l1), t1);
        lemma_longest_exists(nfa, cls, rest, l1, rest.len() as int);
        let m = longest(nfa, cls, rest);
        lemma_blen_take_mono(rest, 0, m);
    }
}

/// there is a longest match whenever there is a match
pub proof fn lemma_longest_exists(d: DfaCore, cls: Cls, rest: Seq<char>, l1: int, hi: int)
    requires 1 <= l1 <= hi <= rest.len(), exists|t1: TerminalID| #[trigger] acc(d, cls, rest.take(l1), t1),
        forall|l2: int, tid2: TerminalID| hi < l2 <= rest.len() ==> !#[trigger] acc(d, cls, rest.take(l2), tid2)
    ensures is_longest(d, cls, rest, longest(d, cls, rest))
    decreases hi - l1
{
    reveal(best_inner); reveal(best_outer); reveal(fired_to);
    if exists|t: TerminalID| #[trigger] acc(d, cls, rest.take(hi), t) {
        assert(is_longest(d, cls, rest, hi));
    } else {
        assert(l1 < hi);
        lemma_longest_exists(d, cls, rest, l1, hi - 1);
    }
}


pub proof fn lemma_outer_to_inner(d: DfaCore, cls: Cls, text: Seq<char>, base: nat, k: int, cur: Seq<StateSetID>, c: char,
    m_end: Option<usize>, m_ext: Option<usize>, m_tid: Option<TerminalID>)
    requires best_outer(d, cls, text, base, k, m_end, m_ext, m_tid)
    ensures best_inner(d, cls, text, base, k, cur, c, 0, 0, m_end, m_ext, m_tid)
{
    reveal(best_inner); reveal(best_outer); reveal(fired_to);
    assert forall|t: int| !fired_to(d, cls, cur, c, 0, 0, t) by { }
    match m_tid {
        None => {}
        Some(tid) => {
            let l = choose|l: int| #[trigger] best_out_at(d, cls, text, base, k, l, tid, m_end, m_ext);
            assert(best_in_at(d, cls, text, base, k, cur, c, 0, 0, l, tid, m_end, m_ext));
        }
    }
}

pub proof fn lemma_inner_to_outer(d: DfaCore, cls: Cls, text: Seq<char>, base: nat, k: int, cur: Seq<StateSetID>,
    m_end: Option<usize>, m_ext: Option<usize>, m_tid: Option<TerminalID>)
    requires
        0 <= k < text.len(), wf_flat(d),
        forall|x: StateSetID| #[trigger] cur.contains(x) <==> (x.0 < d.states@.len() && reach(d, cls, text.take(k), x.0 as int)),
        best_inner(d, cls, text, base, k, cur, text[k], cur.len() as int, 0, m_end, m_ext, m_tid)
    ensures best_outer(d, cls, text, base, k + 1, m_end, m_ext, m_tid)
{
    reveal(best_inner); reveal(best_outer); reveal(fired_to);
    lemma_fired_all_is_reach(d, cls, text, k, cur);
    let c = text[k];
    match m_tid {
        None => {
            assert forall|l: int, tid: TerminalID| 1 <= l <= k + 1 implies !#[trigger] cand(d, cls, text, l, tid) by {
                if l == k + 1 && cand(d, cls, text, l, tid) {
                    let t = choose|t: int| 0 <= t < d.states@.len() && #[trigger] reach(d, cls, text.take(k + 1), t) && d.end_states@[t] == (true, tid);
                    assert(fired_to(d, cls, cur, c, cur.len() as int, 0, t));
                }
            }
        }
        Some(tid) => {
            let l = choose|l: int| #[trigger] best_in_at(d, cls, text, base, k, cur, c, cur.len() as int, 0, l, tid, m_end, m_ext);
            assert forall|l2: int, tid2: TerminalID| 1 <= l2 <= k + 1 && #[trigger] cand(d, cls, text, l2, tid2) implies no_better(d, cls, text, l, tid, l2, tid2) by {
                if l2 == k + 1 {
                    let t = choose|t: int| 0 <= t < d.states@.len() && #[trigger] reach(d, cls, text.take(k + 1), t) && d.end_states@[t] == (true, tid2);
                    assert(fired_to(d, cls, cur, c, cur.len() as int, 0, t));
                }
            }
            assert(best_out_at(d, cls, text, base, k + 1, l, tid, m_end, m_ext));
        }
    }
}

pub proof fn lemma_outer_to_post(d: DfaCore, cls: Cls, text: Seq<char>, base: nat, k: int,
    m_start: Option<usize>, m_end: Option<usize>, m_ext: Option<usize>, m_tid: Option<TerminalID>, res: Option<Match>)
    requires
        0 <= k <= text.len(), base + blen(text) <= usize::MAX,
        best_outer(d, cls, text, base, k, m_end, m_ext, m_tid),
        k == text.len() || forall|t: int| !reach(d, cls, text.take(k), t),
        m_start == (if k == 0 { None } else { Some(base as usize) }),
        match m_tid {
            None => res is None,
            Some(tid) => res is Some && m_start is Some && m_end is Some && res->0.token_type == tid.0 as usize && res->0.span.start == m_start->0 && res->0.span.end == m_end->0,
        }
    ensures find_post(d, cls, text, base, res)
{
    reveal(best_inner); reveal(best_outer); reveal(fired_to);
    assert forall|l: int, tid: TerminalID| k < l <= text.len() implies !#[trigger] cand(d, cls, text, l, tid) by {
        lemma_reach_empty_stays(d, cls, text, k, l);
    }
    match m_tid {
        None => {}
        Some(tid) => {
            let l = choose|l: int| #[trigger] best_out_at(d, cls, text, base, k, l, tid, m_end, m_ext);
            lemma_blen_take_mono(text, 0, l);
            assert(TerminalID(res->0.token_type as u32) == tid);
            assert(cand(d, cls, text, l, tid));
        }
    }
}

pub proof fn lemma_best_outer_init(d: DfaCore, cls: Cls, text: Seq<char>, base: nat)
    ensures best_outer(d, cls, text, base, 0, None, None, None)
{
    reveal(best_outer);
}

pub proof fn lemma_outer_shape(d: DfaCore, cls: Cls, text: Seq<char>, base: nat, k: int,
    m_end: Option<usize>, m_ext: Option<usize>, m_tid: Option<TerminalID>)
    requires best_outer(d, cls, text, base, k, m_end, m_ext, m_tid)
    ensures (m_tid is Some) == (m_end is Some), (m_tid is Some) == (m_ext is Some), m_tid is Some ==> k >= 1
{
    reveal(best_outer);
    if m_tid is Some {
        let l = choose|l: int| #[trigger] best_out_at(d, cls, text, base, k, l, m_tid->0, m_end, m_ext);
    }
}

pub proof fn lemma_inner_shape(d: DfaCore, cls: Cls, text: Seq<char>, base: nat, k: int, cur: Seq<StateSetID>, c: char, j: int, i: int,
    m_end: Option<usize>, m_ext: Option<usize>, m_tid: Option<TerminalID>)
    requires wf_flat(d), best_inner(d, cls, text, base, k, cur, c, j, i, m_end, m_ext, m_tid)
    ensures (m_tid is Some) == (m_end is Some), (m_tid is Some) == (m_ext is Some),
        m_tid is Some ==> d.terminal_ids@.contains(m_tid->0)
{
    reveal(best_inner);
    if m_tid is Some {
        let tid = m_tid->0;
        let l = choose|l: int| #[trigger] best_in_at(d, cls, text, base, k, cur, c, j, i, l, tid, m_end, m_ext);
        assert(cand(d, cls, text, l, tid));
        let t = choose|t: int| 0 <= t < d.states@.len() && #[trigger] reach(d, cls, text.take(l), t) && d.end_states@[t] == (true, tid);
        assert(d.end_states@[t].0);
    }
}

pub proof fn lemma_next_states_step(d: DfaCore, cls: Cls, cur: Seq<StateSetID>, c: char, j: int, i: int,
    o_next: Seq<StateSetID>, n_next: Seq<StateSetID>, nx: StateSetID, fired: bool)
    requires
        wf_flat(d), 0 <= j < cur.len(), cur[j].0 < d.states@.len(), 0 <= i < trans(d, cur[j].0 as int).len(),
        nx == trans(d, cur[j].0 as int)[i].1,
        fired == fires(d, cls, cur[j].0 as int, i, c),
        forall|x: StateSetID| #[trigger] o_next.contains(x) <==> (x.0 < d.states@.len() && fired_to(d, cls, cur, c, j, i, x.0 as int)),
        n_next == (if fired && !o_next.contains(nx) { o_next.push(nx) } else { o_next }),
    ensures
        forall|x: StateSetID| #[trigger] n_next.contains(x) <==> (x.0 < d.states@.len() && fired_to(d, cls, cur, c, j, i + 1, x.0 as int)),
{
    lemma_fired_step(d, cls, cur, c, j, i);
    assert(nx.0 < d.states@.len());
    assert forall|x: StateSetID| #[trigger] n_next.contains(x) <==> (x.0 < d.states@.len() && fired_to(d, cls, cur, c, j, i + 1, x.0 as int)) by {
        if fired && !o_next.contains(nx) {
            if n_next.contains(x) {
                let p = choose|p: int| 0 <= p < n_next.len() && n_next[p] == x;
                if p < o_next.len() { assert(o_next[p] == x); assert(o_next.contains(x)); }
            }
            if o_next.contains(x) {
                let p = choose|p: int| 0 <= p < o_next.len() && o_next[p] == x;
                assert(n_next[p] == x);
            }
            assert(n_next[o_next.len() as int] == nx);
        }
    }
}

pub proof fn lemma_split_is_rest(input: Seq<char>, n0: int, k: int, mid: nat, b: Seq<char>)
    requires
        0 <= n0, 0 <= k, n0 + k + 1 <= input.len(),
        mid == blen(input.take(n0)) + blen(input.skip(n0).take(k + 1)),
        exists|kk: int| 0 <= kk <= input.len() && blen(#[trigger] input.take(kk)) == mid && b == input.skip(kk),
    ensures b == input.skip(n0).skip(k + 1)
{
    lemma_take_take_skip(input, n0, k + 1);
    let kk = choose|kk: int| 0 <= kk <= input.len() && blen(#[trigger] input.take(kk)) == mid && b == input.skip(kk);
    if kk < n0 + k + 1 { lemma_blen_take_mono(input, kk, n0 + k + 1); }
    if n0 + k + 1 < kk { lemma_blen_take_mono(input, n0 + k + 1, kk); }
}

pub proof fn lemma_split_none_impossible(input: Seq<char>, n0: int, k: int, mid: nat)
    requires
        0 <= n0, 0 <= k, n0 + k + 1 <= input.len(),
        mid == blen(input.take(n0)) + blen(input.skip(n0).take(k + 1)),
        forall|kk: int| 0 <= kk <= input.len() ==> blen(#[trigger] input.take(kk)) != mid,
    ensures false
{
    lemma_take_take_skip(input, n0, k + 1);
    assert(blen(input.take(n0 + k + 1)) == mid);
}

/// the lookahead bookkeeping of the loop body agrees with la_ok / la_len
pub proof fn lemma_la_absent(d: DfaCore, cls: Cls, tid: TerminalID, rest: Seq<char>)
    requires !d.lookaheads@.contains_key(tid)
    ensures la_ok(d, cls, tid, rest), la_len(d, cls, tid, rest) == 0
{
}

pub proof fn lemma_la_present(d: DfaCore, cls: Cls, tid: TerminalID, rest: Seq<char>, satisfied: bool, len: nat)
    requires
        d.lookaheads@.contains_key(tid),
        satisfied == (d.lookaheads@[tid].is_positive == has_match(core(*d.lookaheads@[tid].nfa), cls, rest)),
        has_match(core(*d.lookaheads@[tid].nfa), cls, rest) ==> len == blen(rest.take(longest(core(*d.lookaheads@[tid].nfa), cls, rest))),
        !has_match(core(*d.lookaheads@[tid].nfa), cls, rest) ==> len == 0,
    ensures
        satisfied == la_ok(d, cls, tid, rest),
        satisfied ==> len == la_len(d, cls, tid, rest),
{
}

pub proof fn lemma_fired_none(d: DfaCore, cls: Cls, cur: Seq<StateSetID>, c: char)
    ensures forall|t: int| !fired_to(d, cls, cur, c, 0, 0, t)
{
    reveal(fired_to);
}

pub proof fn lemma_best_inner_next_state(d: DfaCore, cls: Cls, text: Seq<char>, base: nat, k: int, cur: Seq<StateSetID>, c: char, j: int,
    m_end: Option<usize>, m_ext: Option<usize>, m_tid: Option<TerminalID>)
    requires 0 <= j < cur.len(),
        best_inner(d, cls, text, base, k, cur, c, j, trans(d, cur[j].0 as int).len() as int, m_end, m_ext, m_tid)
    ensures best_inner(d, cls, text, base, k, cur, c, j + 1, 0, m_end, m_ext, m_tid)
{
    reveal(best_inner);
    lemma_fired_next_state(d, cls, cur, c, j);
    let n = trans(d, cur[j].0 as int).len() as int;
    assert forall|t: int| #[trigger] fired_to(d, cls, cur, c, j + 1, 0, t) implies fired_to(d, cls, cur, c, j, n, t) by {
        if !fired_to(d, cls, cur, c, j, n, t) { }
    }
    match m_tid {
        None => {}
        Some(tid) => {
            let l = choose|l: int| #[trigger] best_in_at(d, cls, text, base, k, cur, c, j, n, l, tid, m_end, m_ext);
            assert(best_in_at(d, cls, text, base, k, cur, c, j + 1, 0, l, tid, m_end, m_ext));
        }
    }
}
pub proof fn lemma_reach_in_range(d: DfaCore, cls: Cls, w: Seq<char>, t: int)
    requires wf_flat(d), reach(d, cls, w, t)
    ensures 0 <= t < d.states@.len()
{
    if w.len() > 0 {
        lemma_reach_unfold(d, cls, w, t);
        let s = choose|s: int| 0 <= s < d.states@.len() && reach(d, cls, w.drop_last(), s) && #[trigger] step1(d, cls, s, w.last(), t);
        let i = choose|i: int| #[trigger] fires(d, cls, s, i, w.last()) && trans(d, s)[i].1.0 == t;
    }
}

// ---------------------------------------------------------------- C01: without lookaheads the outcome of a match attempt is unique
/// the index of the first occurrence determines the terminal id
/// a contained id has a first occurrence
/// C01 "exactly the tokens": for an automaton without lookaheads `find_post` determines the reported token completely
/// (the longest accepted non-empty prefix, and among the patterns accepting it the one listed first)
