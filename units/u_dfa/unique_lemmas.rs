// ---------------------------------------------------------------- C01: without lookaheads the outcome of a match attempt is unique
pub proof fn lemma_len0_no_key(d: DfaCore)
    requires d.lookaheads@.len() == 0
    ensures forall|t: TerminalID| !d.lookaheads@.contains_key(t)
{
    if exists|t: TerminalID| d.lookaheads@.contains_key(t) {
        let t = choose|t: TerminalID| d.lookaheads@.contains_key(t);
        assert(d.lookaheads@.dom().contains(t));
        vstd::set_lib::lemma_set_empty_equivalency_len(d.lookaheads@.dom());
    }
}

pub proof fn lemma_prio_inj(d: DfaCore, t1: TerminalID, t2: TerminalID)
    requires d.terminal_ids@.contains(t1), d.terminal_ids@.contains(t2), prio(d, t1) == prio(d, t2)
    ensures t1 == t2
{
    lemma_prio_exists(d.terminal_ids@, t1, 0);
    lemma_prio_exists(d.terminal_ids@, t2, 0);
}

pub proof fn lemma_prio_exists(ids: Seq<TerminalID>, tid: TerminalID, from: int)
    requires 0 <= from <= ids.len(), exists|p: int| from <= p < ids.len() && ids[p] == tid || ids.contains(tid) && from == 0,
        forall|j: int| 0 <= j < from ==> ids[j] != tid
    ensures exists|r: int| is_prio(ids, tid, r), is_prio(ids, tid, choose|r: int| is_prio(ids, tid, r))
    decreases ids.len() - from
{
    if ids.contains(tid) && from == 0 {
        let p = choose|p: int| 0 <= p < ids.len() && ids[p] == tid;
        assert(0 <= p < ids.len() && ids[p] == tid);
    }
    assert(from < ids.len());
    if ids[from] == tid {
        assert(is_prio(ids, tid, from));
    } else {
        let p = choose|p: int| from <= p < ids.len() && ids[p] == tid;
        assert(from + 1 <= p);
        lemma_prio_exists(ids, tid, from + 1);
    }
}

pub proof fn lemma_find_post_unique(d: DfaCore, cls: Cls, text: Seq<char>, base: nat, m1: Match, m2: Match)
    requires
        wf_flat(d), d.lookaheads@.len() == 0,
        find_post(d, cls, text, base, Some(m1)), find_post(d, cls, text, base, Some(m2)),
    ensures m1.span.start == m2.span.start, m1.span.end == m2.span.end, m1.token_type == m2.token_type
{
    lemma_len0_no_key(d);
    let t1 = TerminalID(m1.token_type as u32);
    let t2 = TerminalID(m2.token_type as u32);
    let l1 = choose|l: int| #[trigger] cand(d, cls, text, l, t1) && m1.span.end == base + blen(text.take(l))
        && forall|l2: int, tid2: TerminalID| #[trigger] cand(d, cls, text, l2, tid2) ==> no_better(d, cls, text, l, t1, l2, tid2);
    let l2 = choose|l: int| #[trigger] cand(d, cls, text, l, t2) && m2.span.end == base + blen(text.take(l))
        && forall|l3: int, tid3: TerminalID| #[trigger] cand(d, cls, text, l3, tid3) ==> no_better(d, cls, text, l, t2, l3, tid3);
    assert(no_better(d, cls, text, l1, t1, l2, t2));
    assert(no_better(d, cls, text, l2, t2, l1, t1));
    // without lookaheads the extent is the byte length of the prefix, which is strictly monotone in the length
    assert(extent(d, cls, text, l1, t1) == blen(text.take(l1)));
    assert(extent(d, cls, text, l2, t2) == blen(text.take(l2)));
    if l1 < l2 { lemma_blen_take_mono(text, l1, l2); }
    if l2 < l1 { lemma_blen_take_mono(text, l2, l1); }
    assert(l1 == l2);
    assert(prio(d, t1) == prio(d, t2));
    // both token types are accepted by some state, hence listed
    let s1 = choose|t: int| 0 <= t < d.states@.len() && #[trigger] reach(d, cls, text.take(l1), t) && d.end_states@[t] == (true, t1);
    let s2 = choose|t: int| 0 <= t < d.states@.len() && #[trigger] reach(d, cls, text.take(l2), t) && d.end_states@[t] == (true, t2);
    assert(d.end_states@[s1].0 && d.end_states@[s2].0);
    lemma_prio_inj(d, t1, t2);
}
