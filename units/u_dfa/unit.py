# U-dfa: CompiledDfa::find_from, priority_of, CompiledLookahead::satisfies_lookahead and the value types they use.
# Every `Fn`/`Struct`/`IdMacro` below is copied from /repo on each run; the strings are ghost text only.
from extract import *

F_DFA = 'scnr/src/internal/compiled_dfa.rs'
F_LA = 'scnr/src/internal/compiled_lookahead.rs'
F_IDS = 'scnr/src/internal/ids.rs'
F_SPAN = 'scnr/src/span.rs'
F_MATCH = 'scnr/src/match_type.rs'

ID_SPECS = {
    'new': 'ensures r.0 == index',
    'as_usize': 'ensures r == self.0',
    'id': 'ensures r == self.0',
}

COMMON_INV = '''
wf(d),
base + blen(text) <= usize::MAX,
text == input@.skip(n0), base == blen(input@.take(n0)), 0 <= n0 <= input@.len(),
self.states == d.states,
self.end_states == d.end_states,
self.terminal_ids == d.terminal_ids,
self.lookaheads == d.lookaheads,
self.patterns == d.patterns,
cls_functional(match_char_class, d), cls == cls_of(match_char_class),
'''

INNER_INV = COMMON_INV + '''
self.current_states@ == cur,
0 <= k < text.len(), c == text[k], index == base + blen(text.take(k)), rest == text.skip(k + 1),
forall|x: StateSetID| #[trigger] cur.contains(x) <==> (x.0 < d.states@.len() && reach(d, cls, text.take(k), x.0 as int)),
match_start == Some(base as usize),
'''

find_from = Fn(
    F_DFA, 'CompiledDfa', 'find_from', ret='res',
    spec='''
requires
    wf(core(*old(self))),
    char_indices.obeys_prophetic_iter_laws(), char_indices.decrease() is Some,
    cls_functional(match_char_class, core(*old(self))),
    exists|n: int| ci_at(char_indices.remaining(), input@, n),
ensures
    final(self).states == old(self).states,
    final(self).end_states == old(self).end_states,
    final(self).terminal_ids == old(self).terminal_ids,
    final(self).lookaheads == old(self).lookaheads,
    final(self).patterns == old(self).patterns,
    forall|n: int| ci_at(char_indices.remaining(), input@, n) ==>
        find_post(core(*old(self)), cls_of(match_char_class), input@.skip(n), blen(input@.take(n)), res),
decreases (if old(self).lookaheads@.len() == 0 { 0int } else { 1int }), 1int
''',
    props=['C01', 'C04', 'C05', 'C07', 'C12'],
    edits=[
        Ins('body_start', None, '''
broadcast use lemma_clen_bounds, axiom_terminal_id_key_model, axiom_fx_valid;
let ghost d = core(*self);
let ghost cls = cls_of(match_char_class);
let ghost rem0 = char_indices.remaining();
let ghost n0 = choose|n: int| ci_at(rem0, input@, n);
let ghost text = input@.skip(n0);
let ghost base = blen(input@.take(n0));
let ghost mut k: int = 0;
proof {
    axiom_str_blen(input);
    lemma_blen_split(input@, n0);
}
''', label='find_from.entry'),
        Ins('before', 'for (index, c) in char_indices {', '''
proof {
    assert(text.take(0) =~= Seq::<char>::empty());
    assert forall|x: StateSetID| #[trigger] self.current_states@.contains(x) <==> (x.0 < d.states@.len() && reach(d, cls, text.take(0), x.0 as int)) by {
        if x.0 < d.states@.len() && reach(d, cls, text.take(0), x.0 as int) {
            assert(self.current_states@[0] == x);
        }
    }
    assert(ci_seq(text, base).skip(0) =~= ci_seq(text, base));
    lemma_best_outer_init(d, cls, text, base);
}
''', label='find_from.init'),
        ForLoop('for (index, c) in char_indices {', it='__it0', label='find_from.loop_chars', spec='''
invariant
    __it0.obeys_prophetic_iter_laws(), __it0.decrease() is Some,
''' + COMMON_INV + '''
    0 <= k <= text.len(),
    __it0.remaining() == ci_seq(text, base).skip(k),
    forall|x: StateSetID| #[trigger] self.current_states@.contains(x) <==> (x.0 < d.states@.len() && reach(d, cls, text.take(k), x.0 as int)),
    self.next_states@.len() == 0,
    best_outer(d, cls, text, base, k, match_end, match_extent, match_terminal_id),
    match_start == (if k == 0 { None } else { Some(base as usize) }),
ensures
    k == text.len() || forall|t: int| !reach(d, cls, text.take(k), t),
decreases __it0.decrease()->0
'''),
        Ins('after', 'for (index, c) in char_indices {', '''
proof {
    assert(k < text.len());
    lemma_blen_take_mono(text, k, k + 1);
    assert(ci_seq(text, base).skip(k)[0] == ci_seq(text, base)[k]);
    assert(c == text[k] && index == base + blen(text.take(k)));
    assert(text.take(k + 1).drop_last() =~= text.take(k));
    assert(ci_seq(text, base).skip(k).drop_first() =~= ci_seq(text, base).skip(k + 1));
    lemma_outer_to_inner(d, cls, text, base, k, self.current_states@, c, match_end, match_extent, match_terminal_id);
    lemma_fired_none(d, cls, self.current_states@, c);
}
''', label='find_from.char_read'),
        Ins('before', 'for state in self.current_states.iter() {', '''
let ghost cur = self.current_states@;
let ghost rest = text.skip(k + 1);
'''),
        ForLoop('for state in self.current_states.iter() {', it='__it1', into_iter=False, label='find_from.loop_states', spec='''
invariant
    __it1.obeys_prophetic_iter_laws(), __it1.decrease() is Some,
''' + INNER_INV + '''
    0 <= cur.len() - __it1.remaining().len() <= cur.len(),
    forall|q: int| 0 <= q < __it1.remaining().len() ==> *#[trigger] __it1.remaining()[q] == cur[cur.len() - __it1.remaining().len() + q],
    forall|x: StateSetID| #[trigger] self.next_states@.contains(x) <==> (x.0 < d.states@.len() && fired_to(d, cls, cur, c, cur.len() - __it1.remaining().len(), 0, x.0 as int)),
    best_inner(d, cls, text, base, k, cur, c, cur.len() - __it1.remaining().len(), 0, match_end, match_extent, match_terminal_id),
ensures
    __it1.remaining().len() == 0,
decreases __it1.decrease()->0
''', body_pre='let ghost j = cur.len() - __it1.remaining().len();'),
        Ins('after', 'for state in self.current_states.iter() {', '''
proof {
    assert(*state == cur[j]);
    assert(cur.contains(cur[j]));
}
let ghost tr = trans(d, state.0 as int);
'''),
        ForLoop('for (cc, next) in &self.states[*state].transitions {', it='__it2', label='find_from.loop_transitions', spec='''
invariant
    __it2.obeys_prophetic_iter_laws(), __it2.decrease() is Some,
''' + INNER_INV + '''
    0 <= j < cur.len(), *state == cur[j], state.0 < d.states@.len(), tr == trans(d, state.0 as int), reach(d, cls, text.take(k), cur[j].0 as int),
    0 <= tr.len() - __it2.remaining().len() <= tr.len(),
    forall|q: int| 0 <= q < __it2.remaining().len() ==> *#[trigger] __it2.remaining()[q] == tr[tr.len() - __it2.remaining().len() + q],
    forall|x: StateSetID| #[trigger] self.next_states@.contains(x) <==> (x.0 < d.states@.len() && fired_to(d, cls, cur, c, j, tr.len() - __it2.remaining().len(), x.0 as int)),
    best_inner(d, cls, text, base, k, cur, c, j, tr.len() - __it2.remaining().len(), match_end, match_extent, match_terminal_id),
ensures
    __it2.remaining().len() == 0,
decreases __it2.decrease()->0
''', body_pre='''
let ghost i = tr.len() - __it2.remaining().len();
let ghost (o_end, o_ext, o_tid) = (match_end, match_extent, match_terminal_id);
let ghost o_next = self.next_states@;
'''),
        Ins('after', 'for (cc, next) in &self.states[*state].transitions {', '''
let ghost t = next.0 as int;
let ghost tid = d.end_states@[t].1;
let ghost fired = fires(d, cls, state.0 as int, i, c);
proof {
    broadcast use lemma_clen_bounds, axiom_terminal_id_key_model, axiom_fx_valid;
    assert((*cc, *next) == tr[i]);
    lemma_blen_take_next(text, k);
    assert(0 <= t < d.states@.len());
    lemma_inner_shape(d, cls, text, base, k, cur, c, j, i, match_end, match_extent, match_terminal_id);
}
''', label='find_from.transition_read'),
        Ins('after_stmt', 'if !self.next_states.contains(next) {', '''
proof {
    lemma_next_states_step(d, cls, cur, c, j, i, o_next, self.next_states@, *next, fired);
}
''', label='find_from.next_states'),
        Ins('after', 'if let Some(lookahead) = self.lookaheads.get($_) {', '''
proof {
    broadcast use axiom_terminal_id_key_model, axiom_fx_valid;
    assert(d.lookaheads@.contains_key(tid));
    assert(*lookahead == d.lookaheads@[tid]);
    lemma_key_len_pos(d, tid);
}
''', label='find_from.lookahead_present'),
        Ins('after', 'input.split_at_checked($_) {', '''
proof {
    lemma_split_is_rest(input@, n0, k, (index + clen(c)) as nat, next_slice@);
}
''', label='find_from.slice_is_rest'),
        Ins('after_stmt', 'let mut lookahead = $_;', '''
proof {
    assert(next_slice@.skip(0) =~= next_slice@);
    assert(next_slice@.take(0) =~= Seq::<char>::empty());
    assert(ci_at(char_indices.remaining(), next_slice@, 0));
}
''', label='find_from.lookahead_call_pre'),
        Ins('after_stmt', 'let (satisfied, len) = lookahead.satisfies_lookahead(', '''
proof {
    lemma_la_present(d, cls, tid, rest, satisfied, len as nat);
}
''', label='find_from.lookahead_result'),
        Ins('before', 'continue', '''
proof {
    lemma_best_step(d, cls, text, base, k, cur, c, j, i, t, false, o_end, o_ext, o_tid, match_end, match_extent, match_terminal_id);
}
''', occ=1, label='find_from.lookahead_unsatisfied'),
        Ins('after', 'lookahead_len = len; } else {', '''
proof {
    lemma_split_none_impossible(input@, n0, k, (index + clen(c)) as nat);
}
''', label='find_from.at_end_of_input'),
        Ins('before', 'let end = $_;', '''
proof {
    broadcast use axiom_terminal_id_key_model, axiom_fx_valid;
    if !d.lookaheads@.contains_key(tid) {
        lemma_la_absent(d, cls, tid, rest);
    }
    assert(la_ok(d, cls, tid, rest));
    assert(lookahead_len == la_len(d, cls, tid, rest));
    lemma_extent_bound(d, cls, text, k + 1, tid);
}
''', label='find_from.candidate'),
        Ins('block_end', 'for (cc, next) in &self.states[*state].transitions {', '''
proof {
    if !fired {
        lemma_next_states_step(d, cls, cur, c, j, i, o_next, self.next_states@, *next, fired);
    }
    let hit = fired && d.end_states@[t].0 && la_ok(d, cls, tid, rest);
    lemma_best_step(d, cls, text, base, k, cur, c, j, i, t, hit, o_end, o_ext, o_tid, match_end, match_extent, match_terminal_id);
}
''', label='find_from.best_candidate_step'),
        Ins('block_end', 'for state in self.current_states.iter() {', '''
proof {
    lemma_fired_next_state(d, cls, cur, c, j);
    lemma_best_inner_next_state(d, cls, text, base, k, cur, c, j, match_end, match_extent, match_terminal_id);
}
'''),
        Ins('after_stmt', 'for state in self.current_states.iter() {', '''
proof {
    lemma_inner_to_outer(d, cls, text, base, k, cur, match_end, match_extent, match_terminal_id);
    lemma_fired_all_is_reach(d, cls, text, k, cur);
    k = k + 1;
}
''', label='find_from.char_done'),
        Ins('before', 'break', '''
proof {
    assert forall|t: int| !reach(d, cls, text.take(k), t) by {
        if reach(d, cls, text.take(k), t) {
            lemma_reach_in_range(d, cls, text.take(k), t);
            assert(self.current_states@.contains(StateSetID(t as u32)));
        }
    }
}
''', occ=1, label='find_from.dead_end'),
        Ins('after_stmt', 'for (index, c) in char_indices {', '''
proof { lemma_outer_shape(d, cls, text, base, k, match_end, match_extent, match_terminal_id); }
'''),
        Closure('|match_terminal_id|', '''|match_terminal_id: TerminalID| -> (m: Match)
            requires match_start is Some, match_end is Some
            ensures m.token_type == match_terminal_id.0 as usize, m.span.start == match_start->0, m.span.end == match_end->0
        '''),
        Tail('''
proof {
    lemma_outer_to_post(d, cls, text, base, k, match_start, match_end, match_extent, match_terminal_id, __res);
    assert forall|n: int| ci_at(rem0, input@, n) implies find_post(d, cls, input@.skip(n), blen(input@.take(n)), __res) by {
        lemma_ci_at_unique(rem0, input@, n, n0);
    }
}
''', label='find_from.post'),
    ])

priority_of = Fn(
    F_DFA, 'CompiledDfa', 'priority_of', ret='r',
    spec='''
requires self.terminal_ids@.contains(terminal_id)
ensures is_prio(self.terminal_ids@, terminal_id, r as int), r as int == prio(core(*self), terminal_id)
''',
    props=['C01', 'C05', 'C07'],
    edits=[
        Replace('E3+E6', 'self.terminal_ids.iter().position(|&id| $body).unwrap()', '''{
    let __cl0 = |id0: &TerminalID| -> (b: bool) ensures b == ({ let id = *id0; $body }) { let id = *id0; $body };
    let ghost g = |id: TerminalID| $body;
    let mut __it = self.terminal_ids.iter();
    let ghost rem = __it.remaining();
    proof {
        assert(models_pred(__cl0, g));
        assert(rem.len() == self.terminal_ids@.len());
        assert(forall|i: int| 0 <= i < rem.len() ==> *#[trigger] rem[i] == self.terminal_ids@[i]);
    }
    let __t0 = __it.position(__cl0);
    proof {
        assert(models_pred(__cl0, g));
        if __t0 is None {
            assert(forall|i: int| 0 <= i < rem.len() ==> !g(*#[trigger] rem[i]));
            let p = choose|p: int| 0 <= p < self.terminal_ids@.len() && self.terminal_ids@[p] == terminal_id;
            assert(!g(*rem[p]));
        }
        let k = __t0->0 as int;
        assert(g(*rem[k]));
        assert forall|j: int| 0 <= j < k implies self.terminal_ids@[j] != terminal_id by {
            assert(!g(*rem[j]));
        }
        assert(is_prio(self.terminal_ids@, terminal_id, k));
        lemma_prio_unique(self.terminal_ids@, terminal_id, k, prio(core(*self), terminal_id));
    }
    __t0.unwrap()
}''', why='closure pattern `|&id|` bound to a variable and hoisted (E3); iter().position(..).unwrap() chain split (E6)'),
    ])

satisfies_lookahead = Fn(
    F_LA, 'CompiledLookahead', 'satisfies_lookahead', ret='res',
    spec='''
requires
    wf_flat(core(*old(self).nfa)), old(self).nfa.lookaheads@.len() == 0,
    char_indices.obeys_prophetic_iter_laws(), char_indices.decrease() is Some,
    cls_functional(match_char_class, core(*old(self).nfa)),
    exists|n: int| ci_at(char_indices.remaining(), input@, n),
ensures
    forall|n: int| ci_at(char_indices.remaining(), input@, n) ==> {
        let d = core(*old(self).nfa); let rest = input@.skip(n); let cls = cls_of(match_char_class);
        &&& res.0 == (old(self).is_positive == has_match(d, cls, rest))
        &&& has_match(d, cls, rest) ==> res.1 == blen(rest.take(longest(d, cls, rest)))
        &&& !has_match(d, cls, rest) ==> res.1 == 0
    }
decreases 1int, 0int
''',
    props=['C04', 'C05', 'C07'],
    edits=[
        Ins('body_start', None, '''
broadcast use lemma_clen_bounds, axiom_terminal_id_key_model, axiom_fx_valid;
let ghost d = core(*self.nfa);
let ghost rem = char_indices.remaining();
proof { lemma_len0_no_key(d); }
'''),
        Ins('after', 'if let Some(ma) = $_ {', '''
proof {
    assert forall|n: int| ci_at(rem, input@, n) implies has_match(d, cls_of(match_char_class), input@.skip(n))
        && ma.span.end - ma.span.start == blen(input@.skip(n).take(longest(d, cls_of(match_char_class), input@.skip(n)))) by {
        lemma_nola_best_is_longest(d, cls_of(match_char_class), input@.skip(n), blen(input@.take(n)), Some(ma));
    }
}
''', label='satisfies_lookahead.matched'),
        Ins('after', '} else {', '''
proof {
    assert forall|n: int| ci_at(rem, input@, n) implies !has_match(d, cls_of(match_char_class), input@.skip(n)) by {
        lemma_nola_best_is_longest(d, cls_of(match_char_class), input@.skip(n), blen(input@.take(n)), None);
    }
}
''', label='satisfies_lookahead.unmatched'),
    ])

UNIT = dict(
    name='u_dfa',
    externs=['rustc_hash'],
    header='''#![allow(unused_imports, unused_variables, unused_mut, unused_assignments, dead_code, unused_parens, unused_braces)]
use vstd::prelude::*;
use vstd::std_specs::iter::IteratorSpec;
use rustc_hash::FxHashMap;
''',
    items=[
        RawFile('../common/std_prelude.rs'),
        IdMacro(F_IDS, 'StateSetID', members=('new', 'as_usize'), specs=ID_SPECS),
        IdMacro(F_IDS, 'CharClassID', members=('as_usize',), index_for=(), specs=ID_SPECS),
        IdMacro(F_IDS, 'TerminalID', members=('as_usize',), index_for=(), specs=ID_SPECS),
        Struct(F_SPAN, 'Span', derive=[]),
        Struct(F_MATCH, 'Match', derive=[]),
        Fn(F_SPAN, 'Span', 'new', ret='r', spec='ensures r.start == start, r.end == end', props=['C07']),
        Fn(F_SPAN, 'Span', 'len', ret='r', spec='ensures r == if self.end >= self.start { self.end - self.start } else { 0 }', props=['C07']),
        Fn(F_MATCH, 'Match', 'new', ret='r', spec='ensures r.token_type == token_type, r.span == span', props=['C07']),
        Fn(F_MATCH, 'Match', 'len', ret='r', spec='ensures r == if self.span.end >= self.span.start { self.span.end - self.span.start } else { 0 }', props=['C07']),
        Struct(F_DFA, 'StateData', derive=[]),
        Struct(F_LA, 'CompiledLookahead', derive=[]),
        Struct(F_DFA, 'CompiledDfa', derive=[]),
        Raw('''
// TRUSTED: #[derive(Clone)] on CompiledLookahead/CompiledDfa copies every field
impl Clone for CompiledLookahead {
    #[verifier::external_body]
    fn clone(&self) -> (r: Self) ensures r == *self { unimplemented!() }
}
''', label='trusted: derived Clone of CompiledLookahead is structural'),
        RawFile('../common/dfa_wf.rs'),
        RawFile('../common/dfa_match.rs'),
        RawFile('spec.rs'),
        RawFile('../common/blen_lemmas.rs'),
        RawFile('unique_lemmas.rs'),
        RawFile('lemmas.rs'),
        satisfies_lookahead,
        find_from,
        priority_of,
    ],
    # obligation groups -> properties (groups not listed here are library lemmas that serve every property of the unit)
    props=['C01', 'C04', 'C05', 'C07', 'C12'],
)
