// ---------------------------------------------------------------- specification
pub open spec fn la_len(d: DfaCore, cls: Cls, tid: TerminalID, rest: Seq<char>) -> nat {
    if d.lookaheads@.contains_key(tid) && d.lookaheads@[tid].is_positive && has_match(core(*d.lookaheads@[tid].nfa), cls, rest) {
        blen(rest.take(longest(core(*d.lookaheads@[tid].nfa), cls, rest)))
    } else { 0 }
}


pub open spec fn extent(d: DfaCore, cls: Cls, text: Seq<char>, l: int, tid: TerminalID) -> nat {
    blen(text.take(l)) + la_len(d, cls, tid, text.skip(l))
}

/// (l, tid) is at least as good as (l2, tid2): larger extent, or equal extent and not lower priority
pub open spec fn no_better(d: DfaCore, cls: Cls, text: Seq<char>, l: int, tid: TerminalID, l2: int, tid2: TerminalID) -> bool {
    extent(d, cls, text, l2, tid2) < extent(d, cls, text, l, tid)
    || (extent(d, cls, text, l2, tid2) == extent(d, cls, text, l, tid) && prio(d, tid2) >= prio(d, tid))
}

pub open spec fn before(j2: int, i2: int, j: int, i: int) -> bool { j2 < j || (j2 == j && i2 < i) }

#[verifier::opaque]
pub open spec fn fired_to(d: DfaCore, cls: Cls, cur: Seq<StateSetID>, c: char, j: int, i: int, t: int) -> bool {
    exists|j2: int, i2: int| 0 <= j2 < cur.len() && before(j2, i2, j, i) && #[trigger] fires(d, cls, cur[j2].0 as int, i2, c) && trans(d, cur[j2].0 as int)[i2].1.0 == t
}

pub open spec fn best_in_at(d: DfaCore, cls: Cls, text: Seq<char>, base: nat, k: int, cur: Seq<StateSetID>, c: char, j: int, i: int,
    l: int, tid: TerminalID, m_end: Option<usize>, m_ext: Option<usize>) -> bool
{
    &&& 1 <= l <= k + 1
    &&& cand(d, cls, text, l, tid)
    &&& m_end == Some((base + blen(text.take(l))) as usize)
    &&& m_ext == Some((base + extent(d, cls, text, l, tid)) as usize)
    &&& (forall|l2: int, tid2: TerminalID| 1 <= l2 <= k && #[trigger] cand(d, cls, text, l2, tid2) ==> no_better(d, cls, text, l, tid, l2, tid2))
    &&& (forall|t: int| #[trigger] fired_to(d, cls, cur, c, j, i, t) && 0 <= t < d.states@.len() && d.end_states@[t].0 && la_ok(d, cls, d.end_states@[t].1, text.skip(k + 1))
            ==> no_better(d, cls, text, l, tid, k + 1, d.end_states@[t].1))
}

#[verifier::opaque]
pub open spec fn best_inner(d: DfaCore, cls: Cls, text: Seq<char>, base: nat, k: int, cur: Seq<StateSetID>, c: char, j: int, i: int,
    m_end: Option<usize>, m_ext: Option<usize>, m_tid: Option<TerminalID>) -> bool
{
    match m_tid {
        None => m_ext is None && m_end is None
            && (forall|l: int, tid: TerminalID| 1 <= l <= k ==> !#[trigger] cand(d, cls, text, l, tid))
            && (forall|t: int| #[trigger] fired_to(d, cls, cur, c, j, i, t) && 0 <= t < d.states@.len() && d.end_states@[t].0 ==> !la_ok(d, cls, d.end_states@[t].1, text.skip(k + 1))),
        Some(tid) => exists|l: int| #[trigger] best_in_at(d, cls, text, base, k, cur, c, j, i, l, tid, m_end, m_ext),
    }
}

pub open spec fn best_out_at(d: DfaCore, cls: Cls, text: Seq<char>, base: nat, k: int,
    l: int, tid: TerminalID, m_end: Option<usize>, m_ext: Option<usize>) -> bool
{
    &&& 1 <= l <= k
    &&& cand(d, cls, text, l, tid)
    &&& m_end == Some((base + blen(text.take(l))) as usize)
    &&& m_ext == Some((base + extent(d, cls, text, l, tid)) as usize)
    &&& (forall|l2: int, tid2: TerminalID| 1 <= l2 <= k && #[trigger] cand(d, cls, text, l2, tid2) ==> no_better(d, cls, text, l, tid, l2, tid2))
}

#[verifier::opaque]
pub open spec fn best_outer(d: DfaCore, cls: Cls, text: Seq<char>, base: nat, k: int,
    m_end: Option<usize>, m_ext: Option<usize>, m_tid: Option<TerminalID>) -> bool
{
    match m_tid {
        None => m_ext is None && m_end is None
            && (forall|l: int, tid: TerminalID| 1 <= l <= k ==> !#[trigger] cand(d, cls, text, l, tid)),
        Some(tid) => exists|l: int| #[trigger] best_out_at(d, cls, text, base, k, l, tid, m_end, m_ext),
    }
}

/// relation between the haystack and an iterator positioned at char n of it
pub open spec fn ci_at(rem: Seq<(usize, char)>, input: Seq<char>, n: int) -> bool {
    0 <= n <= input.len() && rem == ci_seq(input.skip(n), blen(input.take(n)))
}

/// result contract of find_from
pub open spec fn find_post(d: DfaCore, cls: Cls, text: Seq<char>, base: nat, res: Option<Match>) -> bool {
    match res {
        None => forall|l: int, tid: TerminalID| !#[trigger] cand(d, cls, text, l, tid),
        Some(m) => m.token_type <= u32::MAX && m.span.start == base && exists|l: int|
            #[trigger] cand(d, cls, text, l, TerminalID(m.token_type as u32))
            && m.span.end == base + blen(text.take(l))
            && forall|l2: int, tid2: TerminalID| #[trigger] cand(d, cls, text, l2, tid2) ==> no_better(d, cls, text, l, TerminalID(m.token_type as u32), l2, tid2),
    }
}
