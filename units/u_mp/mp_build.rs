// ---------------------------------------------------------------- U-mp: the multi-pattern union built by MultiPatternNfa::try_from_patterns (C02)
/// what parse_regex_syntax returns for a pattern text it accepts (regex-syntax's parser: external, not verified)
pub uninterp spec fn spec_parse(text: Seq<char>) -> Ast;

/// Thompson automata of the first i patterns (before renumbering) and the registry after registering their leaves in order
pub open spec fn mp_th(pats: Seq<Pattern>, i: int, reg0: Seq<Ast>) -> (Seq<NfaV>, Seq<Ast>)
    decreases i
{
    if i <= 0 { (Seq::empty(), reg0) } else {
        let (vs, r) = mp_th(pats, i - 1, reg0);
        let (v, r2) = thompson(spec_parse(pats[i - 1].pattern@), r);
        (vs.push(v), r2)
    }
}
/// first state id of pattern i in the union: 1 + the sizes of the automata before it (state 0 is the union's start)
pub open spec fn mp_off(pats: Seq<Pattern>, i: int, reg0: Seq<Ast>) -> int
    decreases i
{
    if i <= 0 { 1 } else { mp_off(pats, i - 1, reg0) + mp_th(pats, i, reg0).0[i - 1].states.len() }
}
pub open spec fn mp_fits(pats: Seq<Pattern>, reg0: Seq<Ast>) -> bool {
    &&& forall|k: int| 0 <= k < pats.len() ==> th_fits(spec_parse(#[trigger] pats[k].pattern@), mp_th(pats, k, reg0).1)
    &&& mp_off(pats, pats.len() as int, reg0) <= u32::MAX
}
pub proof fn lemma_mp_th_len(pats: Seq<Pattern>, i: int, reg0: Seq<Ast>)
    requires 0 <= i
    ensures mp_th(pats, i, reg0).0.len() == i
    decreases i
{
    if i > 0 { lemma_mp_th_len(pats, i - 1, reg0); }
}
/// earlier entries do not change when more patterns are added
pub proof fn lemma_mp_th_prefix(pats: Seq<Pattern>, k: int, i: int, reg0: Seq<Ast>)
    requires 0 <= k < i
    ensures mp_th(pats, i, reg0).0[k] == mp_th(pats, k + 1, reg0).0[k]
    decreases i
{
    lemma_mp_th_len(pats, i - 1, reg0);
    lemma_mp_th_len(pats, k + 1, reg0);
    if i > k + 1 { lemma_mp_th_prefix(pats, k, i - 1, reg0); }
}
pub proof fn lemma_mp_off_mono(pats: Seq<Pattern>, k: int, i: int, reg0: Seq<Ast>)
    requires 0 <= k <= i
    ensures mp_off(pats, k, reg0) <= mp_off(pats, i, reg0), 1 <= mp_off(pats, k, reg0)
    decreases i
{
    if k < i { lemma_mp_off_mono(pats, k, i - 1, reg0); }
    else if k > 0 { lemma_mp_off_mono(pats, k - 1, k - 1, reg0); }
}

/// bridge between the view-level well-formedness U-nfa proves and the id-level shape U-sub's closure functions require
pub proof fn lemma_shifted_sub_wf(n: Nfa, v0: NfaV, off: int)
    requires
        v_wf(v0), v0.states.len() >= 1, off >= 0, off + v0.states.len() <= u32::MAX,
        n.states@.len() == v0.states.len(),
        forall|i: int| 0 <= i < n.states@.len() ==> (#[trigger] n.states@[i]).state.0 == i + off,
        nfa_view(n) == v_shift(v0, off),
    ensures sub_wf(n), n_off(n) == off, n_len(n) == v0.states.len()
{
    let v = nfa_view(n);
    assert(n.states@[0].state.0 == 0 + off);
    assert(v.states.len() == v0.states.len());
    assert forall|i: int, k: int| 0 <= i < n_len(n) && 0 <= k < n.states@[i].epsilon_transitions@.len()
        implies has_state(n, (#[trigger] n.states@[i].epsilon_transitions@[k]).target_state.0 as int) by {
        let sv = state_view(n.states@[i]);
        assert(v.states[i] == sv);
        assert(v_shift(v0, off).states[i] == sv_shift(v0.states[i], off));
        assert(sv.eps.len() == n.states@[i].epsilon_transitions@.len());
        assert(sv.eps[k] == n.states@[i].epsilon_transitions@[k].target_state.0);
        assert(sv_shift(v0.states[i], off).eps.len() == v0.states[i].eps.len());
        assert(sv_shift(v0.states[i], off).eps[k] == v0.states[i].eps[k] + off);
        assert(0 <= v0.states[i].eps[k] < v0.states.len());
    }
    assert forall|i: int, k: int| 0 <= i < n_len(n) && 0 <= k < n.states@[i].transitions@.len()
        implies has_state(n, (#[trigger] n.states@[i].transitions@[k]).target_state.0 as int) by {
        let sv = state_view(n.states@[i]);
        assert(v.states[i] == sv);
        assert(v_shift(v0, off).states[i] == sv_shift(v0.states[i], off));
        assert(sv.trans.len() == n.states@[i].transitions@.len());
        assert(sv.trans[k].1 == n.states@[i].transitions@[k].target_state.0);
        assert(sv_shift(v0.states[i], off).trans.len() == v0.states[i].trans.len());
        assert(sv_shift(v0.states[i], off).trans[k].1 == v0.states[i].trans[k].1 + off);
        assert(0 <= v0.states[i].trans[k].1 < v0.states.len());
    }
    assert(v.start == v0.start + off && v.end == v0.end + off);
}
