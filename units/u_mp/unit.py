# U-mp: MultiPatternNfa::try_from_patterns builds the union the closure layer (U-sub) expects: pattern i's automaton is the
# Thompson automaton of its parsed text, renumbered to its own id range, token types and start transitions in pattern order (C02).
import os, importlib.util
from extract import *

def _load(name):
    p = os.path.join(os.path.dirname(os.path.abspath(__file__)), '..', name, 'unit.py')
    spec = importlib.util.spec_from_file_location('unit_' + name + '_for_mp', p)
    m = importlib.util.module_from_spec(spec)
    spec.loader.exec_module(m)
    return m

nfa = _load('u_nfa')
sub = _load('u_sub')
F_NFA, F_MP, F_PAT = nfa.F_NFA, sub.F_MP, 'scnr/src/pattern.rs'
P = ['C02']
HERE = os.path.dirname(os.path.abspath(__file__))
F_ERR = 'scnr/src/errors.rs'
OPAQUE_ERR = '#[verifier::external_body] pub struct ScnrError { _private: () }'
DEFAULT_FEATURES = ('scnr_unicode', 'dot_writer', 'serde')  # scnr/Cargo.toml [features] default

# everything U-nfa defines; its proved functions are used through their contracts only
BASE = []
for it in nfa.UNIT['items']:
    if isinstance(it, Fn) and not it.external_body:
        BASE.append(as_contract(it, 'contract proved in unit U-nfa'))
    elif isinstance(it, Raw) and it.label == 'opaque Pattern':
        continue
    elif isinstance(it, RawFile):
        BASE.append(RawFile(os.path.join(HERE, '..', 'u_nfa', it.path) if not os.path.isabs(it.path) else it.path, it.label))
    elif isinstance(it, Raw) and OPAQUE_ERR in it.text:
        # in this unit the error type is the real one (extracted from errors.rs): the error arm of try_from_patterns is verified, not cut
        BASE.append(Raw(it.text.replace(OPAQUE_ERR, ''), it.label))
        BASE.append(Raw('''
#[verifier::external_type_specification] #[verifier::external_body] pub struct ExAstError(regex_syntax::ast::Error);
#[verifier::external_type_specification] #[verifier::external_body] pub struct ExIoError(std::io::Error);
pub assume_specification[ <regex_syntax::ast::Error as Clone>::clone ](e: &regex_syntax::ast::Error) -> (r: regex_syntax::ast::Error)
    ensures r == *e;
''', label='regex_syntax::ast::Error, std::io::Error (opaque, imported)'))
        BASE.append(Raw('''
pub assume_specification<T: ?Sized + core::marker::MetaSized, A: std::alloc::Allocator>[ <std::boxed::Box<T, A> as std::convert::AsRef<T>>::as_ref ](b: &std::boxed::Box<T, A>) -> (r: &T)
    ensures r == &**b;
''', label='Box::as_ref spec'))  # (units that include common/class_types.rs have it from there and drop this item)
        BASE.append(Enum(F_ERR, 'ScnrErrorKind', strip_attrs=True, default_features=DEFAULT_FEATURES))
        BASE.append(Struct(F_ERR, 'ScnrError', derive=[]))
        BASE.append(Fn(F_ERR, 'ScnrError', 'new', ret='r', props=['C15', 'C02'], spec='ensures *r.source == kind'))
    else:
        BASE.append(it)

pat_set_tt = Fn(F_PAT, 'Pattern', 'set_token_type', props=P,
    spec='ensures final(self).token_type == token_type, final(self).pattern == old(self).pattern, final(self).lookahead == old(self).lookahead')
pat_pattern = Fn(F_PAT, 'Pattern', 'pattern', ret='r', props=P, spec='ensures r@ == self.pattern@')
pat_tid = Fn(F_PAT, 'Pattern', 'terminal_id', ret='r', props=P, spec='ensures r == self.token_type')
nfa_set_tid = Fn(F_NFA, 'Nfa', 'set_terminal_id', props=P,
    spec='''ensures final(self).states == old(self).states, final(self).start_state == old(self).start_state, final(self).end_state == old(self).end_state,
    final(self).pattern.token_type == terminal_id''')
nfa_tid = Fn(F_NFA, 'Nfa', 'terminal_id', ret='r', props=P, spec='ensures r == self.pattern.token_type')
eps_new = Fn(F_NFA, 'EpsilonTransition', 'new', ret='r', props=P, spec='ensures r.target_state == target_state')
st_id = sub.st_id

highest = Fn(F_NFA, 'Nfa', 'highest_state_number', ret='r', props=P,
    spec='''
ensures
    // the largest state id, 0 for an automaton without states
    forall|i: int| 0 <= i < self.states@.len() ==> (#[trigger] self.states@[i]).state.0 <= r,
    self.states@.len() > 0 ==> exists|i: int| 0 <= i < self.states@.len() && (#[trigger] self.states@[i]).state.0 == r,
    self.states@.len() == 0 ==> r == 0,
''',
    edits=[Replace('E11', 'self.states.iter().max_by(|x, y| $cmp).map_or(0, |s| $e)', '''{
let mut __max: Option<&NfaState> = None;
let mut __it0 = self.states.iter();
let ghost rem = __it0.remaining();
proof {
    assert(rem.len() == self.states@.len());
    assert(forall|i: int| 0 <= i < rem.len() ==> *#[trigger] rem[i] == self.states@[i]);
}
loop
    invariant
        __it0.obeys_prophetic_iter_laws(), __it0.decrease() is Some,
        rem.len() == self.states@.len(), forall|i: int| 0 <= i < rem.len() ==> *#[trigger] rem[i] == self.states@[i],
        __it0.remaining().len() <= rem.len(),
        forall|q: int| 0 <= q < __it0.remaining().len() ==> #[trigger] __it0.remaining()[q] == rem[rem.len() - __it0.remaining().len() + q],
        (__max is None) == (rem.len() - __it0.remaining().len() == 0),
        __max matches Some(mx) ==> (exists|i: int| 0 <= i < rem.len() - __it0.remaining().len() && (#[trigger] self.states@[i]).state == mx.state)
            && forall|j: int| 0 <= j < rem.len() - __it0.remaining().len() ==> (#[trigger] self.states@[j]).state.0 <= mx.state.0,
    ensures __it0.remaining().len() == 0,
    decreases __it0.decrease()->0
{
    let ghost pos = rem.len() - __it0.remaining().len();
    let Some(__y) = __it0.next() else { break };
    proof { assert(*__y == self.states@[pos]); }
    __max = match __max {
        None => Some(__y),
        Some(__x) => {
            let x = &__x;
            let y = &__y;
            let __o = $cmp;
            proof { axiom_stateid_ord(x.state, y.state); assert(__o == x.state.0.cmp_spec(&y.state.0)); }
            match __o { core::cmp::Ordering::Greater => Some(__x), _ => Some(__y) }
        }
    };
}
match __max { None => 0, Some(s) => $e }
}''', why='iter().max_by(|x, y| c).map_or(d, |s| e): max_by is the fold keeping the later element unless the earlier compares Greater, map_or is the match (std definitions); comparison and projection bodies kept verbatim')])

mp_new = Fn(F_MP, 'MultiPatternNfa', 'new', ret='r', props=P, external_body=True, trusted_reason='Self::default() of the derived Default: three empty vectors (rule E4)',
    spec='ensures r.patterns@.len() == 0, r.start_transitions@.len() == 0, r.nfas@.len() == 0')
mp_add_pattern = Fn(F_MP, 'MultiPatternNfa', 'add_pattern', props=P,
    spec='ensures final(self).patterns@ == old(self).patterns@.push(pattern), final(self).start_transitions == old(self).start_transitions, final(self).nfas == old(self).nfas')
mp_add_nfa = Fn(F_MP, 'MultiPatternNfa', 'add_nfa', props=P,
    spec='ensures final(self).nfas@ == old(self).nfas@.push(nfa), final(self).start_transitions == old(self).start_transitions, final(self).patterns == old(self).patterns')

try_from_patterns = Fn(F_MP, 'MultiPatternNfa', 'try_from_patterns', ret='r', props=P, sig_replace=[('super::CharacterClassRegistry', 'CharacterClassRegistry')], attrs='#[verifier::loop_isolation(false)] #[verifier::allow_complex_invariants]',
    spec='''
requires mp_fits(patterns@, old(character_class_registry).view())
ensures
    r matches Ok(m) ==> {
        let pats = patterns@;
        let reg0 = old(character_class_registry).view();
        &&& mp_wf(m)
        &&& m.nfas@.len() == pats.len() && m.patterns@ == pats
        // pattern i: the Thompson automaton of its parsed text, renumbered to start at mp_off(i); its token type is the pattern's
        &&& forall|i: int| 0 <= i < pats.len() ==> nfa_view(#[trigger] m.nfas@[i]) == v_shift(mp_th(pats, pats.len() as int, reg0).0[i], mp_off(pats, i, reg0))
                && n_off(m.nfas@[i]) == mp_off(pats, i, reg0) && m.nfas@[i].pattern.token_type == pats[i].token_type
        &&& final(character_class_registry).view() == mp_th(pats, pats.len() as int, reg0).1
    },
''',
    edits=[
        Ins('body_start', None, '''
hide(thompson); hide(th_fits); hide(v_wf); hide(v_shift); hide(state_view);
let ghost pats = patterns@;
let ghost reg0 = character_class_registry.view();
'''),
        Replace('E13', 'for (index, pattern) in patterns.iter().enumerate() {', '''
let mut __i: usize = 0;
while __i < patterns.len()
    //@label try_from_patterns.loop
    invariant
        pats == patterns@, mp_fits(pats, reg0), 0 <= __i <= pats.len(),
        next_state == mp_off(pats, __i as int, reg0),
        character_class_registry.view() == mp_th(pats, __i as int, reg0).1,
        mp_wf(multi_pattern_nfa),
        multi_pattern_nfa.nfas@.len() == __i, multi_pattern_nfa.patterns@ == pats.take(__i as int),
        forall|i: int| 0 <= i < __i ==> nfa_view(#[trigger] multi_pattern_nfa.nfas@[i]) == v_shift(mp_th(pats, __i as int, reg0).0[i], mp_off(pats, i, reg0))
            && n_off(multi_pattern_nfa.nfas@[i]) == mp_off(pats, i, reg0) && n_len(multi_pattern_nfa.nfas@[i]) == mp_th(pats, __i as int, reg0).0[i].states.len()
            && multi_pattern_nfa.nfas@[i].pattern.token_type == pats[i].token_type,
    decreases pats.len() - __i
{
    let index: usize = __i;
    let pattern = &patterns[__i];
    __i += 1;
    let ghost ix = index as int;
    let ghost m_in = multi_pattern_nfa;
    proof {
        assert(th_fits(spec_parse(pats[ix].pattern@), mp_th(pats, ix, reg0).1));
        lemma_mp_off_mono(pats, ix + 1, pats.len() as int, reg0);
        lemma_mp_off_mono(pats, ix, ix, reg0);
        lemma_mp_th_len(pats, ix, reg0);
        lemma_mp_th_len(pats, ix + 1, reg0);
    }
''', why='`for (i, x) in v.iter().enumerate() { B }` written as the index loop `let mut k = 0; while k < v.len() { let i = k; let x = &v[k]; k += 1; B }` (same elements, same order); loop body kept verbatim'),
        Replace('E5', 'super::parse_regex_syntax($x)', 'parse_regex_syntax($x)', why='path prefix dropped (single-file unit)'),
        # the error arm is VERIFIED (every inner arm leaves the function with Err: an error of a pattern is never swallowed); only the message texts are cut
        Replace('U4', 'format!("Error in pattern #{} \'{}\'", index, pattern)', 'verif_error_text()',
                why='TRUSTED CUT (narrowed): construction of the message text (format! with the Display of Pattern); the value it is stored in and the control flow around it are verified'),
        Replace('U4+E7', 'unsupported!(format!($args))', 'ScnrError::new(ScnrErrorKind::UnsupportedFeature(verif_error_text()))',
                why='`unsupported!(X)` expanded from its macro body in nfa.rs (`ScnrError::new($crate::ScnrErrorKind::UnsupportedFeature(X.to_string()))`); X = format!(..) is the trusted message text (a String, `to_string` of a String is a copy)'),
        Ins('after', 'Ok(mut nfa) => {', '''
let ghost v0 = nfa_view(nfa);
proof {
    assert((v0, character_class_registry.view()) == thompson(spec_parse(pats[ix].pattern@), mp_th(pats, ix, reg0).1));
    assert(mp_th(pats, ix + 1, reg0).0 == mp_th(pats, ix, reg0).0.push(v0));
    assert(mp_th(pats, ix + 1, reg0).0[ix] == v0);
    assert(mp_off(pats, ix + 1, reg0) == mp_off(pats, ix, reg0) + v0.states.len());
}
'''),
        Ins('after_stmt', 'let $p = nfa.shift_ids($_);', '''
proof {
    lemma_shifted_sub_wf(nfa, v0, next_state as int);
    assert(nfa.states@[n_len(nfa) - 1].state.0 == n_len(nfa) - 1 + next_state);
}
'''),
        Ins('after_stmt', 'next_state = $_;', '''
proof { assert(next_state == mp_off(pats, ix + 1, reg0)); }
''', occ=2),
        Ins('after_stmt', 'multi_pattern_nfa.add_nfa(nfa);', '''
proof {
    let m2 = multi_pattern_nfa;
    assert(m2.patterns@ =~= pats.take(ix + 1));
    assert forall|i: int| 0 <= i < ix + 1 implies nfa_view(#[trigger] m2.nfas@[i]) == v_shift(mp_th(pats, ix + 1, reg0).0[i], mp_off(pats, i, reg0))
            && n_off(m2.nfas@[i]) == mp_off(pats, i, reg0) && n_len(m2.nfas@[i]) == mp_th(pats, ix + 1, reg0).0[i].states.len()
            && m2.nfas@[i].pattern.token_type == pats[i].token_type by {
        if i < ix {
            assert(m2.nfas@[i] == m_in.nfas@[i]);
            assert(mp_th(pats, ix + 1, reg0).0[i] == mp_th(pats, ix, reg0).0[i]);
        }
    }
    assert(mp_wf(m2)) by {
        assert forall|i: int| 0 <= i < mp_len(m2) implies sub_wf(#[trigger] m2.nfas@[i]) && n_off(m2.nfas@[i]) >= 1 by {
            if i < ix { assert(m2.nfas@[i] == m_in.nfas@[i]); lemma_mp_off_mono(pats, i, i, reg0); }
        }
        assert forall|i: int| 0 <= i < mp_len(m2) implies (#[trigger] m2.start_transitions@[i]).target_state == m2.nfas@[i].start_state by {
            if i < ix { assert(m2.nfas@[i] == m_in.nfas@[i]); assert(m2.start_transitions@[i] == m_in.start_transitions@[i]); }
        }
        assert forall|i: int, j: int| 0 <= i < j < mp_len(m2) implies n_off(#[trigger] m2.nfas@[i]) + n_len(m2.nfas@[i]) <= n_off(#[trigger] m2.nfas@[j]) by {
            if j < ix { assert(m2.nfas@[i] == m_in.nfas@[i]); assert(m2.nfas@[j] == m_in.nfas@[j]); }
            else {
                assert(m2.nfas@[i] == m_in.nfas@[i]);
                assert(n_off(m2.nfas@[i]) + n_len(m2.nfas@[i]) == mp_off(pats, i, reg0) + mp_th(pats, ix, reg0).0[i].states.len());
                lemma_mp_th_prefix(pats, i, ix, reg0);
                assert(mp_off(pats, i + 1, reg0) == mp_off(pats, i, reg0) + mp_th(pats, i + 1, reg0).0[i].states.len());
                lemma_mp_off_mono(pats, i + 1, ix, reg0);
            }
        }
    }
}
'''),
        Ins('before', 'Ok(multi_pattern_nfa)', '''
proof { assert(pats.take(pats.len() as int) =~= pats); }
'''),
    ])

items = list(BASE)
# real Pattern (token type is what the union carries); Lookahead stays opaque
k = [i for i, it in enumerate(items) if isinstance(it, Struct) and it.name == 'EpsilonTransition'][0]
items[k:k] = [
    Raw('''
#[verifier::external_body] pub struct Lookahead { _private: () }
''', label='opaque Lookahead'),
    Struct(F_PAT, 'Pattern', derive=[]),
    Raw('''
// derived Default / Clone (rule E4)
impl Default for Pattern {
    #[verifier::external_body]
    fn default() -> (r: Self) { unimplemented!() }
}
impl Clone for Pattern {
    #[verifier::external_body]
    fn clone(&self) -> (r: Self) ensures r == *self { unimplemented!() }
}
''', label='derived Default/Clone of Pattern'),
]
items += [
    Struct(F_MP, 'MultiPatternNfa', derive=[]),
    RawFile(os.path.join(HERE, '..', 'u_sub', 'sub_spec.rs'), 'sub_spec.rs'),
    RawFile(os.path.join(HERE, '..', 'u_sub', 'mp_spec.rs'), 'mp_spec.rs'),
    RawFile('mp_build.rs'),
    Raw('''
// contract of parse_regex_syntax PROVED in unit U-parse (relative to the uninterpreted parser spec_parse_ok / spec_parse); TRUSTED: the error value rebuilt with the pattern index in its message
#[verifier::external_body] pub fn parse_regex_syntax(input: &str) -> (r: Result<Ast>)
    ensures r matches Ok(a) ==> a == spec_parse(input@)
{ unimplemented!() }
#[verifier::external_body] pub fn verif_error_text() -> String { unimplemented!() }
// the real Nfa derives Debug (dropped by rule E4); `Result<Nfa, _>::unwrap_err` needs the bound, the impl is never called on a path under contract
#[verifier::external] impl std::fmt::Debug for Nfa { fn fmt(&self, f: &mut std::fmt::Formatter<'_>) -> std::fmt::Result { Ok(()) } }
// derived Ord of the id newtype is the order of the wrapped integer (rule E4)
pub broadcast axiom fn axiom_stateid_ord(a: StateID, b: StateID)
    ensures StateID::obeys_cmp_spec(), #[trigger] a.cmp_spec(&b) == a.0.cmp_spec(&b.0);
''', label='trusted: parse_regex_syntax, error rebuild'),
    pat_set_tt, pat_pattern, pat_tid, nfa_set_tid, nfa_tid, eps_new, st_id, highest, mp_new, mp_add_pattern, mp_add_nfa, try_from_patterns,
]

UNIT = dict(
    name='u_mp',
    externs=['regex_syntax'],
    header=nfa.UNIT['header'] + 'use std::alloc::Allocator;\nuse vstd::std_specs::cmp::OrdSpec;\n',
    items=items,
)
