# U-api: the public wrappers around FindMatchesImpl: FindMatches (delegations), WithPositions<FindMatches>::next (C09),
# Scanner::find_iter (C12). FindMatchesImpl's methods are used through their contracts (proved in U-iter).
import os, re, importlib.util
from extract import *

def _load(name):
    p = os.path.join(os.path.dirname(os.path.abspath(__file__)), '..', name, 'unit.py')
    spec = importlib.util.spec_from_file_location('unit_' + name + '_for_api', p)
    m = importlib.util.module_from_spec(spec)
    spec.loader.exec_module(m)
    return m

it = _load('u_iter')
mode, dfa = it.mode, it.dfa
F_FM, F_FMI, F_POS, F_MATCH = it.F_FM, it.F_FMI, it.F_POS, it.F_MATCH
F_WP = 'scnr/src/with_positions.rs'
F_SC = 'scnr/src/scanner.rs'


def lift(spec, field):
    """contract of the inner method, restated on the wrapper: self -> self.<field>"""
    s = spec
    s = re.sub(r'\*old\(self\)', 'old(self).%s' % field, s)
    s = re.sub(r'\*final\(self\)', 'final(self).%s' % field, s)
    s = re.sub(r'old\(self\)\.(?!%s\b)' % field, 'old(self).%s.' % field, s)
    s = re.sub(r'final\(self\)\.(?!%s\b)' % field, 'final(self).%s.' % field, s)
    s = re.sub(r'(?<![\w.])\*self\b(?!\.)', 'self.%s' % field, s)
    s = re.sub(r'(?<![\w.])self\.(?!%s\b)' % field, 'self.%s.' % field, s)
    s = re.sub(r'fm_inv\(self\)', 'fm_inv(self.%s)' % field, s)
    return s


FM = "<'h> FindMatches<'h>"


def wrap(name, inner, props, impl='FindMatches', ret=None, extra_edits=(), sig_replace=None):
    return Fn(F_FM, impl, name, ret=(ret if ret is not None else inner.ret) or None, spec=lift(inner.spec, 'inner'), props=props,
              impl_as=FM, qual_as='FindMatches', edits=list(extra_edits), sig_replace=sig_replace)


def lift_var(spec, var, field):
    s = re.sub(r'(?<![\w.])%s\.(?!%s\b)' % (var, field), '%s.%s.' % (var, field), spec)
    s = re.sub(r'\b(fm_inv|cur_n|cur_m)\(%s\)' % var, r'\1(%s.%s)' % (var, field), s)
    return s


fm_new = Fn(F_FM, 'FindMatches', 'new', ret='r', impl_as=FM, qual_as='FindMatches', props=['C06', 'C12'],
            spec=lift_var(it.new.spec, 'r', 'inner'))
fm_with_offset = Fn(F_FM, 'FindMatches', 'with_offset', ret='r', impl_as=FM, qual_as='FindMatches', props=['C10'],
                    spec=lift_var(lift_var(it.with_offset.spec, 'r', 'inner'), 'self', 'inner'))
fm_set_offset = wrap('set_offset', it.set_offset, ['C10'])
fm_set_offset.spec = re.sub(r'(?<![\w.])offset\b', 'position', fm_set_offset.spec)
fm_offset = wrap('offset', it.offset_fn, ['C10'])
fm_next_match = wrap('next_match', it.next_match, ['C01', 'C07'])
fm_peek_n = wrap('peek_n', it.peek_n, ['C11'])
fm_advance_to = wrap('advance_to', it.advance_to, ['C10'])
fm_next = wrap('next', it.next_match, ['C01', 'C07'], impl="Iterator for FindMatches<'_>", ret='', sig_replace=[('Option<Self::Item>', '(res: Option<Match>)')])
fm_position = wrap('position', it.position, ['C09'], impl="PositionProvider for FindMatches<'_>")
fm_set_mode = wrap('set_mode', it.fmi_set_mode, ['C06'], impl="ScannerModeSwitcher for FindMatches<'_>")
fm_current_mode = wrap('current_mode', it.fmi_current_mode, ['C06'], impl="ScannerModeSwitcher for FindMatches<'_>")
fm_mode_name = wrap('mode_name', it.fmi_mode_name, ['C06'], impl="ScannerModeSwitcher for FindMatches<'_>")
fm_pp_set_offset = None  # PositionProvider::set_offset has the same name as the inherent method: not extracted twice

with_positions_next = Fn(
    F_WP, 'Iterator for WithPositions<I>', 'next', impl_as="<'h> WithPositions<FindMatches<'h>>", qual_as='WithPositions',
    sig_replace=[('Option<Self::Item>', '(r: Option<MatchExt>)')],
    spec='''
requires
    fm_inv(old(self).iter.inner),
    // the line bookkeeping covers everything before the cursor (true for a new iterator, preserved by next, and by
    // set_offset to an already scanned offset)
    complete_upto(old(self).iter.inner.input@, old(self).iter.inner.line_offsets@, cur_n(old(self).iter.inner)),
    blen(old(self).iter.inner.input@) < usize::MAX,
ensures
    fm_inv(final(self).iter.inner),
    final(self).iter.inner.input == old(self).iter.inner.input,
    complete_upto(final(self).iter.inner.input@, final(self).iter.inner.line_offsets@, cur_n(final(self).iter.inner)),
    r is None ==> cur_n(final(self).iter.inner) == old(self).iter.inner.input@.len(),
    r matches Some(mx) ==> ({
        let inp = old(self).iter.inner.input@;
        exists|ks: int, ke: int| 0 <= ks < ke <= inp.len() && #[trigger] boff(inp, ks) == mx.span.start && #[trigger] boff(inp, ke) == mx.span.end
            && ke == cur_n(final(self).iter.inner)
            // start position: exactly line and byte column of the start offset
            && mx.start_position.line == true_line(inp, ks) && mx.start_position.column == true_col(inp, ks)
            // end position: that of the end offset, or the same-line alternative right after a line break
            && ((mx.end_position.line == true_line(inp, ke) && mx.end_position.column == true_col(inp, ke))
                || (starts_line(inp, ke) && mx.end_position.line == true_line(inp, ke) - 1
                    && mx.end_position.column == mx.span.end - boff(inp, line_start_of(inp, ke - 1)) + 1))
    }),
''',
    props=['C09'],
    edits=[
        Ins('body_start', None, '''
let ghost inp = self.iter.inner.input@;
let ghost it0 = self.iter.inner;
let ghost n0 = cur_n(self.iter.inner);
proof { lemma_cur_cursor(it0); axiom_str_blen(self.iter.inner.input); }
'''),
        Replace('E3+E6', 'self.iter.next().map(|m| { $body })', '''{
    let __t0 = self.iter.next();
    let ghost it1 = self.iter.inner;
    let ghost n1 = cur_n(it1);
    proof {
        lemma_cur_cursor(it1);
        lemma_complete_after(inp, it0.line_offsets@, it1.line_offsets@, n0, n1);
        lemma_lo_bounded(inp, it1.line_offsets@);
    }
    match __t0 {
        None => None,
        Some(m) => {
            let ghost (ks, ke) = lemma_tok_bounds(it0.scanner_impl, inp, n0, m, n1);
            proof {
                lemma_boff_mono(inp, ke, inp.len() as int);
                lemma_complete_prefix(inp, it1.line_offsets@, ke, ks + 1);
            }
            let __r = { $body };
            proof {
                if !(starts_line(inp, ke) && !it1.line_offsets@.contains(boff(inp, ke) as usize)) {
                    lemma_complete_step(inp, it1.line_offsets@, ke);
                }
                assert(__r.start_position.line == true_line(inp, ks) && __r.start_position.column == true_col(inp, ks));
                assert(boff(inp, ks) == __r.span.start && boff(inp, ke) == __r.span.end);
            }
            Some(__r)
        }
    }
}''', why='Option::map with a closure capturing self.iter written as a match on the let-bound result (same evaluation order, closure body kept verbatim)'),
    ])

find_iter = Fn(
    F_SC, 'Scanner', 'find_iter', ret='r',
    spec='''
requires scanner_wf(self.inner)
ensures
    // a new iterator: cursor 0, mode 0 whatever mode the Scanner is in, own copy of the configuration
    fm_inv(r.inner), r.inner.input == input, cur_n(r.inner) == 0, r.inner.offset == 0,
    r.inner.scanner_impl.current_mode == 0,
    r.inner.scanner_impl.scanner_modes == self.inner.scanner_modes,
    r.inner.scanner_impl.match_char_class == self.inner.match_char_class,
''',
    props=['C12', 'C06'])

API_LEMMAS = Raw('''
/// the matched token lies between the old and the new cursor
pub proof fn lemma_tok_bounds<M: Fn(CharClassID, char) -> bool>(s: ScannerImpl<M>, inp: Seq<char>, q: int, m: Match, q1: int) -> (r: (int, int))
    requires is_next_tok(s, inp, q, m, q1), 0 <= q
    ensures q <= r.0 < r.1 <= inp.len(), r.1 == q1, boff(inp, r.0) == m.span.start, boff(inp, r.1) == m.span.end
{
    let p = choose|p: int| q <= p < inp.len()
        && (forall|q2: int| q <= q2 < p ==> no_cand_at(s, inp, q2))
        && #[trigger] tok_at(s, inp, p, m)
        && p < q1 <= inp.len() && boff(inp, q1) == m.span.end;
    let l = lemma_find_post_len(cur_dfa(s), cur_cls(s), inp.skip(p), boff(inp, p), m);
    (p, q1)
}

pub proof fn lemma_complete_after(inp: Seq<char>, lo0: Seq<usize>, lo1: Seq<usize>, n0: int, n1: int)
    requires
        complete_upto(inp, lo0, n0), n0 <= n1,
        forall|x: usize| #![trigger lo0.contains(x)] #![trigger lo1.contains(x)] lo0.contains(x) ==> lo1.contains(x),
        forall|j: int| n0 <= j < n1 && #[trigger] starts_line(inp, j) ==> lo1.contains(boff(inp, j) as usize),
    ensures complete_upto(inp, lo1, n1)
{
}

pub proof fn lemma_complete_prefix(inp: Seq<char>, lo: Seq<usize>, k: int, k2: int)
    requires complete_upto(inp, lo, k), k2 <= k
    ensures complete_upto(inp, lo, k2)
{
}

pub proof fn lemma_complete_step(inp: Seq<char>, lo: Seq<usize>, k: int)
    requires complete_upto(inp, lo, k), !(starts_line(inp, k) && !lo.contains(boff(inp, k) as usize))
    ensures complete_upto(inp, lo, k + 1)
{
}
''', label='lemmas for WithPositions::next')

CONTRACTS = [as_contract(f, 'contract proved in unit U-iter') for f in
             (it.new, it.set_offset, it.with_offset, it.next_match, it.peek_n, it.advance_to, it.offset_fn, it.position, it.fmi_set_mode, it.fmi_current_mode, it.fmi_mode_name)]
# ScannerImpl::clone: derived
CLONE = Raw('''
// TRUSTED: #[derive(Clone)] on ScannerImpl copies every field (rule E4)
impl<M: Fn(CharClassID, char) -> bool> Clone for ScannerImpl<M> {
    #[verifier::external_body]
    fn clone(&self) -> (r: Self) ensures r == *self { unimplemented!() }
}
''', label='trusted: derived Clone of ScannerImpl is structural')


# ---- the remaining public accessors and delegations (a change in any of them is visible through the API the properties are observed at)
WPI = "<'h> WithPositions<FindMatches<'h>>"
F_SPAN = 'scnr/src/span.rs'

def wp(name, inner, props, impl, ret=None):
    return Fn(F_WP, impl, name, ret=(ret if ret is not None else inner.ret) or None, spec=lift(inner.spec, 'iter'), props=props, impl_as=WPI, qual_as='WithPositions')

wp_new = Fn(F_WP, 'WithPositions<I>', 'new', ret='r', impl_as=WPI, qual_as='WithPositions', props=['C09'], spec='ensures r.iter == iter',
            sig_replace=[('iter : I', "iter: FindMatches<'h>")])
wp_set_mode = wp('set_mode', fm_set_mode, ['C06'], 'ScannerModeSwitcher for WithPositions<I>')
wp_current_mode = wp('current_mode', fm_current_mode, ['C06'], 'ScannerModeSwitcher for WithPositions<I>')
wp_mode_name = wp('mode_name', fm_mode_name, ['C06'], 'ScannerModeSwitcher for WithPositions<I>')
wp_position = wp('position', fm_position, ['C09'], 'PositionProvider for WithPositions<I>')
fm_set_offset_pp = wrap('set_offset', it.set_offset, ['C10', 'C09'], impl="PositionProvider for FindMatches<'_>")
fm_set_offset_pp.rename = 'set_offset__pp'
wp_set_offset = Fn(F_WP, 'PositionProvider for WithPositions<I>', 'set_offset', spec=lift(fm_set_offset_pp.spec, 'iter'), props=['C10', 'C09'], impl_as=WPI, qual_as='WithPositions',
                   edits=[Replace('E9', 'self.iter.set_offset(offset)', 'self.iter.set_offset__pp(offset)', why='trait dispatch: PositionProvider::set_offset of FindMatches (the inherent method of the same name takes precedence in the single-file unit)')])

sc_current_mode = Fn(F_SC, 'ScannerModeSwitcher for Scanner', 'current_mode', ret='r', as_inherent=True, spec=lift(mode.current_mode.spec, 'inner'), props=['C06', 'C12'])
sc_set_mode = Fn(F_SC, 'ScannerModeSwitcher for Scanner', 'set_mode', as_inherent=True, spec=lift(mode.set_mode.spec, 'inner'), props=['C06', 'C12'])
sc_mode_name = Fn(F_SC, 'ScannerModeSwitcher for Scanner', 'mode_name', ret='r', as_inherent=True, spec=lift(mode.mode_name.spec, 'inner'), props=['C06'])

ACC = ['C01', 'C07', 'C09']
accessors = [
    Fn(F_MATCH, 'Match', 'range', ret='r', props=ACC, spec='ensures r.start == self.span.start, r.end == self.span.end'),
    Fn(F_SPAN, 'Span', 'range', ret='r', props=ACC, spec='ensures r.start == self.start, r.end == self.end'),
    Fn(F_MATCH, 'MatchExt', 'start', ret='r', props=ACC, spec='ensures r == self.span.start'),
    Fn(F_MATCH, 'MatchExt', 'end', ret='r', props=ACC, spec='ensures r == self.span.end'),
    Fn(F_MATCH, 'MatchExt', 'span', ret='r', props=ACC, spec='ensures r == self.span'),
    Fn(F_MATCH, 'MatchExt', 'range', ret='r', props=ACC, spec='ensures r.start == self.span.start, r.end == self.span.end'),
    Fn(F_MATCH, 'MatchExt', 'len', ret='r', props=ACC, spec='ensures r == (if self.span.end >= self.span.start { self.span.end - self.span.start } else { 0 })'),
    Fn(F_MATCH, 'MatchExt', 'is_empty', ret='r', props=ACC, spec='ensures r == (self.span.start >= self.span.end)'),
    Fn(F_MATCH, 'MatchExt', 'token_type', ret='r', props=ACC, spec='ensures r == self.token_type'),
    Fn(F_MATCH, 'MatchExt', 'start_position', ret='r', props=['C09'], spec='ensures r == self.start_position'),
    Fn(F_MATCH, 'MatchExt', 'end_position', ret='r', props=['C09'], spec='ensures r == self.end_position'),
    Fn(F_POS, 'Position', 'line', ret='r', props=['C09'], spec='ensures r == self.line'),
    Fn(F_POS, 'Position', 'column', ret='r', props=['C09'], spec='ensures r == self.column'),
]

base_items = []
for x in it.UNIT['items']:
    if isinstance(x, Fn) and x.impl == it.IMPL:
        continue  # FindMatchesImpl methods come in as contracts
    base_items.append(x)

UNIT = dict(
    name='u_api',
    externs=['rustc_hash'],
    header=it.UNIT['header'],
    generic_types=[('ScannerImpl', 'M', mode.BOUND), ('FindMatchesImpl', 'M', mode.BOUND), ('FindMatches', 'M', mode.BOUND), ('Scanner', 'M', mode.BOUND)],
    items=base_items + CONTRACTS + [
        CLONE,
        Struct(F_MATCH, 'MatchExt', derive=[]),
        Fn(F_MATCH, 'MatchExt', 'new', ret='r', spec='ensures r.token_type == token_type, r.span == span, r.start_position == start_position, r.end_position == end_position', props=['C09']),
        Struct(F_FM, 'FindMatches', derive=[]),
        Struct(F_WP, 'WithPositions', derive=[]),
        Struct(F_SC, 'Scanner', derive=[]),
        API_LEMMAS,
        fm_new, fm_with_offset, fm_set_offset, fm_offset, fm_next_match, fm_peek_n, fm_advance_to, fm_next, fm_position, fm_set_mode, fm_current_mode, fm_mode_name,
        with_positions_next,
        find_iter,
        fm_set_offset_pp, wp_new, wp_set_mode, wp_current_mode, wp_mode_name, wp_position, wp_set_offset,
        sc_current_mode, sc_set_mode, sc_mode_name,
    ] + accessors,
)
