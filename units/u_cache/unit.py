# U-cache: ScannerCache::get against an abstract `compile` (C13).
from extract import *

F_CACHE = 'scnr/src/internal/scanner_cache.rs'
F_MODE = 'scnr/src/scanner_mode.rs'
F_PAT = 'scnr/src/pattern.rs'
F_IDS = 'scnr/src/internal/ids.rs'
F_SB = 'scnr/src/scanner_builder.rs'
F_SC = 'scnr/src/scanner.rs'
ID_SPECS = {'new': 'ensures r.0 == index', 'as_usize': 'ensures r == self.0', 'id': 'ensures r == self.0'}
KEY_DERIVES = ('PartialEq', 'Eq', 'Hash')

get = Fn(
    F_CACHE, 'ScannerCache', 'get', ret='r',
    spec='''
requires cache_inv(*old(self))
ensures
    cache_inv(*final(self)),
    match r {
        // a hit and a miss give the same answer: what compiling `modes` without the cache gives
        Ok(s) => compile(modes@) == Some(s),
        // a failing build returns the error and leaves the cache as it was
        Err(_) => compile(modes@) is None && final(self).cache@ == old(self).cache@,
    },
    // entries are only added, and only for `modes` itself
    forall|k: Vec<ScannerMode>| #[trigger] old(self).cache@.contains_key(k) ==> final(self).cache@.contains_key(k) && final(self).cache@[k] == old(self).cache@[k],
decreases (if slice_key_present(old(self).cache@, modes@) { 0int } else { 1int })
''',
    props=['C13'],
    edits=[
        Ins('body_start', None, '''
broadcast use axiom_modes_key_model, axiom_fx_valid;
let ghost c0 = self.cache@;
proof { axiom_slice_key(c0, modes); }
'''),
        Replace('U1', 'unsafe { (*std::sync::Arc::<ScannerImpl>::as_ptr(scanner)).clone() }', 'verif_clone_arc_target(scanner)',
                why='TRUSTED: the unsafe deref of Arc::as_ptr of an Arc borrowed from the map equals `**scanner` (the Arc is alive for the whole block)'),
        Ins('after', 'if let Some(scanner) = self.cache.get(modes) {', '''
proof {
    let kk = choose|kk: Vec<ScannerMode>| c0.contains_key(kk) && kk@ == modes@ && c0[kk] == *scanner;
    assert(compile(kk@) == Some(*c0[kk]));
}
'''),
        Replace('U2+E6', 'self.cache.insert(modes.to_vec(), Arc::new(modes.try_into()?));', '''{
    let __k = modes.to_vec();
    let __s = verif_compile(modes)?;
    let ghost sv = __s;
    let __a = Arc::new(__s);
    self.cache.insert(__k, __a);
    proof {
        assert(self.cache@ == c0.insert(__k, __a));
        assert(self.cache@.contains_key(__k) && __k@ == modes@);
        axiom_slice_key(self.cache@, modes);
        assert forall|k: Vec<ScannerMode>| #[trigger] self.cache@.contains_key(k) implies compile(k@) == Some(*self.cache@[k]) by {
            if k != __k { assert(c0.contains_key(k)); }
        }
        assert forall|k: Vec<ScannerMode>| #[trigger] c0.contains_key(k) implies self.cache@.contains_key(k) && self.cache@[k] == c0[k] by {
            if k == __k { assert(slice_key_present(c0, modes@)); }
        }
    }
}''', why='TRUSTED: `modes.try_into()` (TryFrom<&[ScannerMode]> for ScannerImpl, the whole build layer) is represented by verif_compile with the abstract result `compile(modes@)`; arguments let-bound in evaluation order'),
    ])


def _lock_usage(repo):
    """the lock model (verif_cache_acquire / verif_cache_release) is the invariant-carrying lock: it is sound only if the ONLY things ever done with the
    process-wide cache are: creation by ScannerCache::new() and `SCANNER_CACHE.write().unwrap().get(..)`. Checked on the real text on every run."""
    import os, re
    from rstok import lex
    root = os.path.join(repo, 'scnr', 'src')
    uses = []
    for d, _, fs in os.walk(root):
        for f in fs:
            if not f.endswith('.rs'):
                continue
            text = open(os.path.join(d, f), encoding='utf-8').read()
            toks = lex(text)
            for i, t in enumerate(toks):
                if t.text == 'SCANNER_CACHE':
                    uses.append((os.path.relpath(os.path.join(d, f), repo), [x.text for x in toks[max(0, i - 6):i + 10]], i, toks))
    n_get = 0
    for rel, ctx, i, toks in uses:
        nxt = [x.text for x in toks[i + 1:i + 11]]
        prv = [x.text for x in toks[max(0, i - 3):i]]
        if nxt[:10] == ['.', 'write', '(', ')', '.', 'unwrap', '(', ')', '.', 'get'] and rel == F_SB:
            n_get += 1
        elif prv[-1:] == ['static'] and rel == F_CACHE:
            j = i
            while toks[j].text != ';':
                j += 1
            init = ' '.join(x.text for x in toks[i:j])
            if 'RwLock :: new ( ScannerCache :: new ( ) )' not in init:
                raise ExtractError('SCANNER_CACHE is no longer initialised with ScannerCache::new(): %s' % init)
        elif 'use' in [x.text for x in toks[max(0, i - 12):i]] and (nxt[:1] in (['}'], [';'], [','])):
            pass
        else:
            raise ExtractError('SCANNER_CACHE used in a way the lock model does not cover (%s: .. %s ..)' % (rel, ' '.join(ctx)))
    if n_get != 2:
        raise ExtractError('expected exactly two `SCANNER_CACHE.write().unwrap().get(..)` sites in %s, found %d' % (F_SB, n_get))


LOCKED_GET = Replace('U8', 'SCANNER_CACHE.write().unwrap().get($x)?',
                     '{ let mut __c = verif_cache_acquire(); let __r = __c.get($x); verif_cache_release(__c); __r }?',
                     why='TRUSTED lock model: acquiring the process-wide RwLock hands out THE cache value, which satisfies the lock invariant cache_inv (established by the initialiser ScannerCache::new(), re-established by ScannerCache::get - both proved - and nothing else is ever done with it: source condition checked on every run); releasing requires the invariant. A poisoned lock (unwrap) presupposes a panic under the lock: outside the claim')

UNIT = dict(
    name='u_cache',
    externs=['rustc_hash'],
    header='''#![allow(unused_imports, unused_variables, unused_mut, unused_assignments, dead_code, unused_parens, unused_braces)]
use vstd::prelude::*;
use rustc_hash::FxHashMap;
use std::sync::Arc;
''',
    items=[
        Raw('''
#[verifier::external_type_specification]
#[verifier::external_body]
pub struct ExFxBuildHasher(rustc_hash::FxBuildHasher);
''', label='FxBuildHasher'),
        IdMacro(F_IDS, 'TerminalID', members=('new', 'as_usize'), index_for=(), specs=ID_SPECS),
        IdMacro(F_IDS, 'ScannerModeID', members=('new', 'as_usize'), index_for=(), specs=ID_SPECS),
        # the cache key: its derived Eq/Hash must cover every field (checked: derives present, no hand-written impl)
        Struct(F_PAT, 'Lookahead', derive=['Clone', 'PartialEq', 'Eq', 'Hash'], structural=False, require_derive=KEY_DERIVES),
        Struct(F_PAT, 'Pattern', derive=['Clone', 'PartialEq', 'Eq', 'Hash'], structural=False, require_derive=KEY_DERIVES),
        Struct(F_MODE, 'ScannerMode', derive=['Clone', 'PartialEq', 'Eq', 'Hash'], structural=False, require_derive=KEY_DERIVES),
        Raw('''
// ---- opaque: the compiled scanner and the error type are only moved around by the cache
#[verifier::external_body]
pub struct ScannerImpl { _private: () }
#[verifier::external_body]
#[derive(Debug)]
pub struct ScnrError { _private: () }
pub type Result<T> = std::result::Result<T, ScnrError>;

/// what building `modes` WITHOUT the cache yields (None = the build fails); a deterministic function of the mode list
pub uninterp spec fn compile(modes: Seq<ScannerMode>) -> Option<ScannerImpl>;

// TRUSTED stand-in for `modes.try_into()` = TryFrom<&[ScannerMode]> for ScannerImpl
#[verifier::external_body]
pub fn verif_compile(modes: &[ScannerMode]) -> (r: Result<ScannerImpl>)
    ensures match r { Ok(s) => compile(modes@) == Some(s), Err(_) => compile(modes@) is None }
{ unimplemented!() }

// TRUSTED stand-in for `unsafe { (*Arc::as_ptr(a)).clone() }` (derived Clone of ScannerImpl copies every field)
#[verifier::external_body]
pub fn verif_clone_arc_target(a: &Arc<ScannerImpl>) -> (r: ScannerImpl)
    ensures r == **a
{ unimplemented!() }

pub assume_specification<T: Clone>[ <[T]>::to_vec ](s: &[T]) -> (r: Vec<T>)
    ensures r@ == s@;   // derived Clone of the key types is structural

pub broadcast axiom fn axiom_modes_key_model()
    ensures #[trigger] vstd::std_specs::hash::obeys_key_model::<Vec<ScannerMode>>();
pub broadcast axiom fn axiom_fx_valid()
    ensures #[trigger] vstd::std_specs::hash::builds_valid_hashers::<rustc_hash::FxBuildHasher>();

/// a key equal to the slice is present (Vec<T>: Borrow<[T]>, equality and hash of a Vec are those of its slice)
pub open spec fn slice_key_present<V>(m: Map<Vec<ScannerMode>, V>, k: Seq<ScannerMode>) -> bool {
    exists|kk: Vec<ScannerMode>| m.contains_key(kk) && kk@ == k
}
pub axiom fn axiom_slice_key<V>(m: Map<Vec<ScannerMode>, V>, k: &[ScannerMode])
    ensures
        vstd::std_specs::hash::contains_borrowed_key(m, k) == slice_key_present(m, k@),
        forall|v: V| #[trigger] vstd::std_specs::hash::maps_borrowed_key_to_value(m, k, v)
            == (exists|kk: Vec<ScannerMode>| m.contains_key(kk) && kk@ == k@ && m[kk] == v),
        // two Vec keys with the same elements are the same key
        forall|k1: Vec<ScannerMode>, k2: Vec<ScannerMode>| #![trigger m.contains_key(k1), m.contains_key(k2)] k1@ == k2@ ==> k1 == k2;

pub open spec fn cache_inv(c: ScannerCache) -> bool {
    forall|k: Vec<ScannerMode>| #[trigger] c.cache@.contains_key(k) ==> compile(k@) == Some(*c.cache@[k])
}
''', label='trusted stand-ins for the build layer and the unsafe block; HashMap<Vec<T>,_>::get(&[T]) axioms'),
        Struct(F_CACHE, 'ScannerCache', derive=[]),
        Fn(F_CACHE, 'ScannerCache', 'new', ret='r', spec='ensures cache_inv(r), r.cache@.len() == 0', props=['C13'],
           edits=[Ins('body_start', None, 'broadcast use axiom_modes_key_model, axiom_fx_valid;')]),
        get,
        # ---- the cached public entry points: the cache's answer reaches the user unchanged
        SourceCheck('SCANNER_CACHE is created by ScannerCache::new() and only ever used as SCANNER_CACHE.write().unwrap().get(..)', _lock_usage),
        Raw('''
// TRUSTED model of `SCANNER_CACHE.write().unwrap()` (rule U8): exclusive access to the one process-wide cache value under its lock invariant
#[verifier::external_body]
pub fn verif_cache_acquire() -> (c: ScannerCache)
    ensures cache_inv(c)
{ unimplemented!() }
#[verifier::external_body]
pub fn verif_cache_release(c: ScannerCache)
    requires cache_inv(c)
{ unimplemented!() }
''', label='trusted lock model'),
        Struct(F_SC, 'Scanner', derive=[]),
        Struct(F_SB, 'ScannerBuilder', derive=[]),
        Struct(F_SB, 'SimpleScannerBuilder', derive=[]),
        Fn(F_SB, 'ScannerBuilder', 'build', ret='r', props=['C13'], spec='''
ensures match r {
    // build() = what compiling the builder's modes without the cache gives, whatever the cache held
    Ok(sc) => compile(self.scanner_modes@) == Some(sc.inner),
    Err(_) => compile(self.scanner_modes@) is None,
}
''', edits=[LOCKED_GET]),
        Fn(F_SB, 'SimpleScannerBuilder', 'build', ret='r', props=['C13'], spec='''
ensures match r {
    Ok(sc) => compile(seq![self.scanner_mode]) == Some(sc.inner),
    Err(_) => compile(seq![self.scanner_mode]) is None,
}
''', edits=[Replace('U8+E6', 'SCANNER_CACHE.write().unwrap().get(&[self.scanner_mode])?',
                     '{ let ghost __m0 = self.scanner_mode; let __a = [self.scanner_mode]; let __s: &[ScannerMode] = &__a; proof { assert(__s@ =~= seq![__m0]); } '
                     'let mut __c = verif_cache_acquire(); let __r = __c.get(__s); verif_cache_release(__c); __r }?',
                     why=LOCKED_GET.why + '; the one-element array argument is let-bound (evaluation order kept) so that ghost code can name its view')]),
    ],
)
