# U-cache: ScannerCache::get against an abstract `compile` (C13).
from extract import *

F_CACHE = 'scnr/src/internal/scanner_cache.rs'
F_MODE = 'scnr/src/scanner_mode.rs'
F_PAT = 'scnr/src/pattern.rs'
F_IDS = 'scnr/src/internal/ids.rs'
ID_SPECS = {'new': 'ensures r.0 == index', 'as_usize': 'ensures r == self.0', 'id': 'ensures r == self.0'}
KEY_DERIVES = ('PartialEq', 'Eq', 'Hash')

get = Fn(
    F_CACHE, 'ScannerCache', 'get', ret='r',
    spec='''
requires cache_inv(*old(self))
ensures
    cache_inv(*final(self)),
    match r {
        // a hit and a miss give the same answer: what compiling `modes` without the cache gives
        Ok(s) => compile(modes@) == Some(s),
        // a failing build returns the error and leaves the cache as it was
        Err(_) => compile(modes@) is None && final(self).cache@ == old(self).cache@,
    },
    // entries are only added, and only for `modes` itself
    forall|k: Vec<ScannerMode>| #[trigger] old(self).cache@.contains_key(k) ==> final(self).cache@.contains_key(k) && final(self).cache@[k] == old(self).cache@[k],
decreases (if slice_key_present(old(self).cache@, modes@) { 0int } else { 1int })
''',
    props=['C13'],
    edits=[
        Ins('body_start', None, '''
broadcast use axiom_modes_key_model, axiom_fx_valid;
let ghost c0 = self.cache@;
proof { axiom_slice_key(c0, modes); }
'''),
        Replace('U1', 'unsafe { (*std::sync::Arc::<ScannerImpl>::as_ptr(scanner)).clone() }', 'verif_clone_arc_target(scanner)',
                why='TRUSTED: the unsafe deref of Arc::as_ptr of an Arc borrowed from the map equals `**scanner` (the Arc is alive for the whole block)'),
        Ins('after', 'if let Some(scanner) = self.cache.get(modes) {', '''
proof {
    let kk = choose|kk: Vec<ScannerMode>| c0.contains_key(kk) && kk@ == modes@ && c0[kk] == *scanner;
    assert(compile(kk@) == Some(*c0[kk]));
}
'''),
        Replace('U2+E6', 'self.cache.insert(modes.to_vec(), Arc::new(modes.try_into()?));', '''{
    let __k = modes.to_vec();
    let __s = verif_compile(modes)?;
    let ghost sv = __s;
    let __a = Arc::new(__s);
    self.cache.insert(__k, __a);
    proof {
        assert(self.cache@ == c0.insert(__k, __a));
        assert(self.cache@.contains_key(__k) && __k@ == modes@);
        axiom_slice_key(self.cache@, modes);
        assert forall|k: Vec<ScannerMode>| #[trigger] self.cache@.contains_key(k) implies compile(k@) == Some(*self.cache@[k]) by {
            if k != __k { assert(c0.contains_key(k)); }
        }
        assert forall|k: Vec<ScannerMode>| #[trigger] c0.contains_key(k) implies self.cache@.contains_key(k) && self.cache@[k] == c0[k] by {
            if k == __k { assert(slice_key_present(c0, modes@)); }
        }
    }
}''', why='TRUSTED: `modes.try_into()` (TryFrom<&[ScannerMode]> for ScannerImpl, the whole build layer) is represented by verif_compile with the abstract result `compile(modes@)`; arguments let-bound in evaluation order'),
    ])

UNIT = dict(
    name='u_cache',
    externs=['rustc_hash'],
    header='''#![allow(unused_imports, unused_variables, unused_mut, unused_assignments, dead_code, unused_parens, unused_braces)]
use vstd::prelude::*;
use rustc_hash::FxHashMap;
use std::sync::Arc;
''',
    items=[
        Raw('''
#[verifier::external_type_specification]
#[verifier::external_body]
pub struct ExFxBuildHasher(rustc_hash::FxBuildHasher);
''', label='FxBuildHasher'),
        IdMacro(F_IDS, 'TerminalID', members=('new', 'as_usize'), index_for=(), specs=ID_SPECS),
        IdMacro(F_IDS, 'ScannerModeID', members=('new', 'as_usize'), index_for=(), specs=ID_SPECS),
        # the cache key: its derived Eq/Hash must cover every field (checked: derives present, no hand-written impl)
        Struct(F_PAT, 'Lookahead', derive=['Clone', 'PartialEq', 'Eq', 'Hash'], structural=False, require_derive=KEY_DERIVES),
        Struct(F_PAT, 'Pattern', derive=['Clone', 'PartialEq', 'Eq', 'Hash'], structural=False, require_derive=KEY_DERIVES),
        Struct(F_MODE, 'ScannerMode', derive=['Clone', 'PartialEq', 'Eq', 'Hash'], structural=False, require_derive=KEY_DERIVES),
        Raw('''
// ---- opaque: the compiled scanner and the error type are only moved around by the cache
#[verifier::external_body]
pub struct ScannerImpl { _private: () }
#[verifier::external_body]
#[derive(Debug)]
pub struct ScnrError { _private: () }
pub type Result<T> = std::result::Result<T, ScnrError>;

/// what building `modes` WITHOUT the cache yields (None = the build fails); a deterministic function of the mode list
pub uninterp spec fn compile(modes: Seq<ScannerMode>) -> Option<ScannerImpl>;

// TRUSTED stand-in for `modes.try_into()` = TryFrom<&[ScannerMode]> for ScannerImpl
#[verifier::external_body]
pub fn verif_compile(modes: &[ScannerMode]) -> (r: Result<ScannerImpl>)
    ensures match r { Ok(s) => compile(modes@) == Some(s), Err(_) => compile(modes@) is None }
{ unimplemented!() }

// TRUSTED stand-in for `unsafe { (*Arc::as_ptr(a)).clone() }` (derived Clone of ScannerImpl copies every field)
#[verifier::external_body]
pub fn verif_clone_arc_target(a: &Arc<ScannerImpl>) -> (r: ScannerImpl)
    ensures r == **a
{ unimplemented!() }

pub assume_specification<T: Clone>[ <[T]>::to_vec ](s: &[T]) -> (r: Vec<T>)
    ensures r@ == s@;   // derived Clone of the key types is structural

pub broadcast axiom fn axiom_modes_key_model()
    ensures #[trigger] vstd::std_specs::hash::obeys_key_model::<Vec<ScannerMode>>();
pub broadcast axiom fn axiom_fx_valid()
    ensures #[trigger] vstd::std_specs::hash::builds_valid_hashers::<rustc_hash::FxBuildHasher>();

/// a key equal to the slice is present (Vec<T>: Borrow<[T]>, equality and hash of a Vec are those of its slice)
pub open spec fn slice_key_present<V>(m: Map<Vec<ScannerMode>, V>, k: Seq<ScannerMode>) -> bool {
    exists|kk: Vec<ScannerMode>| m.contains_key(kk) && kk@ == k
}
pub axiom fn axiom_slice_key<V>(m: Map<Vec<ScannerMode>, V>, k: &[ScannerMode])
    ensures
        vstd::std_specs::hash::contains_borrowed_key(m, k) == slice_key_present(m, k@),
        forall|v: V| #[trigger] vstd::std_specs::hash::maps_borrowed_key_to_value(m, k, v)
            == (exists|kk: Vec<ScannerMode>| m.contains_key(kk) && kk@ == k@ && m[kk] == v),
        // two Vec keys with the same elements are the same key
        forall|k1: Vec<ScannerMode>, k2: Vec<ScannerMode>| #![trigger m.contains_key(k1), m.contains_key(k2)] k1@ == k2@ ==> k1 == k2;

pub open spec fn cache_inv(c: ScannerCache) -> bool {
    forall|k: Vec<ScannerMode>| #[trigger] c.cache@.contains_key(k) ==> compile(k@) == Some(*c.cache@[k])
}
''', label='trusted stand-ins for the build layer and the unsafe block; HashMap<Vec<T>,_>::get(&[T]) axioms'),
        Struct(F_CACHE, 'ScannerCache', derive=[]),
        Fn(F_CACHE, 'ScannerCache', 'new', ret='r', spec='ensures cache_inv(r), r.cache@.len() == 0', props=['C13'],
           edits=[Ins('body_start', None, 'broadcast use axiom_modes_key_model, axiom_fx_valid;')]),
        get,
    ],
)
