# U-c04find: the text of U-build plus ONE obligation that is expected to fail: properties C01 / C05 as stated (ties go to the pattern listed first)
# without the hypothesis under which the pinned code satisfies it. Known finding D10 (known_findings.txt). Only that obligation is verified here.
import os, importlib.util
from extract import *

def _load(name):
    p = os.path.join(os.path.dirname(os.path.abspath(__file__)), '..', name, 'unit.py')
    spec = importlib.util.spec_from_file_location('unit_' + name + '_for_c01find', p)
    m = importlib.util.module_from_spec(spec)
    spec.loader.exec_module(m)
    return m

build = _load('u_build')
HERE = os.path.dirname(os.path.abspath(__file__))

def absfile(it, base):
    if isinstance(it, RawFile) and not os.path.isabs(it.path):
        return RawFile(os.path.join(base, it.path), it.label)
    return it

items = []
for it in build.UNIT['items']:
    if isinstance(it, Fn) and not it.external_body:
        items.append(as_contract(it, 'contract proved in unit U-build'))
    else:
        items.append(absfile(it, os.path.join(HERE, '..', 'u_build')))
items.append(RawFile('finding_c01.rs'))

UNIT = dict(
    name='u_c01find',
    externs=build.UNIT['externs'],
    header=build.UNIT['header'],
    generic_types=build.UNIT['generic_types'],
    items=items,
    verify_only='finding_c01_tie_by_token_type',
)
