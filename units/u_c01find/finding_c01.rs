// ---------------------------------------------------------------- KNOWN FINDING D10 (properties C01 / C05), kept as a failing obligation on purpose
/// C01 / C05: "ties go to the pattern listed first". The scan side resolves ties by prio(d, tid) = the first position of the TOKEN TYPE in the automaton's list of
/// token types (CompiledDfa::priority_of), and that list is the mode's token types in pattern order (lemma_scanner_terminal_ids). The statement below is
/// theorem_scanner_prio WITHOUT the hypothesis tt_distinct. It is FALSE for the pinned code: a pattern that shares its token type with an earlier pattern gets the
/// earlier pattern's priority and wins ties against the patterns listed in between. Concrete failing input against the real crate:
/// findings/D10_tie_by_token_type.json (patterns x -> 0, d -> 1, d -> 0 on "d": token type 0 reported, the pattern listed first among the two that match is d -> 1).
pub proof fn finding_c01_tie_by_token_type(ids: Seq<TerminalID>, pats: Seq<Pattern>, i: int)
    requires ids == Seq::new(pats.len(), |j: int| tid_of(pats[j])), 0 <= i < pats.len()
    ensures is_prio(ids, tid_of(pats[i]), i)
{
}
