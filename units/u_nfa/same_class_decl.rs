// ---------------------------------------------------------------- registry equality of leaf ASTs, abstract
/// `ComparableAst::eq`: when two leaf ASTs denote the same character class for the registry. Uninterpreted in the units that only need
/// "the registry hands out the id of the first equal entry"; DEFINED in units/common/same_class_def.rs, where `impl PartialEq for ComparableAst`
/// is proved to compute it (unit U-reg) and where `leaf_sem` is shown to respect it.
pub uninterp spec fn same_class(a: Ast, b: Ast) -> bool;
