# U-nfa: the Thompson layer (C02, partial): every NFA combinator produces exactly the abstract construction of nfa_spec.rs.
from extract import *

F_NFA = 'scnr/src/internal/nfa.rs'
F_IDS = 'scnr/src/internal/ids.rs'
ID_SPECS = {'new': 'ensures r.0 == index', 'as_usize': 'ensures r == self.0', 'id': 'ensures r == self.0'}

IDS_OK = 'ids_ok(*old(self))'

new_state_fn = Fn(F_NFA, 'NfaState', 'new', ret='r', spec='ensures r.state == state, state_view(r) == sv_empty()', props=['C02'],
                  edits=[Tail('proof { assert(state_view(__res).eps =~= Seq::<int>::empty()); assert(state_view(__res).trans =~= Seq::<(CharClassID, int)>::empty()); }')])

add_state = Fn(F_NFA, 'Nfa', 'add_state', spec='''
ensures final(self).states@ == old(self).states@.push(state), final(self).start_state == old(self).start_state, final(self).end_state == old(self).end_state,
''', props=['C02'])

set_start = Fn(F_NFA, 'Nfa', 'set_start_state', spec='''
ensures final(self).states == old(self).states, final(self).start_state == state, final(self).end_state == old(self).end_state,
''', props=['C02'])
set_end = Fn(F_NFA, 'Nfa', 'set_end_state', spec='''
ensures final(self).states == old(self).states, final(self).end_state == state, final(self).start_state == old(self).start_state,
''', props=['C02'])
end_state = Fn(F_NFA, 'Nfa', 'end_state', ret='r', spec='ensures r == self.end_state', props=['C02'])

new_state = Fn(F_NFA, 'Nfa', 'new_state', ret='r', spec='''
requires ids_ok(*old(self)), old(self).states@.len() < u32::MAX
ensures
    ids_ok(*final(self)), r.0 == old(self).states@.len(),
    nfa_view(*final(self)) == v_push_state(nfa_view(*old(self))),
    final(self).states@.len() == old(self).states@.len() + 1,
''', props=['C02'],
                edits=[Tail('''
proof {
    lemma_view_ext(nfa_view(*self), v_push_state(nfa_view(*old(self))));
}
''')])

add_eps = Fn(F_NFA, 'Nfa', 'add_epsilon_transition', spec='''
requires ids_ok(*old(self)), from.0 < old(self).states@.len()
ensures
    ids_ok(*final(self)), final(self).states@.len() == old(self).states@.len(),
    nfa_view(*final(self)) == v_add_eps(nfa_view(*old(self)), from.0 as int, target_state.0 as int),
''', props=['C02'],
             edits=[Ins('body_end', None, '''
proof {
    let a = nfa_view(*self);
    let b = v_add_eps(nfa_view(*old(self)), from.0 as int, target_state.0 as int);
    assert forall|i: int| 0 <= i < a.states.len() implies (#[trigger] a.states[i]).eps =~= b.states[i].eps && a.states[i].trans =~= b.states[i].trans by { }
    lemma_view_ext(a, b);
}
''')])

zero_or_one = Fn(F_NFA, 'Nfa', 'zero_or_one', spec='''
requires ids_ok(*old(self)), old(self).states@.len() < u32::MAX
ensures ids_ok(*final(self)), nfa_view(*final(self)) == v_opt(nfa_view(*old(self)))
''', props=['C02'])

one_or_more = Fn(F_NFA, 'Nfa', 'one_or_more', spec='''
requires ids_ok(*old(self)), old(self).states@.len() + 1 < u32::MAX, old(self).end_state.0 < old(self).states@.len()
ensures ids_ok(*final(self)), nfa_view(*final(self)) == v_plus(nfa_view(*old(self)))
''', props=['C02'])

zero_or_more = Fn(F_NFA, 'Nfa', 'zero_or_more', spec='''
requires ids_ok(*old(self)), old(self).states@.len() + 1 < u32::MAX, old(self).end_state.0 < old(self).states@.len()
ensures ids_ok(*final(self)), nfa_view(*final(self)) == v_star(nfa_view(*old(self)))
''', props=['C02'])


SHIFT_LOOP = '''
    let mut __i: usize = 0;
    let ghost s0 = *self;
    while __i < {vec}.len()
        invariant
            0 <= __i <= s0.{fld}@.len(), {vec}@.len() == s0.{fld}@.len(),
            offset + bound <= u32::MAX,
            self.state == s1.state, {frame}
            forall|k: int| 0 <= k < s0.{fld}@.len() ==> s0.{fld}@[k].target_state.0 < bound,
            forall|k: int| 0 <= k < __i ==> (#[trigger] {vec}@[k]).target_state.0 == s0.{fld}@[k].target_state.0 + offset{keep},
            forall|k: int| __i <= k < s0.{fld}@.len() ==> {vec}@[k] == s0.{fld}@[k],
        decreases s0.{fld}@.len() - __i
    {{
        proof {{ assert(s0.{fld}@[__i as int].target_state.0 < bound); assert({vec}@[__i as int] == s0.{fld}@[__i as int]); }}
        let {var} = &mut {vec}[__i];
        {body}
        __i += 1;
    }}
'''

state_offset = Fn(F_NFA, 'NfaState', 'offset', props=['C02'],
    spec='''
requires
    // every id mentioned by the state is below `bound`, and bound + offset still fits the id type
    exists|bound: int| #[trigger] targets_below(state_view(*old(self)), bound) && old(self).state.0 < bound && bound + offset <= u32::MAX,
ensures
    final(self).state.0 == old(self).state.0 + offset,
    state_view(*final(self)) == sv_shift(state_view(*old(self)), offset as int),
''',
    edits=[
        Ins('body_start', None, '''
let ghost bound = choose|bound: int| #[trigger] targets_below(state_view(*old(self)), bound) && old(self).state.0 < bound && bound + offset <= u32::MAX;
let ghost s00 = *self;
proof {
    assert forall|k: int| 0 <= k < s00.transitions@.len() implies s00.transitions@[k].target_state.0 < bound by {
        assert(state_view(s00).trans[k].1 == s00.transitions@[k].target_state.0);
    }
    assert forall|k: int| 0 <= k < s00.epsilon_transitions@.len() implies s00.epsilon_transitions@[k].target_state.0 < bound by {
        assert(state_view(s00).eps[k] == s00.epsilon_transitions@[k].target_state.0);
    }
}
'''),
        Ins('after_stmt', 'self.state = $_;', 'let ghost s1 = *self;'),
        Replace('E13', 'for transition in self.transitions.iter_mut() { $body }', SHIFT_LOOP.format(
            vec='self.transitions', fld='transitions', var='transition', body='$body',
            frame='self.epsilon_transitions == s1.epsilon_transitions,',
            keep=' && self.transitions@[k].char_class == s0.transitions@[k].char_class').replace('s0', 's1').replace('let ghost s1 = *self;', ''),
            why='`for x in v.iter_mut() { B }` written as an index loop `while i < v.len() { let x = &mut v[i]; B; i += 1 }` (same elements, same order); loop body kept verbatim'),
        Replace('E13', 'for epsilon_transition in self.epsilon_transitions.iter_mut() { $body }', '''
    let ghost s2 = *self;''' + SHIFT_LOOP.format(
            vec='self.epsilon_transitions', fld='epsilon_transitions', var='epsilon_transition', body='$body',
            frame='self.transitions == s2.transitions,', keep='').replace('s0', 's2').replace('let ghost s2 = *self;\n', '', 1).replace('self.state == s1.state', 'self.state == s2.state'),
            why='iter_mut loop written as an index loop (see above)'),
        Ins('body_end', None, '''
proof {
    let a = state_view(*self);
    let b = sv_shift(state_view(*old(self)), offset as int);
    assert(a.eps =~= b.eps);
    assert(a.trans =~= b.trans);
}
'''),
    ])


shift_ids = Fn(F_NFA, 'Nfa', 'shift_ids', ret='r', props=['C02'],
    spec='''
requires ids_ok(*old(self)), v_wf(nfa_view(*old(self))), old(self).states@.len() + offset <= u32::MAX
ensures
    final(self).states@.len() == old(self).states@.len(),
    forall|i: int| 0 <= i < final(self).states@.len() ==> (#[trigger] final(self).states@[i]).state.0 == i + offset,
    nfa_view(*final(self)) == v_shift(nfa_view(*old(self)), offset as int),
    r.0 == final(self).start_state, r.1 == final(self).end_state,
    final(self).pattern == old(self).pattern,
''',
    edits=[
        Ins('body_start', None, '''
let ghost n0 = *self;
let ghost bound = n0.states@.len() as int;
let ghost v0 = nfa_view(n0);
'''),
        Replace('E13', 'for state in self.states.iter_mut() { $body }', '''
    let mut __i: usize = 0;
    while __i < self.states.len()
        invariant
            0 <= __i <= n0.states@.len(), self.states@.len() == n0.states@.len(), bound == n0.states@.len(),
            bound + offset <= u32::MAX, ids_ok(n0), v_wf(nfa_view(n0)),
            self.start_state == n0.start_state, self.end_state == n0.end_state, self.pattern == n0.pattern,
            forall|k: int| 0 <= k < __i ==> (#[trigger] self.states@[k]).state.0 == k + offset && state_view(self.states@[k]) == sv_shift(state_view(n0.states@[k]), offset as int),
            forall|k: int| __i <= k < n0.states@.len() ==> self.states@[k] == n0.states@[k],
        decreases n0.states@.len() - __i
    {
        proof {
            assert(self.states@[__i as int] == n0.states@[__i as int]);
            let sv = state_view(n0.states@[__i as int]);
            assert(nfa_view(n0).states[__i as int] == sv);
            assert(targets_below(sv, bound)) by {
                assert forall|k: int| 0 <= k < sv.eps.len() implies 0 <= #[trigger] sv.eps[k] < bound by { assert(0 <= nfa_view(n0).states[__i as int].eps[k] < bound); }
                assert forall|k: int| 0 <= k < sv.trans.len() implies 0 <= (#[trigger] sv.trans[k]).1 < bound by { assert(0 <= nfa_view(n0).states[__i as int].trans[k].1 < bound); }
            }
        }
        let state = &mut self.states[__i];
        $body
        __i += 1;
    }
''', why='iter_mut loop written as an index loop (same elements, same order); loop body kept verbatim'),
        Tail('''
proof {
    let a = nfa_view(*self);
    let b = v_shift(v0, offset as int);
    assert(a.states =~= b.states);
}
'''),
    ])

append = Fn(F_NFA, 'Nfa', 'append', props=['C02'],
    spec='''
requires
    ids_ok(*old(self)), old(self).states@.len() + nfa.states@.len() <= u32::MAX,
    forall|i: int| 0 <= i < nfa.states@.len() ==> (#[trigger] nfa.states@[i]).state.0 == i + old(self).states@.len(),
ensures
    ids_ok(*final(self)), final(self).states@ == old(self).states@ + nfa.states@,
    final(self).start_state == old(self).start_state, final(self).end_state == old(self).end_state,
''',
    edits=[
        Replace('E6', 'self.states.append(nfa.states.as_mut());', '{ let __t0 = &mut nfa.states; self.states.append(__t0); }',
                why='`v.as_mut()` on a Vec is `&mut v` (AsMut<Vec<T>> for Vec<T> is the identity)'),
    ])

is_empty = Fn(F_NFA, 'Nfa', 'is_empty', ret='r', props=['C02'],
    spec='''
requires self.states@.len() >= 1
ensures r == v_is_empty(nfa_view(*self))
''',
    edits=[Ins('body_start', None, '''
proof {
    let v = nfa_view(*self);
    assert(v.states[0] == state_view(self.states@[0]));
    assert(state_view(self.states@[0]).eps.len() == self.states@[0].epsilon_transitions@.len());
}
''')])

state_is_empty = Fn(F_NFA, 'NfaState', 'is_empty', ret='r', props=['C02'],
    spec='ensures r == sv_is_empty(state_view(*self))')

concat = Fn(F_NFA, 'Nfa', 'concat', props=['C02'],
    spec='''
requires
    ids_ok(*old(self)), ids_ok(nfa), v_wf(nfa_view(*old(self))), v_wf(nfa_view(nfa)), nfa.states@.len() >= 1, old(self).states@.len() >= 1,
    old(self).states@.len() + nfa.states@.len() <= u32::MAX,
ensures
    ids_ok(*final(self)), v_wf(nfa_view(*final(self))), final(self).states@.len() >= 1,
    // L(a.concat(b)) is built as: states of b appended (renumbered), a.end --eps--> b.start, end = b.end
    nfa_view(*final(self)) == v_concat(nfa_view(*old(self)), nfa_view(nfa)),
''',
    edits=[
        Ins('body_start', None, '''
let ghost a0 = nfa_view(*self);
let ghost b0 = nfa_view(nfa);
let ghost n = self.states@.len() as int;
'''),
        Ins('before', 'return;', '''
proof { lemma_view_ext(nfa_view(*self), b0); }
'''),
        Ins('after_stmt', 'self.append(nfa);', '''
proof {
    let joined = NfaV { states: a0.states + v_shift(b0, n).states, start: a0.start, end: a0.end };
    assert(nfa_view(*self).states =~= joined.states);
    lemma_view_ext(nfa_view(*self), joined);
}
'''),
        Ins('body_end', None, '''
proof { lemma_concat_wf(a0, b0); }
'''),
    ])

alternation = Fn(F_NFA, 'Nfa', 'alternation', props=['C02'],
    spec='''
requires
    ids_ok(*old(self)), ids_ok(nfa), v_wf(nfa_view(*old(self))), v_wf(nfa_view(nfa)), nfa.states@.len() >= 1, old(self).states@.len() >= 1,
    old(self).states@.len() + nfa.states@.len() + 2 <= u32::MAX,
ensures
    ids_ok(*final(self)), v_wf(nfa_view(*final(self))), final(self).states@.len() >= 1,
    nfa_view(*final(self)) == v_alt(nfa_view(*old(self)), nfa_view(nfa)),
''',
    edits=[
        Ins('body_start', None, '''
let ghost a0 = nfa_view(*self);
let ghost b0 = nfa_view(nfa);
let ghost n = self.states@.len() as int;
'''),
        Ins('after_stmt', 'self.append(nfa);', '''
proof {
    let joined = NfaV { states: a0.states + v_shift(b0, n).states, start: a0.start, end: a0.end };
    assert(nfa_view(*self).states =~= joined.states);
    lemma_view_ext(nfa_view(*self), joined);
}
'''),
        Ins('body_end', None, '''
proof { lemma_alt_wf(a0, b0); }
'''),
    ])


F_CAST = 'scnr/src/internal/comparable_ast.rs'
F_CC = 'scnr/src/internal/character_class.rs'
F_REG = 'scnr/src/internal/character_class_registry.rs'


cc_new = Fn(F_CC, 'CharacterClass', 'new', ret='r', spec='ensures r.id == id, r.ast.0 == ast', props=['C02'])

add_character_class = Fn(F_REG, 'CharacterClassRegistry', 'add_character_class', ret='id', props=['C02'],
    spec="""
requires old(self).view().len() < u32::MAX
ensures (id.0 as int, final(self).view()) == reg_add(old(self).view(), *ast)
""",
    edits=[
        Ins('body_start', None, 'let ghost reg = self.view();'),
        Replace('E3+E6', 'if let Some(id) = self.character_classes.iter().position(|cc| $body) {', """
let __cl0 = |cc: &CharacterClass| -> (b: bool) ensures b == cc_same(cc, &character_class) { $body };
let ghost g = |cc: CharacterClass| cc_same(&cc, &character_class);
let mut __it = self.character_classes.iter();
let ghost rem = __it.remaining();
proof {
    assert(models_pred(__cl0, g));
    assert(rem.len() == self.character_classes@.len());
    assert(forall|i: int| 0 <= i < rem.len() ==> *#[trigger] rem[i] == self.character_classes@[i]);
    assert(character_class.0 == *ast);
}
let __pos = __it.position(__cl0);
proof {
    assert(models_pred(__cl0, g));
    match __pos {
        Some(k) => {
            assert(g(*rem[k as int]));
            assert forall|j: int| 0 <= j < k implies !same_class(#[trigger] reg[j], *ast) by { assert(!g(*rem[j])); }
            assert(reg_has(reg, *ast, k as int));
            // the first equal entry is unique
            let c = choose|i: int| reg_has(reg, *ast, i);
            if c < k { assert(!same_class(reg[c], *ast)); }
            if k < c { assert(!same_class(reg[k as int], *ast)); }
        }
        None => {
            assert forall|i: int| !reg_has(reg, *ast, i) by { if 0 <= i < reg.len() { assert(!g(*rem[i])); } }
        }
    }
}
if let Some(id) = __pos {
proof { assert(self.view() =~= reg); }
""", why='closure typed and hoisted (E3); iter().position(..) chain split (E6)'),
        Ins('after_stmt', 'self.character_classes.push($_);', """
proof { assert(self.view() =~= reg.push(*ast)); }
"""),
    ])

nfa_new = Fn(F_NFA, 'Nfa', 'new', ret='r', props=['C02'],
    spec='ensures ids_ok(r), nfa_view(r) == v_new(), r.states@.len() == 1',
    edits=[Tail("""
proof {
    assert(__res.states@.len() == 1);
    lemma_view_ext(nfa_view(__res), v_new());
}
""")])

add_transition = Fn(F_NFA, 'Nfa', 'add_transition', props=['C02'],
    spec="""
requires ids_ok(*old(self)), from.0 < old(self).states@.len(), old(char_class_registry).view().len() < u32::MAX
ensures
    ids_ok(*final(self)), final(self).states@.len() == old(self).states@.len(),
    final(self).start_state == old(self).start_state, final(self).end_state == old(self).end_state,
    ({
        let (id, reg1) = reg_add(old(char_class_registry).view(), chars);
        0 <= id <= u32::MAX && final(char_class_registry).view() == reg1
            && nfa_view(*final(self)) == v_add_trans(nfa_view(*old(self)), from.0 as int, CharClassID(id as u32), target_state.0 as int)
    }),
""",
    edits=[Ins('body_end', None, """
proof {
    let (id, reg1) = reg_add(old(char_class_registry).view(), chars);
    let a = nfa_view(*self);
    let b = v_add_trans(nfa_view(*old(self)), from.0 as int, CharClassID(id as u32), target_state.0 as int);
    assert forall|i: int| 0 <= i < a.states.len() implies (#[trigger] a.states[i]).eps =~= b.states[i].eps && a.states[i].trans =~= b.states[i].trans by { }
    lemma_view_ext(a, b);
}
""")])

REP_INV = """
invariant
    {it}.obeys_prophetic_iter_laws(), {it}.decrease() is Some,
    ids_ok(nfa), ids_ok({x}), v_wf(nfa_view({x})), {x}.states@.len() >= 1, v_wf(nfa_view(nfa)), nfa.states@.len() >= 1,
    nfa_view({x}) == {xv},
    0 <= {k} <= {cnt}, {it}.remaining().len() == {cnt} - {k},
    nfa_view(nfa) == {acc},
    {fits},
decreases {it}.decrease()->0
"""

try_from_ast2 = Fn(
    F_NFA, 'Nfa', 'try_from_ast', ret='r', attrs='#[verifier::loop_isolation(false)] #[verifier::allow_complex_invariants]',
    spec="""
requires th_fits(ast, old(char_class_registry).view())
ensures
    r matches Ok(n) ==> ids_ok(n) && v_wf(nfa_view(n)) && n.states@.len() >= 1
        // the automaton is exactly the Thompson construction of the AST; leaves were registered left to right
        && (nfa_view(n), final(char_class_registry).view()) == thompson(ast, old(char_class_registry).view()),
decreases ast
""",
    props=['C02'],
    edits=[
        Ins('body_start', None, """
let ghost ast0 = ast;
let ghost reg0 = char_class_registry.view();
proof { lemma_new_wf(); }
"""),
        Replace('E5', 'nfa.set_pattern(&ast.to_string());', 'nfa.set_pattern(&verif_ast_to_string(&ast));',
                why='TRUSTED: Display of the AST (pattern text, debugging only) is opaque'),
        Replace('E5', 'Err(unsupported!($_))', 'Err(verif_unsupported())', occ='all', why='TRUSTED: error message construction (format!) is opaque'),
        # ---- leaves
        Ins('before', 'Ok(nfa)', """
proof {
    let (id, reg1) = reg_add(reg0, ast0);
    lemma_leaf_view(id);
}
""", occ=2, label='try_from_ast.literal'),
        Ins('before', 'Ok(nfa)', """
proof {
    let (id, reg1) = reg_add(reg0, ast0);
    lemma_leaf_view(id);
}
""", occ=3, label='try_from_ast.dot'),
        Ins('before', 'Ok(nfa)', """
proof {
    let (id, reg1) = reg_add(reg0, ast0);
    lemma_leaf_view(id);
}
""", occ=4, label='try_from_ast.class'),
        # ---- repetition
        Ins('after_stmt', 'let mut nfa2: Nfa = $_;', """
let ghost xv = nfa_view(nfa2);
let ghost reg1 = char_class_registry.view();
proof {
    assert((xv, reg1) == thompson(*r.ast, reg0));
    lemma_opt_wf(xv); lemma_plus_wf(xv); lemma_star_wf(xv);
}
""", label='try_from_ast.repetition_operand'),
        Ins('before', 'for _ in $lo..$hi {', 'let ghost mut k1: nat = 0;', occ=1),
        ForLoop('for _ in $lo..$hi {', it='__r1', occ=1, label='try_from_ast.exactly', spec=REP_INV.format(
            it='__r1', x='nfa2', xv='xv', k='k1', cnt='*c', acc='v_rep(v_new(), xv, k1)',
            fits='forall|k: nat| k <= *c ==> (#[trigger] v_rep(v_new(), xv, k)).states.len() + xv.states.len() <= max_states()')),
        Ins('block_end', 'for _ in $lo..$hi {', """
proof { lemma_concat_wf(v_rep(v_new(), xv, k1), xv); lemma_concat_len(v_rep(v_new(), xv, k1), xv); k1 = k1 + 1; }
""", occ=1),
        Ins('before', 'for _ in $lo..$hi {', 'let ghost mut k2: nat = 0;', occ=2),
        ForLoop('for _ in $lo..$hi {', it='__r2', occ=2, label='try_from_ast.at_least', spec=REP_INV.format(
            it='__r2', x='nfa2', xv='xv', k='k2', cnt='*c', acc='v_rep(v_new(), xv, k2)',
            fits='forall|k: nat| k <= *c ==> (#[trigger] v_rep(v_new(), xv, k)).states.len() + xv.states.len() + 2 <= max_states()')),
        Ins('block_end', 'for _ in $lo..$hi {', """
proof { lemma_concat_wf(v_rep(v_new(), xv, k2), xv); lemma_concat_len(v_rep(v_new(), xv, k2), xv); k2 = k2 + 1; }
""", occ=2),
        Ins('after_stmt', 'nfa.concat(nfa_zero_or_more);', """
proof { lemma_concat_wf(v_rep(v_new(), xv, *c as nat), v_star(xv)); }
"""),
        Ins('before', 'for _ in $lo..$hi {', 'let ghost mut k3: nat = 0;', occ=3),
        ForLoop('for _ in $lo..$hi {', it='__r3', occ=3, label='try_from_ast.bounded_least', spec=REP_INV.format(
            it='__r3', x='nfa2', xv='xv', k='k3', cnt='*least', acc='v_rep(v_new(), xv, k3)',
            fits='forall|k: nat| k <= *least ==> (#[trigger] v_rep(v_new(), xv, k)).states.len() + xv.states.len() + 1 <= max_states()')),
        Ins('block_end', 'for _ in $lo..$hi {', """
proof { lemma_concat_wf(v_rep(v_new(), xv, k3), xv); lemma_concat_len(v_rep(v_new(), xv, k3), xv); k3 = k3 + 1; }
""", occ=3),
        Ins('before', 'for _ in $lo..$hi {', """
let ghost mut k4: nat = 0;
let ghost base = v_rep(v_new(), xv, *least as nat);
let ghost ov = v_opt(xv);
""", occ=4),
        ForLoop('for _ in $lo..$hi {', it='__r4', occ=4, label='try_from_ast.bounded_most', spec=REP_INV.format(
            it='__r4', x='nfa_zero_or_one', xv='ov', k='k4', cnt='(*most - *least)', acc='v_rep(base, ov, k4)',
            fits='*least <= *most, forall|k: nat| k <= *most - *least ==> (#[trigger] v_rep(base, ov, k)).states.len() + xv.states.len() + 1 <= max_states()')),
        Ins('block_end', 'for _ in $lo..$hi {', """
proof { lemma_concat_wf(v_rep(base, ov, k4), ov); lemma_concat_len(v_rep(base, ov, k4), ov); k4 = k4 + 1; }
""", occ=4),
        # ---- group: the flags check only decides Ok / Err
        Replace('E11', 'if flags.items.iter().any(|f| $body) {', """
let mut __any = false;
let mut __it0 = flags.items.iter();
loop
    invariant __it0.obeys_prophetic_iter_laws(), __it0.decrease() is Some,
    decreases __it0.decrease()->0
{
    let Some(f) = __it0.next() else { break };
    if $body { __any = true; break; }
}
if __any {""", why='iter().any(|f| p(f)) is the short-circuiting loop (std definition); the predicate body is kept verbatim'),
        # ---- alternation
        Ins('after_stmt', 'let mut asts = a.asts.iter();', """
let ghost xs = a.asts@;
let ghost mut n: int = 0;
proof {
    assert(asts.remaining().len() == xs.len());
    assert(forall|i: int| 0 <= i < asts.remaining().len() ==> *#[trigger] asts.remaining()[i] == xs[i]);
    assert(th_fits(ast0, reg0) == th_alt_fits(xs, xs.len() as int, reg0));
}
""", label='try_from_ast.alternation'),
        Ins('after', 'if let Some(ast) = asts.next() {', """
proof {
    assert(*ast == xs[0]);
    lemma_alt_fits_prefix(xs, 1, xs.len() as int, reg0);
}
"""),
        Ins('after_stmt', 'nfa.pattern = pattern;', """
proof { n = 1; }
"""),
        ForLoop('for ast in asts {', it='__it1', into_iter=False, label='try_from_ast.alternation_loop', spec="""
invariant
    __it1.obeys_prophetic_iter_laws(), __it1.decrease() is Some,
    xs == a.asts@, ast0 == Ast::Alternation(*a), th_alt_fits(xs, xs.len() as int, reg0),
    0 <= n <= xs.len(), __it1.remaining().len() == xs.len() - n, xs.len() > 0 ==> n >= 1,
    forall|i: int| 0 <= i < __it1.remaining().len() ==> *#[trigger] __it1.remaining()[i] == xs[n + i],
    ids_ok(nfa), v_wf(nfa_view(nfa)), nfa.states@.len() >= 1,
    (nfa_view(nfa), char_class_registry.view()) == th_alt(xs, n, reg0),
ensures n == xs.len(), ids_ok(nfa), v_wf(nfa_view(nfa)), nfa.states@.len() >= 1, (nfa_view(nfa), char_class_registry.view()) == th_alt(xs, n, reg0),
decreases __it1.decrease()->0
"""),
        Ins('after', 'for ast in asts {', """
proof {
    assert(*ast == xs[n]); assert(*ast == a.asts@[n]); assert(ast0 == Ast::Alternation(*a));
    lemma_alt_fits_prefix(xs, n + 1, xs.len() as int, reg0);
}
let ghost accv = nfa_view(nfa);
""", occ=1),
        Ins('after_stmt', 'nfa.alternation(nfa2);', """
proof { n = n + 1; }
"""),
        # ---- concat
        Ins('before', 'for ast in c.asts.iter() {', """
let ghost ys = c.asts@;
let ghost mut m: int = 0;
proof { assert(th_fits(ast0, reg0) == th_concat_fits(ys, ys.len() as int, reg0)); }
"""),
        ForLoop('for ast in c.asts.iter() {', it='__it2', into_iter=False, label='try_from_ast.concat_loop', spec="""
invariant
    __it2.obeys_prophetic_iter_laws(), __it2.decrease() is Some,
    ys == c.asts@, ast0 == Ast::Concat(*c), th_concat_fits(ys, ys.len() as int, reg0),
    0 <= m <= ys.len(), __it2.remaining().len() == ys.len() - m,
    forall|i: int| 0 <= i < __it2.remaining().len() ==> *#[trigger] __it2.remaining()[i] == ys[m + i],
    ids_ok(nfa), v_wf(nfa_view(nfa)), nfa.states@.len() >= 1,
    (nfa_view(nfa), char_class_registry.view()) == th_concat(ys, m, reg0),
ensures m == ys.len(), ids_ok(nfa), v_wf(nfa_view(nfa)), nfa.states@.len() >= 1, (nfa_view(nfa), char_class_registry.view()) == th_concat(ys, m, reg0),
decreases __it2.decrease()->0
"""),
        Ins('after', 'for ast in c.asts.iter() {', """
proof {
    assert(*ast == ys[m]); assert(*ast == c.asts@[m]); assert(ast0 == Ast::Concat(*c));
    lemma_concat_fits_prefix(ys, m + 1, ys.len() as int, reg0);
}
"""),
        Ins('after_stmt', 'nfa.concat(nfa2);', """
proof { m = m + 1; }
""", occ=1),
    ])

UNIT = dict(
    name='u_nfa',
    externs=['regex_syntax'],
    header='''#![feature(allocator_api)]
#![feature(sized_hierarchy)]
#![allow(unused_imports, unused_variables, unused_mut, unused_assignments, dead_code, unused_parens, unused_braces)]
use vstd::prelude::*;
use vstd::std_specs::iter::IteratorSpec;
use regex_syntax::ast::{
    Alternation, Assertion, Ast, CaptureName, ClassBracketed, ClassPerl, ClassUnicode, Concat, Flag, Flags, FlagsItem, FlagsItemKind, Group,
    GroupKind, Literal, Position, Repetition, RepetitionKind, RepetitionOp, RepetitionRange, SetFlags, Span,
};
''',
    items=[
        IdMacro(F_IDS, 'StateID', members=('new', 'as_usize', 'id'), index_for=('Vec',), specs=ID_SPECS),
        IdMacro(F_IDS, 'CharClassID', members=('new', 'as_usize', 'id'), index_for=(), specs=ID_SPECS),
        Raw('''
impl<T> std::ops::IndexMut<StateID> for Vec<T> {
    fn index_mut(&mut self, index: StateID) -> (r: &mut T)
        ensures *r == old(self)@[index.0 as int], final(self)@ == old(self)@.update(index.0 as int, *final(r))
    { &mut self[index.0 as usize] }
}
// derived Default of the id newtype is the zero id (rule E4)
pub assume_specification[ <StateID as Default>::default ]() -> (r: StateID)
    ensures r.0 == 0;
#[verifier::external_body] pub struct ScnrError { _private: () }
pub type Result<T> = std::result::Result<T, ScnrError>;
// TRUSTED: construction of the error value (`unsupported!(format!(..))`) and of the pattern text (`ast.to_string()`)
#[verifier::external_body] pub fn verif_unsupported() -> ScnrError { unimplemented!() }
#[verifier::external_body] pub fn verif_ast_to_string(a: &Ast) -> String { unimplemented!() }

''', label='IndexMut<StateID> for Vec<T> (from impl_id!), opaque error type'),
        Raw('''
// opaque: carried along, never inspected by the combinators
#[verifier::external_body] pub struct Pattern { _private: () }
impl Default for Pattern {
    #[verifier::external_body]
    fn default() -> (r: Self) { unimplemented!() }
}
''', label='opaque Pattern'),
        RawFile('../u_ast/ast_types.rs'),
        Struct(F_CAST, 'ComparableAst', derive=[]),
        Raw('''
// contract PROVED in unit U-reg (`impl PartialEq for ComparableAst` computes same_class as defined in units/common/same_class_def.rs); same_class is abstract here
impl PartialEq for ComparableAst {
    #[verifier::external_body]
    fn eq(&self, other: &Self) -> (r: bool) ensures r == same_class(self.0, other.0) { unimplemented!() }
}
pub open spec fn models_pred<'a, T: 'a, P: FnMut(&'a T) -> bool>(p: P, g: spec_fn(T) -> bool) -> bool {
    forall|x: &'a T, b: bool| call_ensures(p, (x,), b) ==> b == g(*x)
}
pub assume_specification<'a, T, P: FnMut(&'a T) -> bool>[ <std::slice::Iter<'a, T> as Iterator>::position ](it: &mut std::slice::Iter<'a, T>, p: P) -> (r: Option<usize>)
    where std::slice::Iter<'a, T>: Sized
    requires
        (*old(it)).obeys_prophetic_iter_laws(),
        forall|x: &'a T| call_requires(p, (x,)),
    ensures
        r matches Some(k) ==> k < (*old(it)).remaining().len(),
        forall|g: spec_fn(T) -> bool, i: int| #![trigger models_pred(p, g), (*old(it)).remaining()[i]]
            models_pred(p, g) && 0 <= i < (*old(it)).remaining().len() && (r matches Some(k) ==> i <= k)
                ==> g(*(*old(it)).remaining()[i]) == (r matches Some(k) && i == k);
''', label='ComparableAst::eq is same_class (contract proved in unit U-reg); trusted: Iterator::position contract'),
        Struct(F_CC, 'CharacterClass', derive=[]),
        Struct(F_REG, 'CharacterClassRegistry', derive=[]),
        Raw('''
pub open spec fn cc_same(cc: &CharacterClass, other: &ComparableAst) -> bool { same_class(cc.ast.0, other.0) }
impl CharacterClassRegistry {
    /// the registered leaf ASTs, id = index
    pub open spec fn view(&self) -> Seq<Ast> {
        Seq::new(self.character_classes@.len(), |i: int| self.character_classes@[i].ast.0)
    }
}
''', label='registry view'),
        Raw('''
// derived Clone / Default (rule E4): field-wise
impl Clone for Nfa {
    #[verifier::external_body]
    fn clone(&self) -> (r: Self) ensures r == *self { unimplemented!() }
}
impl Default for NfaState {
    #[verifier::external_body]
    fn default() -> (r: Self) ensures r.state.0 == 0, r.epsilon_transitions@.len() == 0, r.transitions@.len() == 0 { unimplemented!() }
}
pub assume_specification[ <Literal as Clone>::clone ](a: &Literal) -> (r: Literal)
    ensures r == *a;
pub assume_specification[ <Span as Clone>::clone ](a: &Span) -> (r: Span)
    ensures r == *a;
''', label='derived Clone/Default'),
        Struct(F_NFA, 'EpsilonTransition', derive=[]),
        Struct(F_NFA, 'NfaTransition', derive=[]),
        Struct(F_NFA, 'NfaState', derive=[]),
        Struct(F_NFA, 'Nfa', derive=[]),
        RawFile('nfa_spec.rs'),
        RawFile('same_class_decl.rs'),
        RawFile('nfa_thompson.rs'),
        Raw('''
pub open spec fn targets_below(s: StateV, bound: int) -> bool {
    &&& forall|k: int| 0 <= k < s.eps.len() ==> 0 <= #[trigger] s.eps[k] < bound
    &&& forall|k: int| 0 <= k < s.trans.len() ==> 0 <= (#[trigger] s.trans[k]).1 < bound
}
pub open spec fn ids_ok(n: Nfa) -> bool {
    &&& n.states@.len() <= u32::MAX
    &&& forall|i: int| 0 <= i < n.states@.len() ==> (#[trigger] n.states@[i]).state.0 == i
}
''', label='ids_ok'),
        state_offset,
        new_state_fn, add_state, set_start, set_end, end_state, new_state, add_eps, zero_or_one, one_or_more, zero_or_more,
        state_is_empty, is_empty, shift_ids, append, concat, alternation,
        Fn(F_NFA, 'Nfa', 'set_pattern', external_body=True, spec='ensures final(self).states == old(self).states, final(self).start_state == old(self).start_state, final(self).end_state == old(self).end_state', trusted_reason='pattern text is carried along only'),
        cc_new, add_character_class, nfa_new, add_transition, try_from_ast2,
    ],
)
