# U-nfa: the Thompson layer (C02, partial): every NFA combinator produces exactly the abstract construction of nfa_spec.rs.
from extract import *

F_NFA = 'scnr/src/internal/nfa.rs'
F_IDS = 'scnr/src/internal/ids.rs'
ID_SPECS = {'new': 'ensures r.0 == index', 'as_usize': 'ensures r == self.0', 'id': 'ensures r == self.0'}

IDS_OK = 'ids_ok(*old(self))'

new_state_fn = Fn(F_NFA, 'NfaState', 'new', ret='r', spec='ensures r.state == state, state_view(r) == sv_empty()', props=['C02'],
                  edits=[Tail('proof { assert(state_view(__res).eps =~= Seq::<int>::empty()); assert(state_view(__res).trans =~= Seq::<(CharClassID, int)>::empty()); }')])

add_state = Fn(F_NFA, 'Nfa', 'add_state', spec='''
ensures final(self).states@ == old(self).states@.push(state), final(self).start_state == old(self).start_state, final(self).end_state == old(self).end_state,
''', props=['C02'])

set_start = Fn(F_NFA, 'Nfa', 'set_start_state', spec='''
ensures final(self).states == old(self).states, final(self).start_state == state, final(self).end_state == old(self).end_state,
''', props=['C02'])
set_end = Fn(F_NFA, 'Nfa', 'set_end_state', spec='''
ensures final(self).states == old(self).states, final(self).end_state == state, final(self).start_state == old(self).start_state,
''', props=['C02'])
end_state = Fn(F_NFA, 'Nfa', 'end_state', ret='r', spec='ensures r == self.end_state', props=['C02'])

new_state = Fn(F_NFA, 'Nfa', 'new_state', ret='r', spec='''
requires ids_ok(*old(self)), old(self).states@.len() < u32::MAX
ensures
    ids_ok(*final(self)), r.0 == old(self).states@.len(),
    nfa_view(*final(self)) == v_push_state(nfa_view(*old(self))),
    final(self).states@.len() == old(self).states@.len() + 1,
''', props=['C02'],
                edits=[Tail('''
proof {
    lemma_view_ext(nfa_view(*self), v_push_state(nfa_view(*old(self))));
}
''')])

add_eps = Fn(F_NFA, 'Nfa', 'add_epsilon_transition', spec='''
requires ids_ok(*old(self)), from.0 < old(self).states@.len()
ensures
    ids_ok(*final(self)), final(self).states@.len() == old(self).states@.len(),
    nfa_view(*final(self)) == v_add_eps(nfa_view(*old(self)), from.0 as int, target_state.0 as int),
''', props=['C02'],
             edits=[Ins('body_end', None, '''
proof {
    let a = nfa_view(*self);
    let b = v_add_eps(nfa_view(*old(self)), from.0 as int, target_state.0 as int);
    assert forall|i: int| 0 <= i < a.states.len() implies (#[trigger] a.states[i]).eps =~= b.states[i].eps && a.states[i].trans =~= b.states[i].trans by { }
    lemma_view_ext(a, b);
}
''')])

zero_or_one = Fn(F_NFA, 'Nfa', 'zero_or_one', spec='''
requires ids_ok(*old(self)), old(self).states@.len() < u32::MAX
ensures ids_ok(*final(self)), nfa_view(*final(self)) == v_opt(nfa_view(*old(self)))
''', props=['C02'])

one_or_more = Fn(F_NFA, 'Nfa', 'one_or_more', spec='''
requires ids_ok(*old(self)), old(self).states@.len() + 1 < u32::MAX, old(self).end_state.0 < old(self).states@.len()
ensures ids_ok(*final(self)), nfa_view(*final(self)) == v_plus(nfa_view(*old(self)))
''', props=['C02'])

zero_or_more = Fn(F_NFA, 'Nfa', 'zero_or_more', spec='''
requires ids_ok(*old(self)), old(self).states@.len() + 1 < u32::MAX, old(self).end_state.0 < old(self).states@.len()
ensures ids_ok(*final(self)), nfa_view(*final(self)) == v_star(nfa_view(*old(self)))
''', props=['C02'])


SHIFT_LOOP = '''
    let mut __i: usize = 0;
    let ghost s0 = *self;
    while __i < {vec}.len()
        invariant
            0 <= __i <= s0.{fld}@.len(), {vec}@.len() == s0.{fld}@.len(),
            offset + bound <= u32::MAX,
            self.state == s1.state, {frame}
            forall|k: int| 0 <= k < s0.{fld}@.len() ==> s0.{fld}@[k].target_state.0 < bound,
            forall|k: int| 0 <= k < __i ==> (#[trigger] {vec}@[k]).target_state.0 == s0.{fld}@[k].target_state.0 + offset{keep},
            forall|k: int| __i <= k < s0.{fld}@.len() ==> {vec}@[k] == s0.{fld}@[k],
        decreases s0.{fld}@.len() - __i
    {{
        proof {{ assert(s0.{fld}@[__i as int].target_state.0 < bound); assert({vec}@[__i as int] == s0.{fld}@[__i as int]); }}
        let {var} = &mut {vec}[__i];
        {body}
        __i += 1;
    }}
'''

state_offset = Fn(F_NFA, 'NfaState', 'offset', props=['C02'],
    spec='''
requires
    // every id mentioned by the state is below `bound`, and bound + offset still fits the id type
    exists|bound: int| #[trigger] targets_below(state_view(*old(self)), bound) && old(self).state.0 < bound && bound + offset <= u32::MAX,
ensures
    final(self).state.0 == old(self).state.0 + offset,
    state_view(*final(self)) == sv_shift(state_view(*old(self)), offset as int),
''',
    edits=[
        Ins('body_start', None, '''
let ghost bound = choose|bound: int| #[trigger] targets_below(state_view(*old(self)), bound) && old(self).state.0 < bound && bound + offset <= u32::MAX;
let ghost s00 = *self;
proof {
    assert forall|k: int| 0 <= k < s00.transitions@.len() implies s00.transitions@[k].target_state.0 < bound by {
        assert(state_view(s00).trans[k].1 == s00.transitions@[k].target_state.0);
    }
    assert forall|k: int| 0 <= k < s00.epsilon_transitions@.len() implies s00.epsilon_transitions@[k].target_state.0 < bound by {
        assert(state_view(s00).eps[k] == s00.epsilon_transitions@[k].target_state.0);
    }
}
'''),
        Ins('after_stmt', 'self.state = $_;', 'let ghost s1 = *self;'),
        Replace('E13', 'for transition in self.transitions.iter_mut() { $body }', SHIFT_LOOP.format(
            vec='self.transitions', fld='transitions', var='transition', body='$body',
            frame='self.epsilon_transitions == s1.epsilon_transitions,',
            keep=' && self.transitions@[k].char_class == s0.transitions@[k].char_class').replace('s0', 's1').replace('let ghost s1 = *self;', ''),
            why='`for x in v.iter_mut() { B }` written as an index loop `while i < v.len() { let x = &mut v[i]; B; i += 1 }` (same elements, same order); loop body kept verbatim'),
        Replace('E13', 'for epsilon_transition in self.epsilon_transitions.iter_mut() { $body }', '''
    let ghost s2 = *self;''' + SHIFT_LOOP.format(
            vec='self.epsilon_transitions', fld='epsilon_transitions', var='epsilon_transition', body='$body',
            frame='self.transitions == s2.transitions,', keep='').replace('s0', 's2').replace('let ghost s2 = *self;\n', '', 1).replace('self.state == s1.state', 'self.state == s2.state'),
            why='iter_mut loop written as an index loop (see above)'),
        Ins('body_end', None, '''
proof {
    let a = state_view(*self);
    let b = sv_shift(state_view(*old(self)), offset as int);
    assert(a.eps =~= b.eps);
    assert(a.trans =~= b.trans);
}
'''),
    ])


shift_ids = Fn(F_NFA, 'Nfa', 'shift_ids', ret='r', props=['C02'],
    spec='''
requires ids_ok(*old(self)), v_wf(nfa_view(*old(self))), old(self).states@.len() + offset <= u32::MAX
ensures
    final(self).states@.len() == old(self).states@.len(),
    forall|i: int| 0 <= i < final(self).states@.len() ==> (#[trigger] final(self).states@[i]).state.0 == i + offset,
    nfa_view(*final(self)) == v_shift(nfa_view(*old(self)), offset as int),
    r.0 == final(self).start_state, r.1 == final(self).end_state,
''',
    edits=[
        Ins('body_start', None, '''
let ghost n0 = *self;
let ghost bound = n0.states@.len() as int;
let ghost v0 = nfa_view(n0);
'''),
        Replace('E13', 'for state in self.states.iter_mut() { $body }', '''
    let mut __i: usize = 0;
    while __i < self.states.len()
        invariant
            0 <= __i <= n0.states@.len(), self.states@.len() == n0.states@.len(), bound == n0.states@.len(),
            bound + offset <= u32::MAX, ids_ok(n0), v_wf(nfa_view(n0)),
            self.start_state == n0.start_state, self.end_state == n0.end_state,
            forall|k: int| 0 <= k < __i ==> (#[trigger] self.states@[k]).state.0 == k + offset && state_view(self.states@[k]) == sv_shift(state_view(n0.states@[k]), offset as int),
            forall|k: int| __i <= k < n0.states@.len() ==> self.states@[k] == n0.states@[k],
        decreases n0.states@.len() - __i
    {
        proof {
            assert(self.states@[__i as int] == n0.states@[__i as int]);
            let sv = state_view(n0.states@[__i as int]);
            assert(nfa_view(n0).states[__i as int] == sv);
            assert(targets_below(sv, bound)) by {
                assert forall|k: int| 0 <= k < sv.eps.len() implies 0 <= #[trigger] sv.eps[k] < bound by { assert(0 <= nfa_view(n0).states[__i as int].eps[k] < bound); }
                assert forall|k: int| 0 <= k < sv.trans.len() implies 0 <= (#[trigger] sv.trans[k]).1 < bound by { assert(0 <= nfa_view(n0).states[__i as int].trans[k].1 < bound); }
            }
        }
        let state = &mut self.states[__i];
        $body
        __i += 1;
    }
''', why='iter_mut loop written as an index loop (same elements, same order); loop body kept verbatim'),
        Tail('''
proof {
    let a = nfa_view(*self);
    let b = v_shift(v0, offset as int);
    assert(a.states =~= b.states);
}
'''),
    ])

append = Fn(F_NFA, 'Nfa', 'append', props=['C02'],
    spec='''
requires
    ids_ok(*old(self)), old(self).states@.len() + nfa.states@.len() <= u32::MAX,
    forall|i: int| 0 <= i < nfa.states@.len() ==> (#[trigger] nfa.states@[i]).state.0 == i + old(self).states@.len(),
ensures
    ids_ok(*final(self)), final(self).states@ == old(self).states@ + nfa.states@,
    final(self).start_state == old(self).start_state, final(self).end_state == old(self).end_state,
''',
    edits=[
        Replace('E6', 'self.states.append(nfa.states.as_mut());', '{ let __t0 = &mut nfa.states; self.states.append(__t0); }',
                why='`v.as_mut()` on a Vec is `&mut v` (AsMut<Vec<T>> for Vec<T> is the identity)'),
    ])

is_empty = Fn(F_NFA, 'Nfa', 'is_empty', ret='r', props=['C02'],
    spec='''
requires self.states@.len() >= 1
ensures r == v_is_empty(nfa_view(*self))
''',
    edits=[Ins('body_start', None, '''
proof {
    let v = nfa_view(*self);
    assert(v.states[0] == state_view(self.states@[0]));
    assert(state_view(self.states@[0]).eps.len() == self.states@[0].epsilon_transitions@.len());
}
''')])

state_is_empty = Fn(F_NFA, 'NfaState', 'is_empty', ret='r', props=['C02'],
    spec='ensures r == sv_is_empty(state_view(*self))')

concat = Fn(F_NFA, 'Nfa', 'concat', props=['C02'],
    spec='''
requires
    ids_ok(*old(self)), ids_ok(nfa), v_wf(nfa_view(*old(self))), v_wf(nfa_view(nfa)), nfa.states@.len() >= 1, old(self).states@.len() >= 1,
    old(self).states@.len() + nfa.states@.len() <= u32::MAX,
ensures
    ids_ok(*final(self)), v_wf(nfa_view(*final(self))), final(self).states@.len() >= 1,
    // L(a.concat(b)) is built as: states of b appended (renumbered), a.end --eps--> b.start, end = b.end
    nfa_view(*final(self)) == v_concat(nfa_view(*old(self)), nfa_view(nfa)),
''',
    edits=[
        Ins('body_start', None, '''
let ghost a0 = nfa_view(*self);
let ghost b0 = nfa_view(nfa);
let ghost n = self.states@.len() as int;
'''),
        Ins('before', 'return;', '''
proof { lemma_view_ext(nfa_view(*self), b0); }
'''),
        Ins('after_stmt', 'self.append(nfa);', '''
proof {
    let joined = NfaV { states: a0.states + v_shift(b0, n).states, start: a0.start, end: a0.end };
    assert(nfa_view(*self).states =~= joined.states);
    lemma_view_ext(nfa_view(*self), joined);
}
'''),
        Ins('body_end', None, '''
proof { lemma_concat_wf(a0, b0); }
'''),
    ])

alternation = Fn(F_NFA, 'Nfa', 'alternation', props=['C02'],
    spec='''
requires
    ids_ok(*old(self)), ids_ok(nfa), v_wf(nfa_view(*old(self))), v_wf(nfa_view(nfa)), nfa.states@.len() >= 1, old(self).states@.len() >= 1,
    old(self).states@.len() + nfa.states@.len() + 2 <= u32::MAX,
ensures
    ids_ok(*final(self)), v_wf(nfa_view(*final(self))), final(self).states@.len() >= 1,
    nfa_view(*final(self)) == v_alt(nfa_view(*old(self)), nfa_view(nfa)),
''',
    edits=[
        Ins('body_start', None, '''
let ghost a0 = nfa_view(*self);
let ghost b0 = nfa_view(nfa);
let ghost n = self.states@.len() as int;
'''),
        Ins('after_stmt', 'self.append(nfa);', '''
proof {
    let joined = NfaV { states: a0.states + v_shift(b0, n).states, start: a0.start, end: a0.end };
    assert(nfa_view(*self).states =~= joined.states);
    lemma_view_ext(nfa_view(*self), joined);
}
'''),
        Ins('body_end', None, '''
proof { lemma_alt_wf(a0, b0); }
'''),
    ])

UNIT = dict(
    name='u_nfa',
    externs=['rustc_hash'],
    header='''#![allow(unused_imports, unused_variables, unused_mut, unused_assignments, dead_code, unused_parens, unused_braces)]
use vstd::prelude::*;
use vstd::std_specs::iter::IteratorSpec;
''',
    items=[
        IdMacro(F_IDS, 'StateID', members=('new', 'as_usize', 'id'), index_for=('Vec',), specs=ID_SPECS),
        IdMacro(F_IDS, 'CharClassID', members=('new', 'as_usize', 'id'), index_for=(), specs=ID_SPECS),
        Raw('''
impl<T> std::ops::IndexMut<StateID> for Vec<T> {
    fn index_mut(&mut self, index: StateID) -> (r: &mut T)
        ensures *r == old(self)@[index.0 as int], final(self)@ == old(self)@.update(index.0 as int, *final(r))
    { &mut self[index.0 as usize] }
}
// derived Default of the id newtype is the zero id (rule E4)
pub assume_specification[ <StateID as Default>::default ]() -> (r: StateID)
    ensures r.0 == 0;
// opaque: carried along, never inspected by the combinators
#[verifier::external_body] pub struct Pattern { _private: () }
#[verifier::external_body] pub struct ComparableAst { _private: () }
''', label='IndexMut<StateID> for Vec<T> (from impl_id!), opaque Pattern / ComparableAst'),
        Struct(F_NFA, 'EpsilonTransition', derive=[]),
        Struct(F_NFA, 'NfaTransition', derive=[]),
        Struct(F_NFA, 'NfaState', derive=[]),
        Struct(F_NFA, 'Nfa', derive=[]),
        RawFile('nfa_spec.rs'),
        Raw('''
pub open spec fn targets_below(s: StateV, bound: int) -> bool {
    &&& forall|k: int| 0 <= k < s.eps.len() ==> 0 <= #[trigger] s.eps[k] < bound
    &&& forall|k: int| 0 <= k < s.trans.len() ==> 0 <= (#[trigger] s.trans[k]).1 < bound
}
pub open spec fn ids_ok(n: Nfa) -> bool {
    &&& n.states@.len() <= u32::MAX
    &&& forall|i: int| 0 <= i < n.states@.len() ==> (#[trigger] n.states@[i]).state.0 == i
}
''', label='ids_ok'),
        state_offset,
        new_state_fn, add_state, set_start, set_end, end_state, new_state, add_eps, zero_or_one, one_or_more, zero_or_more,
        state_is_empty, is_empty, shift_ids, append, concat, alternation,
    ],
)
