// ---------------------------------------------------------------- the Thompson construction of a whole AST, as a pure function (what try_from_ast must compute)
pub open spec fn reg_has(reg: Seq<Ast>, a: Ast, i: int) -> bool {
    0 <= i < reg.len() && same_class(reg[i], a) && forall|j: int| 0 <= j < i ==> !same_class(#[trigger] reg[j], a)
}
/// id the registry hands out for `a`, and the registry afterwards: the first equal entry, else a new one at the end
pub open spec fn reg_add(reg: Seq<Ast>, a: Ast) -> (int, Seq<Ast>) {
    if exists|i: int| reg_has(reg, a, i) { (choose|i: int| reg_has(reg, a, i), reg) } else { (reg.len() as int, reg.push(a)) }
}

/// 0 --class--> 1
pub open spec fn v_leaf(id: int) -> NfaV {
    NfaV { states: seq![StateV { eps: Seq::empty(), trans: seq![(CharClassID(id as u32), 1int)] }, sv_empty()], start: 0, end: 1 }
}
/// acc . a . a ... (k times)
pub open spec fn v_rep(acc: NfaV, a: NfaV, k: nat) -> NfaV
    decreases k
{
    if k == 0 { acc } else { v_concat(v_rep(acc, a, (k - 1) as nat), a) }
}

pub open spec fn is_leaf(a: Ast) -> bool {
    a is Literal || a is Dot || a is ClassUnicode || a is ClassPerl || a is ClassBracketed
}

/// upper bound on state counts so that every id fits StateID (u32) with room for the two states a combinator adds
pub open spec fn max_states() -> int { u32::MAX as int - 2 }

/// result of the construction: the automaton and the registry after registering the leaves, left to right
pub open spec fn thompson(a: Ast, reg: Seq<Ast>) -> (NfaV, Seq<Ast>)
    decreases a, 0int
{
    match a {
        Ast::Repetition(r) => {
            let (x, r1) = thompson(*r.ast, reg);
            (match r.op.kind {
                RepetitionKind::ZeroOrOne => v_opt(x),
                RepetitionKind::ZeroOrMore => v_star(x),
                RepetitionKind::OneOrMore => v_plus(x),
                RepetitionKind::Range(rr) => match rr {
                    RepetitionRange::Exactly(c) => v_rep(v_new(), x, c as nat),
                    RepetitionRange::AtLeast(c) => v_concat(v_rep(v_new(), x, c as nat), v_star(x)),
                    RepetitionRange::Bounded(l, m) => v_rep(v_rep(v_new(), x, l as nat), v_opt(x), (if m >= l { m - l } else { 0 }) as nat),
                },
            }, r1)
        }
        Ast::Group(g) => thompson(*g.ast, reg),
        Ast::Alternation(x) => th_alt(x.asts@, x.asts@.len() as int, reg),
        Ast::Concat(x) => th_concat(x.asts@, x.asts@.len() as int, reg),
        Ast::Empty(_) => (v_new(), reg),
        _ => { let (id, r1) = reg_add(reg, a); (v_leaf(id), r1) }   // leaves (unsupported nodes never get here: Err)
    }
}
/// concatenation of the first n sub-patterns
pub open spec fn th_concat(asts: Seq<Ast>, n: int, reg: Seq<Ast>) -> (NfaV, Seq<Ast>)
    decreases asts, n
{
    if n <= 0 || n > asts.len() { (v_new(), reg) } else {
        let (acc, r1) = th_concat(asts, n - 1, reg);
        let (b, r2) = thompson(asts[n - 1], r1);
        (v_concat(acc, b), r2)
    }
}
/// alternation of the first n branches (the first branch initialises, even if it is the empty pattern)
pub open spec fn th_alt(asts: Seq<Ast>, n: int, reg: Seq<Ast>) -> (NfaV, Seq<Ast>)
    decreases asts, n
{
    if n <= 0 || n > asts.len() { (v_new(), reg) }
    else if n == 1 { thompson(asts[0], reg) }
    else {
        let (acc, r1) = th_alt(asts, n - 1, reg);
        let (b, r2) = thompson(asts[n - 1], r1);
        (v_alt(acc, b), r2)
    }
}

/// every intermediate automaton and the registry stay within the id types (otherwise state ids would wrap around)
pub open spec fn th_fits(a: Ast, reg: Seq<Ast>) -> bool
    decreases a, 0int
{
    match a {
        Ast::Repetition(r) => {
            let (x, r1) = thompson(*r.ast, reg);
            &&& th_fits(*r.ast, reg)
            &&& x.states.len() + 2 <= max_states()
            &&& match r.op.kind {
                RepetitionKind::Range(rr) => match rr {
                    RepetitionRange::Exactly(c) => forall|k: nat| k <= c ==> (#[trigger] v_rep(v_new(), x, k)).states.len() + x.states.len() <= max_states(),
                    RepetitionRange::AtLeast(c) => forall|k: nat| k <= c ==> (#[trigger] v_rep(v_new(), x, k)).states.len() + x.states.len() + 2 <= max_states(),
                    RepetitionRange::Bounded(l, m) => l <= m
                        && (forall|k: nat| k <= l ==> (#[trigger] v_rep(v_new(), x, k)).states.len() + x.states.len() + 1 <= max_states())
                        && (forall|k: nat| k <= m - l ==> (#[trigger] v_rep(v_rep(v_new(), x, l as nat), v_opt(x), k)).states.len() + x.states.len() + 1 <= max_states()),
                },
                _ => true,
            }
        }
        Ast::Group(g) => th_fits(*g.ast, reg),
        Ast::Alternation(x) => th_alt_fits(x.asts@, x.asts@.len() as int, reg),
        Ast::Concat(x) => th_concat_fits(x.asts@, x.asts@.len() as int, reg),
        Ast::Empty(_) => true,
        _ => reg.len() < u32::MAX,
    }
}
pub open spec fn th_concat_fits(asts: Seq<Ast>, n: int, reg: Seq<Ast>) -> bool
    decreases asts, n
{
    if n <= 0 || n > asts.len() { true } else {
        let (acc, r1) = th_concat(asts, n - 1, reg);
        let (b, r2) = thompson(asts[n - 1], r1);
        th_concat_fits(asts, n - 1, reg) && th_fits(asts[n - 1], r1) && acc.states.len() + b.states.len() <= max_states()
    }
}
pub open spec fn th_alt_fits(asts: Seq<Ast>, n: int, reg: Seq<Ast>) -> bool
    decreases asts, n
{
    if n <= 0 || n > asts.len() { true }
    else if n == 1 { th_fits(asts[0], reg) }
    else {
        let (acc, r1) = th_alt(asts, n - 1, reg);
        let (b, r2) = thompson(asts[n - 1], r1);
        th_alt_fits(asts, n - 1, reg) && th_fits(asts[n - 1], r1) && acc.states.len() + b.states.len() + 2 <= max_states()
    }
}

// ---- lemmas
pub proof fn lemma_alt_fits_prefix(asts: Seq<Ast>, n: int, m: int, reg: Seq<Ast>)
    requires 0 <= n <= m <= asts.len(), th_alt_fits(asts, m, reg)
    ensures th_alt_fits(asts, n, reg)
    decreases m - n
{
    if n < m {
        if m >= 2 { lemma_alt_fits_prefix(asts, n, m - 1, reg); }
        else { /* m == 1, n == 0 */ }
    }
}
pub proof fn lemma_concat_fits_prefix(asts: Seq<Ast>, n: int, m: int, reg: Seq<Ast>)
    requires 0 <= n <= m <= asts.len(), th_concat_fits(asts, m, reg)
    ensures th_concat_fits(asts, n, reg)
    decreases m - n
{
    if n < m { lemma_concat_fits_prefix(asts, n, m - 1, reg); }
}

pub proof fn lemma_leaf_view(id: int)
    requires 0 <= id <= u32::MAX
    ensures
        v_leaf(id) == v_add_trans(NfaV { end: 1, ..v_push_state(v_new()) }, 0, CharClassID(id as u32), 1),
        v_wf(v_leaf(id)), v_leaf(id).states.len() == 2,
{
    let a = v_leaf(id);
    let b = v_add_trans(NfaV { end: 1, ..v_push_state(v_new()) }, 0, CharClassID(id as u32), 1);
    assert(a.states.len() == 2 && b.states.len() == 2);
    lemma_view_ext(a, b);
}

pub proof fn lemma_new_wf()
    ensures v_wf(v_new()), v_new().states.len() == 1, v_is_empty(v_new())
{
}

pub proof fn lemma_opt_wf(a: NfaV)
    requires v_wf(a)
    ensures v_wf(v_opt(a)), v_opt(a).states.len() == a.states.len() + 1
{
    let s = a.states.len() as int;
    lemma_push_state_wf(a);
    lemma_add_eps_wf(v_push_state(a), s, a.start);
    lemma_add_eps_wf(v_add_eps(v_push_state(a), s, a.start), s, a.end);
}
pub proof fn lemma_plus_wf(a: NfaV)
    requires v_wf(a)
    ensures v_wf(v_plus(a)), v_plus(a).states.len() == a.states.len() + 2
{
    let s = a.states.len() as int;
    lemma_push_state_wf(a);
    lemma_add_eps_wf(v_push_state(a), s, a.start);
    let v1 = v_add_eps(v_push_state(a), s, a.start);
    lemma_push_state_wf(v1);
    let e = s + 1;
    lemma_add_eps_wf(v_push_state(v1), a.end, e);
    lemma_add_eps_wf(v_add_eps(v_push_state(v1), a.end, e), a.end, a.start);
}
pub proof fn lemma_star_wf(a: NfaV)
    requires v_wf(a)
    ensures v_wf(v_star(a)), v_star(a).states.len() == a.states.len() + 2
{
    let s = a.states.len() as int;
    lemma_push_state_wf(a);
    lemma_add_eps_wf(v_push_state(a), s, a.start);
    lemma_add_eps_wf(v_add_eps(v_push_state(a), s, a.start), s, a.end);
    let v1 = v_add_eps(v_add_eps(v_push_state(a), s, a.start), s, a.end);
    lemma_push_state_wf(v1);
    let e = s + 1;
    lemma_add_eps_wf(v_push_state(v1), a.end, e);
    lemma_add_eps_wf(v_add_eps(v_push_state(v1), a.end, e), a.end, a.start);
}
pub proof fn lemma_concat_len(a: NfaV, b: NfaV)
    requires v_wf(a), v_wf(b)
    ensures v_concat(a, b).states.len() == (if v_is_empty(a) { b.states.len() } else { a.states.len() + b.states.len() }), v_concat(a, b).states.len() >= 1
{
    if !v_is_empty(a) {
        let n = a.states.len() as int;
        lemma_joined_wf(a, b);
        lemma_shift_wf(b, n);
    }
}
pub proof fn lemma_alt_len(a: NfaV, b: NfaV)
    requires v_wf(a), v_wf(b)
    ensures v_alt(a, b).states.len() == a.states.len() + b.states.len() + 2
{
    let n = a.states.len() as int;
    lemma_shift_wf(b, n);
}
