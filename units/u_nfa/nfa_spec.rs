// ---------------------------------------------------------------- U-nfa: abstract view of the Thompson NFA and the constructions the code must implement (C02, Thompson layer)
/// abstract state: epsilon targets and (class, target) pairs, in insertion order
pub struct StateV { pub eps: Seq<int>, pub trans: Seq<(CharClassID, int)> }
pub struct NfaV { pub states: Seq<StateV>, pub start: int, pub end: int }

pub open spec fn state_view(s: NfaState) -> StateV {
    StateV {
        eps: Seq::new(s.epsilon_transitions@.len(), |i: int| s.epsilon_transitions@[i].target_state.0 as int),
        trans: Seq::new(s.transitions@.len(), |i: int| (s.transitions@[i].char_class, s.transitions@[i].target_state.0 as int)),
    }
}
pub open spec fn nfa_view(n: Nfa) -> NfaV {
    NfaV { states: Seq::new(n.states@.len(), |i: int| state_view(n.states@[i])), start: n.start_state.0 as int, end: n.end_state.0 as int }
}
/// state ids are their indices; start, end and every target are existing states
pub open spec fn nfa_wf(n: Nfa) -> bool {
    &&& n.states@.len() >= 1
    &&& n.states@.len() <= u32::MAX
    &&& forall|i: int| 0 <= i < n.states@.len() ==> (#[trigger] n.states@[i]).state.0 == i
    &&& v_wf(nfa_view(n))
}
pub open spec fn v_wf(v: NfaV) -> bool {
    &&& 0 <= v.start < v.states.len()
    &&& 0 <= v.end < v.states.len()
    &&& forall|i: int, k: int| 0 <= i < v.states.len() && 0 <= k < v.states[i].eps.len() ==> 0 <= #[trigger] v.states[i].eps[k] < v.states.len()
    &&& forall|i: int, k: int| 0 <= i < v.states.len() && 0 <= k < v.states[i].trans.len() ==> 0 <= (#[trigger] v.states[i].trans[k]).1 < v.states.len()
}

pub open spec fn sv_empty() -> StateV { StateV { eps: Seq::empty(), trans: Seq::empty() } }
pub open spec fn sv_is_empty(s: StateV) -> bool { s.eps.len() == 0 && s.trans.len() == 0 }

// ---- the constructions (Thompson), as pure functions on views
pub open spec fn v_new() -> NfaV { NfaV { states: seq![sv_empty()], start: 0, end: 0 } }
pub open spec fn v_is_empty(v: NfaV) -> bool { v.start == 0 && v.end == 0 && v.states.len() == 1 && sv_is_empty(v.states[0]) }

pub open spec fn v_push_state(v: NfaV) -> NfaV { NfaV { states: v.states.push(sv_empty()), ..v } }
pub open spec fn v_add_eps(v: NfaV, from: int, to: int) -> NfaV {
    NfaV { states: v.states.update(from, StateV { eps: v.states[from].eps.push(to), ..v.states[from] }), ..v }
}
pub open spec fn v_add_trans(v: NfaV, from: int, cc: CharClassID, to: int) -> NfaV {
    NfaV { states: v.states.update(from, StateV { trans: v.states[from].trans.push((cc, to)), ..v.states[from] }), ..v }
}
pub open spec fn sv_shift(s: StateV, off: int) -> StateV {
    StateV { eps: Seq::new(s.eps.len(), |i: int| s.eps[i] + off), trans: Seq::new(s.trans.len(), |i: int| (s.trans[i].0, s.trans[i].1 + off)) }
}
pub open spec fn v_shift(v: NfaV, off: int) -> NfaV {
    NfaV { states: Seq::new(v.states.len(), |i: int| sv_shift(v.states[i], off)), start: v.start + off, end: v.end + off }
}
/// a . b : the states of b are appended (renumbered), a.end --eps--> b.start, the end is b's end
pub open spec fn v_concat(a: NfaV, b: NfaV) -> NfaV {
    if v_is_empty(a) { b } else {
        let n = a.states.len() as int;
        let b2 = v_shift(b, n);
        let joined = NfaV { states: a.states + b2.states, start: a.start, end: a.end };
        NfaV { end: b2.end, ..v_add_eps(joined, a.end, b2.start) }
    }
}
/// a | b : new start S --eps--> a.start, b.start ; a.end, b.end --eps--> new end E
pub open spec fn v_alt(a: NfaV, b: NfaV) -> NfaV {
    let n = a.states.len() as int;
    let b2 = v_shift(b, n);
    let joined = NfaV { states: a.states + b2.states, start: a.start, end: a.end };
    let s = joined.states.len() as int;
    let v1 = v_add_eps(v_add_eps(v_push_state(joined), s, a.start), s, b2.start);
    let e = s + 1;
    let v2 = v_add_eps(v_add_eps(v_push_state(v1), a.end, e), b2.end, e);
    NfaV { start: s, end: e, ..v2 }
}
/// a? : new start S --eps--> a.start, a.end
pub open spec fn v_opt(a: NfaV) -> NfaV {
    let s = a.states.len() as int;
    NfaV { start: s, ..v_add_eps(v_add_eps(v_push_state(a), s, a.start), s, a.end) }
}
/// a+ : new start S --eps--> a.start ; a.end --eps--> new end E, a.start
pub open spec fn v_plus(a: NfaV) -> NfaV {
    let s = a.states.len() as int;
    let v1 = v_add_eps(v_push_state(a), s, a.start);
    let e = s + 1;
    NfaV { start: s, end: e, ..v_add_eps(v_add_eps(v_push_state(v1), a.end, e), a.end, a.start) }
}
/// a* : new start S --eps--> a.start, a.end ; a.end --eps--> new end E, a.start
pub open spec fn v_star(a: NfaV) -> NfaV {
    let s = a.states.len() as int;
    let v1 = v_add_eps(v_add_eps(v_push_state(a), s, a.start), s, a.end);
    let e = s + 1;
    NfaV { start: s, end: e, ..v_add_eps(v_add_eps(v_push_state(v1), a.end, e), a.end, a.start) }
}

pub proof fn lemma_view_ext(a: NfaV, b: NfaV)
    requires a.start == b.start, a.end == b.end, a.states.len() == b.states.len(),
        forall|i: int| 0 <= i < a.states.len() ==> (#[trigger] a.states[i]).eps =~= b.states[i].eps && a.states[i].trans =~= b.states[i].trans
    ensures a == b
{
    assert(a.states =~= b.states);
}

pub proof fn lemma_shift_wf(b: NfaV, n: int)
    requires v_wf(b), n >= 0
    ensures
        v_shift(b, n).states.len() == b.states.len(),
        n <= v_shift(b, n).start < n + b.states.len(), n <= v_shift(b, n).end < n + b.states.len(),
        forall|i: int, k: int| 0 <= i < b.states.len() && 0 <= k < v_shift(b, n).states[i].eps.len() ==> n <= #[trigger] v_shift(b, n).states[i].eps[k] < n + b.states.len(),
        forall|i: int, k: int| 0 <= i < b.states.len() && 0 <= k < v_shift(b, n).states[i].trans.len() ==> n <= (#[trigger] v_shift(b, n).states[i].trans[k]).1 < n + b.states.len(),
{
    assert forall|i: int, k: int| 0 <= i < b.states.len() && 0 <= k < v_shift(b, n).states[i].eps.len() implies n <= #[trigger] v_shift(b, n).states[i].eps[k] < n + b.states.len() by {
        assert(0 <= b.states[i].eps[k] < b.states.len());
    }
    assert forall|i: int, k: int| 0 <= i < b.states.len() && 0 <= k < v_shift(b, n).states[i].trans.len() implies n <= (#[trigger] v_shift(b, n).states[i].trans[k]).1 < n + b.states.len() by {
        assert(0 <= b.states[i].trans[k].1 < b.states.len());
    }
}

/// targets of the joined state vector (a's states followed by b's renumbered states) stay inside it
pub proof fn lemma_joined_wf(a: NfaV, b: NfaV)
    requires v_wf(a), v_wf(b)
    ensures v_wf(NfaV { states: a.states + v_shift(b, a.states.len() as int).states, start: a.start, end: a.end })
{
    let n = a.states.len() as int;
    let j = NfaV { states: a.states + v_shift(b, n).states, start: a.start, end: a.end };
    lemma_shift_wf(b, n);
    assert forall|i: int, k: int| 0 <= i < j.states.len() && 0 <= k < j.states[i].eps.len() implies 0 <= #[trigger] j.states[i].eps[k] < j.states.len() by {
        if i < n { assert(j.states[i] == a.states[i]); assert(0 <= a.states[i].eps[k] < n); }
        else { assert(j.states[i] == v_shift(b, n).states[i - n]); assert(n <= v_shift(b, n).states[i - n].eps[k] < n + b.states.len()); }
    }
    assert forall|i: int, k: int| 0 <= i < j.states.len() && 0 <= k < j.states[i].trans.len() implies 0 <= (#[trigger] j.states[i].trans[k]).1 < j.states.len() by {
        if i < n { assert(j.states[i] == a.states[i]); assert(0 <= a.states[i].trans[k].1 < n); }
        else { assert(j.states[i] == v_shift(b, n).states[i - n]); assert(n <= v_shift(b, n).states[i - n].trans[k].1 < n + b.states.len()); }
    }
}

pub proof fn lemma_add_eps_wf(v: NfaV, from: int, to: int)
    requires v_wf(v), 0 <= from < v.states.len(), 0 <= to < v.states.len()
    ensures v_wf(v_add_eps(v, from, to)), v_add_eps(v, from, to).states.len() == v.states.len()
{
    let w = v_add_eps(v, from, to);
    assert forall|i: int, k: int| 0 <= i < w.states.len() && 0 <= k < w.states[i].eps.len() implies 0 <= #[trigger] w.states[i].eps[k] < w.states.len() by {
        if i == from { if k < v.states[i].eps.len() { assert(w.states[i].eps[k] == v.states[i].eps[k]); } }
        else { assert(w.states[i] == v.states[i]); }
    }
    assert forall|i: int, k: int| 0 <= i < w.states.len() && 0 <= k < w.states[i].trans.len() implies 0 <= (#[trigger] w.states[i].trans[k]).1 < w.states.len() by {
        if i == from { assert(w.states[i].trans == v.states[i].trans); } else { assert(w.states[i] == v.states[i]); }
    }
}

pub proof fn lemma_push_state_wf(v: NfaV)
    requires v_wf(v)
    ensures v_wf(v_push_state(v)), v_push_state(v).states.len() == v.states.len() + 1
{
    let w = v_push_state(v);
    assert forall|i: int, k: int| 0 <= i < w.states.len() && 0 <= k < w.states[i].eps.len() implies 0 <= #[trigger] w.states[i].eps[k] < w.states.len() by {
        if i < v.states.len() { assert(w.states[i] == v.states[i]); assert(0 <= v.states[i].eps[k] < v.states.len()); }
    }
    assert forall|i: int, k: int| 0 <= i < w.states.len() && 0 <= k < w.states[i].trans.len() implies 0 <= (#[trigger] w.states[i].trans[k]).1 < w.states.len() by {
        if i < v.states.len() { assert(w.states[i] == v.states[i]); assert(0 <= v.states[i].trans[k].1 < v.states.len()); }
    }
}

pub proof fn lemma_concat_wf(a: NfaV, b: NfaV)
    requires v_wf(a), v_wf(b)
    ensures v_wf(v_concat(a, b))
{
    if !v_is_empty(a) {
        let n = a.states.len() as int;
        let b2 = v_shift(b, n);
        let joined = NfaV { states: a.states + b2.states, start: a.start, end: a.end };
        lemma_joined_wf(a, b);
        lemma_shift_wf(b, n);
        lemma_add_eps_wf(joined, a.end, b2.start);
    }
}

pub proof fn lemma_alt_wf(a: NfaV, b: NfaV)
    requires v_wf(a), v_wf(b)
    ensures v_wf(v_alt(a, b))
{
    let n = a.states.len() as int;
    let b2 = v_shift(b, n);
    let joined = NfaV { states: a.states + b2.states, start: a.start, end: a.end };
    lemma_joined_wf(a, b);
    lemma_shift_wf(b, n);
    let s = joined.states.len() as int;
    lemma_push_state_wf(joined);
    let p1 = v_push_state(joined);
    lemma_add_eps_wf(p1, s, a.start);
    lemma_add_eps_wf(v_add_eps(p1, s, a.start), s, b2.start);
    let v1 = v_add_eps(v_add_eps(p1, s, a.start), s, b2.start);
    lemma_push_state_wf(v1);
    let p2 = v_push_state(v1);
    let e = s + 1;
    lemma_add_eps_wf(p2, a.end, e);
    lemma_add_eps_wf(v_add_eps(p2, a.end, e), b2.end, e);
}
