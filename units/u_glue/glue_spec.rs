// ---------------------------------------------------------------- U-glue: from pattern text to the automaton handed to the minimizer
pub proof fn lemma_shift_zero(v: NfaV)
    ensures v_shift(v, 0) == v
{
    let w = v_shift(v, 0);
    assert forall|i: int| 0 <= i < v.states.len() implies (#[trigger] w.states[i]).eps =~= v.states[i].eps && w.states[i].trans =~= v.states[i].trans by {
        assert(w.states[i] == sv_shift(v.states[i], 0));
    }
    lemma_view_ext(w, v);
}
/// what Nfa::try_from_ast returns is what From<Nfa> / the closure layer require
pub proof fn lemma_thompson_sub_wf(n: Nfa)
    requires ids_ok(n), v_wf(nfa_view(n)), n.states@.len() >= 1
    ensures sub_wf(n), n_off(n) == 0
{
    lemma_shift_zero(nfa_view(n));
    lemma_shifted_sub_wf(n, nfa_view(n), 0);
}

/// d is the minimized epsilon-elimination automaton of the Thompson automaton of `ast` (built on registry reg0)
pub open spec fn la_compiled(ast: Ast, reg0: Seq<Ast>, d: CompiledDfa) -> bool {
    exists|n: Nfa, d0: CompiledDfa, reps: Seq<StateID>| ids_ok(n) && n.states@.len() >= 1 && #[trigger] nfa_view(n) == thompson(ast, reg0).0
        && #[trigger] elim_ok(g_nfa(n), d0, reps) && d0.terminal_ids@ == seq![TerminalID(n.pattern.token_type as u32)] && min_of(d0, d)
}
/// registry after compiling the lookaheads of the first i patterns, in order
pub open spec fn la_reg(pats: Seq<Pattern>, i: int, reg: Seq<Ast>) -> Seq<Ast>
    decreases i
{
    if i <= 0 { reg } else {
        let r = la_reg(pats, i - 1, reg);
        match pats[i - 1].lookahead { Some(la) => thompson(spec_parse(la.pattern@), r).1, None => r }
    }
}
/// size assumption for one lookahead: the construction stays below the id width, and so does its result
pub open spec fn la_fit1(ast: Ast, reg: Seq<Ast>) -> bool { th_fits(ast, reg) && thompson(ast, reg).0.states.len() < u32::MAX }
pub open spec fn la_fits(pats: Seq<Pattern>, reg: Seq<Ast>) -> bool {
    forall|i: int| 0 <= i < pats.len() ==> ((#[trigger] pats[i]).lookahead matches Some(la) ==> la_fit1(spec_parse(la.pattern@), la_reg(pats, i, reg)))
}
pub open spec fn tid_of(p: Pattern) -> TerminalID { TerminalID(p.token_type as u32) }
/// the lookahead stored for token type tid after the first k patterns: that of the LAST pattern among them with a lookahead and that token type
pub open spec fn la_last(pats: Seq<Pattern>, k: int, tid: TerminalID) -> int
    decreases k
{
    if k <= 0 { -1 } else if k <= pats.len() && pats[k - 1].lookahead is Some && tid_of(pats[k - 1]) == tid { k - 1 } else { la_last(pats, k - 1, tid) }
}
pub open spec fn la_entry_ok(pats: Seq<Pattern>, reg: Seq<Ast>, i: int, e: CompiledLookahead) -> bool {
    pats[i].lookahead matches Some(la) && e.is_positive == la.is_positive && la_compiled(spec_parse(la.pattern@), la_reg(pats, i, reg), *e.nfa)
}
/// the lookahead map after the first k patterns, on top of the map `base` the minimized automaton came with
pub open spec fn la_map_ok(pats: Seq<Pattern>, reg: Seq<Ast>, k: int, base: Map<TerminalID, CompiledLookahead>, m: Map<TerminalID, CompiledLookahead>) -> bool {
    forall|tid: TerminalID| #![trigger m.contains_key(tid)] #![trigger la_last(pats, k, tid)]
        if la_last(pats, k, tid) >= 0 { m.contains_key(tid) && la_entry_ok(pats, reg, la_last(pats, k, tid), m[tid]) }
        else { m.contains_key(tid) == base.contains_key(tid) && (base.contains_key(tid) ==> m[tid] == base[tid]) }
}
pub open spec fn mp_built(pats: Seq<Pattern>, reg0: Seq<Ast>, m: MultiPatternNfa) -> bool {
    &&& mp_wf(m)
    &&& m.nfas@.len() == pats.len() && m.patterns@ == pats
    &&& forall|i: int| 0 <= i < pats.len() ==> nfa_view(#[trigger] m.nfas@[i]) == v_shift(mp_th(pats, pats.len() as int, reg0).0[i], mp_off(pats, i, reg0))
            && n_off(m.nfas@[i]) == mp_off(pats, i, reg0) && m.nfas@[i].pattern.token_type == pats[i].token_type
}
/// the union has exactly the states counted by mp_off
pub proof fn lemma_mp_bound(pats: Seq<Pattern>, reg0: Seq<Ast>, m: MultiPatternNfa)
    requires mp_built(pats, reg0, m)
    ensures g_mp(m).bound == mp_off(pats, pats.len() as int, reg0)
{
    let n = pats.len() as int;
    if n > 0 {
        let i = n - 1;
        let nn = m.nfas@[i];
        assert(nfa_view(nn) == v_shift(mp_th(pats, n, reg0).0[i], mp_off(pats, i, reg0)));
        assert(nfa_view(nn).states.len() == nn.states@.len());
        assert(v_shift(mp_th(pats, n, reg0).0[i], mp_off(pats, i, reg0)).states.len() == mp_th(pats, n, reg0).0[i].states.len());
    }
}

/// what CompiledDfa::try_from_patterns returns for the patterns of a mode (registry reg0 before, regf after)
pub open spec fn dfa_built(pats: Seq<Pattern>, reg0: Seq<Ast>, d: CompiledDfa, regf: Seq<Ast>) -> bool {
    let reg1 = mp_th(pats, pats.len() as int, reg0).1;
    exists|m: MultiPatternNfa, d0: CompiledDfa, reps: Seq<StateID>, dm: CompiledDfa| {
        // the union of the Thompson automata, epsilon-eliminated, minimized (dm: what Minimizer::minimize returned for d0) ...
        &&& #[trigger] mp_built(pats, reg0, m) && #[trigger] elim_ok(g_mp(m), d0, reps) && #[trigger] min_of(d0, dm)
        &&& d0.terminal_ids@ == Seq::new(pats.len(), |i: int| tid_of(pats[i]))
        &&& d.states == dm.states && d.end_states == dm.end_states && d.terminal_ids == dm.terminal_ids
        // ... plus, per token type, the compiled lookahead of the last pattern carrying one
        &&& la_map_ok(pats, reg1, pats.len() as int, dm.lookaheads@, d.lookaheads@)
        &&& regf == la_reg(pats, pats.len() as int, reg1)
    }
}
