// ---------------------------------------------------------------- linking the two language theorems for a concrete (possibly renumbered) Nfa
/// the Nfa value as the closure layer sees it (graph view, ids = index + off) is the renumbered copy of the automaton view v0
pub open spec fn shifted_view(n: Nfa, v0: NfaV, off: int) -> bool {
    sub_wf(n) && n_off(n) == off && v0.states.len() == n_len(n) && nfa_view(n) == v_shift(v0, off)
}
pub proof fn lemma_shifted_state(n: Nfa, v0: NfaV, off: int, a: int)
    requires shifted_view(n, v0, off), has_state(n, a)
    ensures
        state_view(st(n, a)) == sv_shift(v0.states[a - off], off),
        st(n, a).epsilon_transitions@.len() == v0.states[a - off].eps.len(),
        st(n, a).transitions@.len() == v0.states[a - off].trans.len(),
        forall|k: int| 0 <= k < v0.states[a - off].eps.len() ==> (#[trigger] st(n, a).epsilon_transitions@[k]).target_state.0 == v0.states[a - off].eps[k] + off,
        forall|k: int| 0 <= k < v0.states[a - off].trans.len() ==> (#[trigger] st(n, a).transitions@[k]).target_state.0 == v0.states[a - off].trans[k].1 + off
            && st(n, a).transitions@[k].char_class == v0.states[a - off].trans[k].0,
{
    let i = a - off;
    assert(nfa_view(n).states[i] == state_view(n.states@[i]));
    assert(v_shift(v0, off).states[i] == sv_shift(v0.states[i], off));
    let sv = state_view(n.states@[i]);
    assert(sv.eps.len() == n.states@[i].epsilon_transitions@.len());
    assert(sv.trans.len() == n.states@[i].transitions@.len());
    assert forall|k: int| 0 <= k < v0.states[i].eps.len() implies (#[trigger] st(n, a).epsilon_transitions@[k]).target_state.0 == v0.states[i].eps[k] + off by {
        assert(sv.eps[k] == n.states@[i].epsilon_transitions@[k].target_state.0);
        assert(sv_shift(v0.states[i], off).eps[k] == v0.states[i].eps[k] + off);
    }
    assert forall|k: int| 0 <= k < v0.states[i].trans.len() implies (#[trigger] st(n, a).transitions@[k]).target_state.0 == v0.states[i].trans[k].1 + off
            && st(n, a).transitions@[k].char_class == v0.states[i].trans[k].0 by {
        assert(sv.trans[k] == (n.states@[i].transitions@[k].char_class, n.states@[i].transitions@[k].target_state.0 as int));
        assert(sv_shift(v0.states[i], off).trans[k] == (v0.states[i].trans[k].0, v0.states[i].trans[k].1 + off));
    }
}
pub proof fn lemma_view_eps_edge(n: Nfa, v0: NfaV, off: int, cls: ClsF, a: int, b: int)
    requires shifted_view(n, v0, off)
    ensures eps_edge(n, a, b) <==> v_edge(v0, cls, a - off, None, b - off)
{
    if eps_edge(n, a, b) {
        lemma_shifted_state(n, v0, off, a);
        let k = choose|k: int| 0 <= k < st(n, a).epsilon_transitions@.len() && (#[trigger] st(n, a).epsilon_transitions@[k]).target_state.0 == b;
        assert(v0.states[a - off].eps[k] == b - off);
    }
    if v_edge(v0, cls, a - off, None, b - off) {
        assert(has_state(n, a));
        lemma_shifted_state(n, v0, off, a);
        let k = choose|k: int| 0 <= k < v0.states[a - off].eps.len() && #[trigger] v0.states[a - off].eps[k] == b - off;
        assert(st(n, a).epsilon_transitions@[k].target_state.0 == b);
    }
}
pub proof fn lemma_view_tr_edge(n: Nfa, v0: NfaV, off: int, cls: ClsF, s: int, c: char, t: StateID)
    requires shifted_view(n, v0, off)
    ensures (exists|cc: CharClassID| #[trigger] tr_of(n, s, cc, t) && cls(cc, c)) <==> v_edge(v0, cls, s - off, Some(c), t.0 as int - off)
{
    if exists|cc: CharClassID| #[trigger] tr_of(n, s, cc, t) && cls(cc, c) {
        let cc = choose|cc: CharClassID| #[trigger] tr_of(n, s, cc, t) && cls(cc, c);
        let k = choose|k: int| #[trigger] tr_at(n, s, k, cc, t);
        lemma_shifted_state(n, v0, off, s);
        assert(v0.states[s - off].trans[k] == (cc, t.0 as int - off));
    }
    if v_edge(v0, cls, s - off, Some(c), t.0 as int - off) {
        assert(has_state(n, s));
        lemma_shifted_state(n, v0, off, s);
        let k = choose|k: int| 0 <= k < v0.states[s - off].trans.len() && cls((#[trigger] v0.states[s - off].trans[k]).0, c) && v0.states[s - off].trans[k].1 == t.0 as int - off;
        let cc = st(n, s).transitions@[k].char_class;
        assert(st(n, s).transitions@[k].target_state == t);
        assert(tr_at(n, s, k, cc, t));
        assert(tr_of(n, s, cc, t) && cls(cc, c));
    }
}
/// epsilon reachability of the graph view = a run of the automaton view that reads nothing
pub proof fn lemma_eps_reach_run(n: Nfa, v0: NfaV, off: int, cls: ClsF, a: int, b: int, k: nat)
    requires shifted_view(n, v0, off), eps_path(n, a, b, k)
    ensures v_lang(v0, cls, a - off, b - off, Seq::<char>::empty())
    decreases k
{
    if k == 0 { lemma_lang_refl(v0, cls, a - off); } else {
        let m = choose|m: int| eps_path(n, a, m, (k - 1) as nat) && #[trigger] eps_edge(n, m, b);
        lemma_eps_reach_run(n, v0, off, cls, a, m, (k - 1) as nat);
        lemma_view_eps_edge(n, v0, off, cls, m, b);
        lemma_lang_edge(v0, cls, m - off, None, b - off);
        lemma_lang_cat(v0, cls, a - off, m - off, b - off, Seq::<char>::empty(), lab_word(None));
        assert(Seq::<char>::empty() + lab_word(None) =~= Seq::<char>::empty());
    }
}
/// "after reading w from the pattern's start the automaton landed on t" inside one pattern NFA (w empty: t is the start)
pub open spec fn n_lands(n: Nfa, cls: ClsF, w: Seq<char>, t: int) -> bool { g_lands(g_nfa(n), cls, w, t) }
pub open spec fn lands_then_eps(n: Nfa, cls: ClsF, w: Seq<char>, y: int) -> bool {
    exists|t: int| #[trigger] n_lands(n, cls, w, t) && eps_reach(n, t, y)
}
pub proof fn lemma_run_to_lands(n: Nfa, v0: NfaV, off: int, cls: ClsF, p: VPath)
    requires shifted_view(n, v0, off), is_path(v0, cls, p), p.nodes[0] == n.start_state.0 - off
    ensures lands_then_eps(n, cls, labs_word(p.labs), p.nodes.last() + off)
    decreases p.labs.len()
{
    let g = g_nfa(n);
    let w = labs_word(p.labs);
    if p.labs.len() == 0 {
        lemma_reach_refl(n, g.start);
        assert(w =~= Seq::<char>::empty());
        assert(n_lands(n, cls, w, g.start));
    } else {
        let i = p.labs.len() as int - 1;
        lemma_path_split(v0, cls, p, i);
        let q = path_take(p, i);
        let r = path_skip(p, i);
        lemma_run_to_lands(n, v0, off, cls, q);
        let w0 = labs_word(q.labs);
        let t = choose|t: int| #[trigger] n_lands(n, cls, w0, t) && eps_reach(n, t, q.nodes.last() + off);
        let y0 = p.nodes[i] + off;
        let y = p.nodes.last() + off;
        lemma_step(v0, cls, r);
        assert(r.labs =~= seq![p.labs[i]]);
        lemma_labs_word_one(p.labs[i]);
        assert(w =~= w0 + lab_word(p.labs[i]));
        match p.labs[i] {
            None => {
                lemma_view_eps_edge(n, v0, off, cls, y0, y);
                lemma_reach_step(n, t, y0, y);
                assert(w =~= w0);
                assert(n_lands(n, cls, w, t));
            }
            Some(c) => {
                lemma_view_target_range(n, v0, off, cls, y0, c, y);
                let ty = StateID(y as u32);
                lemma_view_tr_edge(n, v0, off, cls, y0, c, ty);
                let cc = choose|cc: CharClassID| #[trigger] tr_of(n, y0, cc, ty) && cls(cc, c);
                assert(g_fires(g, t, cc, ty)) by { reveal(g_fires); assert((g.reach)(t, y0) && (g.tr)(y0, cc, ty)); }
                assert(g_step(g, cls, t, c, y));
                assert(w.drop_last() =~= w0 && w.last() == c);
                assert(n_lands(n, cls, w, y));
                lemma_reach_refl(n, y);
            }
        }
    }
}
pub proof fn lemma_view_target_range(n: Nfa, v0: NfaV, off: int, cls: ClsF, s: int, c: char, y: int)
    requires shifted_view(n, v0, off), v_edge(v0, cls, s - off, Some(c), y - off)
    ensures 0 <= y <= u32::MAX
{
    assert(has_state(n, s));
    lemma_shifted_state(n, v0, off, s);
    let k = choose|k: int| 0 <= k < v0.states[s - off].trans.len() && cls((#[trigger] v0.states[s - off].trans[k]).0, c) && v0.states[s - off].trans[k].1 == y - off;
    assert(y == st(n, s).transitions@[k].target_state.0);
}
pub proof fn lemma_lands_to_run(n: Nfa, v0: NfaV, off: int, cls: ClsF, w: Seq<char>, t: int)
    requires shifted_view(n, v0, off), n_lands(n, cls, w, t)
    ensures v_lang(v0, cls, n.start_state.0 as int - off, t - off, w)
    decreases w.len()
{
    let g = g_nfa(n);
    if w.len() == 0 { lemma_lang_refl(v0, cls, t - off); assert(w =~= Seq::<char>::empty()); } else {
        let m = choose|m: int| g_lands(g, cls, w.drop_last(), m) && #[trigger] g_step(g, cls, m, w.last(), t);
        lemma_lands_to_run(n, v0, off, cls, w.drop_last(), m);
        let (cc, tg) = choose|cc: CharClassID, tg: StateID| #[trigger] g_fires(g, m, cc, tg) && cls(cc, w.last()) && tg.0 == t;
        reveal(g_fires);
        let s = choose|s: int| (g.reach)(m, s) && #[trigger] (g.tr)(s, cc, tg);
        let k = choose|k: nat| eps_path(n, m, s, k);
        lemma_eps_reach_run(n, v0, off, cls, m, s, k);
        assert(tr_of(n, s, cc, tg) && cls(cc, w.last()));
        lemma_view_tr_edge(n, v0, off, cls, s, w.last(), tg);
        lemma_lang_edge(v0, cls, s - off, Some(w.last()), t - off);
        let st0 = n.start_state.0 as int - off;
        lemma_lang_cat(v0, cls, st0, m - off, s - off, w.drop_last(), Seq::<char>::empty());
        lemma_lang_cat(v0, cls, st0, s - off, t - off, w.drop_last() + Seq::<char>::empty(), lab_word(Some(w.last())));
        assert(w.drop_last() + Seq::<char>::empty() + lab_word(Some(w.last())) =~= w);
    }
}
/// one pattern NFA of the pipeline accepts a non-empty word (lands on a state whose closure holds its end state) iff the automaton view it was
/// renumbered from has a run from start to end reading it
pub proof fn lemma_n_accepts(n: Nfa, v0: NfaV, off: int, cls: ClsF, w: Seq<char>)
    requires shifted_view(n, v0, off), w.len() > 0, v0.start == n.start_state.0 - off, v0.end == n.end_state.0 - off
    ensures (exists|t: int| #[trigger] n_lands(n, cls, w, t) && eps_reach(n, t, n.end_state.0 as int)) <==> v_accepts(v0, cls, w)
{
    if exists|t: int| #[trigger] n_lands(n, cls, w, t) && eps_reach(n, t, n.end_state.0 as int) {
        let t = choose|t: int| #[trigger] n_lands(n, cls, w, t) && eps_reach(n, t, n.end_state.0 as int);
        lemma_lands_to_run(n, v0, off, cls, w, t);
        let k = choose|k: nat| eps_path(n, t, n.end_state.0 as int, k);
        lemma_eps_reach_run(n, v0, off, cls, t, n.end_state.0 as int, k);
        lemma_lang_cat(v0, cls, v0.start, t - off, v0.end, w, Seq::<char>::empty());
        assert(w + Seq::<char>::empty() =~= w);
    }
    if v_accepts(v0, cls, w) {
        let p = choose|p: VPath| #[trigger] path_from_to(v0, cls, p, v0.start, v0.end, w);
        lemma_run_to_lands(n, v0, off, cls, p);
    }
}
/// the unshifted case: what Nfa::try_from_ast returns
pub proof fn lemma_unshifted_view(n: Nfa)
    requires ids_ok(n), v_wf(nfa_view(n)), n.states@.len() >= 1
    ensures shifted_view(n, nfa_view(n), 0), nfa_view(n).start == n.start_state.0 - 0, nfa_view(n).end == n.end_state.0 - 0
{
    lemma_thompson_sub_wf(n);
    lemma_shift_zero(nfa_view(n));
}
pub proof fn lemma_g_nfa_accepts(n: Nfa, cls: ClsF, w: Seq<char>, tok: usize)
    requires ids_ok(n), v_wf(nfa_view(n)), n.states@.len() >= 1, w.len() > 0
    ensures g_acc(g_nfa(n), cls, w, tok) <==> (v_accepts(nfa_view(n), cls, w) && tok == n.pattern.token_type)
{
    let g = g_nfa(n);
    lemma_unshifted_view(n);
    lemma_n_accepts(n, nfa_view(n), 0, cls, w);
    if g_acc(g, cls, w, tok) {
        let t = choose|t: int| #[trigger] g_lands(g, cls, w, t) && (g.acc)(t) == Some(tok);
        assert(n_lands(n, cls, w, t) && eps_reach(n, t, n.end_state.0 as int));
    }
    if v_accepts(nfa_view(n), cls, w) && tok == n.pattern.token_type {
        let t = choose|t: int| #[trigger] n_lands(n, cls, w, t) && eps_reach(n, t, n.end_state.0 as int);
        assert(g_lands(g, cls, w, t) && (g.acc)(t) == Some(tok));
    }
}

/// END TO END for one pattern (every lookahead automaton; a single-pattern automaton): before minimization the compiled automaton accepts
/// a non-empty word with token type tid iff the pattern matches it and tid is the pattern's token type
pub proof fn theorem_single_pattern_language(n: Nfa, ast: Ast, reg: Seq<Ast>, reg2: Seq<Ast>, cls: ClsF, lf: LeafF, d0: CompiledDfa, reps: Seq<StateID>, w: Seq<char>, tid: TerminalID)
    requires
        ids_ok(n), n.states@.len() >= 1, nfa_view(n) == thompson(ast, reg).0, th_fits(ast, reg),
        lf_respects(lf), pre(thompson(ast, reg).1, reg2), cls_ok(cls, lf, reg2),
        elim_ok(g_nfa(n), d0, reps), w.len() > 0,
    ensures d_acc(d0, cls, w, tid) <==> (re_lang(ast, lf, w) && tid == TerminalID(n.pattern.token_type as u32))
{
    theorem_thompson_language(ast, reg, reg2, cls, lf, w);
    assert(v_wf(nfa_view(n)));
    lemma_thompson_sub_wf(n);
    lemma_g_nfa_wf(n);
    theorem_elim_language(g_nfa(n), d0, reps, cls, w);
    assert forall|tok: usize| g_acc(g_nfa(n), cls, w, tok) <==> (v_accepts(nfa_view(n), cls, w) && tok == n.pattern.token_type) by {
        lemma_g_nfa_accepts(n, cls, w, tok);
    }
    if d_acc(d0, cls, w, tid) {
        let tok = choose|tok: usize| #[trigger] g_acc(g_nfa(n), cls, w, tok) && tid == TerminalID(tok as u32);
    }
    if re_lang(ast, lf, w) && tid == TerminalID(n.pattern.token_type as u32) {
        assert(g_acc(g_nfa(n), cls, w, n.pattern.token_type));
    }
}

// ---------------------------------------------------------------- the union: landing in the union = landing in one of its pattern NFAs
pub open spec fn some_lands(m: MultiPatternNfa, cls: ClsF, w: Seq<char>, t: int) -> bool {
    exists|j: int| 0 <= j < mp_len(m) && #[trigger] n_lands(m.nfas@[j], cls, w, t)
}
pub proof fn lemma_n_lands_state(n: Nfa, cls: ClsF, w: Seq<char>, t: int)
    requires sub_wf(n), n_lands(n, cls, w, t)
    ensures has_state(n, t)
{
    lemma_g_nfa_wf(n);
    lemma_lands_ok(g_nfa(n), cls, w, t);
}
/// first step: the union start fires what the pattern starts fire
pub proof fn lemma_mp_step0(m: MultiPatternNfa, cls: ClsF, c: char, t: int)
    requires mp_wf(m)
    ensures g_step(g_mp(m), cls, 0, c, t) <==> exists|j: int| 0 <= j < mp_len(m) && #[trigger] g_step(g_nfa(m.nfas@[j]), cls, m.nfas@[j].start_state.0 as int, c, t)
{
    reveal(g_fires);
    let g = g_mp(m);
    if g_step(g, cls, 0, c, t) {
        let (cc, tg) = choose|cc: CharClassID, tg: StateID| #[trigger] g_fires(g, 0, cc, tg) && cls(cc, c) && tg.0 == t;
        let s = choose|s: int| (g.reach)(0, s) && #[trigger] (g.tr)(s, cc, tg);
        if s == 0 {
            let jj = choose|jj: int| 0 <= jj < mp_len(m) && jj < mp_len(m) && #[trigger] tr_of(m.nfas@[jj], m.nfas@[jj].start_state.0 as int, cc, tg);
            let nn = m.nfas@[jj];
            lemma_reach_refl(nn, nn.start_state.0 as int);
            assert((g_nfa(nn).reach)(nn.start_state.0 as int, nn.start_state.0 as int) && (g_nfa(nn).tr)(nn.start_state.0 as int, cc, tg));
            assert(g_fires(g_nfa(nn), nn.start_state.0 as int, cc, tg));
            assert(g_step(g_nfa(nn), cls, nn.start_state.0 as int, c, t));
        } else {
            let j = choose|j: int| 0 <= j < mp_len(m) && j < mp_len(m) && eps_reach(#[trigger] m.nfas@[j], m.nfas@[j].start_state.0 as int, s);
            let nn = m.nfas@[j];
            let k = choose|k: nat| eps_path(nn, nn.start_state.0 as int, s, k);
            lemma_reach_has_state(nn, nn.start_state.0 as int, s, k);
            let j2 = choose|j2: int| #[trigger] owner(m, s, j2) && tr_of(m.nfas@[j2], s, cc, tg);
            lemma_owner_unique(m, s, j, j2);
            assert((g_nfa(nn).reach)(nn.start_state.0 as int, s) && (g_nfa(nn).tr)(s, cc, tg));
            assert(g_fires(g_nfa(nn), nn.start_state.0 as int, cc, tg));
            assert(g_step(g_nfa(nn), cls, nn.start_state.0 as int, c, t));
        }
    }
    if exists|j: int| 0 <= j < mp_len(m) && #[trigger] g_step(g_nfa(m.nfas@[j]), cls, m.nfas@[j].start_state.0 as int, c, t) {
        let j = choose|j: int| 0 <= j < mp_len(m) && #[trigger] g_step(g_nfa(m.nfas@[j]), cls, m.nfas@[j].start_state.0 as int, c, t);
        let nn = m.nfas@[j];
        let gn = g_nfa(nn);
        let (cc, tg) = choose|cc: CharClassID, tg: StateID| #[trigger] g_fires(gn, nn.start_state.0 as int, cc, tg) && cls(cc, c) && tg.0 == t;
        let s = choose|s: int| (gn.reach)(nn.start_state.0 as int, s) && #[trigger] (gn.tr)(s, cc, tg);
        let k = choose|k: nat| eps_path(nn, nn.start_state.0 as int, s, k);
        lemma_reach_has_state(nn, nn.start_state.0 as int, s, k);
        assert(n_off(nn) >= 1);
        assert(s != 0);
        assert(mp_start_reach(m, mp_len(m), s));
        assert(owner(m, s, j) && tr_of(nn, s, cc, tg));
        assert((g.reach)(0, s) && (g.tr)(s, cc, tg));
        assert(g_fires(g, 0, cc, tg));
    }
}
/// later steps stay inside the pattern NFA that owns the state
pub proof fn lemma_mp_step_owned(m: MultiPatternNfa, cls: ClsF, j: int, a: int, c: char, t: int)
    requires mp_wf(m), owner(m, a, j)
    ensures g_step(g_mp(m), cls, a, c, t) <==> g_step(g_nfa(m.nfas@[j]), cls, a, c, t)
{
    reveal(g_fires);
    let g = g_mp(m);
    let nn = m.nfas@[j];
    let gn = g_nfa(nn);
    assert(n_off(nn) >= 1);
    assert(a != 0);
    if g_step(g, cls, a, c, t) {
        let (cc, tg) = choose|cc: CharClassID, tg: StateID| #[trigger] g_fires(g, a, cc, tg) && cls(cc, c) && tg.0 == t;
        let s = choose|s: int| (g.reach)(a, s) && #[trigger] (g.tr)(s, cc, tg);
        let j1 = choose|j1: int| #[trigger] owner(m, a, j1) && eps_reach(m.nfas@[j1], a, s);
        lemma_owner_unique(m, a, j, j1);
        let k = choose|k: nat| eps_path(nn, a, s, k);
        lemma_reach_has_state(nn, a, s, k);
        assert(s != 0);
        let j2 = choose|j2: int| #[trigger] owner(m, s, j2) && tr_of(m.nfas@[j2], s, cc, tg);
        lemma_owner_unique(m, s, j, j2);
        assert((gn.reach)(a, s) && (gn.tr)(s, cc, tg));
        assert(g_fires(gn, a, cc, tg));
    }
    if g_step(gn, cls, a, c, t) {
        let (cc, tg) = choose|cc: CharClassID, tg: StateID| #[trigger] g_fires(gn, a, cc, tg) && cls(cc, c) && tg.0 == t;
        let s = choose|s: int| (gn.reach)(a, s) && #[trigger] (gn.tr)(s, cc, tg);
        let k = choose|k: nat| eps_path(nn, a, s, k);
        lemma_reach_has_state(nn, a, s, k);
        assert(s != 0);
        assert(owner(m, a, j) && eps_reach(nn, a, s));
        assert(owner(m, s, j) && tr_of(nn, s, cc, tg));
        assert((g.reach)(a, s) && (g.tr)(s, cc, tg));
        assert(g_fires(g, a, cc, tg));
    }
}
pub proof fn lemma_mp_lands(m: MultiPatternNfa, cls: ClsF, w: Seq<char>, t: int)
    requires mp_wf(m), w.len() > 0
    ensures g_lands(g_mp(m), cls, w, t) <==> some_lands(m, cls, w, t)
    decreases w.len()
{
    let g = g_mp(m);
    let w0 = w.drop_last();
    let c = w.last();
    if w.len() == 1 {
        lemma_mp_step0(m, cls, c, t);
        if g_lands(g, cls, w, t) {
            let m0 = choose|m0: int| g_lands(g, cls, w0, m0) && #[trigger] g_step(g, cls, m0, c, t);
            assert(m0 == 0);
            let j = choose|j: int| 0 <= j < mp_len(m) && #[trigger] g_step(g_nfa(m.nfas@[j]), cls, m.nfas@[j].start_state.0 as int, c, t);
            assert(g_lands(g_nfa(m.nfas@[j]), cls, w0, m.nfas@[j].start_state.0 as int));
            assert(n_lands(m.nfas@[j], cls, w, t));
        }
        if some_lands(m, cls, w, t) {
            let j = choose|j: int| 0 <= j < mp_len(m) && #[trigger] n_lands(m.nfas@[j], cls, w, t);
            let gn = g_nfa(m.nfas@[j]);
            let m0 = choose|m0: int| g_lands(gn, cls, w0, m0) && #[trigger] g_step(gn, cls, m0, c, t);
            assert(m0 == m.nfas@[j].start_state.0);
            assert(g_step(g, cls, 0, c, t));
            assert(g_lands(g, cls, w0, 0));
        }
    } else {
        if g_lands(g, cls, w, t) {
            let m0 = choose|m0: int| g_lands(g, cls, w0, m0) && #[trigger] g_step(g, cls, m0, c, t);
            lemma_mp_lands(m, cls, w0, m0);
            let j = choose|j: int| 0 <= j < mp_len(m) && #[trigger] n_lands(m.nfas@[j], cls, w0, m0);
            lemma_n_lands_state(m.nfas@[j], cls, w0, m0);
            lemma_mp_step_owned(m, cls, j, m0, c, t);
            assert(g_lands(g_nfa(m.nfas@[j]), cls, w0, m0) && g_step(g_nfa(m.nfas@[j]), cls, m0, c, t));
            assert(n_lands(m.nfas@[j], cls, w, t));
        }
        if some_lands(m, cls, w, t) {
            let j = choose|j: int| 0 <= j < mp_len(m) && #[trigger] n_lands(m.nfas@[j], cls, w, t);
            let gn = g_nfa(m.nfas@[j]);
            let m0 = choose|m0: int| g_lands(gn, cls, w0, m0) && #[trigger] g_step(gn, cls, m0, c, t);
            assert(n_lands(m.nfas@[j], cls, w0, m0));
            lemma_n_lands_state(m.nfas@[j], cls, w0, m0);
            lemma_mp_step_owned(m, cls, j, m0, c, t);
            lemma_mp_lands(m, cls, w0, m0);
            assert(g_lands(g, cls, w0, m0) && g_step(g, cls, m0, c, t));
        }
    }
}
/// the union accepts w with token type tok iff one of its pattern NFAs, whose token type is tok, accepts w
pub open spec fn pattern_accepts(m: MultiPatternNfa, cls: ClsF, w: Seq<char>, j: int) -> bool {
    exists|t: int| #[trigger] n_lands(m.nfas@[j], cls, w, t) && eps_reach(m.nfas@[j], t, m.nfas@[j].end_state.0 as int)
}
pub proof fn lemma_mp_accepts(m: MultiPatternNfa, cls: ClsF, w: Seq<char>, tok: usize)
    requires mp_wf(m), w.len() > 0
    ensures g_acc(g_mp(m), cls, w, tok) <==> exists|j: int| 0 <= j < mp_len(m) && m.nfas@[j].pattern.token_type == tok && #[trigger] pattern_accepts(m, cls, w, j)
{
    let g = g_mp(m);
    if g_acc(g, cls, w, tok) {
        let t = choose|t: int| #[trigger] g_lands(g, cls, w, t) && (g.acc)(t) == Some(tok);
        lemma_mp_lands(m, cls, w, t);
        let j = choose|j: int| 0 <= j < mp_len(m) && #[trigger] n_lands(m.nfas@[j], cls, w, t);
        lemma_n_lands_state(m.nfas@[j], cls, w, t);
        lemma_mp_acc(m, t, j);
        assert(pattern_accepts(m, cls, w, j));
    }
    if exists|j: int| 0 <= j < mp_len(m) && m.nfas@[j].pattern.token_type == tok && #[trigger] pattern_accepts(m, cls, w, j) {
        let j = choose|j: int| 0 <= j < mp_len(m) && m.nfas@[j].pattern.token_type == tok && #[trigger] pattern_accepts(m, cls, w, j);
        let t = choose|t: int| #[trigger] n_lands(m.nfas@[j], cls, w, t) && eps_reach(m.nfas@[j], t, m.nfas@[j].end_state.0 as int);
        lemma_n_lands_state(m.nfas@[j], cls, w, t);
        lemma_mp_acc(m, t, j);
        assert(some_lands(m, cls, w, t));
        lemma_mp_lands(m, cls, w, t);
        assert(g_lands(g, cls, w, t) && (g.acc)(t) == Some(tok));
    }
}

// ---------------------------------------------------------------- END TO END for a mode: union of the patterns
/// thompson only extends the registry (obtained from the theorem with trivial class semantics)
pub proof fn lemma_th_pre(a: Ast, reg: Seq<Ast>)
    requires th_fits(a, reg)
    ensures pre(reg, thompson(a, reg).1), nice(thompson(a, reg).0)
{
    let lf = |x: Ast, c: char| false;
    let cls = |cc: CharClassID, c: char| false;
    let r1 = thompson(a, reg).1;
    assert(pre(r1, r1));
    theorem_thompson_language(a, reg, r1, cls, lf, Seq::<char>::empty());
}
pub proof fn lemma_mp_reg_pre(pats: Seq<Pattern>, i: int, k: int, reg0: Seq<Ast>)
    requires 0 <= i <= k <= pats.len(), mp_fits(pats, reg0)
    ensures pre(mp_th(pats, i, reg0).1, mp_th(pats, k, reg0).1)
    decreases k - i
{
    if i < k {
        lemma_mp_reg_pre(pats, i, k - 1, reg0);
        assert(th_fits(spec_parse(pats[k - 1].pattern@), mp_th(pats, k - 1, reg0).1));
        lemma_th_pre(spec_parse(pats[k - 1].pattern@), mp_th(pats, k - 1, reg0).1);
        lemma_pre_trans(mp_th(pats, i, reg0).1, mp_th(pats, k - 1, reg0).1, mp_th(pats, k, reg0).1);
    } else {
        assert(pre(mp_th(pats, i, reg0).1, mp_th(pats, i, reg0).1));
    }
}
/// pattern j's NFA in the union is the renumbered Thompson automaton of its text
pub proof fn lemma_mp_pattern_view(pats: Seq<Pattern>, reg0: Seq<Ast>, m: MultiPatternNfa, j: int)
    requires mp_built(pats, reg0, m), mp_fits(pats, reg0), 0 <= j < pats.len()
    ensures ({
        let v0 = thompson(spec_parse(pats[j].pattern@), mp_th(pats, j, reg0).1).0;
        shifted_view(m.nfas@[j], v0, mp_off(pats, j, reg0)) && v0.start == m.nfas@[j].start_state.0 - mp_off(pats, j, reg0) && v0.end == m.nfas@[j].end_state.0 - mp_off(pats, j, reg0)
    })
{
    let n = pats.len() as int;
    lemma_mp_th_len(pats, n, reg0);
    lemma_mp_th_len(pats, j + 1, reg0);
    if j + 1 < n { lemma_mp_th_prefix(pats, j, n, reg0); }
    let v0 = mp_th(pats, n, reg0).0[j];
    assert(mp_th(pats, j + 1, reg0).0[j] == thompson(spec_parse(pats[j].pattern@), mp_th(pats, j, reg0).1).0);
    let nn = m.nfas@[j];
    assert(sub_wf(nn));
    assert(nfa_view(nn).states.len() == nn.states@.len());
    assert(v_shift(v0, mp_off(pats, j, reg0)).states.len() == v0.states.len());
}
/// THEOREM: before minimization, the automaton of a mode accepts a non-empty word with token type tid iff some pattern of the mode with that
/// token type matches the word
pub proof fn theorem_union_language(pats: Seq<Pattern>, reg0: Seq<Ast>, reg2: Seq<Ast>, m: MultiPatternNfa, cls: ClsF, lf: LeafF, d0: CompiledDfa, reps: Seq<StateID>, w: Seq<char>, tid: TerminalID)
    requires
        mp_built(pats, reg0, m), mp_fits(pats, reg0),
        lf_respects(lf), pre(mp_th(pats, pats.len() as int, reg0).1, reg2), cls_ok(cls, lf, reg2),
        elim_ok(g_mp(m), d0, reps), w.len() > 0,
    ensures
        d_acc(d0, cls, w, tid) <==> exists|i: int| 0 <= i < pats.len() && tid == tid_of(pats[i]) && #[trigger] re_lang(spec_parse(pats[i].pattern@), lf, w),
{
    let n = pats.len() as int;
    lemma_g_mp_wf(m);
    theorem_elim_language(g_mp(m), d0, reps, cls, w);
    // per pattern: accepted by its NFA in the union <==> matched by its text
    assert forall|j: int| 0 <= j < n implies (#[trigger] pattern_accepts(m, cls, w, j) <==> re_lang(spec_parse(pats[j].pattern@), lf, w)) by {
        let ast = spec_parse(pats[j].pattern@);
        let rj = mp_th(pats, j, reg0).1;
        assert(th_fits(ast, rj));
        lemma_mp_pattern_view(pats, reg0, m, j);
        let v0 = thompson(ast, rj).0;
        lemma_n_accepts(m.nfas@[j], v0, mp_off(pats, j, reg0), cls, w);
        lemma_mp_reg_pre(pats, j + 1, n, reg0);
        lemma_pre_trans(mp_th(pats, j + 1, reg0).1, mp_th(pats, n, reg0).1, reg2);
        theorem_thompson_language(ast, rj, reg2, cls, lf, w);
    }
    assert forall|tok: usize| g_acc(g_mp(m), cls, w, tok) <==> exists|j: int| 0 <= j < mp_len(m) && m.nfas@[j].pattern.token_type == tok && #[trigger] pattern_accepts(m, cls, w, j) by {
        lemma_mp_accepts(m, cls, w, tok);
    }
    if d_acc(d0, cls, w, tid) {
        let tok = choose|tok: usize| #[trigger] g_acc(g_mp(m), cls, w, tok) && tid == TerminalID(tok as u32);
        let j = choose|j: int| 0 <= j < mp_len(m) && m.nfas@[j].pattern.token_type == tok && #[trigger] pattern_accepts(m, cls, w, j);
        assert(tid == tid_of(pats[j]) && re_lang(spec_parse(pats[j].pattern@), lf, w));
    }
    if exists|i: int| 0 <= i < pats.len() && tid == tid_of(pats[i]) && #[trigger] re_lang(spec_parse(pats[i].pattern@), lf, w) {
        let i = choose|i: int| 0 <= i < pats.len() && tid == tid_of(pats[i]) && #[trigger] re_lang(spec_parse(pats[i].pattern@), lf, w);
        assert(pattern_accepts(m, cls, w, i));
        assert(g_acc(g_mp(m), cls, w, pats[i].token_type));
    }
}

// ---------------------------------------------------------------- END TO END through the minimizer (contract of Minimizer::minimize proved in U-mini)
pub proof fn lemma_d_reach_cong(a: CompiledDfa, b: CompiledDfa, cls: ClsF, w: Seq<char>, t: int)
    requires a.states == b.states
    ensures d_reach(a, cls, w, t) <==> d_reach(b, cls, w, t)
    decreases w.len()
{
    if w.len() > 0 {
        assert forall|s: int| (d_reach(a, cls, w.drop_last(), s) && #[trigger] d_step(a, cls, s, w.last(), t)) <==> (d_reach(b, cls, w.drop_last(), s) && d_step(b, cls, s, w.last(), t)) by {
            lemma_d_reach_cong(a, b, cls, w.drop_last(), s);
        }
        if d_reach(a, cls, w, t) { let s = choose|s: int| d_reach(a, cls, w.drop_last(), s) && #[trigger] d_step(a, cls, s, w.last(), t); assert(d_step(b, cls, s, w.last(), t)); }
        if d_reach(b, cls, w, t) { let s = choose|s: int| d_reach(b, cls, w.drop_last(), s) && #[trigger] d_step(b, cls, s, w.last(), t); assert(d_step(a, cls, s, w.last(), t)); }
    }
}
/// acceptance reads the state and end-state vectors only (the lookahead map filled in afterwards does not change it)
pub proof fn lemma_d_acc_cong(a: CompiledDfa, b: CompiledDfa, cls: ClsF, w: Seq<char>, tid: TerminalID)
    requires a.states == b.states, a.end_states == b.end_states
    ensures d_acc(a, cls, w, tid) <==> d_acc(b, cls, w, tid)
{
    if d_acc(a, cls, w, tid) { let t = choose|t: int| 0 <= t < a.states@.len() && #[trigger] d_reach(a, cls, w, t) && a.end_states@[t] == (true, tid); lemma_d_reach_cong(a, b, cls, w, t); }
    if d_acc(b, cls, w, tid) { let t = choose|t: int| 0 <= t < b.states@.len() && #[trigger] d_reach(b, cls, w, t) && b.end_states@[t] == (true, tid); lemma_d_reach_cong(a, b, cls, w, t); }
}
/// END TO END for one pattern, minimizer included (every lookahead automaton as CompiledLookahead::try_from_lookahead returns it):
/// the compiled, minimized automaton accepts a non-empty word with token type tid iff the pattern matches it and tid is the pattern's token type
pub proof fn theorem_single_pattern_minimized(n: Nfa, ast: Ast, reg: Seq<Ast>, reg2: Seq<Ast>, cls: ClsF, lf: LeafF, d0: CompiledDfa, reps: Seq<StateID>, dm: CompiledDfa, w: Seq<char>, tid: TerminalID)
    requires
        ids_ok(n), n.states@.len() >= 1, nfa_view(n) == thompson(ast, reg).0, th_fits(ast, reg),
        lf_respects(lf), pre(thompson(ast, reg).1, reg2), cls_ok(cls, lf, reg2),
        elim_ok(g_nfa(n), d0, reps), min_of(d0, dm), w.len() > 0,
    ensures d_acc(dm, cls, w, tid) <==> (re_lang(ast, lf, w) && tid == TerminalID(n.pattern.token_type as u32))
{
    theorem_minimize_language(d0, dm, cls, w, tid);
    theorem_single_pattern_language(n, ast, reg, reg2, cls, lf, d0, reps, w, tid);
}
/// END TO END for a mode, minimizer included: the automaton CompiledDfa::try_from_patterns returns (d: states and end states of the minimized
/// automaton dm, lookahead map filled in afterwards) accepts a non-empty word with token type tid iff some pattern of the mode with that token
/// type matches the word
pub proof fn theorem_union_minimized(pats: Seq<Pattern>, reg0: Seq<Ast>, reg2: Seq<Ast>, m: MultiPatternNfa, cls: ClsF, lf: LeafF, d0: CompiledDfa, reps: Seq<StateID>, dm: CompiledDfa, d: CompiledDfa, w: Seq<char>, tid: TerminalID)
    requires
        mp_built(pats, reg0, m), mp_fits(pats, reg0),
        lf_respects(lf), pre(mp_th(pats, pats.len() as int, reg0).1, reg2), cls_ok(cls, lf, reg2),
        elim_ok(g_mp(m), d0, reps), min_of(d0, dm), d.states == dm.states, d.end_states == dm.end_states, w.len() > 0,
    ensures
        d_acc(d, cls, w, tid) <==> exists|i: int| 0 <= i < pats.len() && tid == tid_of(pats[i]) && #[trigger] re_lang(spec_parse(pats[i].pattern@), lf, w),
{
    lemma_d_acc_cong(d, dm, cls, w, tid);
    theorem_minimize_language(d0, dm, cls, w, tid);
    theorem_union_language(pats, reg0, reg2, m, cls, lf, d0, reps, w, tid);
}
