# U-glue: CompiledLookahead::try_from_lookahead, CompiledDfa::{try_from_patterns, add_lookahead} (C02): the functions that chain
# parse -> Nfa::try_from_ast / MultiPatternNfa::try_from_patterns -> From<..> for CompiledDfa and fill the lookahead map.
import os, importlib.util
from extract import *

def _load(name):
    p = os.path.join(os.path.dirname(os.path.abspath(__file__)), '..', name, 'unit.py')
    spec = importlib.util.spec_from_file_location('unit_' + name + '_for_glue', p)
    m = importlib.util.module_from_spec(spec)
    spec.loader.exec_module(m)
    return m

mp = _load('u_mp')
elim = _load('u_elim')
F_DFA, F_PAT, F_IDS = elim.F_DFA, elim.F_PAT, elim.F_IDS
F_LA = 'scnr/src/internal/compiled_lookahead.rs'
P = ['C02']
HERE = os.path.dirname(os.path.abspath(__file__))

def absfile(it, base):
    if isinstance(it, RawFile) and not os.path.isabs(it.path):
        return RawFile(os.path.join(base, it.path), it.label)
    return it

items = []
# (1) everything U-mp has; its proved functions through their contracts; Lookahead becomes the real struct
for it in mp.UNIT['items']:
    if isinstance(it, Fn) and not it.external_body:
        items.append(as_contract(it, 'contract proved in unit U-mp'))
    elif isinstance(it, Raw) and it.label == 'opaque Lookahead':
        items.append(Struct(F_PAT, 'Lookahead', derive=[]))
    else:
        items.append(absfile(it, os.path.join(HERE, '..', 'u_mp')))
# (2) what U-elim adds
have_ids = {it.name for it in items if isinstance(it, IdMacro)}
have_structs = {it.name for it in items if isinstance(it, Struct)}
for it in elim.UNIT['items']:
    if isinstance(it, IdMacro):
        if it.name not in have_ids:
            items.append(it)
    elif isinstance(it, Struct):
        if it.name not in have_structs:
            items.append(it)
            if it.name == 'StateData':
                items.append(Struct(F_LA, 'CompiledLookahead', derive=[]))
    elif isinstance(it, Raw):
        if it.label.startswith('opaque'):
            continue
        items.append(Raw(it.text.replace('''#[verifier::external]
impl std::fmt::Display for StateID {
    fn fmt(&self, f: &mut std::fmt::Formatter<'_>) -> std::fmt::Result { write!(f, "{}", self.0) }
}
''', ''), it.label))
    elif isinstance(it, RawFile):
        if it.label in ('sub_spec.rs', 'mp_spec.rs'):
            continue
        items.append(absfile(it, os.path.join(HERE, '..', 'u_elim')))
    elif isinstance(it, Fn):
        if it.qual in ('CompiledDfa::from__nfa', 'CompiledDfa::from__mp'):
            items.append(as_contract(it, 'contract proved in unit U-elim'))
        elif it.qual in ('StateData::new',):
            continue

try_from_lookahead = Fn(F_LA, 'CompiledLookahead', 'try_from_lookahead', ret='r', props=P,
    spec='''
requires la_fit1(spec_parse(lookahead.pattern@), old(character_class_registry).view())
ensures
    r matches Ok(la) ==> la.is_positive == lookahead.is_positive
        // the lookahead automaton: minimized epsilon elimination of the Thompson automaton of the lookahead text
        && la_compiled(spec_parse(lookahead.pattern@), old(character_class_registry).view(), *la.nfa)
        && final(character_class_registry).view() == thompson(spec_parse(lookahead.pattern@), old(character_class_registry).view()).1,
''',
    edits=[
        Ins('body_start', None, 'let ghost reg0 = character_class_registry.view();'),
        Replace('E9', 'let nfa = Box::new(nfa.into());', '''
let ghost n0 = nfa;
proof { lemma_thompson_sub_wf(n0); assert(n_len(n0) == nfa_view(n0).states.len()); }
let nfa = Box::new(CompiledDfa::from__nfa(nfa));
proof {
    let (d0, reps) = choose|d0: CompiledDfa, reps: Seq<StateID>| elim_ok(g_nfa(n0), d0, reps) && d0.terminal_ids@ == seq![TerminalID(n0.pattern.token_type as u32)] && min_of(d0, *nfa);
    assert(nfa_view(n0) == thompson(spec_parse(lookahead.pattern@), reg0).0 && elim_ok(g_nfa(n0), d0, reps));
}
''', why='`x.into()` resolved to the From impl its argument type selects (trait dispatch by type, E9)'),
    ])

add_lookahead = Fn(F_DFA, 'CompiledDfa', 'add_lookahead', props=P,
    spec='''
ensures
    final(self).lookaheads@ == old(self).lookaheads@.insert(terminal_id, lookahead),
    final(self).states == old(self).states, final(self).end_states == old(self).end_states, final(self).terminal_ids == old(self).terminal_ids,
    final(self).patterns == old(self).patterns, final(self).current_states == old(self).current_states, final(self).next_states == old(self).next_states,
''',
    edits=[Ins('body_start', None, 'broadcast use axiom_fx_valid, axiom_terminal_key_model;')])

pat_lookahead = Fn(F_PAT, 'Pattern', 'lookahead', ret='r', props=P,
    spec='ensures match r { Some(l) => self.lookahead == Some(*l), None => self.lookahead is None }')

dfa_try_from_patterns = Fn(F_DFA, 'CompiledDfa', 'try_from_patterns', ret='r', props=P, attrs='#[verifier::loop_isolation(false)] #[verifier::allow_complex_invariants]',
    spec='''
requires
    mp_fits(patterns@, old(character_class_registry).view()), mp_off(patterns@, patterns@.len() as int, old(character_class_registry).view()) < u32::MAX,
    la_fits(patterns@, mp_th(patterns@, patterns@.len() as int, old(character_class_registry).view()).1),
ensures
    r matches Ok(d) ==> dfa_built(patterns@, old(character_class_registry).view(), d, final(character_class_registry).view()),
''',
    edits=[
        Ins('body_start', None, '''
let ghost pats = patterns@;
let ghost reg0 = character_class_registry.view();
let ghost reg1 = mp_th(pats, pats.len() as int, reg0).1;
'''),
        Ins('after_stmt', 'let mp_nfa = $_;', '''
let ghost m = mp_nfa;
proof { assert(mp_built(pats, reg0, m)); lemma_mp_bound(pats, reg0, m); }
'''),
        Replace('E9', 'let mut compiled_dfa: CompiledDfa = mp_nfa.into();', '''
let mut compiled_dfa: CompiledDfa = CompiledDfa::from__mp(mp_nfa);
let ghost (d0, reps) = choose|d0: CompiledDfa, reps: Seq<StateID>| elim_ok(g_mp(m), d0, reps)
    && d0.terminal_ids@ == Seq::new(m.patterns@.len(), |i: int| TerminalID(m.patterns@[i].token_type as u32)) && min_of(d0, compiled_dfa);
let ghost dm = compiled_dfa;
proof {
    assert(d0.terminal_ids@ =~= Seq::new(pats.len(), |i: int| tid_of(pats[i])));
}
''', why='`x.into()` resolved to the From impl its argument type selects (trait dispatch by type, E9)'),
        ForLoop('for pattern in patterns.iter() {', it='__it1', into_iter=False, label='dfa_try_from_patterns.lookaheads',
                pre='let ghost rem0 = __it1.remaining(); proof { assert(rem0.len() == pats.len()); assert(forall|i: int| 0 <= i < rem0.len() ==> *#[trigger] rem0[i] == pats[i]); }',
                spec='''
invariant
    __it1.obeys_prophetic_iter_laws(), __it1.decrease() is Some,
    rem0.len() == pats.len(), forall|i: int| 0 <= i < rem0.len() ==> *#[trigger] rem0[i] == pats[i],
    __it1.remaining().len() <= pats.len(),
    forall|q: int| 0 <= q < __it1.remaining().len() ==> #[trigger] __it1.remaining()[q] == rem0[rem0.len() - __it1.remaining().len() + q],
    pats == patterns@, la_fits(pats, reg1),
    compiled_dfa.states == dm.states, compiled_dfa.end_states == dm.end_states, compiled_dfa.terminal_ids == dm.terminal_ids,
    la_map_ok(pats, reg1, pats.len() - __it1.remaining().len(), dm.lookaheads@, compiled_dfa.lookaheads@),
    character_class_registry.view() == la_reg(pats, pats.len() - __it1.remaining().len(), reg1),
ensures __it1.remaining().len() == 0,
decreases __it1.decrease()->0
'''),
        Ins('after', 'for pattern in patterns.iter() {', '''
let ghost k = pats.len() - __it1.remaining().len() - 1;
let ghost lm_in = compiled_dfa.lookaheads@;
proof { assert(*pattern == pats[k]); }
'''),
        Ins('after', 'if let Some(lookahead) = pattern.lookahead() {', '''
proof { assert(pats[k].lookahead == Some(*lookahead)); assert(la_fit1(spec_parse(lookahead.pattern@), la_reg(pats, k, reg1))); }
'''),
        Ins('block_end', 'for pattern in patterns.iter() {', '''
proof {
    let lm = compiled_dfa.lookaheads@;
    assert(la_map_ok(pats, reg1, k + 1, dm.lookaheads@, lm)) by {
        assert forall|tid: TerminalID| #![trigger lm.contains_key(tid)] #![trigger la_last(pats, k + 1, tid)]
            if la_last(pats, k + 1, tid) >= 0 { lm.contains_key(tid) && la_entry_ok(pats, reg1, la_last(pats, k + 1, tid), lm[tid]) }
            else { lm.contains_key(tid) == dm.lookaheads@.contains_key(tid) && (dm.lookaheads@.contains_key(tid) ==> lm[tid] == dm.lookaheads@[tid]) } by {
            let l0 = la_last(pats, k, tid);
            assert(if l0 >= 0 { lm_in.contains_key(tid) && la_entry_ok(pats, reg1, l0, lm_in[tid]) }
                else { lm_in.contains_key(tid) == dm.lookaheads@.contains_key(tid) && (dm.lookaheads@.contains_key(tid) ==> lm_in[tid] == dm.lookaheads@[tid]) });
        }
    }
}
'''),
        Ins('before', 'Ok(compiled_dfa)', '''
proof {
    assert(mp_built(pats, reg0, m) && elim_ok(g_mp(m), d0, reps) && min_of(d0, dm));
}
'''),
    ])

items += [
    Raw('''
pub broadcast axiom fn axiom_terminal_key_model()
    ensures #[trigger] vstd::std_specs::hash::obeys_key_model::<TerminalID>();
''', label='TerminalID as a hash key (derived Hash/Eq, rule E4)'),
    RawFile('glue_spec.rs'),
] + [RawFile(os.path.join(HERE, '..', 'u_lang', f), f) for f in ['lang_path.rs', 'lang_embed.rs', 'lang_constr.rs', 'lang_regex.rs', 'lang_thm.rs', 'lang_cls.rs', 'lang_fresh.rs']] + [
    RawFile('glue_lang.rs'),
    pat_lookahead, try_from_lookahead, add_lookahead, dfa_try_from_patterns,
]

UNIT = dict(
    name='u_glue',
    externs=['regex_syntax', 'rustc_hash'],
    header=mp.UNIT['header'] + 'use rustc_hash::{FxHashMap, FxHashSet};\nuse std::collections::{BTreeSet, VecDeque};\n',
    items=items,
)
