// ---------------------------------------------------------------- the multi-pattern union: state 0 plus the pattern NFAs on disjoint id ranges
pub open spec fn mp_len(m: MultiPatternNfa) -> int { m.nfas@.len() as int }
pub open spec fn mp_wf(m: MultiPatternNfa) -> bool {
    &&& m.start_transitions@.len() == m.nfas@.len()
    &&& forall|i: int| 0 <= i < mp_len(m) ==> sub_wf(#[trigger] m.nfas@[i]) && n_off(m.nfas@[i]) >= 1
    &&& forall|i: int| 0 <= i < mp_len(m) ==> (#[trigger] m.start_transitions@[i]).target_state == m.nfas@[i].start_state
    &&& forall|i: int, j: int| 0 <= i < j < mp_len(m) ==> n_off(#[trigger] m.nfas@[i]) + n_len(m.nfas@[i]) <= n_off(#[trigger] m.nfas@[j])
}
/// pattern NFA j owns state id a
pub open spec fn owner(m: MultiPatternNfa, a: int, j: int) -> bool { 0 <= j < mp_len(m) && has_state(m.nfas@[j], a) }
pub proof fn lemma_owner_unique(m: MultiPatternNfa, a: int, i: int, j: int)
    requires mp_wf(m), owner(m, a, i), owner(m, a, j)
    ensures i == j
{
    if i < j { assert(n_off(m.nfas@[i]) + n_len(m.nfas@[i]) <= n_off(m.nfas@[j])); }
    if j < i { assert(n_off(m.nfas@[j]) + n_len(m.nfas@[j]) <= n_off(m.nfas@[i])); }
}
/// reached from one of the first `upto` pattern start states
pub open spec fn mp_start_reach(m: MultiPatternNfa, upto: int, b: int) -> bool {
    exists|j: int| 0 <= j < upto && j < mp_len(m) && eps_reach(#[trigger] m.nfas@[j], m.nfas@[j].start_state.0 as int, b)
}
/// epsilon closure in the union: state 0 reaches itself and everything the pattern start states reach; any other state
/// reaches what it reaches inside its own pattern NFA (a state no pattern owns reaches nothing, not even itself)
pub open spec fn mp_reach(m: MultiPatternNfa, a: int, b: int) -> bool {
    if a == 0 { b == 0 || mp_start_reach(m, mp_len(m), b) }
    else { exists|j: int| #[trigger] owner(m, a, j) && eps_reach(m.nfas@[j], a, b) }
}
pub open spec fn contains_id(n: Nfa, state: StateID) -> bool { exists|i: int| 0 <= i < n.states@.len() && (#[trigger] n.states@[i]).state == state }
pub proof fn lemma_contains_id(n: Nfa, state: StateID)
    requires sub_wf(n)
    ensures contains_id(n, state) <==> has_state(n, state.0 as int)
{
    if contains_id(n, state) { let i = choose|i: int| 0 <= i < n.states@.len() && (#[trigger] n.states@[i]).state == state; assert(n.states@[i].state.0 == n_off(n) + i); }
    if has_state(n, state.0 as int) { let i = state.0 - n_off(n); assert(n.states@[i].state.0 == n_off(n) + i); assert(n.states@[i].state == state); }
}

// ---- match transitions in the union
pub open spec fn tr_at(n: Nfa, a: int, k: int, cc: CharClassID, t: StateID) -> bool {
    has_state(n, a) && 0 <= k < st(n, a).transitions@.len() && st(n, a).transitions@[k].char_class == cc && st(n, a).transitions@[k].target_state == t
}
pub open spec fn tr_of(n: Nfa, a: int, cc: CharClassID, t: StateID) -> bool { exists|k: int| #[trigger] tr_at(n, a, k, cc, t) }
/// a transition leaving the start state of one of the first j pattern NFAs
pub open spec fn start_tr_upto(m: MultiPatternNfa, j: int, cc: CharClassID, t: StateID) -> bool {
    exists|jj: int| 0 <= jj < j && jj < mp_len(m) && #[trigger] tr_of(m.nfas@[jj], m.nfas@[jj].start_state.0 as int, cc, t)
}
/// state 0 fires what the pattern start states fire; any other state fires its own transitions inside its pattern NFA
pub open spec fn mp_trans(m: MultiPatternNfa, a: int, cc: CharClassID, t: StateID) -> bool {
    if a == 0 { start_tr_upto(m, mp_len(m), cc, t) } else { exists|j: int| #[trigger] owner(m, a, j) && tr_of(m.nfas@[j], a, cc, t) }
}
pub open spec fn mp_mt_upto(m: MultiPatternNfa, ss: Seq<StateID>, i: int, cc: CharClassID, t: StateID) -> bool {
    exists|ii: int| 0 <= ii < i && ii < ss.len() && #[trigger] mp_trans(m, ss[ii].0 as int, cc, t)
}
pub open spec fn mp_mt_from(m: MultiPatternNfa, ss: Seq<StateID>, cc: CharClassID, t: StateID) -> bool { mp_mt_upto(m, ss, ss.len() as int, cc, t) }

// TRUSTED std contract: sort_by_key permutes (the order it produces is not used by any contract here)
pub assume_specification<T, K: Ord, F: FnMut(&T) -> K>[ <[T]>::sort_by_key ](s: &mut [T], f: F)
    ensures
        final(s)@.len() == old(s)@.len(),
        final(s)@.to_multiset() == old(s)@.to_multiset(),
        forall|x: T| #![trigger final(s)@.contains(x)] #![trigger old(s)@.contains(x)] final(s)@.contains(x) <==> old(s)@.contains(x);
